import hashlib
import itertools

import numpy as np

from renormalizer.mps import svd_qn as sq
from renormalizer.mps.lib import select_basis
from renormalizer.utils.configs import CompressConfig, CompressCriteria


def dig(x):
    if x is None:
        return "None"
    if isinstance(x, (list, tuple)) and not isinstance(x, np.ndarray):
        try:
            x = np.array(x)
        except Exception:
            return repr(x)
    if isinstance(x, np.ndarray):
        if x.dtype.kind in "fc":
            y = np.round(x, 9) + 0.0
        else:
            y = x
        h = hashlib.sha1(np.ascontiguousarray(y).tobytes()).hexdigest()[:12]
        return f"{x.shape}|{x.dtype}|{h}"
    return repr(x)


def show(tag, res):
    if isinstance(res, tuple):
        print(tag, " ; ".join(dig(r) for r in res))
    else:
        print(tag, dig(res))


def attempt(tag, f):
    try:
        show(tag, f())
    except Exception as e:  # digest the exception type and message
        print(tag, "EXC", type(e).__name__, str(e)[:80])


rng = np.random.RandomState(2024)


def rand(shape, cplx):
    a = rng.rand(*shape) - 0.5
    if cplx:
        a = a + 1j * (rng.rand(*shape) - 0.5)
    return a


# ---------------- svd_qn ----------------
def make_case(dl, pl, pr, dr, nqn, twosite, cplx, maxq=2):
    ql = rng.randint(0, maxq + 1, size=(dl, nqn))
    qr = rng.randint(0, maxq + 1, size=(dr, nqn))
    sl = np.array([[i] * nqn for i in range(pl)])
    sr = np.array([[i] * nqn for i in range(pr)])
    qnbigl = sq.add_outer(ql, sl)
    if twosite:
        qnbigr = sq.add_outer(sr, qr)
        c = rand((dl, pl, pr, dr), cplx)
    else:
        qnbigr = qr
        c = rand((dl, pl, dr), cplx)
    return c, qnbigl, qnbigr


case_id = 0
for (dl, pl, pr, dr), nqn, twosite, cplx in itertools.product(
    [(3, 2, 2, 4), (1, 2, 3, 1), (2, 2, 2, 30), (17, 2, 2, 1)],
    [1, 2],
    [True, False],
    [False, True],
):
    c, qbl, qbr = make_case(dl, pl, pr, dr, nqn, twosite, cplx)
    for tot in ([1] * nqn, [2] * nqn, [0] * nqn, [7] * nqn):
        qntot = np.array(tot)
        # mask the coefficient like a real qn-conserving tensor for half of the cases
        for fm, ofm in [(True, True), (True, False), (False, True)]:
            case_id += 1
            tag = f"svd{case_id} {dl,pl,pr,dr} nq{nqn} 2s{int(twosite)} c{int(cplx)} tot{tot} fm{int(fm)}{int(ofm)}"
            np.random.seed(case_id)
            attempt(tag, lambda: sq.svd_qn(c, qbl, qbr, qntot, full_matrices=fm, opt_full_matrices=ofm))
        for system in ["L", "R", None, "X"]:
            for fm in [True, False]:
                case_id += 1
                tag = f"qr{case_id} {dl,pl,pr,dr} nq{nqn} 2s{int(twosite)} c{int(cplx)} tot{tot} {system} fm{int(fm)}"
                np.random.seed(case_id)
                attempt(tag, lambda: sq.svd_qn(c, qbl, qbr, qntot, QR=True, system=system, full_matrices=fm))

# degenerate singular values + not full matrices (sorting with ties)
c = np.zeros((2, 2, 2, 2))
c[0, 0, 1, 0] = c[0, 1, 0, 0] = c[1, 0, 0, 1] = 0.5
c[1, 1, 1, 1] = 0.5
ql = np.array([[0], [1]])
sg = np.array([[0], [1]])
qbl = sq.add_outer(ql, sg)
qbr = sq.add_outer(sg, ql)
for tot in [1, 2, 3]:
    for fm in [True, False]:
        attempt(f"svd-degenerate tot{tot} fm{int(fm)}", lambda: sq.svd_qn(c, qbl, qbr, np.array([tot]), full_matrices=fm))
attempt("svd-qntot-2d", lambda: sq.svd_qn(c, qbl, qbr, np.array([[1]])))

# ---------------- eigh_qn ----------------
for k, (dl, pl, dr, nqn, cplx) in enumerate(itertools.product([1, 3, 5], [2, 3], [1, 4], [1, 2], [False, True])):
    ql = rng.randint(0, 3, size=(dl, nqn))
    qr = rng.randint(0, 3, size=(dr, nqn))
    sl = np.array([[i] * nqn for i in range(pl)])
    for system in ["L", "R", "X", None]:
        if system == "R":
            qnbigl, qnbigr = ql, sq.add_outer(sl, qr)
            n = pl * dr
        else:
            qnbigl, qnbigr = sq.add_outer(ql, sl), qr
            n = dl * pl
        a = rand((n, n), cplx)
        dm = a @ a.conj().T
        # make it rank deficient sometimes -> tiny negative eigenvalues
        if k % 2:
            v = rand((n, 1), cplx)
            dm = v @ v.conj().T
        for tot in ([1] * nqn, [3] * nqn, [9] * nqn):
            dm0 = dm.copy()
            attempt(f"eigh{k} {system} tot{tot}", lambda: sq.eigh_qn(dm, qnbigl, qnbigr, np.array(tot), system))
            assert np.array_equal(dm0, dm)

# ---------------- select_basis ----------------
for k, (n, ncomp, nqn, cplx) in enumerate(itertools.product([1, 4, 9], [0, 3, 9, 12], [1, 2], [False, True])):
    vset = rand((n + 2, n), cplx)
    sset = np.sort(rng.rand(n))[::-1].copy()
    if n > 3:
        sset[1] = sset[2]  # degenerate
    rng.shuffle(sset)
    qnlist = rng.randint(0, 3, size=(n, nqn)).tolist()
    compset = None if ncomp == 0 else rand((5, ncomp), cplx)
    for M in [0, 1, 3, n, n + 5]:
        for pct in [0, 0.5, 1.0]:
            v0, s0 = vset.copy(), sset.copy()
            c0 = None if compset is None else compset.copy()
            attempt(f"sel{k} n{n} comp{ncomp} nq{nqn} c{int(cplx)} M{M} p{pct}",
                    lambda: select_basis(vset, sset, qnlist, compset, M, percent=pct))
            assert np.array_equal(v0, vset) and np.array_equal(s0, sset)
            assert compset is None or np.array_equal(c0, compset)
attempt("sel-short-sset", lambda: select_basis(np.eye(3), np.array([0.5, 0.2]), [[0], [1], [0]], None, 2))
attempt("sel-qn-array", lambda: select_basis(np.eye(3), np.array([0.5, 0.2, 0.7]), np.array([[0], [1], [0]]), np.eye(3) * 2, 2, 0.5))
attempt("sel-empty", lambda: select_basis(np.zeros((3, 0)), np.array([]), [], None, 2))

# ---------------- CompressConfig._threshold_m_trunc / compute_m_trunc ----------------
sigmas = [
    np.array([1.0]),
    np.array([0.5, 0.5, 0.5, 0.5]),
    np.sort(rng.rand(12))[::-1],
    rng.rand(7),
    np.array([1.0, 1e-3, 1e-3, 1e-8, 0.0]),
    np.array([0.0, 0.0]),
    np.array([]),
    [0.9, 0.1, 0.01],
    rng.rand(3, 3),
    np.array([3, 2, 1]),
    np.array([1.0, np.nan]),
    np.array([1.0, np.inf]),
]
for i, s in enumerate(sigmas):
    for thr in [1e-3, 0.1, 0.5, 0.99]:
        for crit in [CompressCriteria.threshold, CompressCriteria.fixed, CompressCriteria.both, "both"]:
            cfg = CompressConfig(crit, threshold=thr, max_bonddim=4)
            cfg.set_bonddim(6)
            cfg.max_dims[2] = 2
            attempt(f"thr{i} {thr} {crit} direct", lambda: cfg._threshold_m_trunc(s))
            for idx, left in [(0, True), (1, True), (2, False), (4, False)]:
                def f():
                    r = cfg.compute_m_trunc(s, idx, left)
                    return (type(r).__name__, int(r))
                attempt(f"thr{i} {thr} {crit} {idx} {left}", f)
cfg = CompressConfig(threshold=0.5)
cfg._threshold = 1.5
attempt("thr-bad", lambda: cfg._threshold_m_trunc(np.array([1.0, 0.2])))

# ---------------- end to end: compress an Mps / variational route ----------------
from renormalizer.mps import Mps, Mpo
from renormalizer.model import Model, HolsteinModel, Mol, Phonon
from renormalizer.utils import Quantity

ph = [Phonon.simple_phonon(Quantity(0.01), Quantity(1.0), 3)]
mol_list = [Mol(Quantity(0), ph) for _ in range(4)]
model = HolsteinModel(mol_list, Quantity(0.02))
mpo = Mpo(model)
for nex in [1, 2]:
    np.random.seed(100 + nex)
    mps = Mps.random(model, nex, 12, percent=1.0)
    mps.canonicalise().normalize("mps_only")
    for crit, kw in [("fixed", dict(max_bonddim=3)), ("threshold", dict(threshold=0.05)), ("both", dict(threshold=0.02, max_bonddim=4))]:
        m = mps.copy()
        m.compress_config = CompressConfig(crit, **kw)
        np.random.seed(7)
        m2 = m.copy().canonicalise().compress()
        print("e2e", nex, crit, m2.bond_dims, round(float(m2.norm), 9), round(abs(complex(m2.conj().dot(mps))), 9))
        m.compress_config = CompressConfig(crit, vmethod="2site", **kw)
        np.random.seed(8)
        hm = mpo.contract(m)
        print("e2e-contract", nex, crit, hm.bond_dims, round(float(hm.norm), 9))
    m = mps.copy()
    m.compress_config = CompressConfig("fixed", max_bonddim=4, vmethod="1site")
    np.random.seed(9)
    try:
        m3 = m.variational_compress(None, None) if False else mpo.contract(m, "variational")
        print("e2e-var", nex, m3.bond_dims, round(float(m3.norm), 7))
    except Exception as e:
        print("e2e-var EXC", type(e).__name__, str(e)[:80])
