"""Equivalence check for the C06rb refactoring.

Exercises
  * renormalizer.mps.svd_qn.add_outer
  * renormalizer.mps.svd_qn.svd_qn
  * renormalizer.mps.mp.MatrixProduct.move_qnidx
  * renormalizer.mps.mp.MatrixProduct._get_big_qn
directly and through the public chain operations that use them, and prints a
deterministic digest.
"""
import hashlib
import logging
import warnings

import numpy as np

warnings.filterwarnings("ignore")
logging.disable(logging.CRITICAL)

from renormalizer.mps import svd_qn as svd_qn_mod
from renormalizer.mps.svd_qn import add_outer, svd_qn, get_qn_mask
from renormalizer.model import Model, Op
from renormalizer.model.basis import BasisHalfSpin, BasisSimpleElectron, BasisSHO
from renormalizer.mps import Mps, Mpo, optimize_mps
from renormalizer.utils import EvolveConfig, EvolveMethod, CompressConfig, CompressCriteria


def dig(x):
    """deterministic digest of (nested) numerical objects"""
    if x is None:
        return "None"
    if isinstance(x, (list, tuple)) and (len(x) == 0 or not isinstance(x[0], np.ndarray)):
        try:
            arr = np.array(x)
            if arr.dtype != object:
                return "L" + dig(arr)
        except Exception:
            pass
        return "[" + ",".join(dig(i) for i in x) + "]"
    if isinstance(x, (list, tuple)):
        return "[" + ",".join(dig(i) for i in x) + "]"
    a = np.asarray(x)
    flags = "C" if a.flags["C_CONTIGUOUS"] else ("F" if a.flags["F_CONTIGUOUS"] else "N")
    if a.dtype.kind in "iub":
        h = hashlib.md5(np.ascontiguousarray(a).tobytes()).hexdigest()[:10]
        return f"<{a.shape}{a.dtype}{flags} {h}>"
    w = np.cos(np.arange(a.size) * 0.7 + 0.3).reshape(a.shape)
    s1 = np.sum(np.abs(a))
    s2 = np.sum(a * w)
    h = hashlib.md5(np.ascontiguousarray(np.round(a, 7) + 0.0).tobytes()).hexdigest()[:10]
    # "+ 0.0" normalises a negative zero (there is 1e-17 level run-to-run noise in some BLAS paths)
    s1, s2r, s2i = (round(float(v), 8) + 0.0 for v in (s1, np.real(s2), np.imag(s2)))
    return f"<{a.shape}{a.dtype}{flags} {s1:.8f} {s2r:.8f} {s2i:.8f} {h}>"


def show(tag, *vals):
    print(tag, *[v if isinstance(v, str) else dig(v) for v in vals])


def attempt(tag, f):
    try:
        res = f()
    except BaseException as e:  # noqa
        print(tag, "EXC", type(e).__name__, str(e)[:80])
        return None
    return res


# ----------------------------------------------------------------------------
# 1. add_outer
# ----------------------------------------------------------------------------
def test_add_outer():
    rng = np.random.RandomState(11)
    cases = []
    for qn_size in (1, 2, 3):
        cases.append((rng.randint(-3, 4, (4, qn_size)), rng.randint(-3, 4, (2, qn_size))))
        cases.append((rng.randint(-3, 4, (3, 2, qn_size)), rng.randint(-3, 4, (5, qn_size))))
        cases.append((rng.randint(-3, 4, (2, qn_size)), rng.randint(-3, 4, (2, 2, qn_size))))
        cases.append((rng.randint(-3, 4, (3, 2, qn_size)), rng.randint(-3, 4, (2, 4, qn_size))))
        cases.append((rng.randint(-3, 4, (1, qn_size)), rng.randint(-3, 4, (1, qn_size))))
        cases.append((rng.randint(-3, 4, (qn_size,)), rng.randint(-3, 4, (qn_size,))))
        cases.append((rng.randint(-3, 4, (0, qn_size)), rng.randint(-3, 4, (3, qn_size))))
        cases.append((rng.randint(-3, 4, (qn_size,)), rng.randint(-3, 4, (3, qn_size))))
    # floats, complex, mixed dtypes, non contiguous inputs
    cases.append((rng.rand(3, 2), rng.rand(4, 2)))
    cases.append((rng.rand(3, 2) + 1j * rng.rand(3, 2), rng.randint(0, 3, (4, 2))))
    cases.append((rng.randint(0, 5, (4, 6))[::2, ::3], rng.randint(0, 5, (2, 5)).T[1:3].T))
    cases.append((np.zeros((2, 0), dtype=int), np.zeros((3, 0), dtype=int)))
    cases.append((np.zeros((0,), dtype=int), np.zeros((0,), dtype=int)))
    cases.append((np.array([[True], [False]]), np.array([[True], [True]])))
    for i, (a, b) in enumerate(cases):
        res = attempt(f"add_outer[{i}]", lambda: add_outer(a, b))
        if res is not None:
            show(f"add_outer[{i}]", res, str(res.strides), str(res.flags["OWNDATA"]), str(res.tolist())[:150])
    # error cases
    attempt("add_outer[err1]", lambda: add_outer(np.zeros((2, 1), int), np.zeros((2, 2), int)))
    attempt("add_outer[err2]", lambda: add_outer([[1], [2]], np.zeros((2, 1), int)))
    attempt("add_outer[err3]", lambda: add_outer(np.array(1), np.array(2)))


# ----------------------------------------------------------------------------
# 2. svd_qn
# ----------------------------------------------------------------------------
def make_svd_input(rng, lshape, rshape, qn_size, qntot, dtype, masked=True):
    qnbigl = rng.randint(0, 3, tuple(lshape) + (qn_size,))
    qnbigr = rng.randint(0, 3, tuple(rshape) + (qn_size,))
    coef = rng.rand(*lshape, *rshape) - 0.5
    if dtype == complex:
        coef = coef + 1j * (rng.rand(*lshape, *rshape) - 0.5)
    if masked:
        mask = get_qn_mask(add_outer(qnbigl, qnbigr), qntot)
        coef[~mask] = 0
    return coef, qnbigl, qnbigr


def test_svd_qn():
    rng = np.random.RandomState(5)
    shapes = [
        ((3, 2), (4,)),
        ((4,), (2, 3)),
        ((3, 2), (2, 3)),
        ((1,), (2, 2)),
        ((2, 2), (1,)),
        ((12, 3), (2,)),   # strongly unbalanced -> opt_full_matrices path
        ((2,), (2, 20)),
        ((1,), (1,)),
    ]
    icase = 0
    for qn_size, qntot in ((1, np.array([2])), (2, np.array([2, 1])), (1, np.array([0])), (1, np.array([4]))):
        for lshape, rshape in shapes:
            for dtype in (float, complex):
                for masked in (True, False):
                    coef, qnbigl, qnbigr = make_svd_input(rng, lshape, rshape, qn_size, qntot, dtype, masked)
                    coef0 = coef.copy()
                    for kwargs in (
                        dict(),
                        dict(full_matrices=False),
                        dict(full_matrices=True, opt_full_matrices=False),
                        dict(QR=True, system="L"),
                        dict(QR=True, system="R"),
                        dict(QR=True, system="L", full_matrices=False),
                        dict(QR=True, system="R", full_matrices=False),
                        dict(QR=True),
                        dict(QR=True, system="X"),
                        dict(system="R", full_matrices=False),
                    ):
                        tag = f"svd_qn[{icase}] qs={qn_size} tot={qntot.tolist()} {lshape}x{rshape} {dtype.__name__} m={masked} {sorted(kwargs.items())}"
                        np.random.seed(1234)  # add_orthonormal_basis uses the global RNG
                        res = attempt(tag, lambda: svd_qn(coef, qnbigl, qnbigr, qntot, **kwargs))
                        if res is not None:
                            show(tag, *res)
                        # global RNG consumption must be the same
                        show("   rng", np.random.rand(2))
                        assert np.array_equal(coef, coef0)
                    icase += 1
    # non contiguous / Fortran ordered coefficient arrays, list qntot is rejected by the assert
    coef, qnbigl, qnbigr = make_svd_input(rng, (3, 2), (2, 3), 1, np.array([2]), complex)
    coef_f = np.asfortranarray(coef)
    show("svd_qn[F]", *svd_qn(coef_f, qnbigl, qnbigr, np.array([2])))
    show("svd_qn[F,QR]", *svd_qn(coef_f, qnbigl, qnbigr, np.array([2]), QR=True, system="R"))
    big = np.zeros((6, 2, 2, 6), dtype=complex)
    big[::2, :, :, ::2] = coef
    show("svd_qn[strided]", *svd_qn(big[::2, :, :, ::2], qnbigl, qnbigr, np.array([2]), full_matrices=False))
    flat = coef.reshape(6, 6)
    show("svd_qn[2d]", *svd_qn(flat, qnbigl, qnbigr, np.array([2]), full_matrices=False))
    attempt("svd_qn[listqn]", lambda: svd_qn(coef, qnbigl, qnbigr, [2]))
    attempt("svd_qn[2dqn]", lambda: svd_qn(coef, qnbigl, qnbigr, np.array([[2]])))
    attempt("svd_qn[invalid]", lambda: svd_qn(coef, qnbigl, qnbigr, np.array([40])))
    attempt("svd_qn[invalidQR]", lambda: svd_qn(coef, qnbigl, qnbigr, np.array([40]), QR=True))
    attempt("svd_qn[badshape]", lambda: svd_qn(coef[:2], qnbigl, qnbigr, np.array([2])))
    # negative quantum numbers
    show("svd_qn[neg]", *svd_qn(coef, -qnbigl, -qnbigr, np.array([-2]), full_matrices=False))


# ----------------------------------------------------------------------------
# models
# ----------------------------------------------------------------------------
def hubbard_model(nsites=3, t=-1.0, U=4.0):
    up = {"+": [-1, 0], "-": [1, 0], "Z": [0, 0]}
    do = {"+": [0, -1], "-": [0, 1], "Z": [0, 0]}
    ham_terms = []
    for i in range(2 * (nsites - 1)):
        if i % 2 == 0:
            qn1 = [up["Z"], up["+"], do["Z"], up["-"]]
            qn2 = [up["Z"], up["-"], do["Z"], up["+"]]
        else:
            qn1 = [do["Z"], do["+"], up["Z"], do["-"]]
            qn2 = [do["Z"], do["-"], up["Z"], do["+"]]
        ham_terms.append(Op("Z + Z -", [i, i, i + 1, i + 2], factor=t, qn=qn1))
        ham_terms.append(Op("Z - Z +", [i, i, i + 1, i + 2], factor=-t, qn=qn2))
    for i in range(0, 2 * nsites, 2):
        qn = [up["-"], up["+"], do["-"], do["+"]]
        ham_terms.append(Op("- + - +", [i, i, i + 1, i + 1], factor=U, qn=qn))
    basis = []
    for i in range(2 * nsites):
        sigmaqn = np.array([[0, 0], [1, 0]]) if i % 2 == 0 else np.array([[0, 0], [0, 1]])
        basis.append(BasisHalfSpin(i, sigmaqn=sigmaqn))
    return Model(basis, ham_terms)


def holstein_like_model(nmol=4, nbas=3):
    basis = []
    ham = []
    for i in range(nmol):
        basis.append(BasisSimpleElectron(f"e{i}"))
        basis.append(BasisSHO(f"v{i}", omega=0.5 + 0.1 * i, nbas=nbas))
        ham.append(Op(r"a^\dagger a", f"e{i}", 0.3 * i))
        ham.append(Op(r"b^\dagger b", f"v{i}", 0.5 + 0.1 * i))
        ham.append(Op(r"a^\dagger a", f"e{i}") * Op(r"b^\dagger+b", f"v{i}") * 0.2)
    for i in range(nmol - 1):
        ham.append(Op(r"a^\dagger a", [f"e{i}", f"e{i+1}"], 0.4))
        ham.append(Op(r"a^\dagger a", [f"e{i+1}", f"e{i}"], 0.4))
    return Model(basis, ham)


def mp_digest(tag, mp):
    show(tag, f"qnidx={mp.qnidx} to_right={mp.to_right} qntot={np.asarray(mp.qntot).tolist()} dims={list(mp.bond_dims)}")
    show(tag + ".qn", [np.asarray(q) for q in mp.qn])
    show(tag + ".qntypes", str([type(q).__name__ for q in mp.qn]))
    show(tag + ".mt", [np.asarray(m.array) for m in mp])


def sector_violation(mps):
    """largest |amplitude| outside the sector, using the stored bond labels"""
    worst = 0.0
    mps = mps.copy()
    for idx in range(mps.site_num):
        m = mps.copy()
        m.move_qnidx(idx)
        saved = m.to_right
        for to_right in (True, False):
            m.to_right = to_right
            _, _, qnmat = m._get_big_qn([idx])
            mask = get_qn_mask(qnmat, m.qntot)
            arr = np.asarray(m[idx].array)
            if (~mask).any():
                worst = max(worst, float(np.abs(arr[~mask]).max()))
        m.to_right = saved
    return worst


# ----------------------------------------------------------------------------
# 3. move_qnidx / _get_big_qn
# ----------------------------------------------------------------------------
def test_qn_bookkeeping(model, sectors, tag):
    for qntot in sectors:
        np.random.seed(7)
        mps = attempt(f"{tag} random {qntot}", lambda: Mps.random(model, qntot, 6, percent=1.0))
        if mps is None:
            continue
        mp_digest(f"{tag}{qntot}.rand", mps)
        nsite = mps.site_num
        # move_qnidx: aliasing of qn entries and values
        m = mps.copy()
        ids_before = [id(q) for q in m.qn]
        for dst in [0, nsite - 1, nsite // 2, nsite // 2, 1, nsite - 2, 0, 0, nsite - 1]:
            m.move_qnidx(dst)
            show(f"{tag}{qntot}.move->{dst}", f"qnidx={m.qnidx}", [np.asarray(q) for q in m.qn],
                 str([type(q).__name__ for q in m.qn]))
        show(f"{tag}{qntot}.move.ids", str([a == id(q) for a, q in zip(ids_before, m.qn)]))
        # qn given as python lists (as after loading from file)
        m = mps.copy()
        m.qn = [np.asarray(q).tolist() for q in m.qn]
        m.move_qnidx(1)
        show(f"{tag}{qntot}.move(list)", [np.asarray(q) for q in m.qn], str([type(q).__name__ for q in m.qn]))
        r = attempt(f"{tag}{qntot}.move(oob)", lambda: mps.copy().move_qnidx(-1))
        m = mps.copy(); m.move_qnidx(nsite + 3)
        show(f"{tag}{qntot}.move(big)", f"qnidx={m.qnidx}", [np.asarray(q) for q in m.qn])

        # _get_big_qn
        for center in range(nsite):
            m = mps.copy()
            m.move_qnidx(center)
            for to_right in (True, False, None):
                m.to_right = to_right
                res = attempt(f"{tag}{qntot}.big1[{center},{to_right}]", lambda: m._get_big_qn([center]))
                if res is not None:
                    show(f"{tag}{qntot}.big1[{center},{to_right}]", *res)
                res = attempt(f"{tag}{qntot}.big1t[{center},{to_right}]", lambda: m._get_big_qn((center,)))
                if res is not None:
                    show(f"{tag}{qntot}.big1t[{center},{to_right}]", *res)
                for cidx in ([center, center + 1], [center + 1, center], [center - 1, center], (center, center - 1)):
                    for swap in (False, True):
                        t = f"{tag}{qntot}.big2[{center},{to_right},{list(cidx)},{swap}]"
                        cidx_in = list(cidx) if isinstance(cidx, list) else cidx
                        res = attempt(t, lambda: m._get_big_qn(cidx_in, swap=swap))
                        if res is not None:
                            show(t, *res)
                        # argument must not be mutated
                        show(t + ".arg", str(cidx_in))
            # error paths
            m.to_right = True
            attempt(f"{tag}{qntot}.bigE0[{center}]", lambda: m._get_big_qn([]))
            attempt(f"{tag}{qntot}.bigE3[{center}]", lambda: m._get_big_qn([center, center + 1, center + 2]))
            attempt(f"{tag}{qntot}.bigEna[{center}]", lambda: m._get_big_qn([center, center + 2]))
            attempt(f"{tag}{qntot}.bigEnc[{center}]", lambda: m._get_big_qn([center + 1]))
            attempt(f"{tag}{qntot}.bigEsw[{center}]", lambda: m._get_big_qn([center], swap=True))
            attempt(f"{tag}{qntot}.bigEdup[{center}]", lambda: m._get_big_qn([center, center]))


# ----------------------------------------------------------------------------
# 4. chain operations built on top
# ----------------------------------------------------------------------------
def test_chain_ops(model, sectors, tag, two_site=True):
    mpo = Mpo(model)
    mp_digest(f"{tag}.mpo", mpo)
    # Mpo bookkeeping too
    o = mpo.copy()
    for dst in (0, 2, o.site_num - 1):
        o.move_qnidx(dst)
        show(f"{tag}.mpo.move->{dst}", [np.asarray(q) for q in o.qn])
        for to_right in (True, False):
            o.to_right = to_right
            show(f"{tag}.mpo.big[{dst},{to_right}]", *o._get_big_qn([dst]))
    o = mpo.copy()
    o.ensure_left_canonical()
    mp_digest(f"{tag}.mpo.lcanon", o)
    o.ensure_right_canonical()
    mp_digest(f"{tag}.mpo.rcanon", o)

    for qntot in sectors:
        np.random.seed(3)
        a = attempt(f"{tag} random {qntot}", lambda: Mps.random(model, qntot, 5, percent=1.0))
        if a is None:
            continue
        np.random.seed(4)
        b = Mps.random(model, qntot, 4, percent=0.5)
        t = f"{tag}{qntot}"
        # canonicalise in both directions
        c = a.copy()
        c.ensure_left_canonical()
        mp_digest(t + ".lcanon", c)
        c.ensure_right_canonical()
        mp_digest(t + ".rcanon", c)
        c = a.copy().canonicalise(stop_idx=2)
        mp_digest(t + ".canon_stop", c)
        # complex, scale, add, compress
        ac = a.to_complex() * (0.3 - 0.7j)
        s = ac.add(b)
        mp_digest(t + ".add", s)
        bb = b.copy()
        bb.move_qnidx(0)
        bb.to_right = True
        s2 = a.add(bb)
        mp_digest(t + ".add_r", s2)
        s2.canonicalise()
        mp_digest(t + ".add_r.canon", s2)
        s.canonicalise()
        s.compress_config = CompressConfig(CompressCriteria.fixed, max_bonddim=4)
        s.compress()
        mp_digest(t + ".compress", s)
        show(t + ".viol", f"{sector_violation(s):.3e}")
        s3 = ac.add(b).canonicalise()
        s3.compress_config = CompressConfig(CompressCriteria.threshold, threshold=1e-3)
        s3, sl = s3.compress(ret_s=True)
        mp_digest(t + ".compress_thr", s3)
        show(t + ".compress_thr.s", sl)
        # apply the Hamiltonian
        ha = mpo @ a
        mp_digest(t + ".apply", ha)
        ha2 = mpo.apply(a, canonicalise=True)
        mp_digest(t + ".apply_c", ha2)
        show(t + ".expect", np.array(a.expectation(mpo)))
        # ground state
        for method in (["1site", "2site"] if two_site else ["1site"]):
            g = a.copy()
            g.optimize_config.procedure = [[5, 0.4], [5, 0.2], [5, 0]]
            g.optimize_config.method = method
            np.random.seed(9)
            res = attempt(t + f".gs.{method}", lambda: optimize_mps(g, mpo))
            if res is not None:
                energies, g = res
                show(t + f".gs.{method}.e", np.array(energies))
                mp_digest(t + f".gs.{method}", g)
                show(t + f".gs.{method}.viol", f"{sector_violation(g):.3e}")
        # time evolution
        for method in (EvolveMethod.prop_and_compress, EvolveMethod.tdvp_ps, EvolveMethod.tdvp_ps2,
                       EvolveMethod.tdvp_vmf, EvolveMethod.tdvp_mu_vmf):
            e = a.copy().to_complex()
            e.evolve_config = EvolveConfig(method)
            e.compress_config = CompressConfig(CompressCriteria.fixed, max_bonddim=5)
            if method in (EvolveMethod.tdvp_vmf, EvolveMethod.tdvp_mu_vmf):
                e.evolve_config.ivp_rtol = 1e-4
                e.evolve_config.ivp_atol = 1e-7
                e.evolve_config.reg_epsilon = 1e-6

            def run():
                x = e
                for _ in range(2):
                    x = x.evolve(mpo, 0.05)
                return x
            res = attempt(t + f".evolve.{method.name}", run)
            if res is not None:
                mp_digest(t + f".evolve.{method.name}", res)
                show(t + f".evolve.{method.name}.viol", f"{sector_violation(res):.3e}")


# ----------------------------------------------------------------------------
# 5. product states (incl. the completely filled sector) and qn-changing operators
# ----------------------------------------------------------------------------
def test_product_states(tag):
    hub = hubbard_model(3)
    mpo = Mpo(hub)
    conds = {
        "full": {i: 1 for i in range(6)},
        "empty": {},
        "mixed": {0: 1, 3: 1, 4: 1},
        "vec": {1: [0.0, 1.0], 2: [1.0, 0.0]},
    }
    for name, cond in conds.items():
        for qn_idx in (None, 0, 3):
            t = f"{tag}.{name}.{qn_idx}"
            p = attempt(t, lambda: Mps.hartree_product_state(hub, dict(cond), qn_idx=qn_idx))
            if p is None:
                continue
            mp_digest(t, p)
            show(t + ".viol", f"{sector_violation(p):.3e}")
            q = p.copy()
            q.ensure_right_canonical()
            mp_digest(t + ".rcanon", q)
            q.ensure_left_canonical()
            mp_digest(t + ".lcanon", q)
            d = (p.to_complex() * 1j).add(p)
            mp_digest(t + ".add", d)
            attempt(t + ".add.canon_raw", lambda: d.copy().canonicalise())
            d = d.ensure_right_canonical()
            d.compress()
            mp_digest(t + ".add.compress", d)
            e = p.copy().to_complex()
            e.ensure_left_canonical()
            e.evolve_config = EvolveConfig(EvolveMethod.tdvp_ps)
            r = attempt(t + ".evolve", lambda: e.evolve(mpo, 0.1).evolve(mpo, 0.1))
            if r is not None:
                mp_digest(t + ".evolve", r)
                show(t + ".evolve.viol", f"{sector_violation(r):.3e}")
            e = p.copy().to_complex()
            e.evolve_config = EvolveConfig(EvolveMethod.prop_and_compress)
            r = attempt(t + ".evolve_pc", lambda: e.evolve(mpo, 0.1).evolve(mpo, 0.1))
            if r is not None:
                mp_digest(t + ".evolve_pc", r)
            # operators shifting the sector
            for opname, site, qn in (("+", 0, [-1, 0]), ("-", 0, [1, 0]), ("+", 5, [0, -1]), ("-", 3, [0, 1])):
                def run():
                    shift = Mpo(hub, Op(opname, site, qn=[qn]))
                    mp_digest(t + f".shift[{opname}{site}]", shift)
                    return shift @ p
                r = attempt(t + f".shifted[{opname}{site}]", run)
                if r is not None:
                    mp_digest(t + f".shifted[{opname}{site}]", r)
                    show(t + f".shifted[{opname}{site}].norm", np.array(r.mp_norm))
                    show(t + f".shifted[{opname}{site}].viol", f"{sector_violation(r):.3e}")


if __name__ == "__main__":
    test_add_outer()
    test_svd_qn()
    hub = hubbard_model(3)
    hol = holstein_like_model(3, 3)
    test_qn_bookkeeping(hub, ([1, 1], [2, 1], [3, 3], [0, 0], [0, 2]), "hub")
    test_qn_bookkeeping(hol, (0, 1, 2, 3), "hol")
    test_chain_ops(hub, ([1, 1], [2, 1], [3, 3]), "hub")
    test_chain_ops(hol, (1, 2), "hol")
    test_product_states("prod")
    print("done")
