# Equivalence check for the C06rd refactoring:
#   svd_qn.get_qn_mask, MatrixProduct._update_ms, MatrixProduct._update_mps, gs.single_sweep
import hashlib
import logging
import os
import sys

# MPO construction iterates over str-keyed sets: fix the hash seed so that the digest is reproducible
if os.environ.get("PYTHONHASHSEED") != "0":
    os.environ["PYTHONHASHSEED"] = "0"
    os.execv(sys.executable, [sys.executable] + sys.argv)

import numpy as np

logging.disable(logging.CRITICAL)

from renormalizer.model import Model, h_qc
from renormalizer.mps import Mpo, Mps, MpDm, gs
from renormalizer.mps import svd_qn
from renormalizer.mps.svd_qn import get_qn_mask
from renormalizer.mps.tests import cur_dir
from renormalizer.tests.parameter import holstein_model
from renormalizer.utils import CompressConfig, CompressCriteria, EvolveConfig, EvolveMethod
from renormalizer.utils.configs import OFS


def dg(x):
    if x is None:
        return "None"
    if hasattr(x, "array"):
        x = x.array
    arr = np.asarray(x)
    if arr.dtype == object:
        return "obj:" + repr(x)
    r = np.round(arr, 7) + 0.0
    h = hashlib.sha1(np.ascontiguousarray(r).tobytes()).hexdigest()[:12]
    return f"{arr.shape}|{arr.dtype}|{h}|{float(np.linalg.norm(arr.ravel())):.8f}"


def dg_mp(mp):
    out = [f"cls={type(mp).__name__} qnidx={mp.qnidx} to_right={mp.to_right} qntot={np.array(mp.qntot).tolist()} "
           f"dtype={mp.dtype} bond={mp.bond_dims}"]
    for i, mt in enumerate(mp):
        out.append(f"  site{i}: {dg(mt)}")
    for i, q in enumerate(mp.qn):
        out.append(f"  qn{i}: {np.array(q).tolist()}")
    return "\n".join(out)


def section(name):
    print("=" * 10, name)


def guarded(label, fn):
    try:
        res = fn()
    except Exception as e:  # noqa
        import traceback
        tb = traceback.extract_tb(e.__traceback__)
        # only the entry point: private helpers below it are an implementation detail
        where = [f.name for f in tb if "renormalizer" in f.filename][0]
        print(label, "EXC", type(e).__name__, str(e)[:200], "@", where)
        if os.environ.get("EQUIV_DEBUG"):
            traceback.print_exc()
        return None
    return res


# ---------------------------------------------------------------- get_qn_mask
section("get_qn_mask")
rng = np.random.RandomState(0)
qm1 = rng.randint(-1, 3, size=(3, 4, 2, 1))
qm2 = rng.randint(0, 3, size=(2, 3, 4, 2))
for label, qm, tot in [
    ("1c-array", qm1, np.array([1])),
    ("1c-list", qm1, [2]),
    ("1c-tuple", qm1, (0,)),
    ("1c-scalar", qm1, 1),
    ("1c-neg", qm1, np.array([-1])),
    ("2c-array", qm2, np.array([1, 2])),
    ("2c-list", qm2, [0, 0]),
    ("2c-tuple", qm2, (2, 1)),
    ("2c-scalar-bcast", qm2, 1),
    ("2c-float", qm2.astype(float), np.array([1.0, 1.0])),
    ("flat", qm2.reshape(-1, 2), np.array([1, 1])),
    ("empty", np.zeros((0, 2), dtype=int), np.array([1, 1])),
    ("single", np.array([[1, 1]]), [1, 1]),
    ("list-input", qm2.tolist(), [1, 1]),
]:
    def _f():
        m = get_qn_mask(qm, tot)
        return f"{type(m).__name__} {m.dtype} {m.shape} {int(m.sum())} {hashlib.sha1(np.ascontiguousarray(m).tobytes()).hexdigest()[:10]}"
    print(label, guarded(label, _f))
for label, qm, tot in [("mismatch", qm2, [1, 2, 3]), ("0d", np.array(3), 3)]:
    print(label, guarded(label, lambda: repr(get_qn_mask(qm, tot))))


# ---------------------------------------------------------------- models
model_h = holstein_model
model_g = Model(holstein_model.basis, holstein_model.ham_terms)

spatial_norbs = 6
h1e, h2e, nuc = h_qc.read_fcidump(os.path.join(cur_dir, "H6.txt"), spatial_norbs)
qc_basis, qc_terms = h_qc.qc_model(h1e, h2e)
model_qc = Model(qc_basis, qc_terms)


def rand_mps(model, qntot, m, seed, cplx=False):
    qarr = np.atleast_1d(qntot)
    if model is model_qc and (qarr.max() == 6):
        # (nearly) full sectors: Mps.random cannot build them, use a product state
        occ = {}
        if qarr[0] == 6:
            occ.update({i: 1 for i in range(0, 12, 2)})
        else:
            occ.update({i: 1 for i in range(0, 2 * qarr[0], 2)})
        if qarr[1] == 6:
            occ.update({i: 1 for i in range(1, 12, 2)})
        else:
            occ.update({i: 1 for i in range(1, 2 * qarr[1], 2)})
        mps = Mps.hartree_product_state(model, occ)
        assert np.all(mps.qntot == qarr)
    else:
        for attempt in range(50):
            np.random.seed(seed + 1000 * attempt)
            try:
                mps = Mps.random(model, qntot, m, percent=1.0)
                break
            except FloatingPointError:
                continue
    if cplx:
        mps = mps.to_complex()
        np.random.seed(seed + 1)
        for i in range(len(mps)):
            arr = mps[i].array
            mask = arr != 0
            ph = np.exp(1j * np.random.rand(*arr.shape))
            mps[i] = arr * ph * mask
    return mps


# ---------------------------------------------------------------- _update_ms
section("_update_ms via canonicalise/compress")
for label, model, qntot, cplx in [
    ("holstein-q1", model_h, 1, False),
    ("holstein-q1-c", model_h, 1, True),
    ("holstein-q0", model_h, 0, False),
    ("holstein-q3-full", model_h, 3, False),
    ("qc-[3,3]", model_qc, [3, 3], False),
    ("qc-[6,0]-c", model_qc, [6, 0], True),
    ("qc-[2,1]-c", model_qc, [2, 1], True),
]:
    mps = rand_mps(model, qntot, 8, 11, cplx)
    print(label, "random")
    print(dg_mp(mps))
    m1 = mps.copy().ensure_left_canonical()
    print(label, "ensure_left")
    print(dg_mp(m1))
    m2 = m1.copy().ensure_right_canonical()
    print(label, "ensure_right")
    print(dg_mp(m2))
    m3 = m2.copy()
    m3.compress_config = CompressConfig(CompressCriteria.fixed, max_bonddim=4)
    m3 = m3.canonicalise().compress()
    print(label, "compress fixed 4")
    print(dg_mp(m3))
    m4, s = m1.copy().canonicalise().compress(temp_m_trunc=3, ret_s=True)
    print(label, "compress temp 3", dg(s))
    print(dg_mp(m4))
    m5 = m2.copy()
    m5.compress_config = CompressConfig(CompressCriteria.threshold, threshold=1e-2)
    m5 = m5.canonicalise().compress()
    print(label, "compress thresh")
    print(dg_mp(m5))
    m6 = m2.copy().canonicalise(stop_idx=len(m2) // 2)
    print(label, "mixed canonical")
    print(dg_mp(m6))

section("_update_ms Mpo / MpDm")
mpo_h = Mpo(model_h)
print("mpo raw")
print(dg_mp(mpo_h))
for label, mp in [("mpo_h", mpo_h), ("mpo_qc", Mpo(model_qc)),
                  ("mpdm", MpDm.max_entangled_ex(model_h)),
                  ("mpdm_gs", MpDm.max_entangled_gs(model_h))]:
    a = mp.copy()
    a.ensure_left_canonical()
    print(label, "ensure_left")
    print(dg_mp(a))
    b = a.copy()
    b.ensure_right_canonical()
    print(label, "ensure_right")
    print(dg_mp(b))
    c = b.copy().canonicalise().compress(temp_m_trunc=5)
    print(label, "compress 5")
    print(dg_mp(c))
    d = a.copy().canonicalise().compress(temp_m_trunc=4)
    print(label, "compress 4 other direction")
    print(dg_mp(d))

section("_update_ms direct")


def direct_update_ms(label, mp, use_sigma, m_trunc, pass_qn):
    mp = mp.copy()
    idx = mp.qnidx
    qnbigl, qnbigr, _ = mp._get_big_qn([idx])
    system = "L" if mp.to_right else "R"
    if use_sigma:
        u, sigma, qnl, v, sigma, qnr = svd_qn.svd_qn(
            mp[idx].array, qnbigl, qnbigr, mp.qntot, system=system, full_matrices=False)
    else:
        u, qnl, v, qnr = svd_qn.svd_qn(
            mp[idx].array, qnbigl, qnbigr, mp.qntot, QR=True, system=system, full_matrices=False)
        sigma = None
    vt = v.T
    if not pass_qn:
        qnl = qnr = None
    sigma_in = None if sigma is None else sigma.copy()
    ret = mp._update_ms(idx, u, vt, sigma, qnl, qnr, m_trunc)
    print(label, f"sigma={use_sigma} m_trunc={m_trunc} pass_qn={pass_qn} ret={ret}")
    print(" args after: u", dg(u), "vt", dg(vt), "sigma", dg(sigma),
          "sigma unchanged", sigma is None or bool(np.array_equal(sigma, sigma_in)))
    print(" new site owns/base:", mp[idx].array.base is None)
    print(dg_mp(mp))


mps_r = rand_mps(model_h, 1, 8, 5).ensure_right_canonical()   # to_right True, qnidx 0
mps_l = rand_mps(model_h, 1, 8, 6, True).ensure_left_canonical()  # to_right False, qnidx last
mps_q = rand_mps(model_qc, [3, 2], 8, 7, True).ensure_right_canonical()
mpo_r = mpo_h.copy()
mpo_r.ensure_right_canonical()
mpo_l = mpo_h.copy()
mpo_l.ensure_left_canonical()
mpdm_r = MpDm.max_entangled_ex(model_h)
mpdm_r.ensure_right_canonical()
for label, mp in [("mps_r", mps_r), ("mps_l", mps_l), ("mps_q", mps_q), ("mpo_r", mpo_r),
                  ("mpo_l", mpo_l), ("mpdm_r", mpdm_r)]:
    for use_sigma in (True, False):
        for m_trunc in (None, 1, 2):
            for pass_qn in (True, False):
                guarded(label, lambda: direct_update_ms(label, mp, use_sigma, m_trunc, pass_qn))

# zero tensor -> assertion
z = mps_r.copy()
idx = z.qnidx
u0 = np.zeros((z[idx].shape[0] * z[idx].shape[1], 2))
vt0 = np.zeros((2, z[idx].shape[2]))
print("zero", guarded("zero", lambda: z._update_ms(idx, u0, vt0)))
# out-of-range index
z = mps_l.copy()
print("oob", guarded("oob", lambda: z._update_ms(0, np.ones((4, 2)), np.ones((2, 4)))))


# ---------------------------------------------------------------- _update_mps
section("_update_mps direct")


def direct_update_mps(label, mp, nsite, percent, nstate=None, cplx=False, seed=3, ofs=None, jw=False, mmax=6):
    mp = mp.copy()
    if cplx and not (seed == 3 and nsite == 2 and nstate == 1):
        # (one family keeps a real state + complex coefficients to record the failure path)
        mp = mp.to_complex()
    mp.compress_config = CompressConfig(CompressCriteria.fixed, max_bonddim=mmax, ofs=ofs, ofs_swap_jw=jw)
    if nsite == 1:
        cidx = [mp.qnidx]
    elif mp.to_right:
        cidx = [mp.qnidx, mp.qnidx + 1]
    else:
        cidx = [mp.qnidx - 1, mp.qnidx]
    qnbigl, qnbigr, qnmat = mp._get_big_qn(cidx)
    mask = get_qn_mask(qnmat, mp.qntot)
    r = np.random.RandomState(seed)

    def one():
        c = r.rand(*mask.shape) - 0.5
        if cplx:
            c = c + 1j * (r.rand(*mask.shape) - 0.5)
        c[~mask] = 0
        return c
    if nstate is None:
        cstruct = one()
        c_in = cstruct.copy()
    else:
        cstruct = [one() for _ in range(nstate)]
        c_in = [c.copy() for c in cstruct]
    np.random.seed(seed)
    ret = mp._update_mps(cstruct, cidx, qnbigl, qnbigr, percent)
    print(label, f"nsite={nsite} percent={percent} nstate={nstate} cplx={cplx} ofs={ofs} jw={jw} mmax={mmax}")
    if ret is None:
        print(" ret None")
    else:
        print(" ret", type(ret).__name__, len(ret), [dg(x) for x in ret])
    if nstate is None:
        print(" cstruct unchanged", bool(np.array_equal(cstruct, c_in)))
    else:
        print(" cstruct unchanged", all(np.array_equal(a, b) for a, b in zip(cstruct, c_in)), len(cstruct))
    print(" basis order", [b.dof for b in mp.model.basis][:8])
    print(dg_mp(mp))


def mid(mp, k):
    # move the centre k steps into the chain
    mp = mp.copy()
    if mp.to_right:
        mp.canonicalise(stop_idx=k)
    else:
        mp.canonicalise(stop_idx=len(mp) - 1 - k)
    return mp


src = {
    "h_r": rand_mps(model_h, 1, 8, 21).ensure_right_canonical(),
    "h_l": rand_mps(model_h, 1, 8, 22).ensure_left_canonical(),
    "g_r": rand_mps(model_g, 2, 8, 23).ensure_right_canonical(),
    "g_l": rand_mps(model_g, 2, 8, 24).ensure_left_canonical(),
    "qc_r": rand_mps(model_qc, [3, 3], 8, 25).ensure_right_canonical(),
    "qc_l": rand_mps(model_qc, [2, 4], 8, 26).ensure_left_canonical(),
    "qc_full": rand_mps(model_qc, [6, 6], 8, 27).ensure_right_canonical(),
}
for name, mp0 in src.items():
    for k in (0, 2, len(mp0) - 1):
        for nsite in (1, 2):
            if nsite == 2 and k == len(mp0) - 1:
                continue
            mpk = mid(mp0, k) if k else mp0
            for percent in (0, 0.4):
                for nstate in (None, 1, 3):
                    for cplx in (False, True):
                        if cplx and percent:
                            continue
                        lab = f"{name}-k{k}"
                        guarded(lab, lambda: direct_update_mps(lab, mpk, nsite, percent, nstate, cplx))

section("_update_mps OFS")
for name in ("g_r", "g_l", "qc_r", "qc_l", "h_r"):
    mp0 = src[name]
    for k in (0, 2):
        mpk = mid(mp0, k) if k else mp0
        for ofs in (OFS.ofs_s, OFS.ofs_d, OFS.ofs_ds, OFS.ofs_debug):
            for jw in (False, True):
                if jw and not name.startswith("qc"):
                    continue
                for mmax in (3, 50):
                    lab = f"ofs-{name}-k{k}"
                    guarded(lab, lambda: direct_update_mps(lab, mpk, 2, 0.2, None, name.endswith("l"), 9, ofs, jw, mmax))
    # 1-site + OFS is not supported by the code: record whatever happens
    guarded("ofs-1site", lambda: direct_update_mps("ofs-1site-" + name, mp0, 1, 0, None, False, 9, OFS.ofs_s))

section("_update_mps bonddim_should_set / threshold")
mpx = src["h_r"].copy()
mpx.compress_config = CompressConfig(CompressCriteria.threshold, threshold=1e-3)
cidx = [0, 1]
qbl, qbr, qmat = mpx._get_big_qn(cidx)
mk = get_qn_mask(qmat, mpx.qntot)
c = np.random.RandomState(1).rand(*mk.shape)
c[~mk] = 0
np.random.seed(0)
print(mpx._update_mps(c, cidx, qbl, qbr, 0))
print(dg_mp(mpx))
mpx = src["h_l"].copy()
mpx.compress_config = CompressConfig(CompressCriteria.fixed, max_bonddim=5)
cidx = [mpx.qnidx]
qbl, qbr, qmat = mpx._get_big_qn(cidx)
mk = get_qn_mask(qmat, mpx.qntot)
c = [np.random.RandomState(i).rand(*mk.shape) * mk for i in range(2)]
np.random.seed(0)
print([dg(x) for x in mpx._update_mps(c, cidx, qbl, qbr, 0.3)])
print(dg_mp(mpx))
# empty state list
print("empty list", guarded("empty", lambda: src["h_r"].copy()._update_mps([], [0], *src["h_r"]._get_big_qn([0])[:2])))


# ---------------------------------------------------------------- single_sweep / optimize_mps
section("gs")


def run_gs(label, model, qntot, method, nroots, algo, omega, proc, seed=2, ofs=None, jw=False, cplx=False):
    np.random.seed(seed)
    mps = Mps.random(model, qntot, proc[0][0], percent=1.0)
    if cplx:
        mps = mps.to_complex()
    mpo = Mpo(model)
    mps.optimize_config.procedure = proc
    mps.optimize_config.method = method
    mps.optimize_config.nroots = nroots
    mps.optimize_config.algo = algo
    if ofs is not None:
        mps.compress_config.ofs = ofs
        mps.compress_config.ofs_swap_jw = jw
    np.random.seed(seed)
    energies, res = gs.optimize_mps(mps, mpo, omega=omega)
    print(label, method, nroots, algo, omega, ofs)
    print(" energies", np.round(np.array(energies, dtype=float), 8).tolist())
    if isinstance(res, list):
        for r in res:
            print(dg_mp(r))
    else:
        print(dg_mp(res))
    print(" input mps after:")
    print(dg_mp(mps))


proc_s = [[6, 0.4], [8, 0.2], [8, 0], [8, 0]]
for method in ("1site", "2site"):
    for nroots in (1, 3):
        for algo in ("davidson", "direct"):
            guarded("gs-h", lambda: run_gs("gs-h", model_h, 1, method, nroots, algo, None, proc_s))
    guarded("gs-h-omega", lambda: run_gs("gs-h-omega", model_h, 1, method, 1, "davidson", 0.084, proc_s))
    guarded("gs-h-omega-n2", lambda: run_gs("gs-h-omega-n2", model_h, 1, method, 2, "davidson", 0.084, proc_s))
    guarded("gs-g-q2", lambda: run_gs("gs-g-q2", model_g, 2, method, 1, "davidson", None, proc_s, cplx=True))
guarded("gs-ofs", lambda: run_gs("gs-ofs", model_g, 1, "2site", 1, "davidson", None, proc_s, ofs=OFS.ofs_s))
proc_qc = [[8, 0.4], [8, 0.2], [8, 0]]
guarded("gs-qc", lambda: run_gs("gs-qc", model_qc, [3, 3], "2site", 1, "davidson", None, proc_qc))
guarded("gs-qc-1", lambda: run_gs("gs-qc-1", model_qc, [2, 1], "1site", 2, "davidson", None, proc_qc))
guarded("gs-qc-ofs", lambda: run_gs("gs-qc-ofs", model_qc, [3, 3], "2site", 1, "davidson", None, proc_qc,
                                    ofs=OFS.ofs_ds, jw=True))

# larger bond dimension: the iterative solver is used for the 1-site update as well
proc_16 = [[16, 0.4], [16, 0], [16, 0]]
for nroots in (1, 3):
    guarded("gs-h-16", lambda: run_gs("gs-h-16", model_h, 1, "1site", nroots, "davidson", None, proc_16))
guarded("gs-h-16-omega", lambda: run_gs("gs-h-16-omega", model_h, 1, "1site", 2, "davidson", 0.084, proc_16))


# OFS really switched on inside the sweeps (the procedure carries the CompressConfig)
def ofs_proc(ofs, jw, m=8):
    return [[CompressConfig(CompressCriteria.fixed, max_bonddim=m, ofs=ofs, ofs_swap_jw=jw), p] for p in (0.4, 0.2, 0, 0)]


for ofs in (OFS.ofs_s, OFS.ofs_d, OFS.ofs_ds):
    def _run_ofs(model, qntot, jw, seed=2):
        np.random.seed(seed)
        mps = Mps.random(model, qntot, 8, percent=1.0)
        mpo = Mpo(model)
        mps.optimize_config.procedure = ofs_proc(ofs, jw)
        mps.optimize_config.method = "2site"
        np.random.seed(seed)
        energies, res = gs.optimize_mps(mps, mpo)
        print("gs-real-ofs", ofs, jw, np.round(np.array(energies, dtype=float), 8).tolist())
        print(" order", [b.dof for b in res.model.basis], [b.dof for b in mps.model.basis])
        print(dg_mp(res))
        print(dg_mp(mps))
    guarded("gs-real-ofs-g", lambda: _run_ofs(model_g, 1, False))
    guarded("gs-real-ofs-qc", lambda: _run_ofs(model_qc, [3, 3], True))

# stacked MPO
from renormalizer.mps import StackedMpo
sb, st = h_qc.qc_model(h1e, h2e, stacked=True)
for method in ("1site", "2site"):
    def _run_stacked():
        mpo = StackedMpo([Mpo(Model(sb, t)) for t in st])
        model = Model(sb, st[0])
        np.random.seed(2023)
        mps = Mps.random(model, [3, 3], 8, percent=1.0)
        mps.optimize_config.procedure = [[8, 0.4], [8, 0]]
        mps.optimize_config.method = method
        np.random.seed(1)
        energies, res = gs.optimize_mps(mps, mpo)
        print("gs-stacked", method, np.round(np.array(energies, dtype=float), 8).tolist())
        print(dg_mp(res))
    guarded("gs-stacked", _run_stacked)

# single_sweep directly, both directions, with last_opt_e_idx given
section("single_sweep direct")
from renormalizer.mps.lib import Environ
for method in ("1site", "2site"):
    for nroots in (1, 2):
        for start in ("R", "L"):
            np.random.seed(4)
            mps = Mps.random(model_h, 1, 6, percent=1.0)
            mpo = Mpo(model_h)
            mps.optimize_config.method = method
            mps.optimize_config.nroots = nroots
            if start == "R":
                mps.ensure_right_canonical()
            else:
                mps.ensure_left_canonical()
            mps.compress_config = CompressConfig(CompressCriteria.fixed, max_bonddim=6)
            env = Environ(mps, mpo, start)
            last = [3, 4] if method == "2site" else [3]
            np.random.seed(4)
            micro, res, mpo2 = gs.single_sweep(mps, mpo, env, None, 0.3, last)
            print(method, nroots, start, "mpo same", mpo2 is mpo)
            print(" micro", [(np.round(np.array(e, dtype=float), 8).tolist(), c) for e, c in micro])
            if isinstance(res, list):
                for r in res:
                    print(dg_mp(r))
            elif res is not None:
                print(dg_mp(res))
            print(dg_mp(mps))
            # second sweep in the other direction, no stored optimum
            micro, res, _ = gs.single_sweep(mps, mpo, env, None, 0, None)
            print(" micro2", [(np.round(np.array(e, dtype=float), 8).tolist(), c) for e, c in micro], res)
            print(dg_mp(mps))

# unknown method
np.random.seed(4)
mps = Mps.random(model_h, 1, 4, percent=1.0)
mps.ensure_right_canonical()
mps.optimize_config.method = "3site"
print("bad method", guarded("bad", lambda: gs.single_sweep(mps, Mpo(model_h), Environ(mps, Mpo(model_h), "R"), None, 0, None)))


# ---------------------------------------------------------------- other callers of the changed functions
section("variational compress / tdvp_ps2")
np.random.seed(8)
mps = Mps.random(model_h, 1, 6, percent=1.0)
mpo = Mpo(model_h)
for vmethod in ("1site", "2site"):
    m = mps.copy()
    m.compress_config = CompressConfig(CompressCriteria.fixed, max_bonddim=6, vmethod=vmethod,
                                       vprocedure=[[6, 0.4], [6, 0], [6, 0]])
    np.random.seed(8)
    out = guarded("vc", lambda: m.variational_compress(mpo, guess=None))
    if out is not None:
        print(vmethod)
        print(dg_mp(out))

m = mps.copy().to_complex()
m = m.normalize("mps_and_coeff") if hasattr(m, "normalize") else m
m.evolve_config = EvolveConfig(EvolveMethod.tdvp_ps2)
m.compress_config = CompressConfig(CompressCriteria.fixed, max_bonddim=6)
np.random.seed(8)
for _ in range(2):
    m = m.evolve(mpo, 2.0)
print("tdvp_ps2")
print(dg_mp(m))
