import os, sys, types
if os.environ.get("PYTHONHASHSEED") is None:
    # the library iterates over sets of strings somewhere (contraction order => last-bit noise
    # that is amplified in null-space gauge choices); pin the hash seed so the digest is reproducible
    os.environ["PYTHONHASHSEED"] = "0"
    os.execv(sys.executable, [sys.executable] + sys.argv)
_pt = types.ModuleType("print_tree"); _pt.print_tree = object; sys.modules.setdefault("print_tree", _pt)

import hashlib
import logging

import numpy as np

logging.disable(logging.CRITICAL)

from renormalizer.model import Model, Op, Phonon, Mol, HolsteinModel
from renormalizer.model.basis import BasisHalfSpin, BasisSimpleElectron, BasisMultiElectron, BasisSHO
from renormalizer.model.model import heisenberg_ops
from renormalizer.mps import Mps, Mpo, MpDm
from renormalizer.mps.matrix import asnumpy
from renormalizer.utils import (CompressConfig, CompressCriteria, EvolveConfig,
                                EvolveMethod, Quantity)
from renormalizer.tests.parameter import holstein_model
from renormalizer.tn.node import TreeNodeBasis
from renormalizer.tn.tree import TTNS, TTNO
from renormalizer.tn.treebase import BasisTree


def h(arr, nd=7):
    arr = np.ascontiguousarray(np.round(np.asarray(asnumpy(arr)), nd)) + 0.0  # kill -0.0
    return hashlib.md5(repr(arr.shape).encode() + str(arr.dtype).encode() + arr.tobytes()).hexdigest()[:12]


def dig_mp(tag, mp):
    print(f"[{tag}] cls={type(mp).__name__} to_right={mp.to_right} qnidx={mp.qnidx} "
          f"qntot={np.asarray(mp.qntot).tolist()} dims={mp.bond_dims} dtype={mp.dtype}")
    for i, mt in enumerate(mp):
        a = asnumpy(mt.array)
        print(f"   site {i}: shape={a.shape} dtype={a.dtype} strides_ok={a.flags['C_CONTIGUOUS']} "
              f"norm={np.linalg.norm(a):.9f} h={h(a)}")
    for i, qn in enumerate(mp.qn):
        print(f"   qn {i}: {np.asarray(qn).tolist()}")
    if hasattr(mp, "coeff"):
        print(f"   coeff={complex(mp.coeff):.9f}")


def run(tag, fn):
    try:
        fn()
    except Exception as e:  # digest exceptions too
        print(f"[{tag}] EXC {type(e).__name__}: {e}")


# --------------------------------------------------------------------------
# models
# --------------------------------------------------------------------------
def spin_model(n):
    basis = [BasisHalfSpin(i, sigmaqn=[0, 1]) for i in range(n)]
    ham = Op("", 0, 0)
    terms = []
    for i in range(n - 1):
        terms.append(Op("sigma_+ sigma_-", [i, i + 1], 1.0, qn=[1, -1]))
        terms.append(Op("sigma_+ sigma_-", [i + 1, i], 1.0, qn=[1, -1]))
        terms.append(Op("sigma_z sigma_z", [i, i + 1], 0.5))
    return Model(basis, terms)


def two_comp_model(n):
    # two-component quantum number: (n_up, n_down)
    basis = []
    for i in range(n):
        basis.append(BasisSimpleElectron(f"u{i}", sigmaqn=[[0, 0], [1, 0]]))
        basis.append(BasisSimpleElectron(f"d{i}", sigmaqn=[[0, 0], [0, 1]]))
    terms = []
    for i in range(n - 1):
        for s in "ud":
            terms.append(Op(r"a^\dagger a", [f"{s}{i}", f"{s}{i+1}"], -1.0, qn=[[1, 0], [-1, 0]] if s == "u" else [[0, 1], [0, -1]]))
            terms.append(Op(r"a^\dagger a", [f"{s}{i+1}", f"{s}{i}"], -1.0, qn=[[1, 0], [-1, 0]] if s == "u" else [[0, 1], [0, -1]]))
    for i in range(n):
        terms.append(Op(r"a^\dagger a a^\dagger a", [f"u{i}", f"u{i}", f"d{i}", f"d{i}"], 2.0,
                        qn=[[1, 0], [-1, 0], [0, 1], [0, -1]]))
    return Model(basis, terms)


def rand_2comp(tm, qntot, m):
    n = len(tm.basis) // 2
    if list(qntot) == [n, n]:
        # all sites occupied: Mps.random can not build this sector
        return Mps.hartree_product_state(tm, {b.dof: 1 for b in tm.basis})
    return Mps.random(tm, qntot, m)


# --------------------------------------------------------------------------
# 1. MatrixProduct.compress
# --------------------------------------------------------------------------
def t_compress():
    np.random.seed(11)
    model = holstein_model
    for qntot, cplx in [(1, False), (1, True), (0, False), (2, True)]:
        mps = Mps.random(model, qntot, 12)
        if cplx:
            mps = mps.to_complex()
            mps = mps.scale(0.3 + 0.8j)
        other = Mps.random(model, qntot, 7)
        mps = mps + other
        # (a) default threshold criteria, from the right
        m1 = mps.copy().canonicalise()
        m1.compress()
        dig_mp(f"compress thr qn={qntot} c={cplx}", m1)
        # then again in the other direction with int temp_m_trunc and ret_s
        m1b, s = m1.compress(temp_m_trunc=5, ret_s=True)
        assert m1b is m1
        dig_mp(f"compress int5 qn={qntot} c={cplx}", m1b)
        print("   s:", s.shape, h(s))
        # (b) list / tuple / ndarray temp_m_trunc both directions
        trunc = [1] + [3, 4, 6, 5, 4, 6, 3, 2][: mps.site_num - 1] + [1]
        for conv in (list, tuple, np.array):
            m2 = mps.copy().canonicalise()
            r = m2.compress(temp_m_trunc=conv(trunc))
            assert r is m2
            dig_mp(f"compress {conv.__name__} R qn={qntot} c={cplx}", m2)
            r, s = m2.compress(temp_m_trunc=conv([1] + [2] * (mps.site_num - 1) + [1]), ret_s=True)
            dig_mp(f"compress {conv.__name__} L qn={qntot} c={cplx}", r)
            print("   s:", s.shape, h(s))
        # (c) fixed criteria
        m3 = mps.copy().canonicalise()
        m3.compress_config = CompressConfig(CompressCriteria.fixed, max_bonddim=4)
        r, s = m3.compress(ret_s=True)
        dig_mp(f"compress fixed qn={qntot} c={cplx}", r)
        print("   s:", s.shape, h(s))
        # (d) huge temp_m_trunc (min with len(sigma))
        m4 = mps.copy().canonicalise()
        m4.compress(temp_m_trunc=10000)
        dig_mp(f"compress huge qn={qntot} c={cplx}", m4)

    # wrong qnidx -> AssertionError
    def bad():
        m = Mps.random(model, 1, 5)
        m.canonicalise()
        m.qnidx = 2
        m.compress()
    run("compress bad qnidx", bad)

    def bad2():
        m = Mps.random(model, 1, 5)
        m.canonicalise()
        m.compress(temp_m_trunc=[1, 2])  # too short list
    run("compress short list", bad2)

    # MPO and MpDm
    mpo = Mpo(model)
    mpo2 = mpo.copy().canonicalise()
    mpo2.compress_config = CompressConfig(CompressCriteria.fixed, max_bonddim=5)
    r, s = mpo2.compress(ret_s=True)
    dig_mp("compress mpo fixed", r)
    print("   s:", s.shape, h(s))
    mpo3 = mpo.copy().canonicalise()
    mpo3.compress(temp_m_trunc=3)
    dig_mp("compress mpo int", mpo3)
    np.random.seed(12)
    mpdm = MpDm.from_mps(Mps.random(model, 1, 6))
    mpdm = mpo.apply(mpdm).canonicalise()
    mpdm.compress(temp_m_trunc=8)
    dig_mp("compress mpdm", mpdm)

    # two-component qn, and one-site chain
    np.random.seed(13)
    tm = two_comp_model(3)
    for qntot in ([1, 1], [2, 1], [3, 3], [0, 0]):
        mps = rand_2comp(tm, qntot, 8)
        mps = Mpo(tm).apply(mps.to_complex().scale(1j)).canonicalise()
        r, s = mps.compress(temp_m_trunc=4, ret_s=True)
        dig_mp(f"compress 2comp qn={qntot}", r)
        print("   s:", s.shape, h(s))
    sm = spin_model(2)
    mps = Mps.random(sm, 1, 3).canonicalise()
    r, s = mps.compress(ret_s=True)
    dig_mp("compress 2 sites", r)
    print("   s:", s.shape, h(s))


# --------------------------------------------------------------------------
# 2. MatrixProduct.variational_compress
# --------------------------------------------------------------------------
def t_varcompress():
    model = holstein_model
    mpo = Mpo(model)
    for cplx, kind in [(False, "mps"), (True, "mps"), (True, "mpdm"), (False, "mpo")]:
        np.random.seed(21)
        if kind == "mpo":
            mps = Mpo(model)
            M = 12
        else:
            mps = Mps.random(model, 1, 8)
            if kind == "mpdm":
                mps = MpDm.from_mps(mps)
            mps.canonicalise().normalize("mps_only")
            M = 10
        op = mpo
        if cplx:
            mps = mps.to_complex(inplace=True)
            op = mpo.scale(-1.0j)
        mps.compress_config.vprocedure = [[M, 1.0], [M, 0.2], [CompressConfig(CompressCriteria.fixed, max_bonddim=M), 0.1]] + [[M, 0], ] * 3
        mps.compress_config.vmethod = "2site"
        mps.compress_config.bond_dim_max_value = M
        mps.compress_config.criteria = CompressCriteria.fixed
        var = mps.variational_compress(op, guess=None)
        dig_mp(f"var 2site {kind} c={cplx}", var)
        var.compress_config.vprocedure = [[M, 0], ] * 3
        var.compress_config.vmethod = "1site"
        var2 = mps.variational_compress(op, guess=var)
        assert var2 is var
        dig_mp(f"var 1site {kind} c={cplx}", var2)
        # guess handed over right-canonical: ensure_left_canonical path
        g = var2.copy()
        g.ensure_right_canonical()
        g.compress_config.vprocedure = [[M - 2, 0.3], [M - 2, 0]]
        g.compress_config.vmethod = "2site"
        var3 = mps.variational_compress(op, guess=g)
        dig_mp(f"var 2site/guessR {kind} c={cplx}", var3)

    np.random.seed(22)
    mps = Mps.random(model, 1, 5)
    run("var no mpo", lambda: mps.variational_compress())

    def badproc():
        m = Mps.random(model, 1, 5)
        m.compress_config.vprocedure = [[3.5, 0.0]]
        m.variational_compress(mpo)
    run("var bad procedure", badproc)

    def badmethod():
        m = Mps.random(model, 1, 5)
        m.compress_config.vprocedure = [[4, 0.0]]
        m.compress_config.vmethod = "3site"
        m.variational_compress(mpo)
    run("var bad method", badmethod)

    # two-component qn
    np.random.seed(23)
    tm = two_comp_model(3)
    tmpo = Mpo(tm)
    for qntot, meth in [([1, 1], "2site"), ([2, 1], "1site"), ([3, 3], "2site")]:
        mps = rand_2comp(tm, qntot, 6).to_complex()
        mps.compress_config.vprocedure = [[6, 0.5], [6, 0], [6, 0]]
        mps.compress_config.vmethod = meth
        mps.compress_config.criteria = CompressCriteria.fixed
        var = mps.variational_compress(tmpo)
        dig_mp(f"var 2comp qn={qntot} {meth}", var)
    # two-site chain
    sm = spin_model(2)
    for meth in ("1site", "2site"):
        np.random.seed(24)
        mps = Mps.random(sm, 1, 2)
        mps.compress_config.vprocedure = [[2, 0.5], [2, 0]]
        mps.compress_config.vmethod = meth
        var = mps.variational_compress(Mpo(sm))
        dig_mp(f"var 2 sites {meth}", var)


# --------------------------------------------------------------------------
# 3. Mps._evolve_tdvp_mu_vmf
# --------------------------------------------------------------------------
def t_vmf():
    ph = Phonon.simple_phonon(Quantity(1), Quantity(1), 2)
    model = HolsteinModel([Mol(Quantity(0), [ph])] * 3, Quantity(1), 3)
    mpo = Mpo(model)
    init = Mpo.onsite(model, r"a^\dagger", dof_set={0}) @ Mps.ground_state(model, False)
    init = init.expand_bond_dimension(hint_mpo=mpo)
    init_dm = MpDm.from_mps(init).expand_bond_dimension(hint_mpo=mpo)
    cases = []
    for method in (EvolveMethod.tdvp_mu_vmf, EvolveMethod.tdvp_vmf):
        for force_ovlp in (True, False):
            for auto in (True, False):
                cases.append((method, force_ovlp, auto))
    for method, force_ovlp, auto in cases:
        use_dm = (not auto) and (force_ovlp == (method == EvolveMethod.tdvp_vmf))
        for name, st, dts in (("mps", init, (0.2, -0.2j) if auto == force_ovlp else (0.2,)),
                              ("mpdm", init_dm, (0.1,) if use_dm else ())):
            for dt in dts:
                mps = st.copy()
                mps.evolve_config = EvolveConfig(method, ivp_rtol=1e-3, ivp_atol=1e-6, force_ovlp=force_ovlp)
                mps.evolve_config.vmf_auto_switch = auto
                tag = f"vmf {name} {method.name} ovlp={force_ovlp} auto={auto} dt={dt}"
                new = mps._evolve_tdvp_mu_vmf(mpo, dt)
                dig_mp(tag, new)
                print("   method after:", new.evolve_config.method.name, "| self:", mps.evolve_config.method.name,
                      "| self to_right:", mps.to_right, mps.qnidx, "same_cfg:", new.evolve_config is mps.evolve_config)
                dig_mp(tag + " [self]", mps)
                # second step, via public evolve (exercises to_right=False + force_ovlp branch)
                if name == "mps":
                    new2 = new.evolve(mpo, dt)
                    dig_mp(tag + " step2", new2)
                    print("   e_occ:", np.round(new2.e_occupations, 8).tolist())

    # time dependent (callable) mpo and bad type
    mps = init.copy()
    mps.evolve_config = EvolveConfig(EvolveMethod.tdvp_mu_vmf, ivp_rtol=1e-4, ivp_atol=1e-7)
    calls = []

    def mpo_t(t, *args, **kwargs):
        calls.append((round(float(t), 10), sorted(kwargs)))
        return mpo
    new = mps._evolve_tdvp_mu_vmf(mpo_t, 0.2)
    dig_mp("vmf callable", new)
    print("   calls:", len(calls), calls[:3], calls[-1])
    run("vmf bad mpo", lambda: mps._evolve_tdvp_mu_vmf("nope", 0.2))

    # two-component quantum numbers, non-zero sector
    np.random.seed(31)
    tm = two_comp_model(2)
    tmpo = Mpo(tm)
    for qntot in ([1, 1], [1, 0]):
        for method in (EvolveMethod.tdvp_mu_vmf, EvolveMethod.tdvp_vmf):
            def one():
                mps = Mps.random(tm, qntot, 4).canonicalise()
                mps.compress(temp_m_trunc=4)
                mps.evolve_config = EvolveConfig(method, ivp_rtol=1e-3, ivp_atol=1e-6, force_ovlp=False)
                new = mps._evolve_tdvp_mu_vmf(tmpo, 0.1)
                dig_mp(f"vmf 2comp qn={qntot} {method.name}", new)
                print("   method after:", new.evolve_config.method.name)
            run(f"vmf 2comp qn={qntot} {method.name}", one)


# --------------------------------------------------------------------------
# 4. TTNS.decompose_to_child
# --------------------------------------------------------------------------
def multi_basis_tree(basis_list):
    node1 = TreeNodeBasis([basis_list[0], basis_list[1]])
    node2 = TreeNodeBasis([basis_list[2]])
    node3 = TreeNodeBasis([basis_list[3]])
    node4 = TreeNodeBasis([basis_list[4], basis_list[5], basis_list[6]])
    node3.add_child(node2)
    node2.add_child(node1)
    node2.add_child(node4)
    return BasisTree(node3)


def star_tree(basis_list):
    root = TreeNodeBasis([basis_list[0]])
    for b in basis_list[1:]:
        root.add_child(TreeNodeBasis([b]))
    return BasisTree(root)


def dig_ttns(tag, ttns):
    print(f"[{tag}] dims={ttns.bond_dims} qntot={np.asarray(ttns.qntot).tolist()}")
    for i, node in enumerate(ttns.node_list):
        a = node.tensor
        print(f"   node {i}: shape={a.shape} dtype={a.dtype} cont={a.flags['C_CONTIGUOUS']} strides={a.strides} "
              f"norm={np.linalg.norm(a):.9f} h={h(a)} qn={np.asarray(node.qn).tolist()}")


def t_tree():
    nspin = 7
    trees = {}
    bl = [BasisHalfSpin(i) for i in range(nspin)]
    trees["binary"] = BasisTree.binary(bl)
    trees["multi"] = multi_basis_tree([BasisHalfSpin(i) for i in range(nspin)])
    trees["star"] = star_tree([BasisHalfSpin(i) for i in range(5)])
    trees["binary_qn"] = BasisTree.binary([BasisHalfSpin(i, sigmaqn=[0, 1]) for i in range(6)])
    for name, basis in trees.items():
        for qntot, cplx in ((0, False), (0, True), (2, True)):
            if qntot != 0 and name != "binary_qn":
                continue
            np.random.seed(41)
            ttns = TTNS.random(basis, qntot, 5, 1)
            if cplx:
                ttns = ttns.scale(0.6 - 0.8j)
            dense0 = ttns.todense()
            # walk down every node/child, pushing the centre down then coming back up
            for inode, node in enumerate(list(ttns.node_list)):
                for ichild in range(len(node.children)):
                    t = ttns.copy()
                    n = t.node_list[inode]
                    # move the canonical centre from the root to this node
                    path = []
                    cur = n
                    while cur.parent is not None:
                        path.append((cur.parent, cur.idx_as_child))
                        cur = cur.parent
                    for parent, idx in reversed(path):
                        t.push_cano_to_child(parent, idx)
                    v = t.decompose_to_child(n, ichild)
                    v = np.asarray(v)
                    print(f"[tree {name} qn={qntot} c={cplx} node={inode} child={ichild}] v: {v.shape} {v.dtype} {h(v)} "
                          f"nshape={n.tensor.shape} strides={n.tensor.strides} childqn={np.asarray(n.children[ichild].qn).tolist()} "
                          f"type={type(n.children[ichild].qn).__name__}")
                    dig_ttns("   after", t)
                    t.merge_to_child(n, ichild, v)
                    print("   dense same:", bool(np.allclose(t.todense(), dense0)))
            # whole-tree operations relying on decompose_to_child
            t = ttns.copy()
            t.push_cano_to_child(t.root, 0)
            t.push_cano_to_parent(t.root.children[0])
            dig_ttns(f"tree {name} qn={qntot} c={cplx} push/pull", t)
    # time evolution with the projector splitting scheme uses decompose_to_child
    np.random.seed(42)
    basis = trees["binary_qn"]
    ttns = TTNS.random(basis, 2, 4, 1)
    terms = []
    for i in range(5):
        terms.append(Op("sigma_+ sigma_-", [i, i + 1], 1.0, qn=[1, -1]))
        terms.append(Op("sigma_- sigma_+", [i, i + 1], 1.0, qn=[-1, 1]))
    ttno = TTNO(basis, terms)
    ttns.evolve_config = EvolveConfig(EvolveMethod.tdvp_ps)
    for _ in range(2):
        ttns = ttns.evolve(ttno, 0.1)
    dig_ttns("tree evolve ps", ttns)
    print("   e:", round(float(np.real(ttns.expectation(ttno))), 8))


if __name__ == "__main__":
    import time
    for f in (t_compress, t_varcompress, t_vmf, t_tree):
        t0 = time.time()
        print("=" * 20, f.__name__)
        f()
        print(f"{f.__name__}: {time.time() - t0:.1f}s", file=sys.stderr)
