# -*- coding: utf-8 -*-
"""Equivalence digest for the C06rh refactoring.

Exercises Op.__mul__, MatrixProduct.variational_compress and
Mps._evolve_tdvp_mu_vmf and prints a deterministic digest.
"""
import logging
import sys

import numpy as np

logging.disable(logging.CRITICAL)

from renormalizer.model import Op, OpSum, Phonon, Mol, HolsteinModel, Model
from renormalizer.model import basis as ba
from renormalizer.mps import Mps, Mpo, MpDm
from renormalizer.mps.svd_qn import get_qn_mask
from renormalizer.utils import (
    Quantity,
    CompressConfig,
    CompressCriteria,
    EvolveConfig,
    EvolveMethod,
)

np.set_printoptions(precision=8, suppress=True, linewidth=200)


def out(*args):
    print(*args)
    sys.stdout.flush()


def rnd(x, n=8):
    a = np.asarray(x)
    if np.iscomplexobj(a):
        a = np.round(a.real, n) + 1j * np.round(a.imag, n)
    else:
        a = np.round(a.astype(float), n)
    a = a + 0.0  # kill negative zeros
    return a.tolist()


def guarded(label, fn):
    try:
        res = fn()
    except Exception as e:  # noqa
        out(label, "EXC", type(e).__name__, str(e))
        return None
    return res


# ----------------------------------------------------------------------
# 1. Op.__mul__
# ----------------------------------------------------------------------
def op_digest(o):
    if isinstance(o, Op):
        return ("Op", o.symbol, repr(o.dofs), repr(type(o.factor).__name__), rnd(o.factor, 12),
                [np.asarray(q).tolist() for q in o.qn_list])
    if isinstance(o, list):
        return (type(o).__name__, [op_digest(i) for i in o])
    return repr(o)


def section_op():
    out("=== Op.__mul__")
    a = Op(r"a^\dagger", 0, 0.5)
    b = Op("a", 1, 2.0 - 1.0j)
    x = Op("X", "v0", 3)
    two = Op(r"a^\dagger a", [("e", 0), ("e", 1)], 1.5, qn=[[1, 0], [0, -1]])
    two_b = Op("sigma_z", "s", -0.25, qn=[[0, 0]])
    others = [
        ("op", b), ("op_self", a), ("op_x", x),
        ("int", 3), ("negint", -2), ("zero", 0), ("float", 0.25), ("complex", 1.5 - 2j),
        ("bool", True),
        ("np_f64", np.float64(0.125)), ("np_c128", np.complex128(1j)), ("np_i64", np.int64(7)),
        ("np_f32", np.float32(0.5)), ("np_bool", np.bool_(False)),
        ("np_0d", np.array(2.0)), ("np_1d", np.array([1.0, 2.0])),
        ("list", [a, b, x]), ("list1", [x]), ("empty", []), ("opsum", a + b), ("opsum_empty", OpSum()),
        ("bad_list", [a, 1, b]), ("bad_list2", ["s"]), ("nested", [[a]]),
        ("tuple", (a, b)), ("str", "a"), ("none", None), ("quantity", Quantity(1.0)),
    ]
    for lname, left in [("a", a), ("b", b), ("x", x)]:
        for name, other in others:
            res = guarded(f"{lname}*{name}", lambda: left * other)
            if res is not None:
                out(f"{lname}*{name}", op_digest(res))
    for name, other in [("two_b", two_b), ("int", 2), ("list", [two_b, two]), ("c", 1j), ("bad", [two, None])]:
        res = guarded(f"two*{name}", lambda: two * other)
        if res is not None:
            out(f"two*{name}", op_digest(res))
    # reflected paths go through __mul__ as well
    for name, other in [("int", 3), ("np", np.float64(2.0)), ("list", [a, b]), ("c", 2j)]:
        res = guarded(f"{name}*a", lambda: other * a)
        if res is not None:
            out(f"{name}*a", op_digest(res))
    # inputs must not be mutated
    out("a after", op_digest(a), "two after", op_digest(two))


# ----------------------------------------------------------------------
# models
# ----------------------------------------------------------------------
def holstein(nmols=3, nlev=3):
    ph1 = Phonon.simple_phonon(Quantity(1.0), Quantity(1.0), nlev)
    ph2 = Phonon.simple_phonon(Quantity(0.4), Quantity(-0.7), nlev)
    mol = Mol(Quantity(0.3), [ph1, ph2])
    j = np.zeros((nmols, nmols))
    for i in range(nmols - 1):
        j[i, i + 1] = j[i + 1, i] = -0.35
    if nmols > 2:
        j[0, nmols - 1] = j[nmols - 1, 0] = 0.1
    return HolsteinModel([mol] * nmols, j, 3)


def two_qn_model(nsite=4):
    # spin-up / spin-down like two component quantum numbers
    basis = []
    for i in range(nsite):
        basis.append(ba.BasisSimpleElectron(("u", i), sigmaqn=[[0, 0], [1, 0]]))
        basis.append(ba.BasisSimpleElectron(("d", i), sigmaqn=[[0, 0], [0, 1]]))
    ham = OpSum()
    for i in range(nsite - 1):
        for s in "ud":
            ham += Op(r"a^\dagger a", [(s, i), (s, i + 1)], -1.0 + 0.1 * i, qn=[[1, 0], [-1, 0]] if s == "u" else [[0, 1], [0, -1]])
            ham += Op(r"a^\dagger a", [(s, i + 1), (s, i)], -1.0 + 0.1 * i, qn=[[1, 0], [-1, 0]] if s == "u" else [[0, 1], [0, -1]])
    for i in range(nsite):
        ham += Op(r"a^\dagger a a^\dagger a", [("u", i), ("u", i), ("d", i), ("d", i)], 0.8,
                  qn=[[1, 0], [-1, 0], [0, 1], [0, -1]])
        ham += Op(r"a^\dagger a", [("u", i), ("u", i)], 0.1 * i, qn=[[1, 0], [-1, 0]])
    return Model(basis, ham)


def mp_digest(label, mp, mpo=None):
    # only gauge-invariant quantities are printed: the individual matrices (and the order / the
    # distribution of degenerate singular vectors over the symmetry sectors) depend on rounding noise
    out(label, "type", type(mp).__name__, "dtype", str(mp.dtype), "bond_dims", list(mp.bond_dims),
        "to_right", mp.to_right, "qnidx", mp.qnidx, "qntot", np.asarray(mp.qntot).tolist())
    if not mp.is_mpo:
        out(label, "qn-multiset", [sorted(tuple(np.asarray(r).tolist()) for r in q) for q in mp.qn])
    out(label, "qn-shape", [np.asarray(q).shape for q in mp.qn])
    out(label, "norm", rnd(mp.mp_norm, 7))
    if hasattr(mp, "coeff"):
        out(label, "coeff", rnd(mp.coeff))
    if mpo is not None and mp.is_mps:
        out(label, "energy", rnd(mp.expectation(mpo), 6))
    leak = []
    cp = mp.copy()
    for i in range(cp.site_num):
        cp.move_qnidx(i)
        _, _, qnmat = cp._get_big_qn([i])
        mask = get_qn_mask(qnmat, cp.qntot)
        arr = np.asarray(cp[i].array)
        leak.append(rnd(np.abs(arr[~mask]).sum(), 9))
    out(label, "qn-leak", leak)


# ----------------------------------------------------------------------
# 2. variational_compress
# ----------------------------------------------------------------------
def section_vcompress():
    out("=== variational_compress")
    model = holstein()
    mpo0 = Mpo(model)

    def build(kind, comp, seed):
        np.random.seed(seed)
        if kind == "mpo":
            mp = Mpo(model)
        else:
            mp = Mps.random(model, 1, 8)
            if kind == "mpdm":
                mp = MpDm.from_mps(mp)
            mp.canonicalise().normalize("mps_only")
        if comp:
            mp = mp.to_complex(inplace=True)
        return mp

    case = 0
    for kind in ("mps", "mpdm", "mpo"):
        for comp in (False, True):
            case += 1
            mp = build(kind, comp, 100 + case)
            mpo = mpo0.scale(-1.0j) if comp else mpo0
            M = 12 if kind != "mpo" else 10
            std = mpo.apply(mp, canonicalise=True).canonicalise()
            mp.compress_config.vprocedure = [[M, 1.0], [M, 0.2], [M, 0.1]] + [[M, 0], ] * 4
            mp.compress_config.vmethod = "2site"
            mp.compress_config.bond_dim_max_value = M
            mp.compress_config.criteria = CompressCriteria.fixed
            label = f"vc[{kind},{comp}]"
            before = [np.asarray(m.array).copy() for m in mp]
            var = mp.variational_compress(mpo, guess=None)
            mp_digest(label + " 2site", var)
            out(label, "2site dis", rnd(var.distance(std) / std.mp_norm, 7))
            out(label, "self untouched", all(np.array_equal(x, np.asarray(m.array)) for x, m in zip(before, mp)))
            # 1site with guess, mixed procedure entries (CompressConfig and int)
            var.compress_config.vprocedure = [
                [CompressConfig(CompressCriteria.fixed, max_bonddim=M), 0.3],
                [M, 0], [M, 0],
                [CompressConfig(CompressCriteria.threshold, threshold=1e-6), 0],
            ]
            var.compress_config.vmethod = "1site"
            guess = var
            var1 = mp.variational_compress(mpo, guess=guess)
            out(label, "guess is result", var1 is guess)
            mp_digest(label + " 1site", var1)
            out(label, "1site dis", rnd(var1.distance(std) / std.mp_norm, 7))

    # start the sweep from a right-canonical guess going to the left / 2site from both directions
    np.random.seed(7)
    mp = Mps.random(model, 1, 6)
    mp.canonicalise().normalize("mps_only")
    for vmethod in ("2site", "1site"):
        for nsweep in (1, 2, 3):
            guess = mpo0.apply(mp.copy().canonicalise().compress(temp_m_trunc=3))
            guess.compress_config = CompressConfig(CompressCriteria.fixed, max_bonddim=7)
            guess.compress_config.vmethod = vmethod
            guess.compress_config.vprocedure = [[7, 0.4]] + [[7, 0]] * (nsweep - 1)
            res = mp.variational_compress(mpo0, guess=guess)
            mp_digest(f"vc-dir[{vmethod},{nsweep}]", res, mpo0)

    # errors
    guarded("vc none", lambda: mp.variational_compress())
    guarded("vc none2", lambda: mp.variational_compress(None, guess=mp.copy()))
    g = mp.copy()
    g.compress_config = CompressConfig(CompressCriteria.fixed, max_bonddim=5)
    g.compress_config.vprocedure = [["x", 0]]
    guarded("vc bad procedure", lambda: mp.variational_compress(mpo0, guess=g))
    g = mp.copy()
    g.compress_config = CompressConfig(CompressCriteria.fixed, max_bonddim=5)
    g.compress_config.vprocedure = [[5, 0]]
    g.compress_config.vmethod = "3site"
    guarded("vc bad method", lambda: mp.variational_compress(mpo0, guess=g))
    g = mp.copy()
    g.compress_config = CompressConfig(CompressCriteria.fixed, max_bonddim=5)
    g.compress_config.vprocedure = []
    res = guarded("vc empty procedure", lambda: mp.variational_compress(mpo0, guess=g))
    if res is not None:
        mp_digest("vc empty procedure", res)

    # two-component quantum numbers, non-trivial sector
    model2 = two_qn_model()
    mpo2 = Mpo(model2)
    np.random.seed(11)
    mp2 = Mps.random(model2, [2, 1], 6)
    mp2.canonicalise().normalize("mps_only")
    mp2 = mp2.to_complex(inplace=True)
    for vmethod in ("2site", "1site"):
        mp2.compress_config = CompressConfig(CompressCriteria.fixed, max_bonddim=8)
        mp2.compress_config.vmethod = vmethod
        mp2.compress_config.vprocedure = [[8, 0.5], [8, 0.2], [8, 0], [8, 0]]
        res = mp2.variational_compress(mpo2)
        mp_digest(f"vc-2qn[{vmethod}]", res, mpo2)
        std = mpo2.apply(mp2, canonicalise=True).canonicalise()
        out(f"vc-2qn[{vmethod}]", "dis", rnd(res.distance(std) / std.mp_norm, 7))


# ----------------------------------------------------------------------
# 3. _evolve_tdvp_mu_vmf
# ----------------------------------------------------------------------
def section_vmf():
    out("=== _evolve_tdvp_mu_vmf")
    ph = Phonon.simple_phonon(Quantity(1.0), Quantity(1.0), 2)
    mol = Mol(Quantity(0), [ph])
    model = HolsteinModel([mol] * 3, Quantity(1.0), 3)
    tentative = Mpo(model)
    init_mps = Mpo.onsite(model, r"a^\dagger", dof_set={0}) @ Mps.ground_state(model, False)
    init_mps = init_mps.expand_bond_dimension(hint_mpo=tentative)
    init_mpdm = MpDm.from_mps(init_mps).expand_bond_dimension(hint_mpo=tentative)
    e = init_mps.expectation(tentative)
    mpo = Mpo(model, offset=Quantity(e))

    def dig(label, mps):
        mp_digest(label, mps, mpo if mps.is_mps else None)
        out(label, "occ", rnd(mps.e_occupations, 7), "method", mps.evolve_config.method.name)

    for sname, state in (("mps", init_mps), ("mpdm", init_mpdm)):
        for method in (EvolveMethod.tdvp_mu_vmf, EvolveMethod.tdvp_vmf):
            for force_ovlp in (True, False):
                for auto in (False, True):
                    if sname == "mpdm" and auto:
                        continue
                    mps = state.copy()
                    mps.evolve_config = EvolveConfig(method, ivp_rtol=1e-4, ivp_atol=1e-7, force_ovlp=force_ovlp)
                    mps.evolve_config.vmf_auto_switch = auto
                    label = f"vmf[{sname},{method.name},{force_ovlp},{auto}]"
                    cur = mps
                    for istep in range(2 if auto else 1):
                        cur = cur.evolve(mpo, 0.2)
                    dig(label, cur)
                    out(label, "input dtype", str(mps.dtype), "input to_right", mps.to_right,
                        "input method", mps.evolve_config.method.name)

    # direct call, imaginary time, callable mpo and wrong type
    for method in (EvolveMethod.tdvp_mu_vmf, EvolveMethod.tdvp_vmf):
        mps = init_mps.copy()
        mps.evolve_config = EvolveConfig(method, ivp_rtol=1e-4, ivp_atol=1e-7, force_ovlp=False)
        res = mps._evolve_tdvp_mu_vmf(mpo, -0.2j)
        dig(f"vmf-imag[{method.name}]", res)
        res2 = res.evolve(mpo, -0.2j)
        dig(f"vmf-imag2[{method.name}]", res2)

        calls = []

        def mpo_func(t, *args, **kwargs):
            calls.append((round(float(t), 10), sorted(kwargs)))
            return mpo

        mps = init_mps.copy()
        mps.evolve_config = EvolveConfig(method, ivp_rtol=1e-4, ivp_atol=1e-7, force_ovlp=True)
        res = mps._evolve_tdvp_mu_vmf(mpo_func, 0.25)
        dig(f"vmf-callable[{method.name}]", res)
        out(f"vmf-callable[{method.name}]", "ncalls", len(calls), calls[:3], calls[-1])

        guarded(f"vmf-badtype[{method.name}]", lambda: mps._evolve_tdvp_mu_vmf(3.0, 0.1))
        guarded(f"vmf-badtype2[{method.name}]", lambda: mps._evolve_tdvp_mu_vmf(None, 0.1))

        # right canonical input with force_ovlp (the one case without canonicalisation)
        mps = init_mps.copy()
        mps.evolve_config = EvolveConfig(method, ivp_rtol=1e-4, ivp_atol=1e-7, force_ovlp=True)
        mps.ensure_right_canonical()
        out("right-canonical input", mps.to_right, mps.qnidx)
        res = mps._evolve_tdvp_mu_vmf(mpo, 0.2)
        dig(f"vmf-rcano[{method.name}]", res)
        out("after", mps.to_right, mps.qnidx)

    # two-component quantum numbers
    model2 = two_qn_model(3)
    mpo2 = Mpo(model2)
    np.random.seed(5)
    mps2 = Mps.random(model2, [1, 2], 4)
    mps2.canonicalise().normalize("mps_only")
    for method in (EvolveMethod.tdvp_mu_vmf, EvolveMethod.tdvp_vmf):
        m = mps2.copy()
        m.evolve_config = EvolveConfig(method, ivp_rtol=1e-4, ivp_atol=1e-7, force_ovlp=False)
        res = m.evolve(mpo2, 0.1)
        mp_digest(f"vmf-2qn[{method.name}]", res, mpo2)
        out(f"vmf-2qn[{method.name}]", "occ", rnd(res.e_occupations, 7))


if __name__ == "__main__":
    section_op()
    section_vcompress()
    section_vmf()
