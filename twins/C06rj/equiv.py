# Equivalence check for the C06rj refactoring.
# Exercises Op.squeeze_identity, OpSum.simplify, Model.check_operator_terms and
# renormalizer.mps.symbolic_mpo._compute_qn and prints a deterministic digest.
import os
import sys

sys.path.insert(0, os.path.dirname(os.path.abspath(__file__)))  # stub module print_tree lives here
import print_tree  # noqa: F401  (stub; needed for renormalizer.tn)

import hashlib
import random
from collections import namedtuple

import numpy as np

from renormalizer.model import Model, Op, OpSum
from renormalizer.model import basis as ba
from renormalizer.mps import Mpo, Mps
from renormalizer.mps import symbolic_mpo as smpo
from renormalizer.mps.symbolic_mpo import OpTuple, _compute_qn


def out(*args):
    print(*args)


def fmt(x):
    """deterministic representation"""
    if isinstance(x, Op):
        return ("Op", x.symbol, [repr(d) for d in x.dofs], repr(x.factor), type(x.factor).__name__,
                [(q.dtype.str, q.tolist()) for q in x.qn_list])
    if isinstance(x, OpSum):
        return ("OpSum", [fmt(o) for o in x])
    if isinstance(x, (list, tuple)):
        return (type(x).__name__, [fmt(o) for o in x])
    if isinstance(x, np.ndarray):
        return ("nd", x.dtype.str, x.shape, x.tolist())
    if isinstance(x, np.generic):
        return ("npscalar", type(x).__name__, x.item())
    return (type(x).__name__, repr(x))


def attempt(label, f):
    try:
        res = f()
        out(label, "->", fmt(res))
        return res
    except Exception as e:  # noqa
        out(label, "-> EXC", type(e).__name__, str(e))
        return None


def digest_array(a):
    a = np.ascontiguousarray(np.round(np.asarray(a), 10) + 0.0)
    return hashlib.md5(a.tobytes()).hexdigest()[:12], a.shape, a.dtype.str


# ---------------------------------------------------------------------------
out("=== Op.squeeze_identity")
ops = [
    Op("X I Y I", [0, 1, 2, 3], 0.5),
    Op("I", 0, -0.5),
    Op("I I I", ["a", "b", "c"], 2.0 + 1.0j),
    Op("I I", "same", 3.0),
    Op("X", "x"),
    Op(r"a^\dagger I a", [0, 1, 2], 1.5),
    Op(r"I a^\dagger a I", [("e", 0), ("e", 1), ("e", 2), ("e", 3)], 1j, qn=[0, 1, -1, 0]),
    Op(r"a^\dagger I a", [0, 1, 2], 2.0, qn=[[1, 0], [0, 0], [0, -1]]),
    Op("I I", [0, 1], 0.25, qn=[[0, 0, 0], [0, 0, 0]]),
    Op(r"b^\dagger + b I", ["v0", "v1"], -3),
    Op(r"I b^\dagger + b", ["v0", "v1"], np.float64(0.125)),
    Op("I X", [0, 1], 0),
    Op("", 0, 1.0),
    Op("I  X", [0, 1, 2], 1.0),
    # identities carrying a non-zero quantum number: the assertion must fire
    Op("X I", [0, 1], 1.0, qn=[0, 1]),
    Op("I X I", [0, 1, 2], 1.0, qn=[[0, 0], [1, 1], [0, 2]]),
    # an all-identity operator with non-zero qn (no assertion on this path)
    Op("I I", [0, 1], 1.0, qn=[1, -1]),
    Op("I", 5, 1.0, qn=2),
    Op("X I", [0, 1], np.complex128(1 + 2j), qn=[[2], [0]]),
    Op("X I", [0, 1], 1.0, qn=[0.0, 0.0]),
]
for i, op in enumerate(ops):
    before = fmt(op)
    res = attempt(f"sq[{i}]", op.squeeze_identity)
    assert fmt(op) == before  # not mutated
    if res is not None:
        out("   qn", fmt(res.qn), "qn_size", res.qn_size, "is_identity", res.is_identity, "str", str(res))


class MyOp(Op):
    @classmethod
    def identity(cls, dof, qn_size=1, factor=1.0):
        out("   MyOp.identity called", repr(dof), qn_size, repr(factor))
        return super().identity(dof, qn_size=qn_size, factor=factor)


for i, op in enumerate([MyOp("I I", [3, 4], 0.5), MyOp("I Z", [3, 4], 0.5)]):
    res = attempt(f"sq-sub[{i}]", op.squeeze_identity)
    out("   type", type(res).__name__)

# ---------------------------------------------------------------------------
out("=== OpSum.simplify")
rng = random.Random(2024)
nprng = np.random.RandomState(7)


def random_op(r, cplx=False, with_identity=True):
    n = r.randint(1, 4)
    symbols = ["X", "Y", "Z", "I"] if with_identity else ["X", "Y", "Z"]
    sym = [r.choice(symbols) for _ in range(n)]
    dofs = [r.randint(0, 2) for _ in range(n)]
    f = r.choice([0.1, 0.2, 0.3, 0.7, 1e-17, 1e16, -1e16, 1 / 3, -0.1, 1.0, 0.0])
    if cplx:
        f = f + 1j * r.choice([0.1, -0.3, 1e-17, 0.0])
    return Op(" ".join(sym), dofs, f)


cases = [
    OpSum(),
    OpSum([Op("X", 0, 1.0)]),
    OpSum([Op("I", 0, 1.0)]),
    OpSum([Op("I", 0, 1.0), Op("I I", [0, 1], 2.0), Op("I", 1, 4.0)]),
    OpSum([Op("X", 0, 0.0)]),
    OpSum([Op("X I Y I", [0, 1, 2, 3], 0.5), Op("X Y", [0, 2], 0.5), Op("Z", [1], 1e-4)]),
    # floating point: the order of the summation is visible
    OpSum([Op("X", 0, 0.1), Op("X", 0, 0.2), Op("X", 0, 0.3), Op("Y", 0, 1.0), Op("X", 0, -0.6)]),
    OpSum([Op("X", 0, 1e16), Op("X", 0, 1.0), Op("X", 0, -1e16), Op("X", 0, 1.0)]),
    OpSum([Op("X", 0, 1.0), Op("X", 0, 1e16), Op("X", 0, 1.0), Op("X", 0, -1e16)]),
    # same symbol / dofs but different qn: the qn of the first one is kept
    OpSum([Op("X", 0, 1.0, qn=1), Op("X", 0, 2.0, qn=-1), Op("X", 0, 3.0, qn=[[5]])]),
    OpSum([Op(r"a^\dagger a", [0, 1], 1.0), Op(r"a^\dagger I a", [0, 2, 1], 1.0j), Op(r"a a^\dagger", [1, 0], 2.0)]),
    OpSum([Op("X", 0, 1.0), Op("X", 0, -1.0), Op("Y", 1, 1e-12), Op("Y", 1, 1e-12)]),
    OpSum([Op("X", 1, 1.0), Op("X", 1.0, 1.0), Op("X", True, 1.0), Op("X", "1", 1.0), Op("X", (1,), 1.0)]),
    OpSum([Op("X", 0, float("nan")), Op("X", 0, 1.0), Op("Y", 0, float("inf")), Op("Y", 0, -float("inf"))]),
    OpSum([Op("X I", [0, 1], 1.0, qn=[0, 1]), Op("X", 0, 1.0)]),  # AssertionError from squeeze_identity
    OpSum([Op("X", 0, 1.0), 3.0]),  # AttributeError
    OpSum([Op("X", 0, 1.0), OpSum([Op("X", 0, 1.0)])]),  # AttributeError
]
for seed in range(12):
    r = random.Random(seed)
    cases.append(OpSum([random_op(r, cplx=(seed % 3 == 0)) for _ in range(r.randint(2, 25))]))
for i, opsum in enumerate(cases):
    before = fmt(opsum)
    for atol in (0, 1e-3, 0.35):
        res = attempt(f"simp[{i}] atol={atol}", lambda: opsum.simplify(atol=atol))
        if res is not None:
            out("   type", type(res).__name__, "len", len(res))
    attempt(f"simp[{i}] default", opsum.simplify)
    assert fmt(opsum) == before  # self is not mutated

# algebra that goes through simplify
x = Op("X", 0, 1.0)
y = Op("Y", 1, 2.0)
s = x + y
attempt("simp-alg0", lambda: ((s * s) - (s * s)).simplify())
attempt("simp-alg1", lambda: ((s * s) + (s * x) * 0.5 + 1j * (y * s)).simplify(1e-9))
attempt("simp-alg2", lambda: OpSum.product([s, s, s]).simplify())

# ---------------------------------------------------------------------------
out("=== Model.check_operator_terms / Model.__init__")
basis1 = [ba.BasisSimpleElectron(0), ba.BasisSHO("v0", 1.0, 3), ba.BasisSimpleElectron(1), ba.BasisSHO("v1", 2.0, 4),
          ba.BasisHalfSpin("s")]
model1 = Model(basis1, [])
term_cases = [
    [],
    [Op("X", "s", 1.0)],
    [Op("X", "s", 0.0), Op("Z", "s", 0.0)],
    [Op("X", "s", 0.0), Op("Z", "s", 1.0), Op(r"a^\dagger a", [0, 1], -0.0), Op(r"a^\dagger a", [0, 1], 1e-300)],
    [Op("X", "s", 1.0), Op("X", "s", 1.0)],
    [Op("X", "s", 1.0), OpSum([Op("Z", "s", 0.0), Op("Y", "s", 2j)]), Op(r"b^\dagger + b", "v0", 0.5)],
    [OpSum(), OpSum([Op("X", "s")])],
    OpSum([Op("X", "s", 1.0), Op("Z", "s", 0)]),
    (Op("X", "s", 1.0), Op("x", "v1", float("nan"))),
    [Op("X", "unknown", 1.0)],
    [Op("X", "unknown", 0.0)],
    [Op("X I", ["s", "unknown"], 0.0)],
    [Op("X", "s", 1.0), Op("X Z", ["s", 7], 1.0), 3],
    [Op("X", "unknown", 1.0), "bad"],
    [Op("X", "s", 1.0), [Op("X", "s", 1.0)]],
    [Op("X", "s", 1.0), None],
    [OpSum([Op("X", "unknown"), Op("X", "s")])],
    [OpSum([OpSum([Op("X", "s")])])],
    [Op("I", "s", 2.0), Op("X I", ["s", 0], 1.0)],
    iter([Op("X", "s", 1.0), Op("Z", "s", 0.0)]),
    None,
]
for i, terms in enumerate(term_cases):
    res = attempt(f"check[{i}]", lambda: model1.check_operator_terms(terms))
    if res is not None:
        out("   type", type(res).__name__, "identity-kept", [any(o is t for t in res) for o in (terms if isinstance(terms, (list, tuple)) else [])
                                                               if isinstance(o, Op)])
    attempt(f"model-init[{i}]", lambda: Model(basis1, terms).ham_terms if not hasattr(terms, "__next__") else None)

# model whose output ordering lacks a DoF
model2 = Model(basis1, [], output_ordering=basis1[:3])
attempt("check-oo[0]", lambda: model2.check_operator_terms([Op("X", "s", 1.0)]))
attempt("check-oo[1]", lambda: model2.check_operator_terms([Op(r"a^\dagger a", [0, 1], 1.0), Op("x", "v0", 0.0)]))
attempt("check-oo[2]", lambda: Model(basis1, [3], output_ordering=[1, 2]))
attempt("check-oo[3]", lambda: Model(basis1, [Op("X", "s")], output_ordering=[1, 2]))
attempt("model-bad[0]", lambda: Model([], []))
attempt("model-bad[1]", lambda: Model([ba.BasisHalfSpin("s"), ba.BasisHalfSpin("s")], []))
attempt("model-bad[2]", lambda: Model([ba.BasisHalfSpin("s"), ba.BasisHalfSpin("t", sigmaqn=[[0, 0], [0, 0]])], []))

# ---------------------------------------------------------------------------
out("=== _compute_qn (direct)")
DummyOp = namedtuple("DummyOp", ["qn"])
for qn_size in (1, 2, 3):
    r = np.random.RandomState(100 + qn_size)
    primary = [DummyOp(r.randint(-2, 3, size=qn_size)) for _ in range(6)]
    in_ops_list = []
    for nb in (1, 3, 2):
        in_ops_list.append([[OpTuple([0, j], qn=r.randint(-3, 4, size=qn_size), factor=1.0),
                             OpTuple([1, j], qn=r.randint(-3, 4, size=qn_size), factor=2.0)] for j in range(nb)])
    snapshot = fmt([p.qn for p in primary]) + fmt([[o.qn for o in ops] for l in in_ops_list for ops in l])
    for k in (1, 2, 3):
        for n_in in (0, 1, 2, 3):
            sub = in_ops_list[:n_in]
            symbol = np.array([r.randint(0, len(l)) for l in sub] + [r.randint(0, 6) for _ in range(k)], dtype=np.uint16)
            for sym in (symbol, list(symbol), tuple(int(t) for t in symbol)):
                res = attempt(f"cqn qs={qn_size} k={k} n_in={n_in} {type(sym).__name__}",
                              lambda: _compute_qn(sub, sym, primary, k))
                if isinstance(res, np.ndarray):
                    # result does not alias any of the inputs
                    assert not any(np.shares_memory(res, p.qn) for p in primary)
                    assert not any(np.shares_memory(res, o.qn) for l in in_ops_list for ops in l for o in ops)
    assert snapshot == fmt([p.qn for p in primary]) + fmt([[o.qn for o in ops] for l in in_ops_list for ops in l])
# unusual: python int / float quantum numbers, mixed dtypes, too long / short symbols
prim_int = [DummyOp(0), DummyOp(1), DummyOp(-1)]
in_int = [[[OpTuple([0], qn=2, factor=1)], [OpTuple([0], qn=-5, factor=1)]]]
attempt("cqn int", lambda: _compute_qn(in_int, [1, 2], prim_int, 1))
attempt("cqn int k2", lambda: _compute_qn(in_int, [1, 2, 1], prim_int, 2))
attempt("cqn no-in", lambda: _compute_qn([], [2], prim_int, 1))
attempt("cqn empty symbol", lambda: _compute_qn(in_int, [], prim_int, 1))
attempt("cqn k0", lambda: _compute_qn(in_int, [1, 2], prim_int, 0))
prim_f = [DummyOp(0.1), DummyOp(0.2), DummyOp(0.3)]
in_f = [[[OpTuple([0], qn=0.1, factor=1)]], [[OpTuple([0], qn=0.2, factor=1)]], [[OpTuple([0], qn=0.3, factor=1)]]]
attempt("cqn float", lambda: _compute_qn(in_f, [0, 0, 0, 0, 1, 2], prim_f, 3))
attempt("cqn float2", lambda: _compute_qn(in_f, [0, 0, 0, 2, 1, 0], prim_f, 3))
prim_fa = [DummyOp(np.array([0.5, 1.5])), DummyOp(np.array([1, 2]))]
in_ia = [[[OpTuple([0], qn=np.array([1, 1]), factor=1)]]]
attempt("cqn int+=float", lambda: _compute_qn(in_ia, [0, 0], prim_fa, 1))  # casting error of the in-place add
attempt("cqn int+=int", lambda: _compute_qn(in_ia, [0, 1], prim_fa, 1))
attempt("cqn bad index", lambda: _compute_qn(in_ia, [3, 1], prim_fa, 1))
attempt("cqn shape mismatch", lambda: _compute_qn(in_ia, [0, 0], [DummyOp(np.array([1, 2, 3]))], 1))

# ---------------------------------------------------------------------------
out("=== _compute_qn through the MPO builders")


def holstein_like_terms(nmol, r, cplx):
    terms = []
    for i in range(nmol):
        terms.append(Op(r"a^\dagger a", i, float(r.uniform(0.5, 1.5))))
        terms.append(Op(r"b^\dagger b", f"v{i}", float(r.uniform(0.5, 1.5))))
        terms.append(Op(r"a^\dagger a", i, 0.3) * Op(r"b^\dagger + b", f"v{i}", 1.0))
        for j in range(nmol):
            if i != j:
                f = float(r.uniform(-1, 1))
                if cplx:
                    f = f + 1j * float(r.uniform(-1, 1))
                terms.append(Op(r"a^\dagger a", [i, j], f))
    return terms


def digest_mpo(mpo):
    res = [("qntot", fmt(np.asarray(mpo.qntot))), ("qnidx", mpo.qnidx), ("dtype", str(mpo.dtype)),
           ("bond", list(mpo.bond_dims))]
    res.append(("qn", [np.asarray(q).tolist() for q in mpo.qn]))
    for outs in mpo.symbolic_out_ops_list:
        res.append(sorted(repr((tuple(int(t) for t in o.symbol), np.asarray(o.qn).tolist(), complex(np.round(o.factor, 9))))
                          for ops in outs for o in ops))
    res.append([digest_array(np.asarray(m)) for m in mpo])
    return res


for nmol, cplx in ((2, False), (3, True)):
    r = np.random.RandomState(nmol)
    bas = []
    for i in range(nmol):
        bas.append(ba.BasisSimpleElectron(i))
        bas.append(ba.BasisSHO(f"v{i}", 1.0, 3))
    terms = holstein_like_terms(nmol, r, cplx)
    model = Model(bas, terms)
    for algo in ("qr", "Hopcroft-Karp", "Hungarian"):
        attempt(f"mpo nmol={nmol} {algo}", lambda: digest_mpo(Mpo(model, algo=algo)))
    # operators that shift the quantum number, single term (shortcut) and several terms
    attempt(f"mpo nmol={nmol} a^dagger", lambda: digest_mpo(Mpo(model, Op(r"a^\dagger", 1, 2.0))))
    attempt(f"mpo nmol={nmol} a a", lambda: digest_mpo(Mpo(model, Op("a a", [0, 1], 1.0) + Op("a a", [1, 0], 0.5j), algo="qr")))
    attempt(f"mpo nmol={nmol} mixed", lambda: digest_mpo(Mpo(model, [Op("a", 0, 1.0), Op("a", 1, 1.0)], algo="Hopcroft-Karp")))
    attempt(f"mpo nmol={nmol} zero", lambda: digest_mpo(Mpo(model, [Op("a", 0, 0.0)])))
    attempt(f"mpo nmol={nmol} unknown", lambda: digest_mpo(Mpo(model, [Op("a", 99, 1.0)])))
    # apply to a state in the one-electron sector: sector moves exactly
    np.random.seed(11)
    mps = Mps.random(model, 1, 5)
    creat = Mpo(model, Op(r"a^\dagger", 0, 1.0))
    new = creat @ mps
    out("   apply", fmt(np.asarray(new.qntot)), [np.asarray(q).tolist() for q in new.qn])

# two-component quantum numbers
bas2 = []
for i in range(3):
    bas2.append(ba.BasisSimpleElectron(f"e{i}a", sigmaqn=[[0, 0], [1, 0]]))
    bas2.append(ba.BasisSimpleElectron(f"e{i}b", sigmaqn=[[0, 0], [0, 1]]))
t2 = []
r = np.random.RandomState(5)
for i in range(3):
    for j in range(3):
        for sp, q in (("a", [[1, 0], [-1, 0]]), ("b", [[0, 1], [0, -1]])):
            t2.append(Op(r"a^\dagger a", [f"e{i}{sp}", f"e{j}{sp}"], float(r.uniform(-1, 1)), qn=q))
model2c = Model(bas2, t2)
for algo in ("qr", "Hopcroft-Karp"):
    attempt(f"mpo 2comp {algo}", lambda: digest_mpo(Mpo(model2c, algo=algo)))
attempt("mpo 2comp shift", lambda: digest_mpo(Mpo(model2c, Op(r"a^\dagger a^\dagger", ["e0a", "e2b"], 1.0, qn=[[1, 0], [0, 1]]))))
attempt("mpo 2comp shift2", lambda: digest_mpo(Mpo(model2c, [Op(r"a^\dagger a^\dagger", ["e0a", "e2b"], 1.0, qn=[[1, 0], [0, 1]]),
                                                           Op(r"a^\dagger a^\dagger", ["e1a", "e2b"], 0.5, qn=[[1, 0], [0, 1]])])))

# swap_site (dummy primary operators with negative qn)
mpo_sw = Mpo(Model(bas2, t2), algo="Hopcroft-Karp")
for i in (0, 1):
    def _swap():
        res = smpo.swap_site(mpo_sw.symbolic_out_ops_list[i:i + 3], list(mpo_sw.primary_ops), False)
        return [np.asarray(q).tolist() for q in res[4]], [len(o) for o in res[0]], [len(o) for o in res[1]]
    attempt(f"swap_site {i}", _swap)

# ---------------------------------------------------------------------------
out("=== _compute_qn through the tree builder (several incoming bonds)")
try:
    from renormalizer.tn import BasisTree, TTNO, TTNS
    from renormalizer.tn.symbolic_ttno import construct_symbolic_ttno

    bas_t = [ba.BasisSimpleElectron(i) for i in range(5)] + [ba.BasisSHO("v", 1.0, 2)]
    r = np.random.RandomState(3)
    terms_t = [Op(r"a^\dagger a", [i, j], float(r.uniform(-1, 1))) for i in range(5) for j in range(5)]
    terms_t.append(Op(r"a^\dagger a", 2) * Op("x", "v", 0.3))
    for name, tree in (("binary", BasisTree.binary(bas_t)), ("linear", BasisTree.linear(bas_t)),
                       ("ternary", BasisTree.ternary_mctdh(bas_t))):
        for algo in ("qr", "Hopcroft-Karp"):
            def _build():
                mpo, mpoqn = construct_symbolic_ttno(tree, terms_t, algo=algo)
                return [np.asarray(q).tolist() for q in mpoqn], [m.shape for m in mpo]
            attempt(f"ttno {name} {algo}", _build)
        def _shift():
            mpo, mpoqn = construct_symbolic_ttno(tree, [Op(r"a^\dagger", 3, 1.0), Op(r"a^\dagger", 0, 2.0)], algo="Hopcroft-Karp")
            return [np.asarray(q).tolist() for q in mpoqn]
        attempt(f"ttno {name} shift", _shift)
    tree = BasisTree.binary(bas_t)
    ttno = TTNO(tree, terms_t)
    np.random.seed(4)
    ttns = TTNS.random(tree, 2, 6)
    out("ttno dense", digest_array(ttno.todense()))
    out("ttns expectation", round(float(np.real(ttns.expectation(ttno))), 9), fmt(np.asarray(ttns.qntot)))
except Exception as e:  # noqa
    out("tn part failed", type(e).__name__, str(e))

out("done")
