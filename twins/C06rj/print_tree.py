# stub of the third-party module `print_tree` (not installed here); only needed to import renormalizer.tn
class print_tree:
    def __init__(self, *args, **kwargs):
        pass
