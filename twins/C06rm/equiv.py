import hashlib
import numpy as np

from renormalizer.model import Model, Op
from renormalizer.model import basis as ba
from renormalizer.mps import Mps
from renormalizer.mps.svd_qn import add_outer, get_qn_mask


def dig(a):
    a = np.asarray(a)
    if a.dtype.kind in "fc":
        a = np.round(a, 8) + 0.0
    h = hashlib.md5(np.ascontiguousarray(a).tobytes()).hexdigest()[:12]
    return f"{a.dtype}{a.shape}{a.strides}:{h}"


def show(tag, *vals):
    print(tag, *vals)


def mps_digest(tag, mps):
    show(tag, "qntot", dig(mps.qntot), type(mps.qntot).__name__, "qnidx", mps.qnidx,
         "to_right", mps.to_right, "len", len(mps))
    for i, mt in enumerate(mps):
        show(tag, "mt", i, dig(mt.array))
    for i, q in enumerate(mps.qn):
        show(tag, "qn", i, type(q).__name__, dig(q), np.asarray(q).tolist())


# ---------------- add_outer / get_qn_mask
rng = np.random.RandomState(7)
cases = [
    (rng.randint(-2, 3, (4, 1)), rng.randint(-2, 3, (3, 1))),
    (rng.randint(-2, 3, (4, 2)), rng.randint(-2, 3, (3, 2))),
    (rng.randint(-2, 3, (2, 3, 2)), rng.randint(-2, 3, (5, 2))),
    (rng.randint(-2, 3, (1, 3)), rng.randint(-2, 3, (2, 2, 3))),
    (rng.randint(-2, 3, (2,)), rng.randint(-2, 3, (2,))),
    (rng.randint(-2, 3, (2,)), rng.randint(-2, 3, (4, 2))),
    (np.zeros((0, 2), dtype=int), rng.randint(-2, 3, (3, 2))),
    (np.zeros((3, 0), dtype=int), np.zeros((2, 0), dtype=int)),
    (rng.rand(3, 2), rng.randint(0, 2, (2, 2))),
    (rng.rand(3, 2) + 1j * rng.rand(3, 2), rng.rand(2, 2)),
]
for k, (a, b) in enumerate(cases):
    a0, b0 = a.copy(), b.copy()
    try:
        out = add_outer(a, b)
        show("add_outer", k, dig(out), out.flags["C_CONTIGUOUS"], out.flags["OWNDATA"],
             dig(out.reshape(-1, a.shape[-1])) if a.shape[-1] else "-")
        for tot in ([0] * a.shape[-1], [1] * a.shape[-1], tuple([2] * a.shape[-1]), np.array([-1] * a.shape[-1])):
            m = get_qn_mask(out, tot)
            show("  mask", dig(m), int(np.sum(m)))
    except Exception as e:
        show("add_outer", k, "EXC", type(e).__name__, str(e)[:80])
    assert np.array_equal(a, a0) and np.array_equal(b, b0)
for a, b in [(np.zeros((2, 2), int), np.zeros((2, 3), int)), (np.zeros((2, 2), int), [[0, 1]])]:
    try:
        show("add_outer-bad", dig(add_outer(a, b)))
    except Exception as e:
        show("add_outer-bad", "EXC", type(e).__name__, str(e)[:80])
show("mask-scalar", dig(get_qn_mask(np.array([[0], [1], [2]]), 1)), dig(get_qn_mask(np.array([[0], [1], [2]]), [1])))
show("mask-list", dig(get_qn_mask([[0, 1], [1, 1]], (1, 1))))


# ---------------- models
def holstein(nmol, nph, nlev=3):
    basis = []
    for i in range(nmol):
        basis.append(ba.BasisSimpleElectron(f"e_{i}"))
        for j in range(nph):
            basis.append(ba.BasisSHO(f"v_{i}_{j}", omega=0.1 * (j + 1), nbas=nlev))
    ham = [Op(r"a^\dagger a", [f"e_{i}", f"e_{(i + 1) % nmol}"], 0.1) for i in range(nmol)]
    ham += [Op(r"b^\dagger b", f"v_{i}_{j}", 0.1) for i in range(nmol) for j in range(nph)]
    return Model(basis, ham)


def two_comp(n):
    basis = []
    for i in range(n):
        sq = np.array([[0, 0], [1, 0]]) if i % 2 == 0 else np.array([[0, 0], [0, 1]])
        basis.append(ba.BasisHalfSpin(i, sigmaqn=sq))
    ham = [Op("sigma_z", i, 1.0) for i in range(n)]
    return Model(basis, ham)


def multi_e():
    basis = [ba.BasisSHO("v0", omega=1.0, nbas=3), ba.BasisMultiElectron(["e_0", "e_1", "e_2"], [0, 1, 1]),
             ba.BasisSHO("v1", omega=1.0, nbas=2), ba.BasisMultiElectronVac(["f_0", "f_1"])]
    ham = [Op(r"a^\dagger a", ["e_1", "e_1"], 1.0), Op(r"b^\dagger b", "v0", 1.0)]
    return Model(basis, ham)


m_h = holstein(3, 1)
m_h2 = holstein(4, 0)
m_2c = two_comp(6)
m_me = multi_e()
m_one = Model([ba.BasisSimpleElectron("e")], [Op(r"a^\dagger a", "e", 1.0)])

# ---------------- Mps.random
rand_cases = [
    ("h-1", m_h, 1, 5, 1.0), ("h-0", m_h, 0, 4, 0.5), ("h-3full", m_h, 3, 6, 1.0), ("h-2arr", m_h, np.array([2]), 3, 0.0),
    ("h-list", m_h, 1, [1, 2, 3, 4, 3, 2, 1], 1.0), ("h-tuple", m_h, 2, (1, 2, 4, 4, 4, 2, 1), 0.3),
    ("h-nparr", m_h, 1, np.array([1, 2, 3, 4, 3, 2, 1]), 1.0),
    ("h2-4full", m_h2, 4, 8, 1.0), ("h2-2", m_h2, 2, 8, 1.0), ("h2-toobig", m_h2, 7, 4, 1.0), ("h2-neg", m_h2, -1, 4, 1.0),
    ("2c-11", m_2c, np.array([1, 1]), 6, 1.0), ("2c-30", m_2c, [3, 0], 6, 1.0), ("2c-33full", m_2c, np.array([3, 3]), 5, 0.7),
    ("2c-02", m_2c, np.array([0, 2]), [1, 2, 2, 3, 2, 2, 1], 1.0),
    ("me-1", m_me, 1, 4, 1.0), ("me-2", m_me, 2, 4, 1.0), ("one-1", m_one, 1, 4, 1.0), ("one-0", m_one, 0, 4, 1.0),
    ("h-shortlist", m_h, 1, [1, 2], 1.0), ("h-badqnsize", m_h, np.array([1, 1]), 3, 1.0),
]
for tag, model, qntot, m_max, percent in rand_cases:
    np.random.seed(1234)
    qn_in = qntot.copy() if isinstance(qntot, np.ndarray) else qntot
    try:
        mps = Mps.random(model, qntot, m_max, percent)
        mps_digest("random " + tag, mps)
        show("random " + tag, "alias", mps.qntot is qntot, "norm", round(float(mps.norm), 8))
        for sub in ([0] * model.qn_size, ):
            pass
    except Exception as e:
        show("random " + tag, "EXC", type(e).__name__, str(e)[:80])
    show("random " + tag, "rng-after", round(float(np.random.random()), 10), repr(qn_in), repr(qntot))

# ---------------- hartree_product_state + move_qnidx
hps_cases = [
    ("h-none", m_h, None, None), ("h-empty", m_h, {}, 0), ("h-e1", m_h, {"e_1": 1}, None), ("h-e1q2", m_h, {"e_1": 1, "v_0_0": 2}, 2),
    ("h-all", m_h, {"e_0": 1, "e_1": 1, "e_2": 1}, 3), ("h-vec", m_h, {"e_0": [0, 1.0], "v_1_0": [0.6, 0.0, 0.8]}, 5),
    ("h-arrvec", m_h, {"e_2": np.array([0.0, 1.0]), "v_2_0": np.array([0.5, 0.5, 0.5])}, 1),
    ("h-mixed", m_h, {"e_0": [0.7, 0.7]}, None), ("h-badlen", m_h, {"e_0": [0.7, 0.7, 0.1]}, None),
    ("h-npint", m_h, {"e_0": np.int64(1)}, None), ("h-bool", m_h, {"e_0": True}, None), ("h-zero-vec", m_h, {"e_0": [0, 0]}, None),
    ("h-oob", m_h, {"e_0": 5}, None), ("h-negidx", m_h, {"e_0": -1}, 0), ("h-unknown", m_h, {"zzz": 1}, None),
    ("h-qn6", m_h, {"e_0": 1}, 6), ("h-qnneg", m_h, {"e_0": 1}, -1),
    ("2c-a", m_2c, {0: 1, 1: 1, 3: 1}, None), ("2c-b", m_2c, {0: [0, 1], 1: [0, 2.0], 4: 1}, 2), ("2c-all", m_2c, {i: 1 for i in range(6)}, 0),
    ("2c-mixed", m_2c, {1: [1, 1]}, None),
    ("me-e2", m_me, {"e_0": 2, "f_0": 1}, 1), ("me-dup", m_me, {"e_0": 1, "e_1": 2}, None), ("me-vec", m_me, {"e_1": [0, 0.6, 0.8], "v1": 1}, None),
    ("one", m_one, {"e": 1}, None), ("one0", m_one, None, 0),
]
for tag, model, cond, qn_idx in hps_cases:
    cond_in = None if cond is None else dict(cond)
    try:
        mps = Mps.hartree_product_state(model, cond, qn_idx)
        mps_digest("hps " + tag, mps)
        for dst in list(range(len(mps) + 1)) + [2 % (len(mps) + 1), 0, len(mps) - 1]:
            old = list(mps.qn)
            mps.move_qnidx(dst)
            show("hps " + tag, "move", dst, mps.qnidx, [np.asarray(q).tolist() for q in mps.qn],
                 [type(q).__name__ for q in mps.qn], [a is b for a, b in zip(old, mps.qn)])
    except Exception as e:
        show("hps " + tag, "EXC", type(e).__name__, str(e)[:80])
    show("hps " + tag, "cond-after", repr(cond), cond_in is None or sorted(map(str, cond_in)) == sorted(map(str, cond_in)))

# move_qnidx on random / compressed / complex states, odd destinations, list-valued qn
np.random.seed(99)
mps = Mps.random(m_2c, np.array([2, 1]), 5, 1.0)
mps = (mps * (0.3 + 0.4j)).canonicalise()
mps_digest("canon", mps)
for dst in [0, 3, 3, 5, 1, 6, 2, -1, 4, 7, 2]:
    try:
        mps.move_qnidx(dst)
        show("canon move", dst, mps.qnidx, [np.asarray(q).tolist() for q in mps.qn])
    except Exception as e:
        show("canon move", dst, "EXC", type(e).__name__, str(e)[:80], mps.qnidx, [np.asarray(q).tolist() for q in mps.qn])
mps = Mps.random(m_h2, 2, 4, 1.0)
mps.qn = [np.asarray(q).tolist() for q in mps.qn]
for dst in [1, 0, 3, 2]:
    mps.move_qnidx(dst)
    show("listqn move", dst, mps.qnidx, [type(q).__name__ for q in mps.qn], [np.asarray(q).tolist() for q in mps.qn])
mps = Mps.random(m_h2, 2, 4, 1.0)
mps.qn = mps.qn[:3]
try:
    mps.move_qnidx(0)
    show("shortqn", "ok")
except Exception as e:
    show("shortqn", "EXC", type(e).__name__, str(e)[:60], mps.qnidx, [np.asarray(q).tolist() for q in mps.qn])
# non-integer destination: the first half of the move happens, then TypeError
for bad in [None, 2.0, "1"]:
    mps = Mps.hartree_product_state(m_2c, {0: 1, 3: 1}, 2)
    try:
        mps.move_qnidx(bad)
        show("baddst", repr(bad), "ok", mps.qnidx)
    except Exception as e:
        show("baddst", repr(bad), "EXC", type(e).__name__, str(e)[:60], mps.qnidx, [np.asarray(q).tolist() for q in mps.qn])
mps = Mps.hartree_product_state(m_2c, {0: 1, 3: 1}, 2)
mps.qnidx = None
try:
    mps.move_qnidx(1)
except Exception as e:
    show("noneqnidx", "EXC", type(e).__name__, str(e)[:60], mps.qnidx, [np.asarray(q).tolist() for q in mps.qn])
