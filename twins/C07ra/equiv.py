"""Equivalence digest for the C07 refactoring (expectation / expectations /
_get_freq_environ / calc_entropy and helpers)."""
import numpy as np

from renormalizer.model import Model
from renormalizer.model.basis import BasisSHO, BasisSimpleElectron, BasisHalfSpin, BasisMultiElectron
from renormalizer.model.op import Op, OpSum
from renormalizer.mps import Mps, Mpo, MpDm
from renormalizer.mps import mps as mps_module
from renormalizer.mps.backend import xp

np.set_printoptions(precision=8, suppress=True, linewidth=200)


def fmt(x):
    if isinstance(x, dict):
        return "{" + ", ".join(f"{k!r}: {fmt(v)}" for k, v in sorted(x.items(), key=lambda kv: repr(kv[0]))) + "}"
    if isinstance(x, (float, complex, int)) and not isinstance(x, bool):
        # absolute rounding: values at the 1e-17 level are BLAS noise that varies from run to run
        c = complex(x)
        return f"{type(x).__name__}({round(c.real, 8) + 0.0:.8f},{round(c.imag, 8) + 0.0:.8f})"
    a = np.asarray(x)
    r = np.round(a, 8) + 0.0  # kill -0.
    return f"{type(x).__name__}:{a.dtype}:{a.shape}:{r.tolist()}"


def out(tag, val):
    print(tag, "=>", fmt(val))


def attempt(tag, fn):
    try:
        out(tag, fn())
    except Exception as e:  # noqa
        print(tag, "=> EXC", type(e).__name__, str(e)[:80])


def holstein(nmol=3, nph=2):
    basis = []
    for i in range(nmol):
        basis.append(BasisSimpleElectron(i))
        for j in range(nph):
            basis.append(BasisSHO((i, j), 1.0 + 0.3 * j, 3))
    ham = OpSum()
    for i in range(nmol):
        ham += Op(r"a^\dagger a", i, 0.5 * i)
        for j in range(nph):
            ham += Op(r"b^\dagger b", (i, j), 1.0 + 0.3 * j)
            ham += Op(r"a^\dagger a", i, 0.4) * Op(r"b^\dagger+b", (i, j))
    for i in range(nmol - 1):
        ham += Op(r"a^\dagger a", [i, i + 1], 0.2)
        ham += Op(r"a^\dagger a", [i + 1, i], 0.2)
    return Model(basis, ham)


def complexify(mps, seed):
    rng = np.random.RandomState(seed)
    mps = mps.to_complex()
    for i in range(len(mps)):
        a = mps[i].array
        mask = a != 0
        phase = np.exp(1j * rng.uniform(0, 2 * np.pi, size=a.shape))
        mps[i] = np.where(mask, a * phase, 0)
    return mps


def op_lists(model):
    n = len(model.e_dofs)
    lists = {}
    lists["empty"] = []
    lists["single"] = [Mpo(model, Op(r"a^\dagger a", 0))]
    lists["onsite"] = [Mpo(model, Op(r"a^\dagger a", i)) for i in range(n)]
    lists["identical"] = [Mpo(model, Op(r"a^\dagger a", 1))] * 3 + [Mpo(model, Op(r"a^\dagger a", 1))]
    lists["inter"] = [Mpo(model, Op(r"a^\dagger a", [i, i + 1])) for i in range(n - 1)] + \
                     [Mpo(model, Op(r"a^\dagger a", [i + 1, i])) for i in range(n - 1)]
    lists["mixed_sym"] = [Op(r"a^\dagger a", 0), Op(r"a^\dagger a", 1) + Op(r"b^\dagger b", (0, 0), 0.5),
                          Mpo(model, Op(r"b^\dagger+b", (1, 1))), Op(r"b^\dagger b", (2, 0))]
    lists["complex_ops"] = [Mpo(model, Op(r"a^\dagger a", [0, 1], 1j)),
                            Mpo(model, Op(r"a^\dagger a", 0, 0.3 + 0.7j)),
                            Mpo(model, Op(r"a^\dagger a", [0, 1], 1j)),
                            Mpo(model, Op(r"b^\dagger b", (0, 1), 2 - 1j))]
    lists["reversed_inter"] = lists["inter"][::-1]
    lists["ham"] = [Mpo(model), Mpo(model, Op(r"a^\dagger a", 2)), Mpo(model)]
    return lists


def states(model):
    res = {}
    np.random.seed(11)
    a = Mps.random(model, 1, 8)
    res["real_rand"] = a
    np.random.seed(12)
    b = Mps.random(model, 1, 5)
    res["real_rand2_unnorm"] = b.scale(1.7)
    c = complexify(a.copy(), 3)
    res["cplx"] = c
    d = a.copy()
    d.canonicalise()
    res["real_cano"] = d
    e = complexify(b.copy(), 4)
    e.ensure_left_canonical()
    res["cplx_leftcano"] = e
    res["hartree"] = Mps.hartree_product_state(model, condition={1: 1})
    return res


def freq_environ_checks(model, sts, lists):
    # direct exercise of the module level helpers
    mps = sts["cplx"]
    conj = mps.conj()
    for lname in ["onsite", "identical", "inter", "complex_ops", "single", "empty"]:
        mpos = lists[lname]
        hash_to_obj = {}
        mpos_hash = []
        for mpo in mpos:
            hs = []
            for m in mpo:
                hash_to_obj.setdefault(hash(m), m)
                hs.append(hash(m))
            mpos_hash.append(hs)
        for domain in ["L", "R"]:
            env = mps_module._construct_freq_environ(mpos_hash, hash_to_obj, mps, domain, conj)
            # keys are process dependent hashes: digest by length / shape / value
            dig = sorted((len(k), tuple(v.shape), round(float(abs(np.asarray(v)).sum()), 8)) for k, v in env.items())
            print("freq", lname, domain, "=>", dig)
            for impo, mpo in enumerate(mpos):
                for max_length in [np.inf, 0, 1, 2, len(mpo) - 1, len(mpo)]:
                    t, i = mps_module._get_freq_environ(env, mpo, domain, max_length)
                    print("get", lname, domain, impo, max_length, "=>", i, tuple(t.shape),
                          fmt(np.asarray(t).ravel()[:4]))
        try:
            mps_module._get_freq_environ({(): xp.ones((1, 1, 1))}, mpos[0] if mpos else [], "X", 1)
        except AssertionError:
            print("get bad domain => AssertionError")


def main():
    model = holstein()
    sts = states(model)
    lists = op_lists(model)
    names = list(sts)

    # --- expectation: self / transition amplitudes, MPO / Op / OpSum
    for sname, st in sts.items():
        out(f"exp ham {sname}", st.expectation(Mpo(model)))
        out(f"exp Op {sname}", st.expectation(Op(r"a^\dagger a", 1)))
        out(f"exp OpSum {sname}", st.expectation(Op(r"a^\dagger a", 1) + Op(r"b^\dagger+b", (1, 0), 0.3)))
        out(f"exp cplxop {sname}", st.expectation(Mpo(model, Op(r"a^\dagger a", [0, 1], 1j))))
        out(f"exp antiherm {sname}", st.expectation(Mpo(model, Op(r"a^\dagger a", 0, 1j))))
    for s1 in names:
        for s2 in names:
            if s1 == s2:
                continue
            bra = sts[s2].conj()
            out(f"trans {s1}|{s2}", sts[s1].expectation(Mpo(model, Op(r"a^\dagger a", [0, 1])), bra))
            out(f"trans kw {s1}|{s2}", sts[s1].expectation(Op(r"b^\dagger+b", (0, 0)), self_conj=bra))
    attempt("exp bad type", lambda: sts["cplx"].expectation("abc"))

    # --- expectations: every list, opt / naive, with / without bra
    for sname, st in sts.items():
        for lname, lst in lists.items():
            attempt(f"exps {sname} {lname}", lambda: st.expectations(lst))
            attempt(f"exps naive {sname} {lname}", lambda: st.expectations(lst, opt=False))
            attempt(f"exps tuple {sname} {lname}", lambda: st.expectations(tuple(lst)))
    for s1, s2 in [("real_rand", "real_rand2_unnorm"), ("cplx", "real_cano"), ("real_cano", "cplx_leftcano"),
                   ("cplx", "cplx_leftcano")]:
        bra = sts[s2].conj()
        for lname, lst in lists.items():
            attempt(f"exps bra {s1}|{s2} {lname}", lambda: sts[s1].expectations(lst, bra))
            attempt(f"exps bra naive {s1}|{s2} {lname}", lambda: sts[s1].expectations(lst, self_conj=bra, opt=False))
    # input list must not be mutated
    lst = list(lists["mixed_sym"])
    ids = [id(x) for x in lst]
    sts["cplx"].expectations(lst)
    print("list untouched =>", ids == [id(x) for x in lst], [type(x).__name__ for x in lst])
    attempt("exps bad element", lambda: sts["cplx"].expectations([Mpo(model, Op(r"a^\dagger a", 0)), 3]))

    # --- occupations / edof rdm (go through expectations)
    for sname, st in sts.items():
        out(f"e_occ {sname}", st.e_occupations)
        out(f"ph_occ {sname}", st.ph_occupations)
        out(f"edof_rdm {sname}", st.calc_edof_rdm())

    # --- density operator form
    np.random.seed(5)
    mpdm = MpDm.max_entangled_ex(model)
    out("mpdm exp", mpdm.expectation(Mpo(model)))
    out("mpdm e_occ", mpdm.e_occupations)
    for lname in ["onsite", "inter", "complex_ops", "mixed_sym", "empty"]:
        attempt(f"mpdm exps {lname}", lambda: mpdm.expectations(lists[lname]))
        attempt(f"mpdm exps naive {lname}", lambda: mpdm.expectations(lists[lname], opt=False))
    mpdm2 = MpDm.from_mps(sts["cplx"])
    out("mpdm2 exp", mpdm2.expectation(Mpo(model, Op(r"a^\dagger a", [0, 1], 1j))))
    attempt("mpdm2 exps", lambda: mpdm2.expectations(lists["complex_ops"]))

    # --- entropies
    small = Model([BasisHalfSpin(i) for i in range(4)] , OpSum([Op("Z", 0)]))
    np.random.seed(21)
    sp = Mps.random(small, 0, 6)
    sp.canonicalise().normalize("mps_only")
    spc = complexify(sp.copy(), 8)
    me = Model([BasisMultiElectron([0, 1, 2], [1, 1, 1]), BasisSHO("v0", 1, 3), BasisSHO("v1", 1.2, 3)], [])
    np.random.seed(22)
    mes = Mps.random(me, 1, 6)
    mes.canonicalise().normalize("mps_only")
    ent_states = {"spin_real": sp, "spin_cplx": spc, "multi_e": mes,
                  "hol_cano": sts["real_cano"].copy().normalize("mps_only"),
                  "hol_unnorm": sts["real_rand2_unnorm"]}
    for sname, st in ent_states.items():
        for et in ["1site", "2site", "mutual", "bond"]:
            attempt(f"entropy {sname} {et}", lambda: st.calc_entropy(et))
        for bad in ["3site", "", None, 1, ("1site",), "BOND"]:
            attempt(f"entropy {sname} bad {bad!r}", lambda: st.calc_entropy(bad))
        attempt(f"mutual direct {sname}", st.calc_2site_mutual_entropy)
        attempt(f"bond direct {sname}", st.calc_bond_entropy)
        attempt(f"edof_rdm {sname}", st.calc_edof_rdm)
        attempt(f"e_occ {sname}", lambda: st.e_occupations)

    class OddStr(str):
        pass

    attempt("entropy str subclass", lambda: sp.calc_entropy(OddStr("bond")))
    attempt("entropy str subclass 1site", lambda: sp.calc_entropy(OddStr("1site")))

    freq_environ_checks(model, sts, lists)


if __name__ == "__main__":
    main()
