"""Equivalence check for the C07rc refactoring.

Exercises Mps.calc_1site_rdm, Mps.calc_2site_rdm, Mps.calc_edof_rdm and
renormalizer.mps.mps._construct_freq_environ (directly and through
Mps.expectations) and prints a deterministic digest.
"""
import numpy as np

from renormalizer.model import Model, Op
from renormalizer.model.basis import (
    BasisSHO,
    BasisSimpleElectron,
    BasisMultiElectron,
    BasisMultiElectronVac,
    BasisHalfSpin,
)
from renormalizer.mps import Mps, Mpo, MpDm
from renormalizer.mps import mps as mps_module
from renormalizer.tests import parameter

ND = 8


def fmt_arr(a):
    a = np.asarray(a)
    if np.iscomplexobj(a):
        flat = [f"{np.round(x.real, ND) + 0.0:.{ND}f}{np.round(x.imag, ND) + 0.0:+.{ND}f}j" for x in a.ravel()]
    else:
        flat = [f"{np.round(float(x), ND) + 0.0:.{ND}f}" for x in a.ravel()]
    return f"{a.dtype} {a.shape} [" + " ".join(flat) + "]"


def show(tag, value):
    if isinstance(value, dict):
        print(tag, "dict keys(in order):", list(value.keys()))
        for k, v in value.items():
            print("   ", k, fmt_arr(v))
    else:
        print(tag, fmt_arr(value))


def attempt(tag, fun):
    try:
        res = fun()
    except BaseException as e:  # noqa
        print(tag, "RAISED", type(e).__name__, str(e)[:80])
        return None
    show(tag, res)
    return res


def randomise(mp, rng, cplx):
    """replace every local tensor by a random (non-canonical) tensor"""
    for i in range(len(mp)):
        shape = mp[i].shape
        arr = rng.standard_normal(shape)
        if cplx:
            arr = arr + 1j * rng.standard_normal(shape)
        mp[i] = arr / np.sqrt(arr.size) * 2
    return mp


def states(model, seed, qntot=1, m=4):
    np.random.seed(seed)
    rng = np.random.default_rng(seed)
    out = {}
    s = Mps.random(model, qntot, m)
    out["real_qn"] = s
    c = Mps.random(model, qntot, m).to_complex()
    c.coeff = 0.7 - 0.3j
    out["complex_qn_coeff"] = c
    out["real_generic"] = randomise(Mps.random(model, qntot, m), rng, False)
    out["complex_generic"] = randomise(Mps.random(model, qntot, m).to_complex(), rng, True)
    canon = Mps.random(model, qntot, m)
    if model.nsite > 1:  # canonicalise does not support a single site
        canon.canonicalise().normalize("mps_only")
    out["canonical"] = canon
    dm = MpDm.from_mps(Mps.random(model, qntot, 3))
    out["mpdm_real"] = randomise(dm, rng, False)
    dmc = MpDm.from_mps(Mps.random(model, qntot, 3)).to_complex()
    out["mpdm_complex"] = randomise(dmc, rng, True)
    return out


def check_rdms(name, model, seed, qntot=1):
    for sname, st in states(model, seed, qntot).items():
        tag = f"[{name}/{sname}]"
        nsite = st.site_num
        attempt(tag + " 1rdm all", lambda: st.calc_1site_rdm())
        attempt(tag + " 1rdm int0", lambda: st.calc_1site_rdm(0))
        attempt(tag + " 1rdm int last", lambda: st.calc_1site_rdm(idx=nsite - 1))
        attempt(tag + " 1rdm list", lambda: st.calc_1site_rdm([nsite - 1, 0, 0]))
        attempt(tag + " 1rdm tuple", lambda: st.calc_1site_rdm((1,)))
        attempt(tag + " 1rdm empty", lambda: st.calc_1site_rdm([]))
        attempt(tag + " 1rdm out-of-range", lambda: st.calc_1site_rdm([nsite + 3, -1]))
        attempt(tag + " 2rdm", lambda: st.calc_2site_rdm())
    # unusual idx types, one state is enough
    attempt(f"[{name}] 1rdm bool", lambda: st.calc_1site_rdm(True))
    attempt(f"[{name}] 1rdm np.int64", lambda: st.calc_1site_rdm(np.int64(0)))
    attempt(f"[{name}] 1rdm ndarray", lambda: st.calc_1site_rdm(np.array([0, 1])))
    attempt(f"[{name}] 1rdm range", lambda: st.calc_1site_rdm(range(2)))
    attempt(f"[{name}] 1rdm str", lambda: st.calc_1site_rdm("0"))
    attempt(f"[{name}] 1rdm float", lambda: st.calc_1site_rdm(0.0))

    class MyList(list):
        pass

    attempt(f"[{name}] 1rdm list subclass", lambda: st.calc_1site_rdm(MyList([0])))
    idx_in = [1, 0]
    attempt(f"[{name}] 1rdm list kept", lambda: st.calc_1site_rdm(idx_in))
    print(f"[{name}] idx argument after call:", idx_in)


def check_edof(name, basis, seed, qntot=1):
    key = "edof_reduced_density_matrix"
    for sname in ["real_qn", "complex_qn_coeff", "real_generic", "complex_generic", "mpdm_complex"]:
        model = Model(basis, [])
        st = states(model, seed, qntot)[sname]
        model = st.model  # copies of a state may carry a copy of the model
        tag = f"[{name}/{sname}]"
        print(tag, "cached before:", key in model.mpos)
        attempt(tag + " edof rdm (build)", lambda: st.calc_edof_rdm())
        print(tag, "cached after:", key in model.mpos, "n mpos:", len(model.mpos[key]),
              "types:", sorted({type(m).__name__ for m in model.mpos[key]}))
        for k, mpo in enumerate(model.mpos[key]):
            print("    mpo", k, [fmt_arr(mo.array) for mo in mpo][:2], "bond", mpo.bond_dims)
        attempt(tag + " edof rdm (cached)", lambda: st.calc_edof_rdm())
        # tampered cache: too few and too many operators
        saved = model.mpos[key]
        model.mpos[key] = saved[:-1]
        attempt(tag + " edof rdm (short cache)", lambda: st.calc_edof_rdm())
        model.mpos[key] = saved + saved[:1]
        attempt(tag + " edof rdm (long cache)", lambda: st.calc_edof_rdm())
        model.mpos[key] = saved


class FakeMps:
    """mps of random rank-3 tensors addressed like an Mps"""

    def __init__(self, arrays):
        self.arrays = arrays

    def __len__(self):
        return len(self.arrays)

    def __getitem__(self, i):
        return self.arrays[i]


def check_construct(seed):
    rng = np.random.default_rng(seed)
    nsite, pdim, odim = 4, 2, 2
    for cplx in [False, True]:
        def rnd(*shape):
            a = rng.standard_normal(shape)
            if cplx:
                a = a + 1j * rng.standard_normal(shape)
            return a

        bdims = [1, 3, 2, 3, 1]
        ket = FakeMps([rnd(bdims[i], pdim, bdims[i + 1]) for i in range(nsite)])
        bra = FakeMps([rnd(bdims[i], pdim, bdims[i + 1]) for i in range(nsite)])
        # local operator pool; "hash" = small integers chosen by us (deterministic)
        obd = [1, odim, odim, odim, 1]
        pool = {}
        for site in range(nsite):
            for variant in range(3):
                pool[10 * site + variant] = rnd(obd[site], pdim, pdim, obd[site + 1])

        def seq(*variants):
            return [10 * s + v for s, v in enumerate(variants)]

        cases = {
            "empty": [],
            "one": [seq(0, 0, 0, 0)],
            "identical": [seq(0, 0, 0, 0)] * 3,
            "shared prefix": [seq(0, 0, 0, 0), seq(0, 0, 0, 1), seq(0, 0, 1, 1), seq(0, 1, 1, 1)],
            "shared suffix": [seq(0, 0, 0, 0), seq(1, 0, 0, 0), seq(1, 1, 0, 0), seq(2, 1, 1, 0)],
            "one site differs": [seq(0, 0, 0, 0), seq(0, 1, 0, 0), seq(0, 2, 0, 0), seq(0, 0, 0, 0)],
            "many (cap on number of cached)": [seq(a, b, c, d) for a in range(2) for b in range(3)
                                                for c in range(2) for d in range(2)],
            "ties": [seq(0, 0, 0, 0), seq(1, 1, 1, 1), seq(0, 0, 0, 0), seq(1, 1, 1, 1), seq(2, 2, 2, 2)],
        }
        for cname, mpos_hash in cases.items():
            for domain in ["L", "R"]:
                tag = f"[construct cplx={cplx} {cname} {domain}]"
                attempt(tag, lambda: mps_module._construct_freq_environ(
                    [list(h) for h in mpos_hash], dict(pool), ket, domain, bra))
        attempt("[construct bad domain]", lambda: mps_module._construct_freq_environ(
            [seq(0, 0, 0, 0)] * 2, dict(pool), ket, "X", bra))
        # a hash that is missing from hash_to_obj
        attempt("[construct missing hash]", lambda: mps_module._construct_freq_environ(
            [[0, 10, 20, 99]] * 2, dict(pool), ket, "R", bra))
        attempt("[construct missing hash L]", lambda: mps_module._construct_freq_environ(
            [[99, 10, 20, 30]] * 2, dict(pool), ket, "L", bra))
        # operators of different lengths / longer than the mps
        attempt("[construct short seqs L]", lambda: mps_module._construct_freq_environ(
            [[0, 10], [0, 10, 20], [0]], dict(pool), ket, "L", bra))
        attempt("[construct tuple seqs R]", lambda: mps_module._construct_freq_environ(
            [(0, 10, 20, 30), (1, 10, 20, 30)], dict(pool), ket, "R", bra))
        attempt("[construct tuple seqs L]", lambda: mps_module._construct_freq_environ(
            [(0, 10, 20, 30), (0, 10, 20, 31)], dict(pool), ket, "L", bra))


def check_expectations(seed):
    model = parameter.holstein_model
    sts = states(model, seed)
    n = model.mol_num
    op_lists = {
        "onsite": [Mpo.onsite(model, r"a^\dagger a", dof_set={i}) for i in range(n)],
        "intersite": [Mpo.intersite(model, {i: "a", i + 1: r"a^\dagger"}, {}) for i in range(n - 1)]
        + [Mpo.intersite(model, {i: "a"}, {}) for i in range(n - 1)],
        "ops": [Op("b^\\dagger b", (0, 0)), Op("b^\\dagger+b", (1, 1)), Op(r"a^\dagger a", 2),
                Op(r"a^\dagger a", 2), Op("b^\\dagger b", (0, 0)) * (1 + 2j)],
        "single": [Mpo.onsite(model, r"a^\dagger a", dof_set={1})],
        "empty": [],
    }
    names = list(sts)
    for sname in names:
        st = sts[sname]
        for lname, ops in op_lists.items():
            tag = f"[expectations {sname} {lname}]"
            attempt(tag + " opt", lambda: st.expectations(ops))
            attempt(tag + " naive", lambda: st.expectations(ops, opt=False))
            attempt(tag + " reversed", lambda: st.expectations(ops[::-1]))
        if not sname.startswith("mpdm"):
            other = sts["complex_generic" if sname != "complex_generic" else "real_generic"]
            attempt(f"[expectations {sname} bra!=ket]", lambda: st.expectations(op_lists["intersite"], other))
        attempt(f"[e_occ {sname}]", lambda: st.e_occupations)
        attempt(f"[ph_occ {sname}]", lambda: st.ph_occupations)
        attempt(f"[mutual {sname}]", lambda: st.calc_entropy("mutual"))
    for etype in ["1site", "2site", "bond"]:
        attempt(f"[entropy canonical {etype}]", lambda: sts["canonical"].calc_entropy(etype))


def main():
    check_rdms("holstein", parameter.holstein_model, 11)
    spin_model = Model([BasisHalfSpin(i) for i in range(5)], [])
    check_rdms("spin qn0", spin_model, 12, qntot=0)
    two_site = Model([BasisSimpleElectron(0), BasisSHO("v", 1.0, 3)], [])
    check_rdms("two sites", two_site, 13)
    one_site = Model([BasisMultiElectron(["a", "b", "c"], [1, 1, 1])], [])
    check_rdms("one site", one_site, 14)

    basis1 = []
    for i in range(3):
        basis1.append(BasisSimpleElectron(i))
        basis1.append(BasisSHO(f"v_{i}", 1, 2))
    check_edof("simple electron", basis1, 21)
    basis2 = [BasisMultiElectron(list(range(3)), [1, 1, 1])] + [BasisSHO(f"v_{i}", 1, 2) for i in range(2)]
    check_edof("multi electron", basis2, 22)
    basis3 = [BasisMultiElectronVac([0, 1]), BasisSHO("v0", 1, 2),
              BasisMultiElectronVac([2]), BasisSHO("v2", 1, 2)]
    check_edof("multi electron vac", basis3, 23)
    basis4 = [BasisSimpleElectron("e"), BasisSHO("v", 1, 3)]
    check_edof("single e dof", basis4, 24)
    basis5 = [BasisSHO("v", 1, 3), BasisSHO("w", 1, 3)]
    check_edof("no e dof", basis5, 25, qntot=0)

    check_construct(31)
    check_expectations(41)


if __name__ == "__main__":
    main()
