"""Equivalence digest for the C07 refactoring (Environ.GetLR, Mps.expectations,
Mps.calc_edof_rdm, Mps.calc_entropy)."""
import numpy as np

from renormalizer.model import Model, Op
from renormalizer.model.basis import BasisSHO, BasisSimpleElectron, BasisMultiElectronVac, BasisHalfSpin
from renormalizer.mps import Mps, Mpo, MpDm
from renormalizer.mps.lib import Environ
from renormalizer.tests import parameter

np.set_printoptions(precision=8, suppress=True, linewidth=200)


def fmt(x):
    a = np.asarray(x)
    if np.iscomplexobj(a):
        a = np.round(a.real, 8) + 1j * np.round(a.imag, 8) + (0.0 + 0.0j)
    else:
        a = np.round(a.astype(float), 8) + 0.0
    return f"{a.dtype} {a.shape} {a.ravel().tolist()}"


def show(tag, x):
    print(tag, fmt(x))


def show_exc(tag, f):
    try:
        r = f()
        print(tag, "OK", type(r).__name__, r if not isinstance(r, np.ndarray) else fmt(r))
    except BaseException as e:  # noqa
        print(tag, "EXC", type(e).__name__, str(e)[:120])


def make_model():
    basis = []
    for i in range(3):
        basis.append(BasisSimpleElectron(i))
        basis.append(BasisSHO(f"v_{i}", 1.0 + 0.1 * i, 3))
    return Model(basis, [])


def random_complex(model, qn, m, seed):
    np.random.seed(seed)
    mps = Mps.random(model, qn, m)
    mps = mps.to_complex()
    for i in range(len(mps)):
        arr = mps[i].array
        phase = np.exp(1j * np.random.random(arr.shape))
        mps[i] = arr * phase * (np.abs(arr) > 0)
    # keep quantum-number structure: multiply blocks by phases only
    return mps


def op_lists(model):
    n_e = 3
    lists = {}
    lists["empty"] = []
    lists["one"] = [Mpo(model, Op(r"a^\dagger a", 1))]
    lists["occ"] = [Mpo(model, Op(r"a^\dagger a", i)) for i in range(n_e)]
    lists["identical"] = [lists["occ"][0], lists["occ"][0], Mpo(model, Op(r"a^\dagger a", 0))]
    lists["hop"] = [Mpo(model, Op(r"a^\dagger a", [i, j])) for i in range(n_e) for j in range(n_e)]
    lists["ph"] = [Mpo(model, Op("b^\\dagger b", f"v_{i}")) for i in range(n_e)] + \
                  [Mpo(model, Op("x", f"v_{i}")) for i in range(n_e)]
    lists["cplx"] = [Mpo(model, Op(r"a^\dagger a", [0, 2], factor=0.3 + 0.7j)),
                     Mpo(model, Op(r"a^\dagger a", [2, 0], factor=-1.1j)),
                     Mpo(model, Op("x", "v_1", factor=2j))]
    lists["symbolic"] = [Op(r"a^\dagger a", 0), Op(r"a^\dagger a", 1) + Op("x", "v_0"), lists["occ"][2]]
    mixed = lists["hop"] + lists["ph"] + lists["cplx"]
    rng = np.random.RandomState(7)
    perm = rng.permutation(len(mixed))
    lists["shuffled"] = [mixed[i] for i in perm]
    lists["reversed"] = mixed[::-1]
    return lists


def check_expectations(model, states):
    lists = op_lists(model)
    for sname, (ket, bra) in states.items():
        for lname, ops in lists.items():
            for opt in (True, False):
                tag = f"expectations[{sname}][{lname}][opt={opt}]"
                try:
                    if bra is None:
                        r = ket.expectations(ops, opt=opt)
                    else:
                        r = ket.expectations(ops, bra, opt)
                    show(tag, r)
                except BaseException as e:  # noqa
                    print(tag, "EXC", type(e).__name__, str(e)[:120])


def check_getlr(model, states):
    mpo1 = Mpo(model, Op(r"a^\dagger a", [0, 2], factor=0.3 + 0.7j))
    mpo2 = Mpo(model, Op("x", "v_1"))
    ident = Mpo.identity(model)
    for sname, (ket, bra) in states.items():
        for mname, mpo in (("single", mpo1), ("list1", [mpo2]), ("list2", [mpo1, mpo2]), ("ident", ident)):
            if ket[0].ndim == 4 and mname.startswith("list") and False:
                continue
            for cname, conj in (("none", None), ("bra", bra if bra is not None else ket.conj())):
                for domain in ("L", "R"):
                    try:
                        env = Environ(ket, mpo, None, mps_conj=conj) if False else Environ(ket, mpo, domain=None, mps_conj=conj)
                    except BaseException as e:  # noqa
                        print(f"Environ[{sname}][{mname}][{cname}]", "EXC", type(e).__name__, str(e)[:100])
                        continue
                    n = len(ket)
                    for idx in (-2, -1, 0, 1, n // 2, n - 1, n, n + 3):
                        for method in ("Scratch", "Enviro", "System"):
                            tag = f"GetLR[{sname}][{mname}][{cname}][{domain}][{idx}][{method}]"
                            try:
                                r = env.GetLR(domain, idx, ket, mpo, itensor=None, method=method, mps_conj=conj)
                                show(tag, r)
                            except BaseException as e:  # noqa
                                print(tag, "EXC", type(e).__name__, str(e)[:100])
                    # system with an explicit itensor, then check what was written to the cache
                    for idx in (1, n - 2):
                        prev = idx - 1 if domain == "L" else idx + 1
                        it = env.GetLR(domain, prev, ket, mpo, method="Scratch", mps_conj=conj)
                        it = it * 2.0
                        tag = f"GetLR-itensor[{sname}][{mname}][{cname}][{domain}][{idx}]"
                        try:
                            r = env.GetLR(domain, idx, ket, mpo, it, "System", conj)
                            show(tag, r)
                            show(tag + " cache", env.read(domain, idx))
                            show(tag + " enviro", env.GetLR(domain, idx, ket, mpo, method="Enviro"))
                        except BaseException as e:  # noqa
                            print(tag, "EXC", type(e).__name__, str(e)[:100])
                    # state of the whole cache
                    keys = sorted(env._virtual_disk.keys())
                    print(f"disk[{sname}][{mname}][{cname}][{domain}]", keys,
                          [round(float(np.abs(env._virtual_disk[k]).sum()), 8) for k in keys])
        # invalid arguments
        env = Environ(ket, mpo1, "L")
        show_exc(f"GetLR-bad-domain[{sname}]", lambda: env.GetLR("X", 0, ket, mpo1))
        show_exc(f"GetLR-bad-method[{sname}]", lambda: env.GetLR("L", 0, ket, mpo1, method="foo"))
        show_exc(f"GetLR-missing-R[{sname}]", lambda: env.GetLR("R", 1, ket, mpo1, method="Enviro"))
        show_exc(f"GetLR-missing-R-sys[{sname}]", lambda: env.GetLR("R", 1, ket, mpo1, method="System"))
        show_exc(f"GetLR-short-conj[{sname}]", lambda: fmt(env.GetLR("L", 2, ket, mpo1, method="Scratch", mps_conj=[ket[0].conj()])))
        show_exc(f"GetLR-default[{sname}]", lambda: fmt(env.GetLR("R", 2, ket, mpo1)))


def check_edof_and_entropy(model_factory, states_factory):
    model = model_factory()
    states = states_factory(model)
    for sname, (ket, bra) in states.items():
        # twice: first call fills the model cache, second call reads it
        for rep in range(2):
            show_exc(f"edof_rdm[{sname}][{rep}]", ket.calc_edof_rdm)
        print(f"edof cache[{sname}]", len(model.mpos["edof_reduced_density_matrix"]),
              [m.__class__.__name__ for m in model.mpos["edof_reduced_density_matrix"]][:2])
        if ket[0].ndim == 3:
            for et in ("1site", "2site", "mutual", "bond", "foo", None, 1, ["1site"], ("bond",)):
                tag = f"entropy[{sname}][{et!r}]"
                try:
                    r = ket.calc_entropy(et)
                    if isinstance(r, dict):
                        print(tag, "dict", list(r.keys()), fmt([r[k] for k in r]))
                    else:
                        show(tag, r)
                except BaseException as e:  # noqa
                    print(tag, "EXC", type(e).__name__, str(e)[:100])
    # a cache that was pre-populated by somebody else is used as it is
    model2 = model_factory()
    model2.mpos["edof_reduced_density_matrix"] = [Mpo(model2, Op(r"a^\dagger a", [0, 1], factor=1j))] * 6 + \
                                                 [Mpo(model2, Op("x", "v_0"))]
    np.random.seed(3)
    m = Mps.random(model2, 1, 5)
    show_exc("edof_rdm[prepopulated]", m.calc_edof_rdm)
    model2.mpos["edof_reduced_density_matrix"] = model2.mpos["edof_reduced_density_matrix"][:4]
    show_exc("edof_rdm[short cache]", m.calc_edof_rdm)


def make_states(model):
    states = {}
    np.random.seed(11)
    a = Mps.random(model, 1, 6)
    np.random.seed(12)
    b = Mps.random(model, 1, 4)
    states["real"] = (a, None)
    states["real-bra"] = (a, b)
    c = random_complex(model, 1, 5, 21)
    d = random_complex(model, 1, 3, 22)
    states["cplx"] = (c, None)
    states["cplx-bra"] = (c, d)
    e = a.copy()
    e.canonicalise().normalize("mps_only")
    states["canon"] = (e, None)
    f = c.copy()
    f.ensure_left_canonical()
    f = f.scale(1.7 - 0.4j)
    states["cplx-left-unnorm"] = (f, None)
    g = MpDm.max_entangled_ex(model)
    states["mpdm"] = (g, None)
    np.random.seed(31)
    h = MpDm.from_mps(Mps.random(model, 1, 4))
    hc = h.to_complex()
    for i in range(len(hc)):
        arr = hc[i].array
        hc[i] = arr * np.exp(1j * np.random.random(arr.shape))
    states["mpdm-cplx"] = (hc, None)
    states["mpdm-bra"] = (hc, g.to_complex())
    return states


def make_model2():
    # two electrons (non-zero quantum number 2 is impossible for a^\dagger a rdm test, use qn=1 and 2 below)
    basis = [BasisMultiElectronVac([0, 1]), BasisSHO("v_0", 1, 2), BasisSimpleElectron(2), BasisSHO("v_1", 1.5, 3),
             BasisHalfSpin("s")]
    return Model(basis, [])


def make_states2(model):
    states = {}
    for qn in (0, 1, 2):
        np.random.seed(40 + qn)
        states[f"qn{qn}"] = (Mps.random(model, qn, 5), None)
    np.random.seed(50)
    s = Mps.random(model, 2, 4).to_complex()
    for i in range(len(s)):
        arr = s[i].array
        s[i] = arr * np.exp(1j * np.random.random(arr.shape))
    states["qn2-cplx"] = (s, None)
    return states


def main():
    model = make_model()
    states = make_states(model)
    check_expectations(model, states)
    small = {k: states[k] for k in ("real-bra", "cplx", "mpdm-cplx")}
    check_getlr(model, small)
    check_edof_and_entropy(make_model, make_states)
    check_edof_and_entropy(make_model2, make_states2)

    # occupations go through expectations
    for sname, (ket, _) in states.items():
        show(f"e_occ[{sname}]", ket.e_occupations)
        show(f"ph_occ[{sname}]", ket.ph_occupations)

    # the holstein model of the test-suite
    hm = parameter.holstein_model
    np.random.seed(5)
    r = Mps.random(hm, 1, 10)
    np.random.seed(6)
    r2 = Mps.random(hm, 1, 10)
    mpos = [Mpo.intersite(hm, {i: "a", i + 1: r"a^\dagger"}, {}) for i in range(hm.mol_num - 1)] + \
           [Mpo.intersite(hm, {i: "a"}, {}) for i in range(hm.mol_num - 1)] + \
           [Mpo.onsite(hm, r"a^\dagger a", dof_set={i}) for i in range(hm.mol_num)]
    show("holstein opt", r.expectations(mpos))
    show("holstein naive", r.expectations(mpos, opt=False))
    show("holstein bra opt", r.expectations(mpos, r2))
    show("holstein bra naive", r.expectations(mpos, self_conj=r2, opt=False))
    show("holstein edof", r.calc_edof_rdm())
    r.canonicalise().normalize("mps_only")
    for et in ("1site", "2site"):
        ent = r.calc_entropy(et)
        print("holstein entropy", et, list(ent.keys()), fmt(list(ent.values())))
    show("holstein mutual", r.calc_entropy("mutual"))
    show("holstein bond", r.calc_entropy("bond"))
    show("holstein bond s_array", r.calc_bond_entropy([np.array([1.0]), np.array([0.6, 0.8]), np.array([0.5, 0.5, 0.5, 0.5])]))


if __name__ == "__main__":
    main()
