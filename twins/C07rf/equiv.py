# Equivalence check for the C07rf refactoring:
#   Mps.expectation, Mps.calc_1site_rdm, Mps.calc_2site_rdm, transferMat (renormalizer/mps/mps.py)
# prints a deterministic digest of the results.
import os
import sys

if os.environ.get("PYTHONHASHSEED") != "0":
    # the symbolic MPO construction iterates over sets of strings: fix the hash seed so that
    # even the last bits of the results are reproducible from run to run
    os.environ["PYTHONHASHSEED"] = "0"
    os.execv(sys.executable, [sys.executable] + sys.argv)

import hashlib
import logging

import numpy as np

logging.disable(logging.CRITICAL)

from renormalizer.model import Phonon, Mol, HolsteinModel, Model, Op, OpSum
from renormalizer.model.basis import BasisHalfSpin, BasisSHO, BasisSimpleElectron, BasisMultiElectron
from renormalizer.mps import Mps, Mpo, MpDm
from renormalizer.mps import mps as mps_module
from renormalizer.mps.matrix import Matrix
from renormalizer.utils import Quantity, EvolveConfig, EvolveMethod

transferMat = mps_module.transferMat


def digest(x):
    """rounded repr + hash of the raw bytes"""
    if isinstance(x, dict):
        return "{" + ", ".join(f"{k!r}: {digest(x[k])}" for k in sorted(x.keys())) + "}"
    if isinstance(x, (float, complex, int)) and not isinstance(x, bool):
        a = np.asarray(x)
        return f"{type(x).__name__}({np.round(a, 10)!r}|{hashlib.sha1(a.tobytes()).hexdigest()[:10]})"
    a = np.asarray(x)
    r = np.round(a, 9) + 0.0  # kill negative zeros
    return (f"arr{a.shape}{a.dtype}[sum={np.round(a.sum(), 9)!r} abs={np.round(np.abs(a).sum(), 9)!r} "
            f"rnd={hashlib.sha1(np.ascontiguousarray(r).tobytes()).hexdigest()[:10]} "
            f"raw={hashlib.sha1(np.ascontiguousarray(a).tobytes()).hexdigest()[:10]}]")


def show(tag, fn):
    try:
        res = fn()
        print(tag, "->", digest(res))
    except Exception as e:  # noqa
        print(tag, "-> EXC", type(e).__name__, str(e)[:80])


def complexify(mp, rng):
    mp = mp.to_complex()
    for i in range(len(mp)):
        a = mp[i].array
        mp[i] = a * (1 + 0.4j * rng.standard_normal(a.shape))
    return mp


def holstein(nsites, nlevels, j=1.0, scheme=3):
    ph = Phonon.simple_phonon(Quantity(1.0), Quantity(1.0), nlevels)
    mol = Mol(Quantity(0), [ph])
    return HolsteinModel([mol] * nsites, Quantity(j), scheme)


def make_states(model, rng, qntots=(1,), m=6):
    states = {}
    for qn in qntots:
        np.random.seed(100 + qn)
        s = Mps.random(model, qn, m)
        states[f"real_q{qn}_raw"] = s
        s2 = s.copy()
        s2.canonicalise()
        states[f"real_q{qn}_canon"] = s2
        s3 = s.copy().scale(1.7)
        s3.ensure_left_canonical()
        states[f"real_q{qn}_leftc_unnorm"] = s3
        c = complexify(s.copy(), rng)
        states[f"cplx_q{qn}_raw"] = c
        c2 = c.copy()
        c2.canonicalise()
        c2.normalize("mps_only")
        states[f"cplx_q{qn}_canon_norm"] = c2
    return states


def make_mpdms(model, rng):
    h = Mpo(model)
    d0 = MpDm.max_entangled_ex(model)
    d1 = d0.apply(h)
    d2 = complexify(d1.copy(), rng)
    d3 = d2.copy()
    d3.canonicalise()
    d4 = MpDm.max_entangled_gs(model)
    return {"mpdm_ex": d0, "mpdm_ex_h": d1, "mpdm_cplx": d2, "mpdm_cplx_canon": d3, "mpdm_gs": d4}


def operators(model):
    e_dofs = model.e_dofs
    v_dofs = model.v_dofs
    ops = {
        "H": Mpo(model),
        "id": Mpo.identity(model),
        "n_e0": Mpo(model, Op(r"a^\dagger a", e_dofs[0])),
        "hop": Mpo(model, Op(r"a^\dagger a", [e_dofs[0], e_dofs[-1]])),
        "x_v0": Mpo(model, Op("x", v_dofs[0])),
        "Op_direct": Op("n", v_dofs[-1]),
        "OpSum_direct": OpSum([Op("x", v_dofs[0], 0.3), Op(r"a^\dagger a", [e_dofs[-1], e_dofs[0]], 1.1)]),
        "cplx": Mpo(model, Op(r"a^\dagger a", [e_dofs[0], e_dofs[1]], 0.5 + 0.8j) + Op("p", v_dofs[0], 1j)),
    }
    return ops


def check_model(name, model, rng, qntots=(1,)):
    print("=" * 20, name)
    states = make_states(model, rng, qntots)
    mpdms = make_mpdms(model, rng)
    ops = operators(model)
    allstates = dict(states)
    allstates.update(mpdms)

    # --- expectation (single operator) ---
    for sname, s in allstates.items():
        for oname, o in ops.items():
            show(f"expect[{sname}][{oname}]", lambda: s.expectation(o))
    # bra different from ket
    keys = list(states.keys())
    for i, k1 in enumerate(keys):
        k2 = keys[(i + 2) % len(keys)]
        if states[k1].qntot != states[k2].qntot:
            continue
        for oname in ("H", "hop", "cplx", "Op_direct"):
            show(f"trans[{k2}|{oname}|{k1}]",
                 lambda: states[k1].expectation(ops[oname], self_conj=states[k2].conj()))
            # raw (unconjugated) bra, a different contraction
            show(f"trans_raw[{k2}|{oname}|{k1}]",
                 lambda: states[k1].expectation(ops[oname], self_conj=states[k2]))
    dk = list(mpdms.keys())
    show("trans_mpdm", lambda: mpdms[dk[1]].expectation(ops["H"], self_conj=mpdms[dk[2]].conj()))
    # the one-by-one path of the batch API goes through expectation
    for sname in list(states)[:2] + list(mpdms)[:2]:
        s = allstates[sname]
        lst = [ops["H"], ops["n_e0"], ops["Op_direct"], ops["cplx"], ops["n_e0"]]
        show(f"expectations_noopt[{sname}]", lambda: s.expectations(lst, opt=False))
        show(f"expectations_opt[{sname}]", lambda: s.expectations(lst, opt=True))
    show("expectations_empty_noopt", lambda: states[keys[0]].expectations([], opt=False))
    # argument is not modified
    s = states[keys[0]]
    before = [m.array.copy() for m in s]
    s.expectation(ops["H"])
    s.calc_1site_rdm()
    s.calc_2site_rdm()
    print("args untouched", all(np.array_equal(a, b.array) for a, b in zip(before, s)), s.to_right, s.qnidx)

    # --- reduced density matrices ---
    for sname, s in allstates.items():
        show(f"rdm1[{sname}][all]", lambda: s.calc_1site_rdm())
        show(f"rdm1[{sname}][int]", lambda: s.calc_1site_rdm(1))
        show(f"rdm1[{sname}][list]", lambda: s.calc_1site_rdm([s.site_num - 1, 0]))
        show(f"rdm1[{sname}][tuple]", lambda: s.calc_1site_rdm((0, 0, 2)))
        show(f"rdm1[{sname}][empty]", lambda: s.calc_1site_rdm([]))
        show(f"rdm1[{sname}][out of range]", lambda: s.calc_1site_rdm(s.site_num + 3))
        show(f"rdm2[{sname}]", lambda: s.calc_2site_rdm())
        res1 = s.calc_1site_rdm([0, 1])
        print(f"rdm1 keys/types [{sname}]", list(res1.keys()), [type(v).__name__ for v in res1.values()],
              [v.flags["C_CONTIGUOUS"] for v in res1.values()])
        res2 = s.calc_2site_rdm()
        print(f"rdm2 keys [{sname}]", list(res2.keys()), [v.flags["C_CONTIGUOUS"] for v in res2.values()][:3])
    s = states[keys[0]]
    for bad in (True, 1.0, "0", np.int64(1), {0}, np.array([0, 1])):
        show(f"rdm1 bad idx {bad!r}", lambda: s.calc_1site_rdm(bad))
    # entropies go through the rdms
    for sname in ("real_q1_canon", "cplx_q1_canon_norm"):
        s = states[sname]
        for kind in ("1site", "2site", "mutual", "bond"):
            show(f"entropy[{sname}][{kind}]", lambda: s.calc_entropy(kind))
    show("entropy bad", lambda: s.calc_entropy("3site"))

    # --- transferMat ---
    for sname, s in allstates.items():
        n = s.site_num
        other = None
        for k in allstates:
            o = allstates[k]
            if k != sname and o[0].ndim == s[0].ndim and o.is_complex == s.is_complex \
                    and o.bond_dims == s.bond_dims:
                other = o
                break
        for imps in (0, n // 2, n - 1):
            ms = s[imps]
            for domain, dim in (("L", ms.shape[0]), ("R", ms.shape[-1])):
                val = rng.standard_normal((dim, dim))
                if s.is_complex:
                    val = val + 1j * rng.standard_normal((dim, dim))
                val0 = val.copy()
                show(f"tm[{sname}][{imps}][{domain}]", lambda: transferMat(s, None, domain, imps, val))
                show(f"tm_conjself[{sname}][{imps}][{domain}]", lambda: transferMat(s, s.conj(), domain, imps, val))
                if other is not None:
                    show(f"tm_other[{sname}][{imps}][{domain}]", lambda: transferMat(s, other, domain, imps, val))
                show(f"tm_matrixval[{sname}][{imps}][{domain}]", lambda: transferMat(s, None, domain, imps, Matrix(val)))
                assert np.array_equal(val, val0)
                r = transferMat(s, None, domain, imps, val)
                print("   type", type(r).__name__, r.dtype)
        show(f"tm_baddomain[{sname}]", lambda: transferMat(s, None, "X", 0, np.ones((1, 1))))
        show(f"tm_baddomain_none[{sname}]", lambda: transferMat(s, None, None, 0, np.ones((1, 1))))
        show(f"tm_badidx[{sname}]", lambda: transferMat(s, None, "L", n + 5, np.ones((1, 1))))
        show(f"tm_badval[{sname}]", lambda: transferMat(s, None, "R", 0, np.ones((17, 17))))
    fake = [Matrix(np.ones((2, 2)))]
    show("tm_badndim_L", lambda: transferMat(fake, None, "L", 0, np.ones((2, 2))))
    show("tm_badndim_X", lambda: transferMat(fake, None, "X", 0, np.ones((2, 2))))
    fake5 = [Matrix(np.ones((1, 2, 2, 2, 1)))]
    show("tm_badndim5", lambda: transferMat(fake5, fake5, "R", 0, np.ones((1, 1))))
    # the first site decides the rank
    mixed = [Matrix(np.ones((1, 2, 3))), Matrix(np.ones((3, 2, 2, 1)))]
    show("tm_mixed", lambda: transferMat(mixed, None, "L", 1, np.ones((3, 3))))
    return states, mpdms


def check_evolve(rng):
    # callers of transferMat: the VMF / CMF schemes with force_ovlp
    print("=" * 20, "evolve")
    model = holstein(3, 2)
    tentative_mpo = Mpo(model)
    init_mps = (Mpo.onsite(model, r"a^\dagger", dof_set={0}) @ Mps.ground_state(model, False))
    init_mps = init_mps.expand_bond_dimension(hint_mpo=tentative_mpo)
    init_mpdm = MpDm.from_mps(init_mps).expand_bond_dimension(hint_mpo=tentative_mpo)
    e = init_mps.expectation(tentative_mpo)
    mpo = Mpo(model, offset=Quantity(e))
    for iname, init in (("mps", init_mps), ("mpdm", init_mpdm)):
        for method, force_ovlp, dt in ((EvolveMethod.tdvp_vmf, True, 0.2), (EvolveMethod.tdvp_vmf, False, 0.2),
                                       (EvolveMethod.tdvp_mu_vmf, True, 0.2),
                                       (EvolveMethod.tdvp_mu_cmf, True, 0.01)):
            s = init.copy()
            s.evolve_config = EvolveConfig(method, ivp_rtol=1e-4, ivp_atol=1e-7, force_ovlp=force_ovlp)
            s.evolve_config.vmf_auto_switch = False
            for _ in range(2):
                s = s.evolve(mpo, dt)
            tag = f"evolve[{iname}][{method.name}][{force_ovlp}]"
            show(tag + " e_occ", lambda: s.e_occupations)
            show(tag + " ph_occ", lambda: s.ph_occupations)
            show(tag + " H", lambda: s.expectation(mpo))
            show(tag + " rdm1", lambda: s.calc_1site_rdm())
            show(tag + " rdm2", lambda: s.calc_2site_rdm())


def main():
    rng = np.random.default_rng(20240907)
    check_model("holstein 3 sites, scheme 3", holstein(3, 3), rng, qntots=(1, 2, 0))
    # one multi-electron site (with vacuum state) + vibrations
    check_model("holstein 3 sites, scheme 4", holstein(3, 2, j=0.7, scheme=4), rng, qntots=(1,))

    # tiny systems: one and two sites
    print("=" * 20, "tiny")
    for nsite in (1, 2):
        model = Model([BasisHalfSpin(i) for i in range(nsite)], [Op("X", 0)])
        np.random.seed(7 + nsite)
        s = Mps.random(model, 0, 3)
        c = complexify(s.copy(), rng)
        for tag, st in (("real", s), ("cplx", c)):
            show(f"tiny{nsite}[{tag}] X", lambda: st.expectation(Op("X", 0)))
            show(f"tiny{nsite}[{tag}] Y", lambda: st.expectation(Op("Y", 0)))
            show(f"tiny{nsite}[{tag}] mpo", lambda: st.expectation(Mpo(model, Op("Z", nsite - 1))))
            show(f"tiny{nsite}[{tag}] rdm1", lambda: st.calc_1site_rdm())
            show(f"tiny{nsite}[{tag}] rdm1 int", lambda: st.calc_1site_rdm(0))
            show(f"tiny{nsite}[{tag}] rdm2", lambda: st.calc_2site_rdm())
            show(f"tiny{nsite}[{tag}] tm L", lambda: transferMat(st, None, "L", 0, np.ones((1, 1))))
            show(f"tiny{nsite}[{tag}] tm R", lambda: transferMat(st, None, "R", nsite - 1, np.ones((1, 1))))
    # doc-string example
    model = Model([BasisHalfSpin(0)], [])
    hps = Mps.hartree_product_state(model, condition={})
    hps2 = Mps.hartree_product_state(model, condition={0: [0, 1]})
    show("doc1", lambda: hps.expectation(Mpo(model, Op("X", 0))))
    show("doc2", lambda: hps.expectation(Mpo(model, Op("X", 0)), self_conj=hps2))
    print("doc types", type(hps.expectation(Op("X", 0))).__name__,
          type(hps.expectation(Op("Z", 0), self_conj=hps2)).__name__)
    # wrong operator / wrong bra
    model3 = holstein(3, 3)
    model2 = holstein(2, 3)
    np.random.seed(3)
    s3 = Mps.random(model3, 1, 4)
    np.random.seed(4)
    s2 = Mps.random(model2, 1, 4)
    show("mismatch mpo", lambda: s3.expectation(Mpo(model2)))
    show("mismatch bra", lambda: s3.expectation(Mpo(model3), self_conj=s2))
    show("bad op type", lambda: s3.expectation("H"))
    show("bad op none", lambda: s3.expectation(None))

    check_evolve(rng)


if __name__ == "__main__":
    main()
