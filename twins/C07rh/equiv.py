"""Equivalence digest for the C07rh refactoring.

Exercises Mps.expectations, Mps._expectation_path, Mps.calc_edof_rdm and
Mps.calc_bond_entropy (plus the MpDm override of _expectation_path that the
shared callers rely on) and prints a deterministic digest.
"""
import numpy as np

from renormalizer.model import Model, Op, OpSum
from renormalizer.model.basis import (
    BasisSHO, BasisSimpleElectron, BasisMultiElectron, BasisMultiElectronVac, BasisHalfSpin,
)
from renormalizer.mps import Mps, Mpo, MpDm

DIGITS = 9


def fmt(x):
    a = np.asarray(x)
    if a.dtype.kind == "c":
        a = np.round(a, DIGITS) + (0.0 + 0.0j)
        body = " ".join(f"({v.real:.{DIGITS}f},{v.imag:.{DIGITS}f})" for v in a.ravel())
    else:
        a = np.round(a.astype(float), DIGITS) + 0.0
        body = " ".join(f"{v:.{DIGITS}f}" for v in a.ravel())
    # no raw-byte digest: the last ulp differs from process to process even on an unchanged tree
    return f"dtype={np.asarray(x).dtype} shape={np.asarray(x).shape} [{body}]"


def show(tag, x):
    print(f"{tag}: {fmt(x)}")


def attempt(tag, fn):
    try:
        res = fn()
    except Exception as e:  # digest the exception type and message
        print(f"{tag}: EXC {type(e).__name__}: {e}")
        return None
    show(tag, res)
    return res


def holstein(n, nbas=3):
    basis = []
    for i in range(n):
        basis.append(BasisSimpleElectron(i))
        basis.append(BasisSHO(f"v_{i}", 1.0 + 0.1 * i, nbas))
    ham = []
    for i in range(n):
        ham.append(Op(r"a^\dagger a", i, 0.3 * i))
        ham.append(Op(r"b^\dagger b", f"v_{i}", 1.0 + 0.1 * i))
        ham.append(Op(r"a^\dagger a", i) * Op(r"b^\dagger + b", f"v_{i}") * 0.2)
    for i in range(n - 1):
        ham.append(Op(r"a^\dagger a", [i, i + 1], 0.5))
        ham.append(Op(r"a^\dagger a", [i + 1, i], 0.5))
    return Model(basis, ham)


def complexify(mps, seed):
    rng = np.random.RandomState(seed)
    new = mps.to_complex()
    for i in range(len(new)):
        arr = np.asarray(new[i].array)
        phase = np.exp(1j * rng.uniform(0, 2 * np.pi))
        new[i] = arr * phase + 1j * 0.3 * rng.uniform(-1, 1, size=arr.shape) * (arr != 0)
    return new


def op_lists(model, n):
    e = list(range(n))
    lists = {}
    lists["empty"] = []
    lists["single"] = [Mpo(model, Op(r"a^\dagger a", 0))]
    lists["onsite"] = [Mpo(model, Op(r"a^\dagger a", i)) for i in e]
    lists["identical"] = [Mpo(model, Op(r"a^\dagger a", 1))] * 3 + [Mpo(model, Op(r"a^\dagger a", 1))]
    lists["hop"] = [Mpo(model, Op(r"a^\dagger a", [i, i + 1])) for i in range(n - 1)]
    lists["hop_rev_order"] = lists["hop"][::-1] + lists["onsite"][::2]
    lists["mixed_op_types"] = [
        Op(r"a^\dagger a", 0),
        OpSum([Op(r"a^\dagger a", 0), Op(r"b^\dagger b", "v_1", 0.5)]),
        Mpo(model, Op(r"b^\dagger + b", "v_0")),
        Op(r"b^\dagger b", f"v_{n-1}"),
        Mpo(model),
    ]
    lists["complex_ops"] = [
        Mpo(model, Op(r"a^\dagger a", [0, 1], 1.0 + 2.0j)),
        Mpo(model, Op(r"a^\dagger a", [1, 0], 0.5j)),
        Mpo(model, Op(r"a^\dagger a", [0, 1], 1.0 + 2.0j)),
        Mpo(model, Op(r"b^\dagger b", "v_0", 1j)),
    ]
    lists["one_site_diff"] = [Mpo(model, Op("x", f"v_{i}")) for i in e] + \
                             [Mpo(model, Op("x^2", f"v_{i}")) for i in e]
    return lists


def run_expectations(tag, ket, lists, bra=None):
    for name in sorted(lists):
        ops = lists[name]
        attempt(f"{tag}/{name}/opt", lambda: ket.expectations(ops, self_conj=bra))
        attempt(f"{tag}/{name}/naive", lambda: ket.expectations(ops, bra, False))
        attempt(f"{tag}/{name}/posargs", lambda: ket.expectations(ops, bra, True))


def main():
    np.random.seed(20240926)
    n = 4
    model = holstein(n)
    lists = op_lists(model, n)

    # ---- _expectation_path
    real = Mps.random(model, 1, 8)
    print("path/mps:", repr(real._expectation_path()))
    p1, p2 = real._expectation_path(), real._expectation_path()
    print("path/mps fresh:", p1 is not p2, p1 == p2, type(p1).__name__,
          [type(s).__name__ for s in p1], [type(s[0]).__name__ for s in p1])
    p1[0][0].append(99)
    p1.append("junk")
    print("path/mps after-mutation:", repr(real._expectation_path()))
    mpdm = MpDm.max_entangled_ex(model)
    print("path/mpdm:", repr(mpdm._expectation_path()))
    print("path/doc-free conj:", type(real._expectation_conj()).__name__)

    # ---- expectations: real, un-normalised, arbitrary gauge
    run_expectations("real", real, lists)
    real_scaled = real.copy().scale(1.7)
    real_scaled.coeff = 0.9
    run_expectations("real_scaled", real_scaled, {k: lists[k] for k in ("onsite", "hop", "mixed_op_types")})
    canon = real.copy().canonicalise().normalize("mps_only")
    run_expectations("canon", canon, {k: lists[k] for k in ("onsite", "complex_ops")})
    canon_l = real.copy()
    canon_l.ensure_left_canonical()
    run_expectations("left_canon", canon_l, {k: lists[k] for k in ("hop_rev_order", "one_site_diff")})

    # ---- complex state, bra != ket
    cplx = complexify(real, 7)
    other = complexify(Mps.random(model, 1, 5), 11)
    run_expectations("cplx", cplx, lists)
    run_expectations("cplx_bra", cplx, lists, bra=other.conj())
    run_expectations("real_bra", real, {k: lists[k] for k in ("onsite", "hop", "empty", "single")},
                     bra=Mps.random(model, 1, 6))

    # one-by-one equals batched
    for name in sorted(lists):
        ops = lists[name]
        one = np.array([cplx.expectation(o, other.conj()) for o in ops])
        batch = cplx.expectations(ops, other.conj())
        print(f"consistency/{name}:", bool(np.allclose(one, batch)))

    # occupations go through expectations
    show("real/e_occ", real.e_occupations)
    show("real/ph_occ", real.ph_occupations)
    show("cplx/e_occ", cplx.e_occupations)
    show("cplx/ph_occ", cplx.ph_occupations)

    # ---- density-operator form
    show("mpdm/e_occ", mpdm.e_occupations)
    show("mpdm/ph_occ", mpdm.ph_occupations)
    run_expectations("mpdm", mpdm, {k: lists[k] for k in ("onsite", "hop", "empty", "complex_ops")})
    hot = Mpo(model, Op(r"b^\dagger + b", "v_1", 0.7) + Op(r"a^\dagger a", [0, 1], 0.4) + Op(r"a^\dagger a", [1, 0], 0.4)
              + Op(r"a^\dagger a", 2, 1.3)).apply(mpdm)
    run_expectations("mpdm_applied", hot, {k: lists[k] for k in ("onsite", "hop", "mixed_op_types")})
    attempt("mpdm_applied/edof_rdm", hot.calc_edof_rdm)

    # ---- calc_edof_rdm (fresh models so that the MPO cache is built, then reused)
    bases = {
        "simple": sum(([BasisSimpleElectron(i), BasisSHO(f"v_{i}", 1, 2)] for i in range(4)), []),
        "multi": [BasisMultiElectron(list(range(4)), [1, 1, 1, 1])] + [BasisSHO(f"v_{i}", 1, 2) for i in range(4)],
        "multivac": [BasisMultiElectronVac([0, 1]), BasisSHO("v0", 1, 2), BasisSHO("v1", 1, 2),
                     BasisMultiElectronVac([2, 3]), BasisSHO("v2", 1, 2), BasisSHO("v3", 1, 2)],
        "one_edof": [BasisSimpleElectron(0), BasisSHO("v_0", 1, 3)],
        "no_edof": [BasisSHO("v_0", 1, 3), BasisSHO("v_1", 1, 3)],
        "spin_only": [BasisHalfSpin(0), BasisHalfSpin(1)],
    }
    for name in bases:
        m = Model(bases[name], [])
        qn = 1 if m.n_edofs else 0
        s = Mps.random(m, qn, 10)
        print(f"rdm/{name}/cache-before:", sorted(m.mpos))
        r1 = attempt(f"rdm/{name}/real", s.calc_edof_rdm)
        print(f"rdm/{name}/cache-after:", sorted(m.mpos),
              len(m.mpos.get("edof_reduced_density_matrix", [])))
        cached = m.mpos.get("edof_reduced_density_matrix")
        r2 = attempt(f"rdm/{name}/real-again", s.calc_edof_rdm)
        print(f"rdm/{name}/cache-identity:", m.mpos.get("edof_reduced_density_matrix") is cached)
        if r1 is not None:
            print(f"rdm/{name}/hermitian:", bool(np.allclose(r1, r1.conj().T)), "same:", bool(np.array_equal(r1, r2)))
        c = complexify(s, 3)
        rc = attempt(f"rdm/{name}/cplx", c.calc_edof_rdm)
        if rc is not None and rc.size:
            # (signs of zero / last-ulp noise are not reproducible between processes, so only coarse checks)
            print(f"rdm/{name}/cplx-hermitian:", bool(np.allclose(rc, rc.conj().T)),
                  "diag-real:", bool(np.abs(np.diag(rc).imag).max() < 1e-12),
                  "offdiag-complex:", bool(rc.shape[0] < 2 or np.abs(rc.imag).max() > 1e-6))
        c2 = c.copy().scale(0.5 - 0.25j)
        attempt(f"rdm/{name}/cplx-scaled", c2.calc_edof_rdm)

    # a pre-seeded cache must be used as is (here: too short / too long lists)
    m = Model(bases["simple"], [])
    s = Mps.random(m, 1, 6)
    full = [Mpo(m, Op(r"a^\dagger a", [i, j])) for i in range(4) for j in range(i, 4)]
    m.mpos["edof_reduced_density_matrix"] = full[:5]
    attempt("rdm/preseed/short", s.calc_edof_rdm)
    m.mpos["edof_reduced_density_matrix"] = full + full[:2]
    attempt("rdm/preseed/long", s.calc_edof_rdm)
    m.mpos["edof_reduced_density_matrix"] = full[::-1]
    attempt("rdm/preseed/reversed", s.calc_edof_rdm)

    # ---- calc_bond_entropy
    for tag, st in (("real", real), ("canon", canon), ("cplx", cplx), ("left_canon", canon_l)):
        before = [np.asarray(mt.array).copy() for mt in st]
        attempt(f"bond/{tag}/default", st.calc_bond_entropy)
        attempt(f"bond/{tag}/via-entropy", lambda: st.calc_entropy("bond"))
        print(f"bond/{tag}/unchanged:", all(np.array_equal(a, np.asarray(mt.array)) for a, mt in zip(before, st)))
        sv = st.calc_bond_singular_values()
        attempt(f"bond/{tag}/given", lambda: st.calc_bond_entropy(sv))
        attempt(f"bond/{tag}/given-kw", lambda: st.calc_bond_entropy(s_array=sv))
    rng = np.random.RandomState(5)
    attempt("bond/empty-list", lambda: real.calc_bond_entropy([]))
    attempt("bond/ragged", lambda: real.calc_bond_entropy([rng.rand(k) for k in (1, 3, 2)]))
    attempt("bond/2d-array", lambda: real.calc_bond_entropy(rng.rand(3, 4)))
    attempt("bond/with-zeros", lambda: real.calc_bond_entropy([np.array([1.0, 0.0, 0.0]), np.array([0.6, 0.8])]))
    attempt("bond/unnormalised", lambda: real.calc_bond_entropy([np.array([3.0, 4.0])]))
    attempt("bond/list-of-lists", lambda: real.calc_bond_entropy([[0.6, 0.8]]))
    attempt("bond/tuple-of-arrays", lambda: real.calc_bond_entropy((np.array([0.6, 0.8]),)))
    attempt("bond/generator", lambda: real.calc_bond_entropy(np.array([0.6, 0.8]) for _ in range(2)))
    attempt("bond/complex-sv", lambda: real.calc_bond_entropy([np.array([0.6j, 0.8])]))
    attempt("bond/scalars", lambda: real.calc_bond_entropy(np.array([0.5, 0.25])))
    one = Mps.random(Model([BasisHalfSpin(0)], []), 0, 3)
    attempt("bond/one-site", one.calc_bond_entropy)
    attempt("expect/one-site", lambda: one.expectations([Op("X", 0), Op("Z", 0), Op("X", 0)]))
    attempt("expect/one-site-naive", lambda: one.expectations([Op("X", 0), Op("Z", 0), Op("X", 0)], opt=False))

    # ---- hash collision guard inside expectations
    import renormalizer.mps.matrix as matrix_mod
    orig_hash = matrix_mod.Matrix.__hash__
    matrix_mod.Matrix.__hash__ = lambda self: 42
    try:
        attempt("expect/forced-collision", lambda: real.expectations(lists["hop"]))
        attempt("expect/forced-collision-identical", lambda: real.expectations(lists["identical"]))
        attempt("expect/forced-collision-naive", lambda: real.expectations(lists["hop"], opt=False))
    finally:
        matrix_mod.Matrix.__hash__ = orig_hash
    matrix_mod.Matrix.__hash__ = lambda self: hash(self.array.shape)
    try:
        attempt("expect/shape-collision", lambda: real.expectations(lists["hop"]))
        attempt("expect/shape-collision-identical", lambda: real.expectations(lists["identical"]))
        attempt("expect/shape-collision-single", lambda: real.expectations(lists["single"]))
    finally:
        matrix_mod.Matrix.__hash__ = orig_hash

    # arguments are not mutated
    ops = list(lists["mixed_op_types"])
    real.expectations(ops)
    print("args/list-unchanged:", [type(o).__name__ for o in ops])
    attempt("args/tuple", lambda: real.expectations(tuple(lists["onsite"])))
    attempt("args/generator", lambda: real.expectations(o for o in lists["onsite"]))
    attempt("args/bad-type", lambda: real.expectations([1.0]))
    attempt("args/bad-type-naive", lambda: real.expectations([None], opt=False))


if __name__ == "__main__":
    main()
