"""Equivalence digest for the C07rj refactoring.

Exercises Mps.expectation, _get_freq_environ, contract_one_site and
Environ.GetLR (plus their callers: expectations, rdm, entropy, occupations).
Prints a deterministic digest.
"""
import numpy as np

from renormalizer.model import Model
from renormalizer.model.basis import BasisSHO, BasisHalfSpin, BasisSimpleElectron
from renormalizer.model.op import Op, OpSum
from renormalizer.mps import Mps, Mpo, MpDm
from renormalizer.mps.backend import xp
from renormalizer.mps.matrix import Matrix
from renormalizer.mps.lib import Environ, contract_one_site
from renormalizer.mps import mps as mps_module
from renormalizer.tests import parameter

ND = 9


def dig(x):
    """deterministic digest of numbers / arrays / containers"""
    if isinstance(x, Matrix):
        x = x.array
    if isinstance(x, dict):
        return "{" + ", ".join(f"{k!r}: {dig(x[k])}" for k in sorted(x, key=repr)) + "}"
    if isinstance(x, (list, tuple)):
        return "[" + ", ".join(dig(i) for i in x) + "]"
    if isinstance(x, (bool, int, str)) or x is None:
        return f"{type(x).__name__}:{x!r}"
    if isinstance(x, float):
        return f"float:{round(x, ND) + 0.0!r}"
    if isinstance(x, complex):
        return f"complex:{round(x.real, ND) + 0.0!r},{round(x.imag, ND) + 0.0!r}"
    a = np.asarray(x)
    flat = a.ravel()
    if np.iscomplexobj(a):
        body = " ".join(f"{round(float(v.real), ND) + 0.0!r}{round(float(v.imag), ND) + 0.0:+}j" for v in flat[:400])
        s = complex(flat.sum()) if flat.size else 0j
        tot = f"{round(s.real, 7) + 0.0!r},{round(s.imag, 7) + 0.0!r}"
    else:
        body = " ".join(f"{round(float(v), ND) + 0.0!r}" for v in flat[:400])
        tot = f"{round(float(flat.sum()), 7) + 0.0!r}" if flat.size else "0"
    return f"arr<{a.dtype},{a.shape},sum={tot}>[{body}]"


def show(tag, fn):
    try:
        res = fn()
        print(tag, "=>", dig(res))
    except Exception as e:  # noqa
        print(tag, "=> EXC", type(e).__name__, str(e)[:200])


def complexify(mps, rng, scale=1.0):
    new = mps.to_complex()
    for i in range(len(new)):
        arr = new[i].array
        phase = rng.standard_normal(arr.shape) + 1j * rng.standard_normal(arr.shape)
        new[i] = arr * phase * scale
    return new


# ----------------------------------------------------------------------
# 1. contract_one_site directly
# ----------------------------------------------------------------------
print("== contract_one_site")
rng = np.random.default_rng(1234)
for trial, (cplx, ndim) in enumerate([(False, 3), (True, 3), (False, 4), (True, 4)]):
    for domain in ["L", "R"]:
        a, b, c = 2, 3, 4  # env dims (bra, mpo, ket)
        d = 3  # physical
        f, g, h = 5, 2, 3  # new dims

        def rnd(*shape):
            arr = rng.standard_normal(shape)
            if cplx:
                arr = arr + 1j * rng.standard_normal(shape)
            return arr

        env = rnd(a, b, c)
        if domain == "L":
            mo = rnd(b, d, d, g)
            if ndim == 3:
                ms_conj = rnd(a, d, f)
                ms = rnd(c, d, h)
            else:
                ms_conj = rnd(a, d, d, f)
                ms = rnd(c, d, d, h)
        else:
            mo = rnd(g, d, d, b)
            if ndim == 3:
                ms_conj = rnd(f, d, a)
                ms = rnd(h, d, c)
            else:
                ms_conj = rnd(f, d, d, a)
                ms = rnd(h, d, d, c)
        tag = f"c1s trial={trial} cplx={cplx} ndim={ndim} dom={domain}"
        show(tag + " np/explicit-conj", lambda: contract_one_site(xp.asarray(env), ms, mo, domain, ms_conj))
        show(tag + " kw", lambda: contract_one_site(environ=xp.asarray(env), ms=ms, mo=mo, domain=domain, ms_conj=ms_conj))
        show(tag + " Matrix", lambda: contract_one_site(xp.asarray(env), Matrix(ms), Matrix(mo), domain, ms_conj))
        # ms_conj defaults to ms.conj(): needs a == c
        env2 = rnd(c, b, c)
        show(tag + " default-conj", lambda: contract_one_site(xp.asarray(env2), ms, mo, domain))
        show(tag + " default-conj Matrix", lambda: contract_one_site(xp.asarray(env2), Matrix(ms), mo, domain, None))
        # error paths
        show(tag + " bad-domain", lambda: contract_one_site(xp.asarray(env), ms, mo, "X", ms_conj))
        show(tag + " bad-domain-None", lambda: contract_one_site(xp.asarray(env), ms, mo, None, ms_conj))
        show(tag + " bad-shape-env", lambda: contract_one_site(xp.asarray(rnd(a + 1, b, c)), ms, mo, domain, ms_conj))
        show(tag + " bad-shape-mo", lambda: contract_one_site(xp.asarray(rnd(a, b + 1, c)), ms, mo, domain, ms_conj))
        show(tag + " bad-shape-ms", lambda: contract_one_site(xp.asarray(rnd(a, b, c + 1)), ms, mo, domain, ms_conj))
        # wrong ndim of ms (2 and 5) with matching boundary dims -> ValueError
        if domain == "L":
            ms2 = rnd(c, h)
            ms5 = rnd(c, d, d, d, h)
        else:
            ms2 = rnd(h, c)
            ms5 = rnd(h, d, d, d, c)
        show(tag + " ndim2", lambda: contract_one_site(xp.asarray(env), ms2, mo, domain, ms_conj))
        show(tag + " ndim5", lambda: contract_one_site(xp.asarray(env), ms5, mo, domain, ms_conj))
        # wrong ndim and wrong shape at once: assertion comes first
        show(tag + " ndim2+badshape", lambda: contract_one_site(xp.asarray(rnd(a, b, c + 1)), ms2, mo, domain, ms_conj))

# ----------------------------------------------------------------------
# 2. states and operators
# ----------------------------------------------------------------------
print("== states")
np.random.seed(2024)
xp.random.seed(2024)
hmodel = parameter.holstein_model
nmol = hmodel.mol_num

real_mps = Mps.random(hmodel, 1, 8)
real_mps2 = Mps.random(hmodel, 1, 6)
rng = np.random.default_rng(99)
cplx_mps = complexify(real_mps, rng)
cplx_mps2 = complexify(real_mps2, rng, scale=0.7)
unnorm = real_mps.copy()
unnorm[2] = unnorm[2].array * 3.7
canon = cplx_mps.copy().canonicalise()
canon_l = cplx_mps.copy()
canon_l.ensure_left_canonical()
qn0 = Mps.random(hmodel, 0, 5)
mpdm_gs = MpDm.max_entangled_gs(hmodel)
mpdm_ex = MpDm.max_entangled_ex(hmodel)
mpdm_rand = MpDm.from_mps(real_mps)
mpdm_cplx = complexify(mpdm_ex, rng)

# spin / boson model without conserved qn
basis2 = [BasisHalfSpin("s0"), BasisSHO("v0", 1.3, 4), BasisHalfSpin("s1"), BasisSHO("v1", 0.7, 3), BasisHalfSpin("s2")]
ham2 = OpSum([Op("sigma_z", "s0", 0.3), Op("sigma_x sigma_x", ["s0", "s1"], 0.5), Op("sigma_z x", ["s1", "v1"], 0.2),
              Op("b^\\dagger b", "v0", 1.3), Op("sigma_+ sigma_-", ["s1", "s2"], -0.4)])
model2 = Model(basis2, ham2)
np.random.seed(7)
spin_mps = Mps.random(model2, 0, 6)
spin_cplx = complexify(spin_mps, rng)
spin_cplx2 = complexify(Mps.random(model2, 0, 4), rng)

# one-site model
model1 = Model([BasisHalfSpin(0)], [])
one_site = Mps.hartree_product_state(model1, condition={})
one_site2 = Mps.hartree_product_state(model1, condition={0: [0, 1]})

h_ops = {
    "onsite": [Mpo.onsite(hmodel, r"a^\dagger a", dof_set={i}) for i in range(nmol)],
    "intersite": [Mpo.intersite(hmodel, {i: "a", i + 1: r"a^\dagger"}, {}) for i in range(nmol - 1)],
    "lowering": [Mpo.intersite(hmodel, {i: "a"}, {}) for i in range(nmol)],
    "ham": [Mpo(hmodel)],
    "ident": [Mpo.identity(hmodel)],
}
h_ops["cplx"] = [m.scale(0.3 + 1.1j) for m in h_ops["onsite"]] + [h_ops["ham"][0].scale(1j)]
h_ops["mixed"] = h_ops["intersite"] + h_ops["onsite"] + h_ops["onsite"][:1] + h_ops["ham"] + h_ops["cplx"][-1:]
h_ops["symbolic"] = [Op(r"a^\dagger a", 0), Op("x", (1, 0), 0.3) + Op("b^\\dagger b", (2, 1)), Op("p^2", (0, 1))]

s_ops = {
    "z": [Mpo(model2, Op("sigma_z", f"s{i}")) for i in range(3)],
    "mix": [Mpo(model2, Op("sigma_x sigma_+", ["s0", "s2"])), Mpo(model2, Op("x", "v0")), Mpo(model2),
            Mpo(model2, Op("sigma_-", "s1")).scale(0.4 - 2j), Mpo(model2, Op("sigma_x sigma_+", ["s0", "s2"]))],
    "sym": [Op("sigma_+", "s0"), Op("sigma_z", "s2", 0.5) + Op("x", "v1", 2.0)],
}

h_states = {"real": real_mps, "cplx": cplx_mps, "unnorm": unnorm, "canon": canon, "canon_l": canon_l, "qn0": qn0,
            "mpdm_gs": mpdm_gs, "mpdm_ex": mpdm_ex, "mpdm_rand": mpdm_rand, "mpdm_cplx": mpdm_cplx}
h_bras = {"real": real_mps2, "cplx": cplx_mps2, "unnorm": cplx_mps2, "canon": real_mps2, "canon_l": cplx_mps2,
          "qn0": real_mps2, "mpdm_gs": mpdm_ex, "mpdm_ex": mpdm_cplx, "mpdm_rand": mpdm_ex, "mpdm_cplx": mpdm_gs}

# ----------------------------------------------------------------------
# 3. Mps.expectation
# ----------------------------------------------------------------------
print("== expectation")
for sname, st in h_states.items():
    for oname, ops in h_ops.items():
        for k, op in enumerate(ops):
            show(f"exp {sname} {oname}[{k}]", lambda: st.expectation(op))
            bra = h_bras[sname]
            show(f"exp {sname} {oname}[{k}] bra", lambda: st.expectation(op, bra))
            show(f"exp {sname} {oname}[{k}] bra-kw", lambda: st.expectation(mpo=op, self_conj=bra.conj()))
for sname, st, bra in [("spin", spin_mps, spin_cplx2), ("spin_cplx", spin_cplx, spin_cplx2)]:
    for oname, ops in s_ops.items():
        for k, op in enumerate(ops):
            show(f"exp {sname} {oname}[{k}]", lambda: st.expectation(op))
            show(f"exp {sname} {oname}[{k}] bra", lambda: st.expectation(op, bra))
show("exp one-site X", lambda: one_site.expectation(Mpo(model1, Op("X", 0))))
show("exp one-site X op", lambda: one_site.expectation(Op("X", 0)))
show("exp one-site X bra", lambda: one_site.expectation(Op("X", 0), self_conj=one_site2))
show("exp one-site Y bra", lambda: one_site.expectation(Op("sigma_-", 0), self_conj=one_site2))
show("exp type", lambda: [type(real_mps.expectation(h_ops["ham"][0])).__name__,
                         type(cplx_mps.expectation(h_ops["cplx"][0])).__name__,
                         type(real_mps.expectation(h_ops["lowering"][0])).__name__])
show("exp bad operator", lambda: real_mps.expectation("not an operator"))
show("exp wrong-length bra", lambda: real_mps.expectation(h_ops["ham"][0], spin_mps))

# ----------------------------------------------------------------------
# 4. expectations (fast path uses _get_freq_environ + contract_one_site)
# ----------------------------------------------------------------------
print("== expectations")
for sname, st in h_states.items():
    bra = h_bras[sname]
    for oname, ops in h_ops.items():
        for label, lst in [("fwd", ops), ("rev", ops[::-1]), ("dup", ops + ops[:1]), ("one", ops[:1])]:
            show(f"exps {sname} {oname} {label}", lambda: st.expectations(lst))
            show(f"exps {sname} {oname} {label} noopt", lambda: st.expectations(lst, opt=False))
            show(f"exps {sname} {oname} {label} bra", lambda: st.expectations(lst, bra))
    show(f"exps {sname} empty", lambda: st.expectations([]))
    show(f"exps {sname} empty noopt", lambda: st.expectations([], opt=False))
for sname, st, bra in [("spin", spin_mps, spin_cplx2), ("spin_cplx", spin_cplx, spin_cplx2)]:
    for oname, ops in s_ops.items():
        show(f"exps {sname} {oname}", lambda: st.expectations(ops))
        show(f"exps {sname} {oname} rev bra", lambda: st.expectations(ops[::-1], bra))
        show(f"exps {sname} {oname} noopt bra", lambda: st.expectations(ops, bra, opt=False))
show("exps one-site", lambda: one_site.expectations([Op("X", 0), Op("Z", 0), Op("X", 0)], one_site2))

# ----------------------------------------------------------------------
# 5. _get_freq_environ directly
# ----------------------------------------------------------------------
print("== _get_freq_environ")


def freq_case(tag, st, bra, mpos):
    mpos = [Mpo(st.model, m) if isinstance(m, (Op, OpSum)) else m for m in mpos]
    hash_to_obj = {}
    mpos_hash = []
    for mpo in mpos:
        hs = []
        for m in mpo:
            hash_to_obj.setdefault(hash(m), m)
            hs.append(hash(m))
        mpos_hash.append(hs)
    for domain in ["L", "R"]:
        edict = mps_module._construct_freq_environ(mpos_hash, hash_to_obj, st, domain, bra)
        print(tag, domain, "cached lengths", sorted(len(k) for k in edict))
        for k, mpo in enumerate(mpos):
            for max_length in [np.inf, len(mpo), len(mpo) - 1, 3, 2, 1, 0, -1, 2.5, float("nan")]:
                def run():
                    env, i = mps_module._get_freq_environ(edict, mpo, domain, max_length)
                    return [i, type(i).__name__, env]
                show(f"{tag} {domain} mpo{k} max={max_length}", run)
            show(f"{tag} {domain} mpo{k} kw", lambda: list(mps_module._get_freq_environ(
                environ_dict=edict, mpo=mpo, domain=domain, max_length=np.inf))[1])
        # an operator that is not in the cache at all
        other = Mpo.identity(st.model).scale(2.0)
        show(f"{tag} {domain} uncached", lambda: list(mps_module._get_freq_environ(edict, other, domain, np.inf)))
        # plain list of matrices works too
        show(f"{tag} {domain} list", lambda: list(mps_module._get_freq_environ(edict, list(mpos[0]), domain, np.inf)))
        show(f"{tag} {domain} empty-mpo", lambda: list(mps_module._get_freq_environ(edict, [], domain, np.inf)))
        show(f"{tag} {domain} empty-dict", lambda: list(mps_module._get_freq_environ({}, mpos[0], domain, np.inf)))
    show(f"{tag} bad-domain", lambda: mps_module._get_freq_environ(edict, mpos[0], "X", np.inf))


freq_case("freq real/mixed", real_mps, real_mps.conj(), h_ops["mixed"])
freq_case("freq cplx/onsite bra", cplx_mps, cplx_mps2.conj(), h_ops["onsite"])
freq_case("freq mpdm/mixed", mpdm_cplx, mpdm_ex.conj(), h_ops["mixed"])
freq_case("freq spin", spin_cplx, spin_cplx2, s_ops["mix"])

# ----------------------------------------------------------------------
# 6. Environ / GetLR
# ----------------------------------------------------------------------
print("== Environ.GetLR")


def disk(env):
    return {k: v for k, v in env._virtual_disk.items()}


def environ_case(tag, st, mpo, bra):
    n = len(st)
    for cdomain in ["L", "R", None]:
        for conj_label, conj in [("none", None), ("bra", bra)]:
            env = Environ(st, mpo, cdomain, mps_conj=conj)
            print(f"{tag} construct={cdomain} conj={conj_label} disk", dig(disk(env)))
            for domain in ["L", "R"]:
                for idx in [-2, -1, 0, 1, n // 2, n - 1, n, n + 3]:
                    for method in ["Scratch", "Enviro", "System"]:
                        env = Environ(st, mpo, cdomain, mps_conj=conj)
                        show(f"{tag} c={cdomain} conj={conj_label} GetLR {domain} {idx} {method}",
                             lambda: env.GetLR(domain, idx, st, mpo, itensor=None, method=method, mps_conj=conj))
                        print("   disk keys", sorted(env._virtual_disk, key=repr))
                    # default method, default mps_conj (ms.conj() used per site)
                    env = Environ(st, mpo, cdomain, mps_conj=conj)
                    show(f"{tag} c={cdomain} conj={conj_label} GetLR {domain} {idx} default",
                         lambda: env.GetLR(domain, idx, st, mpo))
    # System with an explicit itensor, and written result
    env = Environ(st, mpo, "R", mps_conj=bra)
    it = env.GetLR("L", 0, st, mpo, itensor=None, method="System", mps_conj=bra)
    show(f"{tag} system chain", lambda: env.GetLR("L", 1, st, mpo, itensor=it, method="System", mps_conj=bra))
    show(f"{tag} system chain stored", lambda: env.read("L", 1))
    show(f"{tag} system chain R", lambda: env.GetLR("R", n - 2, st, mpo, itensor=env.read("R", n - 1), method="System", mps_conj=bra))
    show(f"{tag} enviro ignores itensor", lambda: env.GetLR("R", 1, st, mpo, itensor=it, method="Enviro"))
    show(f"{tag} scratch ignores itensor", lambda: env.GetLR("R", 1, st, mpo, itensor=it, method="Scratch"))
    show(f"{tag} out of range keeps sentinel", lambda: env.GetLR("R", n, st, mpo, itensor=it, method="System"))
    show(f"{tag} missing enviro", lambda: Environ(st, mpo, "R").GetLR("L", 1, st, mpo, method="Enviro"))
    show(f"{tag} missing system", lambda: Environ(st, mpo, "R").GetLR("L", 2, st, mpo, method="System"))
    show(f"{tag} bad domain", lambda: env.GetLR("X", 1, st, mpo))
    show(f"{tag} bad method", lambda: env.GetLR("L", 1, st, mpo, method="scratch"))
    show(f"{tag} positional", lambda: env.GetLR("L", 1, st, mpo, None, "Scratch", bra))
    show(f"{tag} float idx", lambda: env.GetLR("L", 1.0, st, mpo, None, "Scratch", bra))
    show(f"{tag} float idx frac", lambda: env.GetLR("L", 1.5, st, mpo, None, "Scratch", bra))


environ_case("env real/ham", real_mps, h_ops["ham"][0], real_mps2.conj())
environ_case("env cplx/cplxop", cplx_mps, h_ops["cplx"][-1], cplx_mps2.conj())
environ_case("env mpdm/ham", mpdm_cplx, h_ops["ham"][0], mpdm_ex.conj())
environ_case("env spin/ham", spin_cplx, s_ops["mix"][2], spin_cplx2)

print("== Environ with list of mpos")
for tag, st, mpos in [("menv real", real_mps, [h_ops["ham"][0], h_ops["onsite"][1]]),
                      ("menv cplx", cplx_mps, [h_ops["cplx"][0], h_ops["ham"][0]]),
                      ("menv mpdm", mpdm_cplx, [h_ops["ham"][0], h_ops["ham"][0]])]:
    n = len(st)
    for cdomain in ["L", "R", None]:
        env = Environ(st, mpos, cdomain)
        print(f"{tag} construct={cdomain} disk", dig(disk(env)))
    for domain in ["L", "R"]:
        for idx in [-1, 0, 2, n - 1, n]:
            for method in ["Scratch", "Enviro", "System"]:
                env = Environ(st, mpos, None)
                show(f"{tag} GetLR {domain} {idx} {method}",
                     lambda: env.GetLR(domain, idx, st, mpos, itensor=None, method=method))
                show(f"{tag} GetLR {domain} {idx} {method} conj",
                     lambda: env.GetLR(domain, idx, st, mpos, itensor=None, method=method, mps_conj=st.conj()))

# ----------------------------------------------------------------------
# 7. reduced density matrices, entropies, occupations
# ----------------------------------------------------------------------
print("== rdm / entropy / occupations")
for sname, st in list(h_states.items()) + [("spin", spin_mps), ("spin_cplx", spin_cplx)]:
    show(f"rdm1 {sname}", lambda: st.calc_1site_rdm())
    show(f"rdm1 {sname} idx", lambda: st.calc_1site_rdm(idx=[1, 0]))
    show(f"rdm2 {sname}", lambda: st.calc_2site_rdm())
    show(f"e_occ {sname}", lambda: st.e_occupations)
    show(f"ph_occ {sname}", lambda: st.ph_occupations)
    if sname not in ("spin", "spin_cplx"):
        show(f"edof rdm {sname}", lambda: st.calc_edof_rdm())
for sname, st in [("canon", canon.copy().normalize("mps_only")), ("spin_cplx", spin_cplx.copy().normalize("mps_only"))]:
    for et in ["1site", "2site", "mutual", "bond"]:
        show(f"entropy {sname} {et}", lambda: st.calc_entropy(et))
show("rdm2 one-site", lambda: one_site.calc_2site_rdm())
show("rdm1 one-site", lambda: one_site.calc_1site_rdm())
print("done")
