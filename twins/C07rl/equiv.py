import hashlib
import logging

import numpy as np

logging.disable(logging.CRITICAL)

from renormalizer.model import Model, Op, OpSum
from renormalizer.model.basis import BasisSHO, BasisSimpleElectron, BasisHalfSpin, BasisMultiElectron
from renormalizer.mps import Mps, Mpo, MpDm
from renormalizer.utils.utils import calc_vn_entropy, calc_vn_entropy_dm

ND = 8


def fmt(x):
    a = np.asarray(x)
    if a.dtype == object:
        return repr(x)
    a = np.round(a.astype(complex), ND) + (0.0 + 0.0j)
    h = hashlib.md5(np.ascontiguousarray(a).tobytes()).hexdigest()[:12]
    flat = a.ravel()
    head = ",".join(f"{v.real:+.8f}{v.imag:+.8f}j" for v in flat[:4])
    return f"dtype={np.asarray(x).dtype} shape={a.shape} md5={h} sum={complex(np.round(flat.sum(), 6))} head=[{head}]"


def show(tag, val):
    if isinstance(val, dict):
        print(tag, "dict keys=", sorted(val.keys(), key=repr))
        for k in sorted(val.keys(), key=repr):
            print("   ", k, type(val[k]).__name__, fmt(val[k]))
    else:
        print(tag, type(val).__name__, fmt(val))


def attempt(tag, fn):
    try:
        val = fn()
    except Exception as e:  # noqa
        print(tag, "EXC", type(e).__name__, str(e)[:80])
        return None
    show(tag, val)
    return val


def holstein(n, nbas=3):
    basis = []
    for i in range(n):
        basis.append(BasisSimpleElectron(i))
        basis.append(BasisSHO(f"v_{i}", 1.0 + 0.1 * i, nbas))
    ham = OpSum()
    for i in range(n):
        ham += Op(r"a^\dagger a", i, 0.3 * i)
        ham += Op(r"b^\dagger b", f"v_{i}", 1.0 + 0.1 * i)
        ham += Op(r"a^\dagger a", i) * Op(r"b^\dagger+b", f"v_{i}") * 0.2
    for i in range(n - 1):
        ham += Op(r"a^\dagger a", [i, i + 1], 0.1)
        ham += Op(r"a^\dagger a", [i + 1, i], 0.1)
    return Model(basis, ham)


def spin_model(n):
    basis = [BasisHalfSpin(i) for i in range(n)]
    ham = OpSum()
    for i in range(n - 1):
        ham += Op("sigma_z sigma_z", [i, i + 1], 1.0)
    for i in range(n):
        ham += Op("sigma_x", i, 0.5)
    return Model(basis, ham)


def complexify(mps, seed):
    rng = np.random.RandomState(seed)
    new = mps.to_complex()
    for i in range(len(new)):
        arr = np.asarray(new[i].array)
        # keep the sparsity pattern (quantum numbers) of the state
        phase = np.exp(1j * rng.uniform(0, 2 * np.pi, size=arr.shape))
        new[i] = arr * phase
    return new


def rdm_and_entropy(tag, mps):
    attempt(tag + " 1rdm all", lambda: mps.calc_1site_rdm())
    attempt(tag + " 1rdm None", lambda: mps.calc_1site_rdm(None))
    attempt(tag + " 1rdm int0", lambda: mps.calc_1site_rdm(0))
    attempt(tag + " 1rdm int-last", lambda: mps.calc_1site_rdm(mps.site_num - 1))
    attempt(tag + " 1rdm list", lambda: mps.calc_1site_rdm([2, 0]))
    attempt(tag + " 1rdm tuple", lambda: mps.calc_1site_rdm((1, 1, 3)))
    attempt(tag + " 1rdm empty", lambda: mps.calc_1site_rdm([]))
    attempt(tag + " 1rdm out-of-range", lambda: mps.calc_1site_rdm([99]))
    attempt(tag + " 1rdm neg", lambda: mps.calc_1site_rdm(-1))
    attempt(tag + " 1rdm npint", lambda: mps.calc_1site_rdm(np.int64(1)))
    attempt(tag + " 1rdm bool", lambda: mps.calc_1site_rdm(True))
    attempt(tag + " 1rdm str", lambda: mps.calc_1site_rdm("0"))
    attempt(tag + " 1rdm range", lambda: mps.calc_1site_rdm(range(2)))
    attempt(tag + " 1rdm ndarray", lambda: mps.calc_1site_rdm(np.array([0, 1])))
    idx_in = [1, 0]
    mps.calc_1site_rdm(idx_in)
    print(tag, "idx arg after call", idx_in)
    attempt(tag + " 2rdm", lambda: mps.calc_2site_rdm())
    for et in ["1site", "2site", "mutual", "bond", "3site", "", None, 1, ["1site"], ("2site",), b"bond"]:
        attempt(tag + f" entropy {et!r}", lambda: mps.calc_entropy(et))
    attempt(tag + " entropy kw", lambda: mps.calc_entropy(entropy_type="1site"))
    attempt(tag + " mutual direct", lambda: mps.calc_2site_mutual_entropy())


def expectations_block(tag, mps, model, oplists, bra=None):
    for name, ops in oplists:
        attempt(f"{tag} expectations[{name}] opt", lambda: mps.expectations(ops, bra))
        attempt(f"{tag} expectations[{name}] naive", lambda: mps.expectations(ops, bra, opt=False))
        attempt(f"{tag} expectations[{name}] kw", lambda: mps.expectations(mpos=ops, self_conj=bra, opt=True))
        before = list(ops)
        mps.expectations(ops, bra) if len(ops) else None
        print(tag, name, "list untouched", all(a is b for a, b in zip(before, ops)), len(before) == len(ops))


def main():
    # ---------------- utils --------------------------------------------------
    rng = np.random.RandomState(7)
    for i, p in enumerate([
        [0.5, 0.5], [1.0], [0.2, 0.3, 0.5, 0.0], [2.0, 1.0, 1.0], [1e-14, 1.0, -1e-12],
        rng.rand(7), np.array([0.25] * 4), [0.5, -0.5, 1.0], [], [0.0, 0.0], (0.1, 0.9),
        np.array([[0.5, 0.5], [0.0, 0.0]]), [1, 3],
    ]):
        attempt(f"vn_entropy #{i}", lambda: calc_vn_entropy(p))
    for i, shape in enumerate([(3, 3), (2, 3, 2, 3), (1, 1), (2, 2, 2, 2, 2, 2)]):
        dim = int(np.prod(shape[: len(shape) // 2]))
        a = rng.rand(dim, dim) + 1j * rng.rand(dim, dim)
        dm = a @ a.conj().T
        attempt(f"vn_entropy_dm cplx #{i}", lambda: calc_vn_entropy_dm(dm.reshape(shape)))
        attempt(f"vn_entropy_dm real #{i}", lambda: calc_vn_entropy_dm(dm.real.reshape(shape)))
    attempt("vn_entropy_dm 1d", lambda: calc_vn_entropy_dm(np.ones(3)))
    attempt("vn_entropy_dm odd", lambda: calc_vn_entropy_dm(np.ones((2, 2, 2))))
    attempt("vn_entropy_dm neg", lambda: calc_vn_entropy_dm(np.diag([1.0, -1.0])))

    # ---------------- states -------------------------------------------------
    model = holstein(3)
    np.random.seed(11)
    m_real = Mps.random(model, 1, 6)
    np.random.seed(12)
    m_real2 = Mps.random(model, 1, 5)
    m_cplx = complexify(m_real, 3)
    m_cplx2 = complexify(m_real2, 4)
    m_canon = m_cplx.copy().canonicalise().normalize("mps_only")
    m_left = m_cplx.copy()
    m_left.ensure_left_canonical()
    m_scaled = m_real.copy()
    m_scaled.coeff = 0.5 - 0.25j
    np.random.seed(13)
    m_qn2 = Mps.random(model, 2, 6)
    m_gs = Mps.ground_state(model, max_entangled=False)
    m_hartree = Mps.hartree_product_state(model, {0: 1, "v_1": 2})
    smodel = spin_model(5)
    np.random.seed(14)
    m_spin = complexify(Mps.random(smodel, 0, 4), 5)
    one = Model([BasisHalfSpin(0)], [])
    m_one = Mps.hartree_product_state(one, {0: [0.6, 0.8]})
    two = Model([BasisHalfSpin(0), BasisSHO("v", 1.0, 3)], [])
    np.random.seed(15)
    m_two = complexify(Mps.random(two, 0, 3), 6)
    dm_ex = MpDm.max_entangled_ex(model)
    dm_gs = MpDm.max_entangled_gs(model)
    dm_rand = MpDm.from_mps(m_real)
    dm_cplx = complexify(Mpo(model, Op(r"b^\dagger+b", "v_0") * 0.3 + Op("I", 0)).apply(dm_ex), 8)

    states = [
        ("real", m_real), ("cplx", m_cplx), ("canon", m_canon), ("leftcanon", m_left),
        ("scaled", m_scaled), ("qn2", m_qn2), ("gs", m_gs), ("hartree", m_hartree),
        ("spin", m_spin), ("one", m_one), ("two", m_two),
        ("dm_ex", dm_ex), ("dm_gs", dm_gs), ("dm_rand", dm_rand), ("dm_cplx", dm_cplx),
    ]
    for tag, st in states:
        rdm_and_entropy(tag, st)

    # ---------------- expectations ------------------------------------------
    n = 3
    onsite = [Mpo.onsite(model, r"a^\dagger a", dof_set={i}) for i in range(n)]
    inter = [Mpo.intersite(model, {i: "a", i + 1: r"a^\dagger"}, {}) for i in range(n - 1)]
    ham = Mpo(model)
    cplx_op = Mpo(model, Op(r"a^\dagger a", [0, 2], 0.5 + 0.7j) + Op(r"b^\dagger b", "v_1", 1j))
    raw_ops = [Op(r"b^\dagger b", "v_0"), Op(r"a^\dagger a", 1) + Op("x", "v_2", 0.3), Op(r"b^\dagger+b", "v_1", 2.0)]
    lower = [Mpo.intersite(model, {i: "a"}, {}) for i in range(n)]
    oplists = [
        ("empty", []),
        ("single", [onsite[1]]),
        ("onsite", onsite),
        ("onsite-rev", onsite[::-1]),
        ("inter", inter),
        ("mixed", inter + lower + [ham]),
        ("dup", [onsite[0], onsite[0], ham, onsite[0], ham]),
        ("cplx", [cplx_op, onsite[2], cplx_op]),
        ("raw", raw_ops),
        ("raw+mpo", raw_ops[:1] + [ham] + raw_ops[1:] + onsite),
        ("tuple", tuple(onsite)),
        ("phocc", [Mpo(model, Op("n", d)) for d in model.v_dofs]),
    ]
    for tag, st, bra in [
        ("real", m_real, None), ("cplx", m_cplx, None), ("scaled", m_scaled, None),
        ("real|real2", m_real, m_real2), ("cplx|cplx2", m_cplx, m_cplx2.conj()),
        ("real|cplx2", m_real, m_cplx2), ("canon", m_canon, None),
        ("dm_ex", dm_ex, None), ("dm_cplx", dm_cplx, None), ("dm_rand", dm_rand, None),
    ]:
        expectations_block(tag, st, model, oplists, bra)
    attempt("bad element", lambda: m_real.expectations([onsite[0], 3]))
    attempt("bad element naive", lambda: m_real.expectations([onsite[0], None], opt=False))
    attempt("not a list", lambda: m_real.expectations(onsite[0]))
    attempt("generator", lambda: m_real.expectations(o for o in onsite))
    sops = [Op("sigma_z", i) for i in range(5)] + [Op("sigma_x sigma_x", [0, 4]), Op("sigma_x", 2, 0.5 + 0.5j)]
    attempt("spin raw", lambda: m_spin.expectations(sops))
    attempt("spin raw naive", lambda: m_spin.expectations(sops, opt=False))
    attempt("one", lambda: m_one.expectations([Op("sigma_x", 0), Op("sigma_z", 0), Op("sigma_y", 0)]))
    attempt("one naive", lambda: m_one.expectations([Op("sigma_x", 0), Op("sigma_z", 0), Op("sigma_y", 0)], opt=False))
    # users of expectations / rdm
    for tag, st in states[:8] + states[11:]:
        attempt(tag + " e_occ", lambda: st.e_occupations)
        attempt(tag + " ph_occ", lambda: st.ph_occupations)
        attempt(tag + " edof_rdm", lambda: st.calc_edof_rdm())
    # multi-electron basis (pbond > 2 on an electronic site)
    me = Model([BasisMultiElectron(list(range(3)), [1, 1, 1])] + [BasisSHO(f"v_{i}", 1, 2) for i in range(2)], [])
    np.random.seed(21)
    m_me = complexify(Mps.random(me, 1, 5), 9)
    rdm_and_entropy("multi-e", m_me)
    attempt("multi-e edof_rdm", lambda: m_me.calc_edof_rdm())


if __name__ == "__main__":
    main()
