"""Equivalence digest for the refactoring of renormalizer/mps/gs.py
(sign_fix, eigh_direct, eigh_iterative, single_sweep)."""
import hashlib
import logging

import numpy as np

logging.disable(logging.CRITICAL)

from renormalizer.model import Model, Op
from renormalizer.model import basis as ba
from renormalizer.mps import gs
from renormalizer.mps import Mpo, Mps, StackedMpo
from renormalizer.mps.lib import Environ
from renormalizer.mps.matrix import asxp
from renormalizer.mps.svd_qn import get_qn_mask
from renormalizer.tests.parameter import holstein_model
from renormalizer.utils.configs import OFS


def dig(x):
    """deterministic, full precision digest of nested results"""
    if isinstance(x, (list, tuple)):
        return "[" + ", ".join(dig(i) for i in x) + "]"
    if isinstance(x, np.ndarray):
        a = np.ascontiguousarray(x)
        h = hashlib.sha1(a.tobytes()).hexdigest()[:12]
        flat = a.ravel()
        head = ",".join(repr(complex(v)) if np.iscomplexobj(a) else repr(float(v)) for v in flat[:3])
        return f"nd{a.shape}{a.dtype}:{h}:{head}"
    if isinstance(x, (float, np.floating)):
        return repr(float(x))
    if isinstance(x, (complex, np.complexfloating)):
        return repr(complex(x))
    return repr(x)


def show(tag, x):
    print(f"{tag}: {dig(x)}")


def attempt(tag, func):
    try:
        show(tag, func())
    except Exception as exc:  # noqa
        print(f"{tag}: EXC {type(exc).__name__}: {str(exc)[:80]}")


# ----------------------------------------------------------------------------
# 1. sign_fix
# ----------------------------------------------------------------------------
def check_sign_fix():
    rng = np.random.RandomState(11)
    v = rng.rand(7) - 0.5
    show("sf.1root.real", gs.sign_fix(v, 1))
    show("sf.1root.neg", gs.sign_fix(-np.abs(v), 1))
    show("sf.1root.len1", gs.sign_fix(np.array([-2.0]), 1))
    vc = rng.rand(6) - 0.5 + 1j * (rng.rand(6) - 0.5)
    show("sf.1root.complex", gs.sign_fix(vc, 1))
    show("sf.0root", gs.sign_fix(v, 0))
    vs = [rng.rand(5) - 0.5 for _ in range(3)]
    show("sf.list", gs.sign_fix(vs, 3))
    show("sf.list.empty", gs.sign_fix([], 2))
    show("sf.list.one", gs.sign_fix([np.array([-1.0, 0.5])], 2))
    show("sf.list.complex", gs.sign_fix([vc, -vc], 2))
    m = rng.rand(6, 4) - 0.5
    show("sf.mat", gs.sign_fix(m, 4))
    show("sf.mat.fewer", gs.sign_fix(m[:, :2], 4))
    show("sf.mat.complex", gs.sign_fix(m + 1j * m[::-1], 4))
    # a list passed with nroots == 1 (falls to the single-vector formula)
    attempt("sf.list.nroots1", lambda: gs.sign_fix([np.array([1.0, -3.0])], 1))
    # ties in the absolute value / zeros
    show("sf.tie", gs.sign_fix(np.array([0.5, -0.5, 0.5]), 1))
    with np.errstate(all="ignore"):
        show("sf.zero", gs.sign_fix(np.zeros(3), 1))
        show("sf.zero.mat", gs.sign_fix(np.zeros((3, 2)), 2))


# ----------------------------------------------------------------------------
# 2. local eigen-solvers on a hand made local problem
# ----------------------------------------------------------------------------
def spin_model(nsites=6, seed=0):
    rng = np.random.RandomState(seed)
    basis = [ba.BasisHalfSpin(i, sigmaqn=[1, -1]) for i in range(nsites)]
    ham = []
    for i in range(nsites - 1):
        ham.append(Op("sigma_z sigma_z", [i, i + 1], rng.rand()))
        ham.append(Op("sigma_+ sigma_-", [i, i + 1], rng.rand()))
        ham.append(Op("sigma_- sigma_+", [i, i + 1], rng.rand()))
    for i in range(nsites):
        ham.append(Op("sigma_z", i, rng.rand() - 0.5))
    return Model(basis, ham)


def local_problem(mps, mpo, method, to_right, omega, stacked=False):
    """reproduce the set-up of single_sweep for one active site"""
    if to_right:
        mps.ensure_left_canonical()
        mps.ensure_right_canonical()
        env = "R"
    else:
        mps.ensure_right_canonical()
        mps.ensure_left_canonical()
        env = "L"
    assert mps.to_right == to_right
    if omega is not None:
        mpo = mpo.add(Mpo.identity(mpo.model).scale(-omega))
        operator = [mpo, mpo]
        environ = Environ(mps, operator, env)
    elif stacked:
        operator = mpo
        environ = [Environ(mps, item, env) for item in mpo.mpos]
    else:
        operator = mpo
        environ = Environ(mps, mpo, env)
    results = []
    # the first active site of the sweep (environment from the stored tensors) and a site in the middle
    # (environment computed from scratch)
    for imps, scratch in [(list(mps.iter_idx_list(full=True))[0], False), (len(mps) // 2, True)]:
        if method == "1site":
            lidx, cidx, ridx = imps - 1, [imps], imps + 1
        elif to_right:
            lidx, cidx, ridx = imps - 1, [imps, imps + 1], imps + 2
        else:
            lidx, cidx, ridx = imps - 2, [imps - 1, imps], imps + 1
        if scratch:
            lm, rm = "Scratch", "Scratch"
            mps.move_qnidx(imps)
        else:
            lm, rm = ("System", "Enviro") if to_right else ("Enviro", "System")
        if stacked:
            lt = [e.GetLR("L", lidx, mps, o, itensor=None, method=lm) for e, o in zip(environ, operator.mpos)]
            rt = [e.GetLR("R", ridx, mps, o, itensor=None, method=rm) for e, o in zip(environ, operator.mpos)]
            cmo = [[asxp(m[idx]) for idx in cidx] for m in mpo.mpos]
        else:
            lt = environ.GetLR("L", lidx, mps, operator, itensor=None, method=lm)
            rt = environ.GetLR("R", ridx, mps, operator, itensor=None, method=rm)
            cmo = [asxp(mpo[idx]) for idx in cidx]
        qnbigl, qnbigr, qnmat = mps._get_big_qn(cidx)
        qn_mask = get_qn_mask(qnmat, mps.qntot)
        results.append((qn_mask, lt, rt, cmo))
    return results


class FakePrimme:
    """stands in for the (not installed) primme package: records what it is given and exercises
    the operators with vectors and with blocks"""

    def __init__(self, tag):
        self.tag = tag

    def eigsh(self, A, **kwargs):
        v0 = kwargs["v0"]
        show(self.tag + ".primme.kw", sorted((k, v if not hasattr(v, "shape") else v.shape)
                                            for k, v in kwargs.items() if k != "OPinv"))
        show(self.tag + ".primme.Ashape", (A.shape, kwargs["OPinv"].shape))
        show(self.tag + ".primme.matvec", A.matvec(v0[:, 0]))
        show(self.tag + ".primme.matmat", A.matmat(v0))
        show(self.tag + ".primme.precond", kwargs["OPinv"].matvec(v0[:, 0]))
        k = kwargs["k"]
        dense = np.stack([A.matvec(row) for row in np.eye(A.shape[0])], axis=1)
        w, v = np.linalg.eigh((dense + dense.T.conj()) / 2)
        return w[:k], v[:, :k]


def solve_local(tag, mps, problem, omega, nroots, seed):
    qn_mask, lt, rt, cmo = problem
    show(tag + ".mask", (qn_mask.shape, int(qn_mask.sum())))
    for inverse in [1.0, -1.0]:
        mps.optimize_config.inverse = inverse
        attempt(tag + f".direct.inv{inverse}", lambda: gs.eigh_direct(mps, qn_mask, lt, rt, cmo, omega))
    mps.optimize_config.inverse = 1.0
    dim = int(qn_mask.sum())
    rng = np.random.RandomState(seed)
    cguess = [rng.rand(dim) - 0.5 for _ in range(nroots)]

    def iterative():
        return gs.eigh_iterative(mps, qn_mask, lt, rt, cmo, omega, [g.copy() for g in cguess])

    mps.optimize_config.algo = "davidson"
    np.random.seed(7)
    attempt(tag + ".davidson", iterative)
    mps.optimize_config.inverse = -1.0
    attempt(tag + ".davidson.inv", iterative)
    mps.optimize_config.inverse = 1.0
    # primme missing -> import exception
    mps.optimize_config.algo = "primme"
    saved = gs.primme
    gs.primme = None
    attempt(tag + ".primme.none", iterative)
    gs.primme = FakePrimme(tag)
    attempt(tag + ".primme.fake", iterative)
    gs.primme = saved
    mps.optimize_config.algo = "lobpcg"
    attempt(tag + ".badalgo", iterative)
    if isinstance(lt, list):
        # mismatching list lengths -> assertion
        attempt(tag + ".direct.mismatch", lambda: gs.eigh_direct(mps, qn_mask, lt, rt[:-1], cmo, None))
        mps.optimize_config.algo = "davidson"
        attempt(tag + ".iter.mismatch", lambda: gs.eigh_iterative(mps, qn_mask, lt, rt[:-1], cmo, None, cguess))
        attempt(tag + ".direct.notlist", lambda: gs.eigh_direct(mps, qn_mask, lt, rt[0], cmo, None))
        attempt(tag + ".iter.notlist", lambda: gs.eigh_iterative(mps, qn_mask, lt, rt[0], cmo, None, cguess))


def check_local_solvers():
    # a bigger local problem (electron-phonon model, one exciton)
    hmpo = Mpo(holstein_model)
    for method in ["1site", "2site"]:
        for to_right in [True, False]:
            for omega, nroots in [(None, 1), (None, 4), (0.09, 2)]:
                tag = f"hol.{method}.{'R' if to_right else 'L'}.om{omega}.n{nroots}"
                np.random.seed(21)
                mps = Mps.random(holstein_model, 1, 8, percent=1.0)
                mps.optimize_config.method = method
                mps.optimize_config.nroots = nroots
                for isite, problem in enumerate(local_problem(mps, hmpo, method, to_right, omega)):
                    solve_local(f"{tag}.s{isite}", mps, problem, omega, nroots, 3)

    model = spin_model(6, seed=3)
    mpo = Mpo(model)
    case = 0
    for method in ["1site", "2site"]:
        for to_right in [True, False]:
            for omega in [None, 0.3]:
                for nroots in [1, 3]:
                    for cplx in [False, True]:
                        case += 1
                        tag = f"loc.{method}.{'R' if to_right else 'L'}.om{omega}.n{nroots}.c{int(cplx)}"
                        np.random.seed(100 + case)
                        mps = Mps.random(model, 0 if case % 2 else 2, 6, percent=1.0)
                        if cplx:
                            mps = mps.to_complex()
                            for i in range(len(mps)):
                                mps[i] = mps[i].array * np.exp(0.3j * (i + 1))
                        mps.optimize_config.method = method
                        mps.optimize_config.nroots = nroots
                        for isite, problem in enumerate(local_problem(mps, mpo, method, to_right, omega)):
                            solve_local(f"{tag}.s{isite}", mps, problem, omega, nroots, case)

    # stacked mpo, both solvers
    for method in ["1site", "2site"]:
        for to_right in [True, False]:
            for nroots in [1, 2]:
                tag = f"stk.{method}.{'R' if to_right else 'L'}.n{nroots}"
                np.random.seed(55)
                mps = Mps.random(model, 0, 5, percent=1.0)
                mps.optimize_config.method = method
                mps.optimize_config.nroots = nroots
                smpo = StackedMpo([mpo, Mpo(spin_model(6, seed=4)), mpo])
                for isite, problem in enumerate(local_problem(mps, smpo, method, to_right, None, stacked=True)):
                    solve_local(f"{tag}.s{isite}", mps, problem, None, nroots, 9)


# ----------------------------------------------------------------------------
# 3. whole sweeps / optimisations
# ----------------------------------------------------------------------------
def mps_digest(mp):
    return [mp.bond_dims, mp.qntot.tolist() if hasattr(mp.qntot, "tolist") else mp.qntot, mp.qnidx, mp.to_right,
            [np.asarray(m.array) for m in mp], [np.asarray(q).tolist() for q in mp.qn]]


def run_opt(tag, model, nexciton, method, nroots, algo, omega, procedure, start_left, seed,
            stacked=False, ofs=False, cplx=False):
    np.random.seed(seed)
    mpo = Mpo(model)
    mps = Mps.random(model, nexciton, procedure[0][0], percent=1.0)
    if ofs:
        mps.model = Model(mps.model.basis, mps.model.ham_terms)
        mps.compress_config.ofs = OFS.ofs_s
    if cplx:
        mps = mps.to_complex()
    if start_left:
        mps.ensure_right_canonical()
        mps.ensure_left_canonical()
    mps.optimize_config.procedure = procedure
    mps.optimize_config.method = method
    mps.optimize_config.nroots = nroots
    mps.optimize_config.algo = algo
    if stacked:
        mpo = StackedMpo([mpo, mpo])
    np.random.seed(seed + 1)
    energies, res = gs.optimize_mps(mps, mpo, omega=omega)
    show(tag + ".e", energies)
    if nroots == 1:
        show(tag + ".mps", mps_digest(res))
    else:
        show(tag + ".mps", [mps_digest(r) for r in res])
    show(tag + ".work", mps_digest(mps))
    show(tag + ".rand", np.random.rand())


def check_single_sweep_direct():
    """single_sweep on its own: both directions, with and without a stored optimum"""
    model = holstein_model
    mpo = Mpo(model)
    for method in ["1site", "2site"]:
        for nroots in [1, 2]:
            for algo in ["davidson", "direct"]:
                for start_left in [False, True]:
                    tag = f"ss.{method}.n{nroots}.{algo}.{'L' if start_left else 'R'}"
                    np.random.seed(77)
                    mps = Mps.random(model, 1, 16, percent=1.0)
                    if start_left:
                        mps.ensure_right_canonical()
                        mps.ensure_left_canonical()
                        env = "R"
                        mps.ensure_right_canonical()
                    else:
                        mps.ensure_left_canonical()
                        env = "L"
                    mps.optimize_config.method = method
                    mps.optimize_config.nroots = nroots
                    mps.optimize_config.algo = algo
                    environ = Environ(mps, mpo, env)
                    last = None
                    for isweep, percent in enumerate([0.3, 0.0, 0.0]):
                        np.random.seed(5 + isweep)
                        micro, res, mpo_out = gs.single_sweep(mps, mpo, environ, None, percent, last)
                        show(tag + f".s{isweep}.micro", micro)
                        show(tag + f".s{isweep}.same_mpo", mpo_out is mpo)
                        if res is None:
                            show(tag + f".s{isweep}.res", None)
                        elif nroots == 1:
                            show(tag + f".s{isweep}.res", mps_digest(res))
                        else:
                            show(tag + f".s{isweep}.res", [mps_digest(r) for r in res])
                        show(tag + f".s{isweep}.work", mps_digest(mps))
                        show(tag + f".s{isweep}.rand", np.random.rand())
                        last = min(micro)[1]


def check_optimisations():
    hol = holstein_model
    proc_small = [[4, 0.4], [8, 0.2], [8, 0], [8, 0]]
    proc_big = [[10, 0.4], [16, 0.2], [16, 0], [16, 0]]
    spin = spin_model(8, seed=1)
    n = 0
    # small local problems -> always the direct solver
    for method in ["1site", "2site"]:
        for nroots in [1, 3]:
            for start_left in [False, True]:
                n += 1
                run_opt(f"opt.spin.{method}.n{nroots}.{'L' if start_left else 'R'}", spin, 2 if n % 2 else 4,
                        method, nroots, "davidson", None, proc_small, start_left, seed=n)
    # large local problems -> the iterative solver with its initial guess
    for method in ["1site", "2site"]:
        for nroots in [1, 3]:
            for start_left in [False, True]:
                n += 1
                run_opt(f"opt.hol.{method}.n{nroots}.{'L' if start_left else 'R'}", hol, 1,
                        method, nroots, "davidson", None, proc_big, start_left, seed=n)
    # explicit algo == direct
    run_opt("opt.hol.direct.2site.n2", hol, 1, "2site", 2, "direct", None, proc_small, False, seed=40)
    # omega
    run_opt("opt.hol.omega.1site.n1", hol, 1, "1site", 1, "davidson", 0.084, proc_big, False, seed=41)
    run_opt("opt.hol.omega.2site.n2", hol, 1, "2site", 2, "davidson", 0.084, proc_big, True, seed=42)
    run_opt("opt.spin.omega.2site.n1", spin, 0, "2site", 1, "davidson", 0.5, proc_small, True, seed=43)
    # stacked
    run_opt("opt.hol.stacked.1site", hol.switch_scheme(1), 1, "1site", 1, "davidson", None, proc_big, False,
            seed=44, stacked=True)
    run_opt("opt.hol.stacked.2site.n2", hol.switch_scheme(1), 1, "2site", 2, "davidson", None, proc_big, True,
            seed=45, stacked=True)
    # on the fly swapping
    run_opt("opt.hol.ofs", hol.switch_scheme(1), 1, "2site", 1, "davidson", None, proc_big, False,
            seed=46, ofs=True)
    # complex mps
    run_opt("opt.spin.cplx.2site", spin, 0, "2site", 1, "davidson", None, proc_small, False, seed=47, cplx=True)
    run_opt("opt.hol.cplx.1site.n2", hol, 1, "1site", 2, "davidson", None, proc_big, True, seed=48, cplx=True)
    # stacked + omega is refused; a bad method is refused
    attempt("opt.stacked.omega", lambda: run_opt("x", hol, 1, "1site", 1, "davidson", 0.1, proc_small, False,
                                                 seed=49, stacked=True))
    attempt("opt.badmethod", lambda: run_opt("x", hol, 1, "3site", 1, "davidson", None, proc_small, False, seed=50))


if __name__ == "__main__":
    check_sign_fix()
    check_local_solvers()
    check_single_sweep_direct()
    check_optimisations()
