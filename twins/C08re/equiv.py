# Equivalence check for the refactoring of renormalizer/mps/gs.py
# (get_ham_direct, eigh_direct, eigh_iterative, optimize_mps).
# Prints a deterministic digest; run before and after the change and diff.
import hashlib
import logging
import os
import sys
import types

if os.environ.get("PYTHONHASHSEED") != "0":
    # the symbolic MPO construction iterates over sets of strings: fix the hash seed so
    # that the digest is reproducible from run to run
    os.environ["PYTHONHASHSEED"] = "0"
    os.execv(sys.executable, [sys.executable] + sys.argv)

logging.disable(logging.CRITICAL)

import numpy as np

from renormalizer.model import Model, Op
from renormalizer.model import basis as ba
from renormalizer.mps import Mpo, Mps, StackedMpo
from renormalizer.mps import gs
from renormalizer.mps.lib import Environ
from renormalizer.mps.matrix import asxp, asnumpy, tensordot
from renormalizer.mps.svd_qn import get_qn_mask
from renormalizer.tests.parameter import holstein_model
from renormalizer.utils import CompressConfig, CompressCriteria, Quantity
from renormalizer.utils.configs import OFS

ND = 9


def rnd(x):
    a = np.asarray(x)
    if np.iscomplexobj(a):
        a = np.stack([a.real, a.imag])
    a = np.round(a.astype(float), ND) + 0.0
    return a


def dig(x):
    """short deterministic digest of an array-like"""
    a = np.asarray(x)
    r = rnd(a)
    h = hashlib.md5(np.ascontiguousarray(r).tobytes()).hexdigest()[:10]
    return f"{a.dtype}{list(a.shape)} sum={np.round(r.sum(), 7) + 0.0} abs={np.round(np.abs(r).sum(), 7) + 0.0} md5={h}"


def out(*args):
    print(*args, flush=True)


def call(label, f, *args, **kwargs):
    try:
        res = f(*args, **kwargs)
    except BaseException as e:  # noqa
        out(label, "RAISED", type(e).__name__, str(e)[:120])
        return None
    return res


# ---------------------------------------------------------------------------
# part 1: synthetic tensors, fake mps carrying only the optimize_config
# ---------------------------------------------------------------------------
def fake_mps(method, nroots=1, inverse=1.0, algo="davidson"):
    cfg = types.SimpleNamespace(method=method, nroots=nroots, inverse=inverse, algo=algo)
    return types.SimpleNamespace(optimize_config=cfg)


def herm_mo(rng, dl, p, dr, cplx):
    # operator site tensor, hermitian in the physical indices for every bond pair
    mo = rng.standard_normal((dl, p, p, dr))
    if cplx:
        mo = mo + 1j * rng.standard_normal((dl, p, p, dr))
    return mo + mo.conj().transpose(0, 2, 1, 3)


def herm_env(rng, m, d, cplx, nmid=1):
    shape = (m,) + (d,) * nmid + (m,)
    t = rng.standard_normal(shape)
    if cplx:
        t = t + 1j * rng.standard_normal(shape)
    perm = tuple(range(len(shape)))[::-1]
    if nmid == 2:
        # (a,b,c,d): bra a, mpo b, mpo c, ket d
        return t + t.conj().transpose(3, 2, 1, 0)
    return t + t.conj().transpose(perm)


def synthetic_cases():
    rng = np.random.default_rng(20240817)
    for cplx in (False, True):
        for method in ("1site", "2site"):
            for use_omega in (False, True):
                for nroots, inverse in ((1, 1.0), (3, 1.0), (1, -1.0), (2, -1.0)):
                    ml, mr, d, p = 3, 2, 2, 3
                    nmid = 2 if use_omega else 1
                    lt = herm_env(rng, ml, d, cplx, nmid)
                    rt = herm_env(rng, mr, d, cplx, nmid)
                    if method == "1site":
                        cmo = [herm_mo(rng, d, p, d, cplx)]
                        cshape = (ml, p, mr)
                    else:
                        cmo = [herm_mo(rng, d, p, 4, cplx), herm_mo(rng, 4, p, d, cplx)]
                        cshape = (ml, p, p, mr)
                    qn_mask = rng.random(cshape) < 0.6
                    qn_mask.flat[0] = True
                    qn_mask.flat[-1] = True
                    omega = 0.37 if use_omega else None
                    yield (cplx, method, use_omega, nroots, inverse), lt, rt, cmo, qn_mask, omega


def part1():
    out("== part 1: synthetic get_ham_direct / eigh_direct ==")
    for key, lt, rt, cmo, qn_mask, omega in synthetic_cases():
        cplx, method, use_omega, nroots, inverse = key
        mps = fake_mps(method, nroots, inverse)
        lt_c, rt_c, cmo_c = lt.copy(), rt.copy(), [c.copy() for c in cmo]
        ham = call("ham", gs.get_ham_direct, mps, qn_mask, asxp(lt), asxp(rt), [asxp(c) for c in cmo], omega)
        out(key, "ham", dig(asnumpy(ham)))
        res = call("eigh_direct", gs.eigh_direct, mps, qn_mask, asxp(lt), asxp(rt), [asxp(c) for c in cmo], omega)
        if res is not None:
            e, c = res
            out(key, "e", type(e).__name__, dig(e), "c", type(c).__name__, len(c), dig(np.array(c)))
        # stacked variant: lists of environments
        if not use_omega:
            res = call("eigh_direct_stacked", gs.eigh_direct, mps, qn_mask,
                       [asxp(lt), asxp(2 * lt)], [asxp(rt), asxp(rt)],
                       [[asxp(c) for c in cmo], [asxp(c) for c in cmo]], omega)
            if res is not None:
                e, c = res
                out(key, "stacked e", dig(e), "c", dig(np.array(c)))
        # inputs are not mutated
        assert np.array_equal(lt, lt_c) and np.array_equal(rt, rt_c)
        assert all(np.array_equal(a, b) for a, b in zip(cmo, cmo_c))

    # nroots larger than the dimension of the local problem
    rng = np.random.default_rng(5)
    lt, rt = herm_env(rng, 1, 2, False), herm_env(rng, 1, 2, False)
    cmo = [herm_mo(rng, 2, 2, 2, False)]
    qn_mask = np.array([[[True], [True]]])
    mps = fake_mps("1site", 4)
    e, c = gs.eigh_direct(mps, qn_mask, lt, rt, cmo, None)
    out("nroots>dim", dig(e), len(c), dig(np.array(c)))
    # a single allowed element
    qn_mask = np.array([[[False], [True]]])
    for nroots in (1, 2):
        mps = fake_mps("1site", nroots)
        e, c = gs.eigh_direct(mps, qn_mask, lt, rt, cmo, None)
        out("one element", nroots, dig(e), dig(np.array(c)))
    # error paths
    mps = fake_mps("2site", 1)
    call("2site with one cmo", gs.get_ham_direct, mps, qn_mask, lt, rt, cmo, None)
    call("2site with one cmo omega", gs.get_ham_direct, mps, qn_mask, lt, rt, cmo, 0.1)
    call("list/array mix", gs.eigh_direct, mps, qn_mask, [lt], rt, [cmo], None)
    call("list length mismatch", gs.eigh_direct, mps, qn_mask, [lt, lt], [rt], [cmo, cmo], None)
    ham = call("bad mask rank", gs.get_ham_direct, fake_mps("1site"), np.ones((1, 2), dtype=bool), lt, rt, cmo, None)
    if ham is not None:
        out("bad mask rank", dig(ham))
    mps = fake_mps("3site", 1)  # anything that is not "1site" is handled as two-site
    rng = np.random.default_rng(6)
    cmo2 = [herm_mo(rng, 2, 2, 3, False), herm_mo(rng, 3, 2, 2, False)]
    ham = gs.get_ham_direct(mps, np.ones((1, 2, 2, 1), dtype=bool), lt, rt, cmo2, None)
    out("other method string", dig(ham))


# ---------------------------------------------------------------------------
# part 2: eigh_iterative / eigh_direct on the local problems of real states
# ---------------------------------------------------------------------------
def spin_model(nsite=6):
    basis = [ba.BasisHalfSpin(i) for i in range(nsite)]
    terms = []
    for i in range(nsite - 1):
        terms.append(Op("sigma_x sigma_x", [i, i + 1], 0.7))
        terms.append(Op("sigma_+ sigma_-", [i, i + 1], 0.4))
        terms.append(Op("sigma_- sigma_+", [i, i + 1], 0.4))
        terms.append(Op("sigma_z sigma_z", [i, i + 1], 1.0 + 0.1 * i))
    for i in range(nsite):
        terms.append(Op("sigma_z", i, 0.3 * (-1) ** i))
    return Model(basis, terms)


def sz_model(nsite=6):
    # spin chain with conserved number of up spins
    basis = [ba.BasisHalfSpin(i, sigmaqn=[1, 0]) for i in range(nsite)]
    terms = []
    for i in range(nsite - 1):
        terms.append(Op("sigma_+ sigma_-", [i, i + 1], 0.5 + 0.05 * i, qn=[1, -1]))
        terms.append(Op("sigma_- sigma_+", [i, i + 1], 0.5 + 0.05 * i, qn=[-1, 1]))
        terms.append(Op("sigma_z sigma_z", [i, i + 1], 0.9))
    return Model(basis, terms)


def local_problem(mps, mpo, omega, cidx, stacked=False):
    """environment tensors of the sites cidx exactly as single_sweep builds them"""
    lidx, ridx = cidx[0] - 1, cidx[-1] + 1
    if stacked:
        envs = [Environ(mps, m, "L") for m in mpo.mpos]
        lt = [env.GetLR("L", lidx, mps, m, itensor=None, method="Scratch") for env, m in zip(envs, mpo.mpos)]
        rt = [env.GetLR("R", ridx, mps, m, itensor=None, method="Scratch") for env, m in zip(envs, mpo.mpos)]
        cmo = [[asxp(m[i]) for i in cidx] for m in mpo.mpos]
    else:
        operator = mpo if omega is None else [mpo, mpo]
        env = Environ(mps, operator, "L")
        lt = env.GetLR("L", lidx, mps, operator, itensor=None, method="Scratch")
        rt = env.GetLR("R", ridx, mps, operator, itensor=None, method="Scratch")
        cmo = [asxp(mpo[i]) for i in cidx]
    qnbigl, qnbigr, qnmat = mps._get_big_qn(cidx)
    qn_mask = get_qn_mask(qnmat, mps.qntot)
    return lt, rt, cmo, qn_mask


def prep(mps0, cidx):
    """mixed-canonical copy with the centre (and the qn boundary) on cidx[0]"""
    mps = mps0.copy()
    mps.ensure_right_canonical()
    if cidx[0] > 0:
        mps.canonicalise(stop_idx=cidx[0])
    assert mps.qnidx == cidx[0]
    return mps


def guesses(mps, cidx, qn_mask, nroots, rng):
    if len(cidx) == 1:
        raw = mps[cidx[0]]
    else:
        raw = tensordot(mps[cidx[0]], mps[cidx[1]], axes=1)
    cguess = [asnumpy(raw)[qn_mask]]
    dim = int(np.sum(qn_mask))
    extra = [rng.random(dim) - 0.5 for _ in range(1, nroots)]
    cguess.extend([g.astype(cguess[0].dtype) for g in extra])
    return cguess


def part2():
    out("== part 2: eigh_iterative / eigh_direct on real local problems ==")
    rng = np.random.default_rng(77)
    np.random.seed(11)
    hmodel = holstein_model.switch_scheme(1)
    configs = []
    # (label, model, qntot, M, complex?)
    configs.append(("holstein", hmodel, 1, 8, False))
    configs.append(("spin-noqn", spin_model(), 0, 6, False))
    configs.append(("spin-n3", sz_model(), 3, 6, False))
    configs.append(("spin-n2", sz_model(), 2, 6, True))
    for label, model, qntot, M, cplx in configs:
        mpo = Mpo(model)
        mps = Mps.random(model, qntot, M, percent=1.0)
        if cplx:
            mps = mps.to_complex()
            for i in range(len(mps)):
                mps[i] = mps[i] * np.exp(0.3j * (i + 1))
        mps0 = mps
        nsite = len(mps0)
        for method, cidx in (("1site", [nsite // 2]), ("2site", [nsite // 2 - 1, nsite // 2]), ("2site", [0, 1]),
                             ("1site", [nsite - 1])):
            mps = prep(mps0, cidx)
            for omega in (None, 0.21):
                lt, rt, cmo, qn_mask = local_problem(mps, mpo if omega is None else mpo.add(Mpo.identity(model).scale(-omega)),
                                                     omega, cidx)
                if omega is not None:
                    shifted = mpo.add(Mpo.identity(model).scale(-omega))
                    cmo = [asxp(shifted[i]) for i in cidx]
                for nroots, inverse in ((1, 1.0), (2, 1.0), (1, -1.0)):
                    dim = int(np.sum(qn_mask))
                    if dim <= nroots + 1:
                        continue
                    mps.optimize_config.method = method
                    mps.optimize_config.nroots = nroots
                    mps.optimize_config.inverse = inverse
                    key = (label, method, tuple(cidx), omega, nroots, inverse, dim)
                    res = call(str(key) + " direct", gs.eigh_direct, mps, qn_mask, lt, rt, cmo, omega)
                    if res is not None:
                        e, c = res
                        out(key, "direct e", dig(e), "c", dig(np.array(c)))
                    mps.optimize_config.algo = "davidson"
                    cguess = guesses(mps, cidx, qn_mask, nroots, rng)
                    cguess_c = [g.copy() for g in cguess]
                    res = call(str(key) + " davidson", gs.eigh_iterative, mps, qn_mask, lt, rt, cmo, omega, cguess)
                    if res is not None:
                        e, c = res
                        c = np.array(c)
                        out(key, "davidson e", type(e).__name__, dig(e), "c", type(c).__name__, list(c.shape),
                            np.round(np.abs(c).sum(), 5))
                    assert all(np.array_equal(a, b) for a, b in zip(cguess, cguess_c))
        mps.optimize_config.nroots = 1
        mps.optimize_config.inverse = 1.0

    # stacked environments for the iterative solver
    model = spin_model(5)
    half = len(model.ham_terms) // 2
    m1 = Mpo(Model(model.basis, model.ham_terms[:half]))
    m2 = Mpo(Model(model.basis, model.ham_terms[half:]))
    smpo = StackedMpo([m1, m2])
    np.random.seed(3)
    mps0 = Mps.random(model, 0, 6, percent=1.0)
    for method, cidx in (("1site", [2]), ("2site", [2, 3])):
        mps = prep(mps0, cidx)
        lt, rt, cmo, qn_mask = local_problem(mps, smpo, None, cidx, stacked=True)
        for nroots in (1, 3):
            mps.optimize_config.method = method
            mps.optimize_config.nroots = nroots
            e, c = gs.eigh_direct(mps, qn_mask, lt, rt, cmo, None)
            out("stacked", method, nroots, "direct", dig(e), dig(np.array(c)))
            cguess = guesses(mps, cidx, qn_mask, nroots, rng)
            e, c = gs.eigh_iterative(mps, qn_mask, lt, rt, cmo, None, cguess)
            out("stacked", method, nroots, "davidson", dig(e), np.round(np.abs(np.array(c)).sum(), 5))
    mps.optimize_config.nroots = 1
    # error paths of eigh_iterative
    mps = prep(mps0, [2])
    lt, rt, cmo, qn_mask = local_problem(mps, smpo, None, [2], stacked=True)
    mps.optimize_config.method = "1site"
    cguess = guesses(mps, [2], qn_mask, 1, rng)
    call("iter list/array mix", gs.eigh_iterative, mps, qn_mask, lt, rt[0], cmo, None, cguess)
    call("iter list length mismatch", gs.eigh_iterative, mps, qn_mask, lt, rt[:1], cmo, None, cguess)
    mps.optimize_config.algo = "primme"
    call("iter primme", gs.eigh_iterative, mps, qn_mask, lt, rt, cmo, None, cguess)
    mps.optimize_config.algo = "lanczos"
    call("iter unknown algo", gs.eigh_iterative, mps, qn_mask, lt, rt, cmo, None, cguess)
    mps.optimize_config.algo = "davidson"


# ---------------------------------------------------------------------------
# part 3: whole optimisations
# ---------------------------------------------------------------------------
def describe_state(label, mp, mpo, bk):
    out(label, "bond", list(mp.bond_dims), "qntot", list(np.asarray(mp.qntot)), "norm", np.round(mp.norm, ND),
        "E", np.round(mp.expectation(mpo), 8) if mpo is not None else None,
        "left", mp.is_left_canonical, "right", mp.is_right_canonical, "to_right", mp.to_right,
        "cc_is_bk", mp.compress_config is bk, "dtype", str(mp[0].dtype),
        "qnidx", mp.qnidx)


def run_opt(label, mps, mpo, omega=None, expect_mpo=True):
    bk = mps.compress_config
    np.random.seed(1234)
    res = call(label, gs.optimize_mps, mps, mpo, omega=omega) if omega is not None else call(label, gs.optimize_mps, mps, mpo)
    out(label, "input after: bond", list(mps.bond_dims), "to_right", mps.to_right,
        "cc_is_bk", mps.compress_config is bk,
        "cc", mps.compress_config.criteria.name, mps.compress_config.bond_dim_max_value)
    if res is None:
        return None
    energies, opt = res
    out(label, "energies", rnd(energies).tolist())
    if isinstance(mpo, StackedMpo) or not expect_mpo:
        e_mpo = None
    else:
        e_mpo = mpo
    if isinstance(opt, list):
        out(label, "nstates", len(opt))
        for i, mp in enumerate(opt):
            describe_state(f"{label}[{i}]", mp, e_mpo, bk)
    else:
        describe_state(label, opt, e_mpo, bk)
    return res


def part3():
    out("== part 3: optimize_mps end to end ==")
    proc = [[6, 0.4], [10, 0.2], [12, 0], [12, 0]]
    hmodel1 = holstein_model.switch_scheme(1)
    hmodel4 = holstein_model.switch_scheme(4)

    for scheme, hm in ((1, hmodel1), (4, hmodel4)):
        for method in ("1site", "2site"):
            np.random.seed(100 + scheme)
            mps, mpo = gs.construct_mps_mpo(hm, 6, 1)
            mps.optimize_config.procedure = proc
            mps.optimize_config.method = method
            run_opt(f"holstein s{scheme} {method}", mps, mpo)

    # iterative solver forced on / direct forced, several roots, largest eigenvalues
    for method in ("1site", "2site"):
        for nroots, algo, inverse in ((3, "davidson", 1.0), (2, "direct", 1.0), (1, "direct", -1.0), (2, "davidson", -1.0)):
            np.random.seed(7)
            mps, mpo = gs.construct_mps_mpo(hmodel1, 8, 1)
            mps.optimize_config.procedure = [[8, 0.3], [12, 0.1], [14, 0], [14, 0]]
            mps.optimize_config.method = method
            mps.optimize_config.nroots = nroots
            mps.optimize_config.algo = algo
            mps.optimize_config.inverse = inverse
            run_opt(f"holstein {method} nroots={nroots} {algo} inv={inverse}", mps, mpo)

    # shifted (H - omega)^2
    for method, nroots in (("1site", 1), ("2site", 1), ("2site", 2)):
        np.random.seed(8)
        mps, mpo = gs.construct_mps_mpo(hmodel1, 8, 1)
        mps.optimize_config.procedure = [[8, 0.3], [12, 0.1], [12, 0], [12, 0]]
        mps.optimize_config.method = method
        mps.optimize_config.nroots = nroots
        res = run_opt(f"holstein omega {method} nroots={nroots}", mps, mpo, omega=0.084 + holstein_model.gs_zpe,
                      expect_mpo=True)

    # CompressConfig objects in the procedure, starting from a right-canonical / non-canonical state
    for start in ("left", "right", "none"):
        np.random.seed(9)
        mps, mpo = gs.construct_mps_mpo(hmodel1, 8, 1, offset=Quantity(0.01))
        if start == "left":
            mps.ensure_left_canonical()
        elif start == "right":
            mps.ensure_right_canonical()
        else:
            mps = mps.scale(1.3).add(mps.copy().scale(0.2))
        mps.optimize_config.procedure = [
            [CompressConfig(CompressCriteria.threshold, threshold=1e-5), 0.3],
            [CompressConfig(CompressCriteria.both, threshold=1e-8, max_bonddim=10), 0.1],
            [10, 0], [True + 9, 0]]
        mps.optimize_config.method = "2site"
        run_opt(f"holstein cc start={start}", mps, mpo)

    # spin models with and without quantum numbers, complex initial state
    for label, model, qntot in (("spin-noqn", spin_model(), 0), ("spin-n3", sz_model(), 3), ("spin-n2", sz_model(), 2),
                                ("spin-n5", sz_model(), 5)):
        mpo = Mpo(model)
        for method, nroots, cplx in (("2site", 1, False), ("1site", 2, False), ("2site", 1, True)):
            np.random.seed(21)
            mps = Mps.random(model, qntot, 8, percent=1.0)
            if cplx:
                mps = mps.to_complex()
                mps[2] = mps[2] * np.exp(0.4j)
            mps.optimize_config.procedure = [[8, 0.3], [8, 0], [8, 0]]
            mps.optimize_config.method = method
            mps.optimize_config.nroots = nroots
            run_opt(f"{label} {method} nroots={nroots} cplx={cplx}", mps, mpo)

    # stacked MPO
    model = spin_model(6)
    half = len(model.ham_terms) // 3
    smpo = StackedMpo([Mpo(Model(model.basis, model.ham_terms[:half])), Mpo(Model(model.basis, model.ham_terms[half:]))])
    for method, algo, nroots in (("2site", "davidson", 1), ("1site", "direct", 2), ("2site", "direct", 1)):
        np.random.seed(22)
        mps = Mps.random(model, 0, 8, percent=1.0)
        mps.optimize_config.procedure = [[8, 0.3], [8, 0], [8, 0]]
        mps.optimize_config.method = method
        mps.optimize_config.algo = algo
        mps.optimize_config.nroots = nroots
        res = run_opt(f"stacked {method} {algo} nroots={nroots}", mps, smpo)
        if res is not None:
            full = Mpo(model)
            opt = res[1] if isinstance(res[1], list) else [res[1]]
            out("stacked E", [float(np.round(mp.expectation(full), 8)) for mp in opt])
    np.random.seed(22)
    mps = Mps.random(model, 0, 8, percent=1.0)
    run_opt("stacked + omega", mps, smpo, omega=0.1)

    # on-the-fly swapping
    np.random.seed(23)
    mps, mpo = gs.construct_mps_mpo(hmodel1, 6, 1)
    mps.model = Model(mps.model.basis, mps.model.ham_terms)
    mps.optimize_config.procedure = proc
    mps.optimize_config.method = "2site"
    mps.compress_config.ofs = OFS.ofs_s
    res = run_opt("ofs", mps, mpo, expect_mpo=False)
    if res is not None:
        opt = res[1]
        out("ofs order", [b.dofs for b in opt.model.basis], "E", np.round(opt.expectation(Mpo(opt.model)), 8))
        out("ofs mpo order", [b.dofs for b in mpo.model.basis])

    # unusual procedures
    for label, procedure in (("empty procedure", []), ("one sweep", [[6, 0.2]]), ("two sweeps no convergence", [[6, 0.2], [6, 0.1]]),
                             ("bad compress config", [[6.0, 0.2], [6, 0]]), ("none compress config", [[None, 0.2]]),
                             ("two sweeps percent 0", [[6, 0], [6, 0]])):
        np.random.seed(24)
        mps, mpo = gs.construct_mps_mpo(hmodel1, 6, 1)
        mps.optimize_config.procedure = procedure
        mps.optimize_config.method = "2site"
        run_opt(label, mps, mpo)
    np.random.seed(24)
    mps, mpo = gs.construct_mps_mpo(hmodel1, 6, 1)
    mps.optimize_config.method = "3site"
    run_opt("bad method", mps, mpo)
    np.random.seed(24)
    mps, mpo = gs.construct_mps_mpo(hmodel1, 6, 1)
    mps.optimize_config.algo = "lanczos"
    mps.optimize_config.procedure = [[30, 0.2], [30, 0]]
    run_opt("bad algo", mps, mpo)

    # construct_mps_mpo itself
    np.random.seed(25)
    mps, mpo = gs.construct_mps_mpo(hmodel4, 5, 1)
    out("construct", list(mps.bond_dims), list(mpo.bond_dims), dig(mps[1]), dig(mpo[1]), mpo.offset)


if __name__ == "__main__":
    part1()
    part2()
    part3()
