"""Equivalence digest for the C08rg refactoring.

Exercises hop_expr, sign_fix, get_ham_iterative, Environ (construction and
GetLR) and optimize_mps on fixed-seed inputs and prints a deterministic digest.
"""
import hashlib
import logging
import types
import warnings

import numpy as np

warnings.filterwarnings("ignore")
logging.disable(logging.CRITICAL)

from renormalizer.model import Model, Op
from renormalizer.model.basis import BasisHalfSpin
from renormalizer.mps import Mpo, Mps, MpDm, StackedMpo
from renormalizer.mps.matrix import Matrix
from renormalizer.mps.hop_expr import hop_expr
from renormalizer.mps.lib import Environ
from renormalizer.mps import gs
from renormalizer.mps.gs import (optimize_mps, sign_fix, get_ham_iterative,
                                 construct_mps_mpo)
from renormalizer.tests.parameter import holstein_model
from renormalizer.utils import CompressConfig, CompressCriteria
from renormalizer.utils.configs import OFS


def dig(x):
    """deterministic digest of (nested) numbers / arrays"""
    if x is None:
        return "None"
    if isinstance(x, Matrix):
        return "Matrix:" + dig(x.array)
    if isinstance(x, (list, tuple)):
        return type(x).__name__ + "[" + ", ".join(dig(i) for i in x) + "]"
    a = np.asarray(x)
    if a.dtype == bool:
        return f"bool{a.shape}:{int(a.sum())}"
    r = np.round(a.astype(complex), 9) + (0.0 + 0.0j)
    h = hashlib.md5(np.ascontiguousarray(r).tobytes()).hexdigest()[:12]
    s = complex(np.round(a.sum(), 8)) + (0.0 + 0.0j)
    return f"{a.dtype}{a.shape}:sum={s.real:.8f}{s.imag:+.8f}j:abs={np.abs(a).sum():.8f}:{h}"


def attempt(label, func):
    try:
        res = func()
    except BaseException as e:  # noqa
        print(label, "-> EXC", type(e).__name__)
        return None
    print(label, "->", res if isinstance(res, str) else dig(res))
    return res


def rnd(rng, shape, cplx=False):
    a = rng.standard_normal(shape)
    if cplx:
        a = a + 1j * rng.standard_normal(shape)
    return a


# --------------------------------------------------------------------------
print("== hop_expr")


def run_hop(rng, nsite, ancilla, twolayer, cplx, wrap_matrix=False, bad_shape=False):
    a, b, c, d, k = 3, 4, 2, 3, 5
    nl = 4 if twolayer else 3
    lshape = [a] + [b] * (nl - 2) + [a]
    rshape = [k] + [b] * (nl - 2) + [k]
    ltensor = rnd(rng, lshape, cplx)
    rtensor = rnd(rng, rshape, cplx)
    pdims = [c, d, 2][:nsite]
    cmo = [rnd(rng, (b, p, p, b), cplx) for p in pdims]
    if wrap_matrix:
        cmo = [Matrix(m) for m in cmo]
        ltensor = Matrix(ltensor)
    cshape = [a]
    for p in pdims:
        cshape.append(p)
        if ancilla:
            cshape.append(p)
    cshape.append(k)
    if nsite == 0:
        cshape = [a, k]
    if bad_shape:
        cshape = cshape + [2]
    cshape = tuple(cshape)
    cmo_ids = [id(m) for m in cmo]
    cmo_in = cmo
    expr = hop_expr(ltensor, rtensor, cmo_in, cshape, twolayer)
    x = rnd(rng, cshape, cplx)
    out = expr(x)
    out2 = expr(np.ones(cshape))
    types_after = [type(m).__name__ for m in cmo_in]
    same = [id(m) == i for m, i in zip(cmo_in, cmo_ids)]
    return f"{dig(out)} | {dig(out2)} | {types_after} {same} {len(cmo_in)}"


rng = np.random.default_rng(11)
for nsite in (0, 1, 2, 3):
    for ancilla in (False, True):
        for twolayer in (False, True):
            for cplx in (False, True):
                attempt(f"hop nsite={nsite} anc={ancilla} two={twolayer} cplx={cplx}",
                        lambda: run_hop(rng, nsite, ancilla, twolayer, cplx))
attempt("hop matrix-wrapped 1site", lambda: run_hop(rng, 1, False, False, False, wrap_matrix=True))
attempt("hop matrix-wrapped 2site", lambda: run_hop(rng, 2, True, False, True, wrap_matrix=True))
attempt("hop matrix-wrapped twolayer", lambda: run_hop(rng, 2, False, True, False, wrap_matrix=True))
attempt("hop bad shape 1", lambda: run_hop(rng, 1, False, False, False, bad_shape=True))
attempt("hop bad shape 2", lambda: run_hop(rng, 2, True, False, False, bad_shape=True))
attempt("hop bad shape 0", lambda: run_hop(rng, 0, True, False, False, bad_shape=True))
# positional default of twolayer
attempt("hop default twolayer", lambda: dig(
    hop_expr(np.ones((2, 3, 2)), np.ones((2, 3, 2)), [np.ones((3, 2, 2, 3))], (2, 2, 2))(np.ones((2, 2, 2)))))
attempt("hop keyword twolayer", lambda: dig(
    hop_expr(np.ones((2, 3, 3, 2)), np.ones((2, 3, 3, 2)), [np.ones((3, 2, 2, 3))], (2, 2, 2), twolayer=True)(
        np.arange(8.).reshape(2, 2, 2))))
attempt("hop tuple cmo", lambda: dig(
    hop_expr(np.ones((2, 3, 2)), np.ones((2, 3, 2)), (np.ones((3, 2, 2, 3)),), (2, 2, 2))(np.ones((2, 2, 2)))))

# --------------------------------------------------------------------------
print("== sign_fix")
rng = np.random.default_rng(5)
v = rnd(rng, 7)
vneg = -np.abs(v)
vc = rnd(rng, 7, True)
m = rnd(rng, (7, 3))
mc = rnd(rng, (7, 3), True)
attempt("sf 1 real", lambda: sign_fix(v, 1))
attempt("sf 1 neg", lambda: sign_fix(vneg, 1))
attempt("sf 1 cplx", lambda: sign_fix(vc, 1))
attempt("sf 1 col", lambda: sign_fix(m[:, :1], 1))
attempt("sf 1 2d", lambda: sign_fix(m, 1))
attempt("sf 1 len1", lambda: sign_fix(np.array([-2.0]), 1))
attempt("sf 1 zeros", lambda: sign_fix(np.zeros(3), 1))
attempt("sf 1 empty", lambda: sign_fix(np.zeros(0), 1))
attempt("sf 1 list", lambda: sign_fix([1.0, -3.0], 1))
attempt("sf 0 real", lambda: sign_fix(v, 0))
attempt("sf 1.0 real", lambda: sign_fix(v, 1.0))
attempt("sf nan real", lambda: sign_fix(v, float("nan")))
attempt("sf 3 list", lambda: sign_fix([m[:, i] for i in range(3)], 3))
attempt("sf 3 list cplx", lambda: sign_fix([mc[:, i] for i in range(3)], 3))
attempt("sf 3 emptylist", lambda: sign_fix([], 3))
attempt("sf 3 onelist", lambda: sign_fix([vneg], 3))
attempt("sf 3 array", lambda: sign_fix(m, 3))
attempt("sf 3 array neg", lambda: sign_fix(-np.abs(m), 3))
attempt("sf 3 array cplx", lambda: sign_fix(mc, 3))
attempt("sf 2 array col", lambda: sign_fix(m[:, :1], 2))
attempt("sf 2 array 1d", lambda: sign_fix(v, 2))
attempt("sf 2 tuple", lambda: sign_fix((v, vneg), 2))
attempt("sf 2.5 array", lambda: sign_fix(m, 2.5))
v0 = v.copy()
sign_fix(v0, 1)
print("sf input untouched", bool(np.array_equal(v0, v)))

# --------------------------------------------------------------------------
print("== get_ham_iterative")


def fake_mps(method, inverse=1.0, nroots=1, algo="davidson"):
    cfg = types.SimpleNamespace(method=method, inverse=inverse, nroots=nroots, algo=algo)
    return types.SimpleNamespace(optimize_config=cfg)


def run_ghi(rng, method, omega, inverse, cplx, full_mask=False):
    a, b, k = 3, 4, 3
    pd = [2, 3] if method != "1site" else [2]
    nl = 3 if omega is None else 4
    lt = rnd(rng, [a] + [b] * (nl - 2) + [a], cplx)
    rt = rnd(rng, [k] + [b] * (nl - 2) + [k], cplx)
    cmo = [rnd(rng, (b, p, p, b), cplx) for p in pd]
    cshape = tuple([a] + pd + [k])
    mask = rng.random(cshape) < 0.6
    if full_mask:
        mask[...] = True
    lt0, rt0, cmo0 = lt.copy(), rt.copy(), [m.copy() for m in cmo]
    hdiag, expr = get_ham_iterative(fake_mps(method, inverse), mask, lt, rt, cmo, omega)
    x = rnd(rng, cshape, cplx)
    untouched = (np.array_equal(lt, lt0) and np.array_equal(rt, rt0)
                 and all(np.array_equal(p, q) for p, q in zip(cmo, cmo0)))
    return f"{type(hdiag).__name__} {dig(hdiag)} | {dig(expr(x))} | untouched={untouched}"


rng = np.random.default_rng(23)
for method in ("1site", "2site", "other"):
    for omega in (None, 0.3, 0.0):
        for inverse in (1.0, -1.0):
            for cplx in (False, True):
                attempt(f"ghi {method} omega={omega} inv={inverse} cplx={cplx}",
                        lambda: run_ghi(rng, method, omega, inverse, cplx))
attempt("ghi full mask", lambda: run_ghi(rng, "2site", None, 1.0, False, full_mask=True))
# wrong rank inputs
attempt("ghi bad ltensor", lambda: dig(get_ham_iterative(
    fake_mps("1site"), np.ones((2, 2, 2), bool), np.ones((2, 3)), np.ones((2, 3, 2)), [np.ones((3, 2, 2, 3))], None)[0]))
attempt("ghi empty cmo", lambda: dig(get_ham_iterative(
    fake_mps("1site"), np.ones((2, 2, 2), bool), np.ones((2, 3, 2)), np.ones((2, 3, 2)), [], None)[0]))
attempt("ghi 2site one cmo", lambda: dig(get_ham_iterative(
    fake_mps("2site"), np.ones((2, 2, 2, 2), bool), np.ones((2, 3, 2)), np.ones((2, 3, 2)), [np.ones((3, 2, 2, 3))], None)[0]))

# --------------------------------------------------------------------------
print("== Environ")


def disk_digest(env):
    keys = sorted(env._virtual_disk.keys())
    return " ; ".join(f"{k}:{dig(env._virtual_disk[k])}" for k in keys)


np.random.seed(3)
model = holstein_model
mpo = Mpo(model)
mps = Mps.random(model, 1, 6, percent=1.0)
mps_c = mps.to_complex()
for i in range(len(mps_c)):
    mps_c[i] = mps_c[i].array * np.exp(0.3j * (i + 1))
mpdm = MpDm.max_entangled_ex(model)
ident = Mpo.identity(model)
mpo2 = mpo.add(ident.scale(-0.07))

for name, state in (("mps", mps), ("mps_c", mps_c), ("mpdm", mpdm)):
    for domain in ("L", "R", None):
        attempt(f"env {name} {domain} single", lambda: disk_digest(Environ(state, mpo, domain)))
        attempt(f"env {name} {domain} list2", lambda: disk_digest(Environ(state, [mpo2, mpo2], domain)))
    attempt(f"env {name} list1", lambda: disk_digest(Environ(state, [mpo], "L")))
    attempt(f"env {name} conj given", lambda: disk_digest(Environ(state, mpo, "R", mps_conj=state.conj())))
attempt("env bad domain", lambda: disk_digest(Environ(mps, mpo, "X")))
attempt("env sentinel", lambda: dig(Environ(mps, [mpo, mpo, mpo], "L").sentinel))
attempt("env tuple mpo", lambda: disk_digest(Environ(mps, (mpo,), "L")))

for name, state in (("mps", mps), ("mps_c", mps_c), ("mpdm", mpdm)):
    n = len(state)
    for op_name, op in (("single", mpo), ("list2", [mpo2, mpo2])):
        env = Environ(state, op)
        for domain in ("L", "R"):
            for idx in (-1, 0, 2, n - 1, n, n + 3):
                for method in ("Scratch", "Enviro", "System"):
                    attempt(f"GetLR {name} {op_name} {domain} {idx} {method}",
                            lambda: env.GetLR(domain, idx, state, op, itensor=None, method=method))
        attempt(f"GetLR {name} {op_name} conj",
                lambda: env.GetLR("L", 2, state, op, method="Scratch", mps_conj=state.conj()))
        attempt(f"GetLR {name} {op_name} sys conj",
                lambda: env.GetLR("R", 3, state, op, method="System", mps_conj=state.conj()))
        it = env.read("L", 1)
        attempt(f"GetLR {name} {op_name} sys itensor",
                lambda: env.GetLR("L", 2, state, op, itensor=it * 2.0, method="System"))
        attempt(f"GetLR {name} {op_name} bad method", lambda: env.GetLR("L", 2, state, op, method="Foo"))
        attempt(f"GetLR {name} {op_name} bad domain", lambda: env.GetLR("M", 2, state, op))
        print(f"disk after {name} {op_name}", disk_digest(env))
env = Environ(mps, mpo, "L")
attempt("GetLR missing enviro", lambda: env.GetLR("R", 2, mps, mpo, method="Enviro"))
attempt("GetLR missing system", lambda: env.GetLR("R", 2, mps, mpo, method="System"))

# --------------------------------------------------------------------------
print("== optimize_mps")


def cc_repr(cc):
    return f"{cc.criteria.name}/{cc.bond_dim_max_value}/{cc.threshold}/{cc.ofs}/{None if cc.max_dims is None else list(cc.max_dims)}"


def run_opt(model, nexciton, procedure, method, nroots=1, algo="davidson", omega=None,
            stacked=0, ofs=None, left=False, inverse=1.0, seed=7, e_tol=None, cplx=False,
            general=False):
    np.random.seed(seed)
    if general:
        model = Model(model.basis, model.ham_terms)
    first = procedure[0][0]
    m0 = first if isinstance(first, int) else 8
    mps, mpo = construct_mps_mpo(model, m0, nexciton)
    if cplx:
        mps = mps.to_complex()
    mps.optimize_config.procedure = procedure
    mps.optimize_config.method = method
    mps.optimize_config.nroots = nroots
    mps.optimize_config.algo = algo
    mps.optimize_config.inverse = inverse
    if e_tol is not None:
        mps.optimize_config.e_atol, mps.optimize_config.e_rtol = e_tol
    if ofs is not None:
        mps.compress_config.ofs = ofs
    if left:
        mps.ensure_left_canonical()
    else:
        mps.ensure_right_canonical()
    cc_in = mps.compress_config
    op = mpo
    if stacked:
        op = StackedMpo([mpo] * stacked)
    energies, res = optimize_mps(mps, op, omega=omega)
    out = [f"E={dig(energies)}", f"n={len(energies)}",
           f"in_cc={cc_repr(mps.compress_config)} same={mps.compress_config is cc_in}",
           f"in_to_right={mps.to_right} in_dims={mps.bond_dims}"]
    res_list = res if isinstance(res, list) else [res]
    out.append(f"type={type(res).__name__} nres={len(res_list)}")
    for r in res_list:
        ref_mpo = Mpo(r.model) if ofs is not None else mpo
        out.append(f"<H>={r.expectation(ref_mpo):.9f} norm={r.norm:.9f} dims={r.bond_dims} "
                   f"qntot={list(np.ravel(r.qntot))} cc_same={r.compress_config is cc_in} "
                   f"lc={r.is_left_canonical} order={[b.dof for b in r.model.basis]}")
    return " ".join(out)


small = holstein_model
proc = [[4, 0.4], [8, 0.2], [8, 0], [8, 0], [8, 0]]
proc_cc = [[CompressConfig(CompressCriteria.fixed, max_bonddim=6), 0.3],
           [CompressConfig(CompressCriteria.threshold, threshold=1e-3), 0],
           [8, 0], [8, 0]]
for method in ("1site", "2site"):
    for left in (False, True):
        attempt(f"opt {method} left={left}", lambda: run_opt(small, 1, proc, method, left=left))
    attempt(f"opt {method} direct", lambda: run_opt(small, 1, proc, method, algo="direct"))
    attempt(f"opt {method} nroots3", lambda: run_opt(small, 1, proc, method, nroots=3, e_tol=(1e-6, 1e-6)))
    attempt(f"opt {method} nroots2 direct", lambda: run_opt(small, 1, proc, method, nroots=2, algo="direct"))
    attempt(f"opt {method} omega", lambda: run_opt(small, 1, proc, method, omega=0.084, e_tol=(1e-6, 1e-6)))
    attempt(f"opt {method} omega nroots2", lambda: run_opt(small, 1, proc, method, omega=0.084, nroots=2))
    attempt(f"opt {method} stacked2", lambda: run_opt(small, 1, proc, method, stacked=2))
    attempt(f"opt {method} cc objects", lambda: run_opt(small, 1, proc_cc, method))
    attempt(f"opt {method} inverse", lambda: run_opt(small, 1, proc, method, inverse=-1.0))
    attempt(f"opt {method} complex", lambda: run_opt(small, 1, proc, method, cplx=True))
    attempt(f"opt {method} scheme4", lambda: run_opt(small.switch_scheme(4), 1, proc, method))
    attempt(f"opt {method} nex0", lambda: run_opt(small, 0, proc, method))
proc16 = [[16, 0.2], [16, 0], [16, 0]]
attempt("opt 1site M16 nroots2 iterative", lambda: run_opt(small, 1, proc16, "1site", nroots=2))
attempt("opt 1site M16 iterative", lambda: run_opt(small, 1, proc16, "1site"))
attempt("opt 2site M16 nroots4 iterative", lambda: run_opt(small, 1, proc16, "2site", nroots=4))
attempt("opt 1site M16 omega iterative", lambda: run_opt(small, 1, proc16, "1site", omega=0.084))
attempt("opt 2site M16 omega nroots2 iterative", lambda: run_opt(small, 1, proc16, "2site", omega=0.084, nroots=2))
attempt("opt 1site M16 stacked iterative", lambda: run_opt(small, 1, proc16, "1site", stacked=2))
attempt("opt 2site M16 inverse iterative", lambda: run_opt(small, 1, proc16, "2site", inverse=-1.0))
attempt("opt bad algo", lambda: run_opt(small, 1, proc16, "2site", algo="arpack"))
attempt("opt primme", lambda: run_opt(small, 1, proc16, "2site", algo="primme"))
attempt("opt stacked1 1site", lambda: run_opt(small, 1, proc, "1site", stacked=1))
attempt("opt ofs", lambda: run_opt(small.switch_scheme(1), 1, proc, "2site", ofs=OFS.ofs_s, general=True))
attempt("opt not converged", lambda: run_opt(small, 1, [[4, 0.4], [4, 0.2]], "2site"))
attempt("opt never zero percent", lambda: run_opt(small, 1, [[4, 0.4], [6, 0.2], [6, 0.1]], "1site"))
attempt("opt single sweep", lambda: run_opt(small, 1, [[6, 0]], "2site"))
attempt("opt single sweep nroots2", lambda: run_opt(small, 1, [[6, 0]], "1site", nroots=2))
attempt("opt early converge", lambda: run_opt(small, 1, [[8, 0]] * 6, "2site", e_tol=(1e-2, 1e-2)))
attempt("opt loose tol nroots", lambda: run_opt(small, 1, [[8, 0]] * 6, "2site", nroots=2, e_tol=(1e-1, 1e-1)))


def _empty():
    np.random.seed(1)
    mps, mpo = construct_mps_mpo(small, 4, 1)
    mps.optimize_config.procedure = []
    return str(optimize_mps(mps, mpo))


attempt("opt empty procedure", _empty)


def _bad_cc():
    np.random.seed(1)
    mps, mpo = construct_mps_mpo(small, 4, 1)
    mps.optimize_config.procedure = [[4, 0.1], [4.0, 0]]
    cc = mps.compress_config
    try:
        optimize_mps(mps, mpo)
    except AssertionError:
        return f"AssertionError cc={cc_repr(mps.compress_config)} same={mps.compress_config is cc} to_right={mps.to_right}"
    return "no error"


attempt("opt bad compress config", _bad_cc)


def _bad_method():
    np.random.seed(1)
    mps, mpo = construct_mps_mpo(small, 4, 1)
    mps.optimize_config.method = "3site"
    return str(optimize_mps(mps, mpo))


attempt("opt bad method", _bad_method)


def _stacked_omega():
    np.random.seed(1)
    mps, mpo = construct_mps_mpo(small, 4, 1)
    lc = mps.is_left_canonical
    try:
        optimize_mps(mps, StackedMpo([mpo, mpo]), omega=0.1)
    except NotImplementedError as e:
        return f"NotImplementedError {e} lc_before={lc} lc_after={mps.is_left_canonical} to_right={mps.to_right}"
    return "no error"


attempt("opt stacked omega", _stacked_omega)


def _omega_zero():
    # omega = 0.0 is not None: two-layer branch
    return run_opt(small, 1, [[4, 0.2], [4, 0], [4, 0]], "1site", omega=0.0)


attempt("opt omega zero", _omega_zero)


def _spin():
    np.random.seed(4)
    n = 6
    basis = [BasisHalfSpin(i) for i in range(n)]
    terms = []
    for i in range(n - 1):
        terms.append(Op("sigma_x sigma_x", [i, i + 1], 0.7))
        terms.append(Op("sigma_z sigma_z", [i, i + 1], 1.1))
    for i in range(n):
        terms.append(Op("sigma_z", i, 0.3))
    model = Model(basis, terms)
    out = []
    for method in ("1site", "2site"):
        for nroots in (1, 2):
            np.random.seed(4)
            mps = Mps.random(model, 0, 8, percent=1.0)
            mps.optimize_config.procedure = [[8, 0.3], [8, 0], [8, 0], [8, 0]]
            mps.optimize_config.method = method
            mps.optimize_config.nroots = nroots
            mpo = Mpo(model)
            e, res = optimize_mps(mps, mpo)
            rl = res if isinstance(res, list) else [res]
            out.append(dig(e) + " " + " ".join(f"{r.expectation(mpo):.9f}" for r in rl))
    return " | ".join(out)


attempt("opt spin", _spin)
print("done")
