"""Equivalence check for the C08rh refactoring of renormalizer/mps/gs.py.

Exercises get_ham_direct, get_ham_iterative, eigh_iterative and optimize_mps
and prints a deterministic digest.
"""
import hashlib
import logging
import re
import types

import numpy as np

from renormalizer.model import Model, Op
from renormalizer.model.basis import BasisHalfSpin, BasisSHO, BasisSimpleElectron
from renormalizer.mps import Mpo, Mps, StackedMpo
from renormalizer.mps import gs
from renormalizer.utils import CompressConfig, CompressCriteria
from renormalizer.utils.configs import OptimizeConfig, OFS

np.set_printoptions(precision=8, suppress=True, linewidth=200)


# ---------------------------------------------------------------- log capture
class _Collect(logging.Handler):
    KEEP = ("use ", "optimize site", "DMRG", "optimization method", "isweep", "procedure", "e_rtol", "e_atol")

    def __init__(self):
        super().__init__(level=logging.DEBUG)
        self.msgs = []

    def emit(self, record):
        msg = re.sub(r"0x[0-9a-fA-F]+", "0x?", record.getMessage())
        if msg.startswith(self.KEEP):
            self.msgs.append(f"{record.levelname}:{msg}")


collector = _Collect()
gs.logger.setLevel(logging.DEBUG)
gs.logger.addHandler(collector)
gs.logger.propagate = False


def flush_log(tag):
    msgs = collector.msgs
    collector.msgs = []
    h = hashlib.sha256("\n".join(msgs).encode()).hexdigest()[:16]
    ndav = sum(m.startswith("DEBUG:use davidson") for m in msgs)
    print(f"  log[{tag}]: n={len(msgs)} n_davidson={ndav} sha={h}")
    for m in msgs[:3] + msgs[-3:]:
        print("    ", m[:150])


def digest(a):
    a = np.asarray(a)
    if a.dtype == object:
        return repr(a)
    r = np.round(a.astype(complex) if np.iscomplexobj(a) else a.astype(float), 9) + 0.0
    h = hashlib.sha256(np.ascontiguousarray(r).tobytes()).hexdigest()[:16]
    return f"shape={a.shape} dtype={a.dtype} sum={np.round(r.sum(), 8)} abssum={np.round(np.abs(r).sum(), 8)} sha={h}"


def show(tag, obj):
    if isinstance(obj, (list, tuple)):
        print(f"  {tag}: {type(obj).__name__} len={len(obj)}")
        for i, o in enumerate(obj):
            show(f"{tag}[{i}]", o)
    elif isinstance(obj, np.ndarray) or np.isscalar(obj):
        print(f"  {tag}: {type(obj).__name__} {digest(obj)}")
    else:
        print(f"  {tag}: {type(obj).__name__} {obj!r}")


def attempt(tag, f):
    try:
        return f()
    except Exception as exc:  # noqa
        print(f"  {tag}: RAISED {type(exc).__name__}: {str(exc)[:120]}")
        return None


# ------------------------------------------------ part 1: local eigenproblems
def fake_mps(method, algo="davidson", nroots=1, inverse=1.0):
    cfg = OptimizeConfig()
    cfg.method = method
    cfg.algo = algo
    cfg.nroots = nroots
    cfg.inverse = inverse
    return types.SimpleNamespace(optimize_config=cfg)


def herm_mo(rng, mb_l, d, mb_r, cplx):
    """a random mpo site tensor (b, d, e, f); hermitian when combined symmetrically"""
    mo = rng.standard_normal((mb_l, d, d, mb_r))
    if cplx:
        mo = mo + 1j * rng.standard_normal((mb_l, d, d, mb_r))
    return mo + mo.transpose(0, 2, 1, 3).conj()


def herm_env(rng, m, mb, cplx, nlayer):
    shape = (m,) + (mb,) * nlayer + (m,)
    t = rng.standard_normal(shape)
    if cplx:
        t = t + 1j * rng.standard_normal(shape)
    perm = tuple(reversed(range(len(shape)))) if nlayer == 1 else (3, 2, 1, 0)
    if nlayer == 1:
        return t + t.transpose(2, 1, 0).conj()
    return t + t.transpose(3, 2, 1, 0).conj()


def make_local(rng, method, omega, cplx, dims=None):
    if dims is None:
        ml, mr = int(rng.integers(2, 5)), int(rng.integers(2, 5))
        d0, d1 = int(rng.integers(2, 4)), int(rng.integers(2, 4))
        mb = [int(rng.integers(1, 4)) for _ in range(3)]
    else:
        ml, mr, d0, d1, mb = dims
    nlayer = 1 if omega is None else 2
    ltensor = herm_env(rng, ml, mb[0], cplx, nlayer)
    if method == "1site":
        cmo = [herm_mo(rng, mb[0], d0, mb[1], cplx)]
        rtensor = herm_env(rng, mr, mb[1], cplx, nlayer)
        cshape = (ml, d0, mr)
    else:
        cmo = [herm_mo(rng, mb[0], d0, mb[1], cplx), herm_mo(rng, mb[1], d1, mb[2], cplx)]
        rtensor = herm_env(rng, mr, mb[2], cplx, nlayer)
        cshape = (ml, d0, d1, mr)
    qn_mask = rng.random(cshape) < 0.7
    qn_mask.flat[0] = True
    qn_mask.flat[-1] = True
    return qn_mask, ltensor, rtensor, cmo


def part1():
    print("== part 1: get_ham_direct / get_ham_iterative / eigh_iterative on random local problems")
    rng = np.random.default_rng(20240808)
    icase = 0
    for method in ["1site", "2site"]:
        for omega in [None, 0.3]:
            for cplx in [False, True]:
                icase += 1
                print(f"case {icase}: method={method} omega={omega} complex={cplx}")
                qn_mask, lt, rt, cmo = make_local(rng, method, omega, cplx)
                mps = fake_mps(method, inverse=(-1.0 if icase % 3 == 0 else 1.0))
                ham = gs.get_ham_direct(mps, qn_mask, lt, rt, [m.copy() for m in cmo], omega)
                show("ham_direct", np.asarray(ham))
                hdiag, expr = gs.get_ham_iterative(mps, qn_mask, lt, rt, [m.copy() for m in cmo], omega)
                show("hdiag", hdiag)
                x = rng.standard_normal(qn_mask.shape)
                if cplx:
                    x = x + 1j * rng.standard_normal(qn_mask.shape)
                show("expr(x)", np.asarray(expr(x)))
                # consistency of the digest itself: diag of ham * inverse == hdiag
                print("  diag match:", bool(np.allclose(np.diag(np.asarray(ham)) * mps.optimize_config.inverse, hdiag)))
                for nroots in [1, 2, 3]:
                    mps_n = fake_mps(method, nroots=nroots, inverse=mps.optimize_config.inverse)
                    dim = int(qn_mask.sum())
                    grng = np.random.default_rng(1000 + icase * 10 + nroots)
                    cguess = [grng.random(dim) - 0.5 + (1j * grng.random(dim) if cplx else 0.0) for _ in range(nroots)]
                    np.random.seed(7)
                    out = attempt(
                        f"eigh_iterative nroots={nroots}",
                        lambda: gs.eigh_iterative(mps_n, qn_mask, lt, rt, [m.copy() for m in cmo], omega, cguess),
                    )
                    if out is not None:
                        e, c = out
                        show(f"e(nroots={nroots})", e)
                        show(f"c(nroots={nroots})", c)
                flush_log(f"c{icase}")

    # stacked (list) environments
    for method in ["1site", "2site"]:
        icase += 1
        print(f"case {icase}: stacked lists method={method}")
        dims = (3, 3, 2, 2, [2, 2, 2])
        parts = [make_local(rng, method, None, False, dims=dims) for _ in range(3)]
        qn_mask = parts[0][0]
        lts = [p[1] for p in parts]
        rts = [p[2] for p in parts]
        cmos = [p[3] for p in parts]
        for nroots in [1, 2]:
            mps_n = fake_mps(method, nroots=nroots)
            dim = int(qn_mask.sum())
            grng = np.random.default_rng(555 + nroots)
            cguess = [grng.random(dim) - 0.5 for _ in range(nroots)]
            out = attempt("stacked", lambda: gs.eigh_iterative(mps_n, qn_mask, lts, rts, [[m.copy() for m in c] for c in cmos], None, cguess))
            if out is not None:
                show(f"e(nroots={nroots})", out[0])
                show(f"c(nroots={nroots})", out[1])
        # one-element and empty lists, mismatching lengths
        mps_1 = fake_mps(method)
        cguess = [np.random.default_rng(3).random(int(qn_mask.sum())) - 0.5]
        out = attempt("stacked one", lambda: gs.eigh_iterative(mps_1, qn_mask, lts[:1], rts[:1], [[m.copy() for m in cmos[0]]], None, cguess))
        if out is not None:
            show("one e", out[0])
            show("one c", out[1])
        attempt("stacked empty", lambda: show("empty", gs.eigh_iterative(mps_1, qn_mask, [], [], [], None, cguess)))
        attempt("stacked mismatch", lambda: gs.eigh_iterative(mps_1, qn_mask, lts[:2], rts[:1], cmos[:2], None, cguess))
        attempt("stacked l list r array", lambda: gs.eigh_iterative(mps_1, qn_mask, lts[:1], rts[0], cmos[:1], None, cguess))
        flush_log(f"c{icase}")

    # error / odd paths
    icase += 1
    print(f"case {icase}: odd inputs")
    qn_mask, lt, rt, cmo = make_local(rng, "1site", None, False)
    dim = int(qn_mask.sum())
    cguess = [np.random.default_rng(4).random(dim) - 0.5]
    attempt("bad algo", lambda: gs.eigh_iterative(fake_mps("1site", algo="arpack"), qn_mask, lt, rt, cmo, None, cguess))
    attempt("primme", lambda: gs.eigh_iterative(fake_mps("1site", algo="primme"), qn_mask, lt, rt, cmo, None, cguess))
    # method string that is neither: falls into the 2-site branches
    attempt("odd method direct", lambda: show("x", np.asarray(gs.get_ham_direct(fake_mps("3site"), qn_mask, lt, rt, cmo, None))))
    attempt("odd method iter", lambda: show("x", gs.get_ham_iterative(fake_mps("3site"), qn_mask, lt, rt, cmo, None)[0]))
    # wrong mask rank
    attempt("mask rank direct", lambda: show("x", np.asarray(gs.get_ham_direct(fake_mps("1site"), qn_mask[0], lt, rt, cmo, None))))
    attempt("mask rank iter", lambda: show("x", gs.get_ham_iterative(fake_mps("1site"), qn_mask[0], lt, rt, cmo, None)[0]))
    # non-square environment
    attempt("nonsquare direct", lambda: show("x", np.asarray(gs.get_ham_direct(fake_mps("1site"), qn_mask, lt[:, :, :-1], rt, cmo, None))))
    attempt("nonsquare iter", lambda: show("x", gs.get_ham_iterative(fake_mps("1site"), qn_mask, lt[:, :, :-1], rt, cmo, None)[0]))
    # all-true mask and single-element mask
    full = np.ones_like(qn_mask)
    show("full direct", np.asarray(gs.get_ham_direct(fake_mps("1site"), full, lt, rt, cmo, None)))
    show("full hdiag", gs.get_ham_iterative(fake_mps("1site"), full, lt, rt, cmo, None)[0])
    single = np.zeros_like(qn_mask)
    single.flat[1] = True
    show("single direct", np.asarray(gs.get_ham_direct(fake_mps("1site"), single, lt, rt, cmo, None)))
    show("single hdiag", gs.get_ham_iterative(fake_mps("1site"), single, lt, rt, cmo, None)[0])
    out = attempt("single eigh", lambda: gs.eigh_iterative(fake_mps("1site"), single, lt, rt, cmo, None, [np.array([1.0])]))
    if out is not None:
        show("single e", out[0])
        show("single c", out[1])
    flush_log(f"c{icase}")


# ------------------------------------------------------- part 2: optimize_mps
def holstein(nmol=2, nph=3):
    basis, terms = [], []
    for i in range(nmol):
        basis.append(BasisSimpleElectron(f"e{i}"))
        basis.append(BasisSHO(f"v{i}", omega=0.5 + 0.1 * i, nbas=nph))
        terms.append(Op(r"a^\dagger a", f"e{i}", 1.0 + 0.2 * i))
        terms.append(Op(r"b^\dagger b", f"v{i}", 0.5 + 0.1 * i))
        terms.append(Op(r"a^\dagger a", f"e{i}", 0.3) * Op(r"b^\dagger+b", f"v{i}"))
    for i in range(nmol - 1):
        terms.append(Op(r"a^\dagger a", [f"e{i}", f"e{i+1}"], -0.4))
        terms.append(Op(r"a^\dagger a", [f"e{i+1}", f"e{i}"], -0.4))
    return Model(basis, terms)


def heisenberg(n=5):
    basis = [BasisHalfSpin(i, sigmaqn=[1, -1]) for i in range(n)]
    terms = []
    for i in range(n - 1):
        terms.append(Op("sigma_z sigma_z", [i, i + 1], 0.25 * (1 + 0.1 * i)))
        terms.append(Op("sigma_+ sigma_-", [i, i + 1], 0.5))
        terms.append(Op("sigma_- sigma_+", [i, i + 1], 0.5))
    return Model(basis, terms)


def exact_sector(model, mpo, qntot):
    dense = mpo.todense()
    qn = np.array([0])
    for b in model.basis:
        qn = (qn[:, None] + np.array(b.sigmaqn).reshape(len(b.sigmaqn), -1)[:, 0][None, :]).ravel()
    idx = np.where(qn == qntot)[0]
    return np.linalg.eigvalsh(dense[np.ix_(idx, idx)])


def run_opt(tag, model, qntot, m, procedure, method, nroots=1, algo="davidson", omega=None,
            stacked=False, ofs=None, left=False, seed=11, inverse=1.0):
    print(f"run {tag}: method={method} nroots={nroots} algo={algo} omega={omega} stacked={stacked} ofs={ofs} left={left}")
    np.random.seed(seed)
    mpo = Mpo(model)
    mps = Mps.random(model, qntot, m, percent=1.0)
    if left:
        mps.ensure_left_canonical()
    else:
        mps.ensure_right_canonical()
    mps.optimize_config.procedure = procedure
    mps.optimize_config.method = method
    mps.optimize_config.nroots = nroots
    mps.optimize_config.algo = algo
    mps.optimize_config.inverse = inverse
    if ofs is not None:
        mps.compress_config.ofs = ofs
    cc_in = mps.compress_config
    op = StackedMpo([mpo, mpo.scale(0.5)]) if stacked else mpo
    np.random.seed(seed + 1)
    try:
        energies, res = gs.optimize_mps(mps, op, omega=omega)
    except Exception as exc:  # noqa
        print(f"  RAISED {type(exc).__name__}: {str(exc)[:120]}")
        flush_log(tag)
        return
    show("energies", np.array(energies, dtype=float))
    states = res if isinstance(res, list) else [res]
    print("  result type:", type(res).__name__, "n =", len(states))
    for i, st in enumerate(states):
        mpo_now = Mpo(st.model) if ofs is not None else mpo
        print(f"  state {i}: bond_dims={list(st.bond_dims)} qntot={st.qntot} norm={np.round(st.norm, 9)} "
              f"e={np.round(st.expectation(mpo_now), 8)} cc_restored={st.compress_config is cc_in} "
              f"to_right={st.to_right} dofs={[b.dof for b in st.model.basis]}")
    print(f"  input mps after: bond_dims={list(mps.bond_dims)} to_right={mps.to_right} qnidx={mps.qnidx} "
          f"cc_is_input={mps.compress_config is cc_in} cc_max={mps.compress_config.bond_dim_max_value} cc_crit={mps.compress_config.criteria}")
    flush_log(tag)


def part2():
    print("== part 2: optimize_mps")
    hol = holstein()
    hei = heisenberg()
    proc = [[4, 0.4], [8, 0.2], [8, 0], [8, 0], [8, 0]]
    print("exact holstein 1ex:", np.round(exact_sector(hol, Mpo(hol), 1)[:4], 8))
    print("exact heisenberg qn=1:", np.round(exact_sector(hei, Mpo(hei), 1)[:4], 8))

    run_opt("hol-2site", hol, 1, 4, proc, "2site")
    run_opt("hol-1site", hol, 1, 4, proc, "1site")
    run_opt("hol-1site-left", hol, 1, 4, proc, "1site", left=True)
    run_opt("hol-2site-left-3roots", hol, 1, 4, proc, "2site", nroots=3, left=True)
    run_opt("hol-1site-2roots-direct", hol, 1, 4, proc, "1site", nroots=2, algo="direct")
    run_opt("hol-omega", hol, 1, 4, proc, "2site", omega=1.0)
    run_opt("hol-omega-2roots-1site", hol, 1, 4, proc, "1site", omega=1.0, nroots=2)
    run_opt("hol-stacked", hol, 1, 4, proc, "1site", stacked=True)
    run_opt("hol-stacked-2site-2roots", hol, 1, 4, proc, "2site", stacked=True, nroots=2)
    run_opt("hol-stacked-omega", hol, 1, 4, proc, "2site", stacked=True, omega=1.0)
    run_opt("hol-inverse", hol, 1, 4, proc, "2site", inverse=-1.0)
    run_opt("hei-2site-qn1", hei, 1, 4, proc, "2site")
    run_opt("hei-1site-qn-1", hei, -1, 4, proc, "1site")
    run_opt("hei-2site-qn3-4roots", hei, 3, 4, proc, "2site", nroots=4)
    # larger local spaces so that the iterative solver is used
    big = holstein(nmol=3, nph=6)
    bproc = [[12, 0.4], [16, 0.2], [16, 0], [16, 0]]
    run_opt("big-2site-davidson", big, 1, 12, bproc, "2site")
    run_opt("big-2site-davidson-3roots", big, 1, 12, bproc, "2site", nroots=3)
    run_opt("big-1site-davidson-2roots", big, 1, 16, [[16, 0.3], [16, 0], [16, 0]], "1site", nroots=2)
    run_opt("big-2site-omega", big, 1, 12, bproc[:3], "2site", omega=1.2)
    run_opt("big-2site-stacked", big, 1, 12, bproc[:3], "2site", stacked=True)
    run_opt("big-2site-primme", big, 1, 12, bproc[:2], "2site", algo="primme")
    run_opt("big-2site-badalgo", big, 1, 12, bproc[:2], "2site", algo="lobpcg")
    # procedure variants
    cc = CompressConfig(criteria=CompressCriteria.threshold, threshold=1e-6)
    run_opt("hol-ccproc", hol, 1, 4, [[cc, 0.3], [CompressConfig(CompressCriteria.fixed, max_bonddim=6), 0], [6, 0]], "2site")
    run_opt("hol-one-sweep", hol, 1, 4, [[6, 0]], "2site")
    run_opt("hol-no-converge", hol, 1, 4, [[2, 0.5], [3, 0.5]], "1site", nroots=2)
    run_opt("hol-empty-proc", hol, 1, 4, [], "2site")
    run_opt("hol-bad-proc", hol, 1, 4, [[4.5, 0.2]], "2site")
    run_opt("hol-bad-method", hol, 1, 4, proc, "3site")
    # on-the-fly swapping
    run_opt("hol-ofs", Model(hol.basis, hol.ham_terms), 1, 4, proc, "2site", ofs=OFS.ofs_s)
    run_opt("hei-ofs-d", heisenberg(4), 0, 4, proc, "2site", ofs=OFS.ofs_d)


if __name__ == "__main__":
    part1()
    part2()
