# Equivalence digest for the C08rj refactoring of renormalizer/mps/gs.py
# (single_sweep, eigh_direct, get_ham_iterative, eigh_iterative).
import os
import sys
import logging

sys.path.insert(0, os.path.dirname(os.path.abspath(__file__)))  # print_tree stub

import numpy as np

logging.disable(logging.CRITICAL)

from renormalizer.model import Model, Op
from renormalizer.model.basis import BasisHalfSpin
from renormalizer.mps import gs, Mpo, Mps, StackedMpo
from renormalizer.mps.gs import (
    construct_mps_mpo,
    optimize_mps,
    single_sweep,
    eigh_direct,
    eigh_iterative,
    get_ham_iterative,
    get_ham_direct,
)
from renormalizer.mps.lib import Environ
from renormalizer.mps.svd_qn import get_qn_mask
from renormalizer.mps.matrix import asxp, asnumpy
from renormalizer.tests.parameter import holstein_model
from renormalizer.utils.configs import OFS, CompressConfig, CompressCriteria

logging.disable(logging.CRITICAL)


# number of significant digits; lowered for the state-averaged Davidson runs whose
# last digits depend on memory alignment (run-to-run noise ~1e-11 on the unchanged tree)
PREC = [11]


def fmt(x):
    """deterministic text of numbers / arrays / nested lists"""
    p = PREC[0]
    if isinstance(x, (list, tuple)):
        return "[" + ", ".join(fmt(i) for i in x) + "]"
    if isinstance(x, np.ndarray):
        if x.ndim == 0:
            return fmt(x.item())
        return f"arr{x.shape}{x.dtype}" + fmt(x.ravel().tolist())
    if isinstance(x, (complex, np.complexfloating)):
        return f"({x.real:.{p}g}{x.imag:+.{p}g}j)"
    if isinstance(x, (float, np.floating)):
        return f"{x:.{p}g}"
    return repr(x)


def absfmt(v):
    v = np.asarray(v)
    return fmt(v)


def out(tag, *vals):
    print(tag, *[v if isinstance(v, str) else fmt(v) for v in vals])


def mps_digest(mp, mpo=None):
    items = [
        "bond", list(map(int, mp.bond_dims)),
        "qntot", np.asarray(mp.qntot).tolist(),
        "qnidx", mp.qnidx,
        "to_right", mp.to_right,
        "norm", float(mp.norm),
        "dtype", str(mp.dtype),
    ]
    if mpo is not None:
        items += ["E", mp.expectation(mpo)]
    return items


def run_optimize(tag, model, nexciton, proc, method, nroots=1, algo="davidson", omega=None,
                 stacked=False, ofs=None, inverse=1.0, general=False, seed=11, left=False):
    np.random.seed(seed)
    mps, mpo = construct_mps_mpo(model, 8, nexciton)
    if general:
        mps.model = Model(mps.model.basis, mps.model.ham_terms)
    mps.optimize_config.procedure = proc
    mps.optimize_config.method = method
    mps.optimize_config.nroots = nroots
    mps.optimize_config.algo = algo
    mps.optimize_config.inverse = inverse
    if ofs is not None:
        mps.compress_config.ofs = ofs
    if left:
        mps.ensure_left_canonical()
    ham = StackedMpo([mpo, mpo]) if stacked else mpo
    cc_before = mps.compress_config
    PREC[0] = 11 if algo == "direct" else (6 if nroots > 1 else 8)
    try:
        energies, res = optimize_mps(mps, ham, omega=omega)
    except Exception as e:  # noqa
        out(tag, "EXC", type(e).__name__, str(e)[:80])
        return
    out(tag, "energies", energies)
    out(tag, "input", *mps_digest(mps))
    if isinstance(res, list):
        for i, r in enumerate(res):
            refmpo = Mpo(r.model) if ofs is not None else mpo
            out(tag, f"root{i}", *mps_digest(r, refmpo))
            out(tag, f"root{i}-cc", r.compress_config is cc_before)
    else:
        refmpo = Mpo(res.model) if ofs is not None else mpo
        out(tag, "res", *mps_digest(res, refmpo))
        out(tag, "res-cc", res.compress_config is cc_before)
        out(tag, "order", [b.dof for b in res.model.basis])


def spin_model(n, complex_terms):
    basis = [BasisHalfSpin(i) for i in range(n)]
    terms = []
    rs = np.random.RandomState(5)
    for i in range(n - 1):
        terms.append(Op("sigma_z sigma_z", [i, i + 1], float(rs.rand()) + 0.3))
        terms.append(Op("sigma_x sigma_x", [i, i + 1], float(rs.rand()) - 0.5))
        if complex_terms:
            terms.append(Op("sigma_x sigma_y", [i, i + 1], complex(float(rs.rand()) - 0.5)))
            terms.append(Op("sigma_y sigma_x", [i, i + 1], complex(float(rs.rand()) - 0.5)))
    for i in range(n):
        terms.append(Op("sigma_x", i, float(rs.rand()) - 0.5))
        if complex_terms:
            terms.append(Op("sigma_y", i, complex(float(rs.rand()) - 0.5)))
    return Model(basis, terms)


def run_spin(tag, complex_terms, method, nroots, algo, proc, omega=None):
    np.random.seed(3)
    model = spin_model(6, complex_terms)
    mpo = Mpo(model)
    mps = Mps.random(model, 0, 6, percent=1.0)
    if complex_terms:
        mps = mps.to_complex()
    mps.optimize_config.procedure = proc
    mps.optimize_config.method = method
    mps.optimize_config.nroots = nroots
    mps.optimize_config.algo = algo
    PREC[0] = 11 if algo == "direct" else (6 if nroots > 1 else 8)
    try:
        energies, res = optimize_mps(mps, mpo, omega=omega)
    except Exception as e:  # noqa
        out(tag, "EXC", type(e).__name__, str(e)[:80])
        return
    out(tag, "energies", energies)
    ress = res if isinstance(res, list) else [res]
    for i, r in enumerate(ress):
        out(tag, f"root{i}", *mps_digest(r, mpo))
    dense = mpo.todense()
    w = np.linalg.eigvalsh(dense)
    out(tag, "exact-low", w[:nroots])


# ---------------------------------------------------------------------------
# 1. whole optimisations (optimize_mps -> single_sweep -> eigh_*)
# ---------------------------------------------------------------------------
small = [[6, 0.4], [12, 0.2], [20, 0], [20, 0]]
one = [[10, 0.3]]
cfg_proc = [
    [CompressConfig(criteria=CompressCriteria.fixed, max_bonddim=8), 0.3],
    [CompressConfig(criteria=CompressCriteria.threshold, threshold=1e-5), 0],
    [16, 0],
]

run_optimize("A-2site", holstein_model, 1, small, "2site")
run_optimize("B-1site", holstein_model, 1, small, "1site")
run_optimize("C-2site-left", holstein_model, 1, small, "2site", left=True)
run_optimize("D-1site-direct", holstein_model, 1, small, "1site", algo="direct")
run_optimize("E-2site-3roots", holstein_model, 1, small, "2site", nroots=3)
run_optimize("F-1site-3roots", holstein_model, 1, small, "1site", nroots=3)
run_optimize("G-2site-direct-2roots", holstein_model, 1, [[6, 0.2], [8, 0]], "2site", nroots=2, algo="direct")
run_optimize("H-omega-1site", holstein_model, 1, small, "1site", omega=0.084)
run_optimize("I-omega-2site-2roots", holstein_model, 1, [[6, 0.3], [14, 0], [14, 0]], "2site", nroots=2, omega=0.084)
run_optimize("J-stacked-1site", holstein_model, 1, small, "1site", stacked=True)
run_optimize("K-stacked-2site-2roots", holstein_model, 1, [[6, 0.3], [16, 0]], "2site", nroots=2, stacked=True)
run_optimize("L-stacked-omega", holstein_model, 1, one, "2site", stacked=True, omega=0.084)
run_optimize("M-ofs", holstein_model.switch_scheme(1), 1, [[6, 0.3], [12, 0.1], [12, 0]], "2site", ofs=OFS.ofs_s, general=True)
run_optimize("N-ofs-holstein", holstein_model, 1, one, "2site", ofs=OFS.ofs_s)
run_optimize("O-inverse", holstein_model, 1, [[6, 0.3], [20, 0]], "2site", inverse=-1.0)
run_optimize("P-inverse-direct", holstein_model, 1, [[6, 0.3], [8, 0]], "1site", inverse=-1.0, algo="direct")
run_optimize("Q-2exciton", holstein_model, 2, [[8, 0.3], [16, 0], [16, 0]], "2site")
run_optimize("R-0exciton", holstein_model, 0, [[8, 0.3], [8, 0]], "1site")
run_optimize("S-cfgproc", holstein_model, 1, cfg_proc, "2site")
run_optimize("T-oneproc", holstein_model, 1, one, "1site", nroots=2)
run_optimize("U-badalgo", holstein_model, 1, [[20, 0.3], [20, 0]], "2site", algo="nonsense")
run_optimize("V-primme", holstein_model, 1, [[20, 0.3], [20, 0]], "2site", algo="primme")
run_optimize("W-badmethod", holstein_model, 1, one, "3site")
run_optimize("X-badproc", holstein_model, 1, [[2.5, 0.3]], "2site")
run_optimize("Y-emptyproc", holstein_model, 1, [], "2site")

run_spin("SP-real-2site", False, "2site", 1, "davidson", [[4, 0.2], [8, 0], [8, 0]])
run_spin("SP-real-1site-3roots", False, "1site", 3, "direct", [[4, 0.2], [8, 0], [8, 0]])
run_spin("SP-cplx-2site-direct", True, "2site", 1, "direct", [[4, 0.2], [8, 0], [8, 0]])
run_spin("SP-cplx-1site-2roots", True, "1site", 2, "direct", [[4, 0.2], [8, 0], [8, 0]])
run_spin("SP-cplx-omega", True, "2site", 1, "direct", [[4, 0.2], [8, 0]], omega=-1.0)


# ---------------------------------------------------------------------------
# 2. single_sweep called directly, both directions, with / without stored optimum
# ---------------------------------------------------------------------------
def run_sweeps(tag, method, nroots, omega, stacked, last_idx, percent):
    np.random.seed(21)
    mps, mpo = construct_mps_mpo(holstein_model, 10, 1)
    mps.optimize_config.method = method
    mps.optimize_config.nroots = nroots
    mps.compress_config = CompressConfig(criteria=CompressCriteria.fixed, max_bonddim=12)
    mps.ensure_right_canonical()
    PREC[0] = 6 if nroots > 1 else 8
    if omega is not None:
        mpo = mpo.add(Mpo.identity(mpo.model).scale(-omega))
        environ = Environ(mps, [mpo, mpo], "R")
        ham = mpo
    elif stacked:
        ham = StackedMpo([mpo, mpo.scale(0.5)])
        environ = [Environ(mps, item, "R") for item in ham.mpos]
    else:
        ham = mpo
        environ = Environ(mps, mpo, "R")
    for isw in range(3):
        micro, res, mpo_ret = single_sweep(mps, ham, environ, omega, percent, last_idx)
        out(tag, f"sweep{isw}", "micro", [[e, c] for e, c in micro])
        out(tag, f"sweep{isw}", "same-mpo", mpo_ret is ham, "mps", *mps_digest(mps))
        if res is None:
            out(tag, f"sweep{isw}", "res None")
        else:
            for i, r in enumerate(res if isinstance(res, list) else [res]):
                out(tag, f"sweep{isw}", f"res{i}", *mps_digest(r))
        out(tag, f"sweep{isw}", "rand", float(np.random.rand()))


run_sweeps("SW-2site", "2site", 1, None, False, [3, 4], 0.2)
run_sweeps("SW-1site", "1site", 1, None, False, [4], 0.0)
run_sweeps("SW-2site-3roots", "2site", 3, None, False, [2, 3], 0.1)
run_sweeps("SW-1site-2roots", "1site", 2, None, False, [0], 0.1)
run_sweeps("SW-omega", "2site", 2, 0.084, False, None, 0.0)
run_sweeps("SW-stacked", "1site", 2, None, True, [8], 0.2)
run_sweeps("SW-noidx", "2site", 1, None, False, [4, 3], 0.0)


PREC[0] = 11
# ---------------------------------------------------------------------------
# 3. eigensolver kernels called directly on synthetic / random tensors
# ---------------------------------------------------------------------------
class FakeCfg:
    def __init__(self, method, nroots, algo, inverse):
        self.method = method
        self.nroots = nroots
        self.algo = algo
        self.inverse = inverse


class FakeMps:
    def __init__(self, method, nroots=1, algo="davidson", inverse=1.0):
        self.optimize_config = FakeCfg(method, nroots, algo, inverse)


def herm_env(rs, a, b, cplx, two):
    shape = (a, b, b, a) if two else (a, b, a)
    t = rs.rand(*shape) - 0.5
    if cplx:
        t = t + 1j * (rs.rand(*shape) - 0.5)
    return t


def rand_mo(rs, bl, d, br, cplx):
    t = rs.rand(bl, d, d, br) - 0.5
    if cplx:
        t = t + 1j * (rs.rand(bl, d, d, br) - 0.5)
    return t


def kernel_case(tag, method, cplx, omega, nroots, inverse, seed, list_len=0):
    rs = np.random.RandomState(seed)
    a, b, d, f, k = 3, 2, 2, 3, 4
    two = omega is not None
    nsite = 1 if method == "1site" else 2

    def one_set():
        lt = herm_env(rs, a, b, cplx, two)
        rt = herm_env(rs, k, f if nsite == 2 else b, cplx, two)
        if nsite == 1:
            mo = [rand_mo(rs, b, d, b, cplx)]
        else:
            mo = [rand_mo(rs, b, d, b, cplx), rand_mo(rs, b, d, f, cplx)]
        return lt, rt, mo

    cshape = (a, d, k) if nsite == 1 else (a, d, d, k)
    qn_mask = rs.rand(*cshape) > 0.3
    qn_mask.flat[0] = True
    mps = FakeMps(method, nroots, "davidson", inverse)

    if list_len:
        sets = [one_set() for _ in range(list_len)]
        lt = [s[0] for s in sets]
        rt = [s[1] for s in sets]
        mo = [s[2] for s in sets]
    else:
        lt, rt, mo = one_set()

    # get_ham_iterative (single operator only)
    if not list_len:
        hdiag, expr = get_ham_iterative(mps, qn_mask, lt, rt, [m.copy() for m in mo], omega)
        out(tag, "hdiag", type(hdiag).__name__, hdiag)
        x = rs.rand(*cshape) - 0.5
        out(tag, "expr", asnumpy(expr(asxp(x))))
        # dense operator agrees with its own diagonal
        dense = asnumpy(get_ham_direct(mps, qn_mask, lt, rt, mo, omega))
        out(tag, "diag-consistent", bool(np.allclose(np.diag(dense) * inverse, hdiag)))

    # eigh_direct on the (non hermitian random) operator: symmetrise through the lower triangle as scipy does
    try:
        e, c = eigh_direct(mps, qn_mask, lt, rt, mo, omega)
        out(tag, "direct-e", e)
        out(tag, "direct-c", type(c).__name__, c if not isinstance(c, list) else list(c))
    except Exception as exc:  # noqa
        out(tag, "direct EXC", type(exc).__name__, str(exc)[:80])

    # eigh_iterative with a recording stand-in for the Davidson solver
    rec = {}

    def fake_davidson(hop, cguess, precond, **kwargs):
        rec["kwargs"] = sorted(kwargs.items())
        n = int(np.sum(qn_mask))
        rr = np.random.RandomState(seed + 100)
        x1 = rr.rand(n) - 0.5
        x2 = rr.rand(n, 1) - 0.5
        x3 = rr.rand(n, 3) - 0.5
        rec["hop1"] = hop(x1)
        rec["hop2"] = hop(x2)
        rec["hop3"] = hop(x3)
        try:
            hop(np.zeros((n, 0)))
        except Exception as exc:  # noqa
            rec["hop0"] = type(exc).__name__
        rec["precond"] = precond(x1, 0.37)
        rec["precond-extra"] = precond(x1, 0.37, "extra", None)
        rec["nguess"] = len(cguess)
        if kwargs["nroots"] == 1:
            return 1.25, x1
        return np.arange(kwargs["nroots"]) * 0.5, [x1 * (i + 1) * (-1) ** i for i in range(kwargs["nroots"])]

    orig = gs.davidson
    gs.davidson = fake_davidson
    try:
        n = int(np.sum(qn_mask))
        cguess = [rs.rand(n) - 0.5 for _ in range(nroots)]
        e, c = eigh_iterative(mps, qn_mask, lt, rt, mo, omega, cguess)
        out(tag, "iter-e", e)
        out(tag, "iter-c", type(c).__name__, c if not isinstance(c, list) else list(c))
        for key in sorted(rec):
            out(tag, "rec", key, rec[key])
    except Exception as exc:  # noqa
        out(tag, "iter EXC", type(exc).__name__, str(exc)[:80])
    finally:
        gs.davidson = orig

    # and with the real Davidson solver on a hermitised problem
    if not list_len and not cplx:
        lt_h = lt + np.swapaxes(lt, 0, -1) if not two else None
        if lt_h is not None:
            rt_h = rt + np.swapaxes(rt, 0, -1)
            mo_h = [m + np.swapaxes(m, 1, 2) for m in mo]
            np.random.seed(seed)
            cguess = [rs.rand(n) - 0.5 for _ in range(nroots)]
            e, c = eigh_iterative(mps, qn_mask, lt_h, rt_h, [m.copy() for m in mo_h], omega, cguess)
            out(tag, "dav-e", np.asarray(e))
            e2, c2 = eigh_direct(mps, qn_mask, lt_h, rt_h, mo_h, omega)
            out(tag, "dav-vs-direct", bool(np.allclose(e, e2, atol=1e-6)))


iseed = 40
for method in ["1site", "2site"]:
    for cplx in [False, True]:
        for omega in [None, 0.3]:
            for nroots in [1, 3]:
                for inverse in [1.0, -1.0]:
                    iseed += 1
                    kernel_case(f"K-{method}-c{int(cplx)}-w{omega}-n{nroots}-i{inverse}", method, cplx, omega,
                                nroots, inverse, iseed)
for method in ["1site", "2site"]:
    for nroots in [1, 2]:
        for list_len in [1, 3]:
            iseed += 1
            kernel_case(f"KL-{method}-n{nroots}-len{list_len}", method, True, None, nroots, 1.0, iseed, list_len=list_len)

# nroots larger than the dimension of the sector (direct solver)
rs = np.random.RandomState(77)
mask = np.zeros((2, 2, 2), dtype=bool)
mask[0, 0, 0] = mask[1, 1, 1] = True
lt = herm_env(rs, 2, 2, False, False)
rt = herm_env(rs, 2, 2, False, False)
mo = [rand_mo(rs, 2, 2, 2, False)]
for nroots in [1, 2, 4]:
    e, c = eigh_direct(FakeMps("1site", nroots), mask, lt, rt, mo, None)
    out(f"tiny-n{nroots}", "e", e, "c", list(c) if isinstance(c, list) else c)
# mismatching list lengths / list vs array
for args in [([lt], rt), ([lt, lt], [rt])]:
    for fn in (eigh_direct, eigh_iterative):
        try:
            extra = ([np.ones(2)],) if fn is eigh_iterative else ()
            fn(FakeMps("1site", 1), mask, args[0], args[1], [mo, mo], None, *extra)
            out("mismatch", fn.__name__, "no exception")
        except Exception as exc:  # noqa
            out("mismatch", fn.__name__, type(exc).__name__)
# unknown method string goes to the two-site branch of the kernels
try:
    hd, ex = get_ham_iterative(FakeMps("weird"), mask, lt, rt, list(mo), None)
    out("weird-method", hd)
except Exception as exc:  # noqa
    out("weird-method EXC", type(exc).__name__)
