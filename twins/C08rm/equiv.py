import os
for _v in ("OMP_NUM_THREADS", "OPENBLAS_NUM_THREADS", "MKL_NUM_THREADS"):
    os.environ[_v] = "1"
import logging
import numpy as np

from renormalizer.model import Model
from renormalizer.mps import Mpo, Mps, StackedMpo, gs
from renormalizer.mps.gs import construct_mps_mpo, optimize_mps
from renormalizer.mps.svd_qn import eigh_qn, get_qn_mask
from renormalizer.tests.parameter import holstein_model

logging.disable(logging.CRITICAL)
np.set_printoptions(precision=8, suppress=True, linewidth=200)

ND = 8


def r(x):
    a = np.round(np.asarray(x), ND) + 0.0
    return a.tolist()


def dig(a):
    """shape + a few order-sensitive moments of an array"""
    a = np.asarray(a)
    flat = a.ravel()
    w = np.cos(np.arange(flat.size) * 0.37 + 0.1)
    return (a.shape, str(a.dtype), r(np.sum(flat * w)), r(np.sum(np.abs(flat) ** 2)))


calls = {}


def counted(name):
    orig = getattr(gs, name)

    def wrapper(*args, **kwargs):
        calls[name] = calls.get(name, 0) + 1
        return orig(*args, **kwargs)

    setattr(gs, name, wrapper)


for _n in ["eigh_direct", "eigh_iterative"]:
    counted(_n)


# ---------------------------------------------------------------- eigh_qn
def run_eigh_qn():
    print("== eigh_qn")
    rng = np.random.RandomState(7)
    cases = []
    # (left shape, right shape, qn size, complex?)
    for ishape, (ls, rs, nq, cplx) in enumerate([
        ((3, 2), (2,), 1, False),
        ((4,), (2, 3), 1, True),
        ((2, 2), (2, 2), 2, True),
        ((1,), (1,), 1, False),
        ((3, 2), (2, 3), 2, False),
    ]):
        qnbigl = rng.randint(0, 2, size=ls + (nq,))
        qnbigr = rng.randint(0, 2, size=rs + (nq,))
        for qntot in ([1] * nq, [0] * nq, [2] + [1] * (nq - 1)):
            qntot = np.array(qntot)
            for system in ["L", "R"]:
                big = qnbigl if system == "L" else qnbigr
                n = int(np.prod(big.shape[:-1]))
                a = rng.rand(n, n) - 0.5
                if cplx:
                    a = a + 1j * (rng.rand(n, n) - 0.5)
                dm = a @ a.conj().T
                # a rank-deficient one gives tiny negative eigenvalues
                if ishape % 2 == 0:
                    v = a[:, :1]
                    dm = v @ v.conj().T
                dm_bk = dm.copy()
                ql_bk, qr_bk = qnbigl.copy(), qnbigr.copy()
                try:
                    u, s, qn = eigh_qn(dm, qnbigl, qnbigr, qntot, system)
                    out = (dig(np.abs(u)), dig(s), [tuple(int(i) for i in q) for q in qn],
                           r(np.abs(u.conj().T @ u).sum()))
                except Exception as e:  # e.g. no valid sector
                    out = ("EXC", type(e).__name__, str(e)[:60])
                untouched = (np.array_equal(dm, dm_bk) and np.array_equal(qnbigl, ql_bk)
                             and np.array_equal(qnbigr, qr_bk))
                print(ishape, qntot.tolist(), system, out, untouched)
    # wrong system
    try:
        eigh_qn(np.eye(2), np.zeros((2, 1), int), np.zeros((1, 1), int), np.array([0]), "X")
    except AssertionError as e:
        print("bad system ->", type(e).__name__)


# ------------------------------------------------------- _update_mps (SA)
def run_update_mps():
    print("== _update_mps state-averaged, direct calls")
    model = holstein_model
    for cplx in [False, True]:
        for nsite in [1, 2]:
            for percent in [0, 0.3]:
                np.random.seed(11)
                m = Mps.random(model, 1, 6, percent=1)
                if cplx:
                    m = m.to_complex()
                m.compress_config.bond_dim_max_value = 5
                m.ensure_right_canonical()
                rng = np.random.RandomState(3)
                # sweep to the right, then to the left, updating with 3 random roots
                for sweep in range(2):
                    for imps in m.iter_idx_list(full=True):
                        if nsite == 2 and ((m.to_right and imps == m.site_num - 1)
                                           or ((not m.to_right) and imps == 0)):
                            break
                        if nsite == 1:
                            cidx = [imps]
                        elif m.to_right:
                            cidx = [imps, imps + 1]
                        else:
                            cidx = [imps - 1, imps]
                        qnbigl, qnbigr, qnmat = m._get_big_qn(cidx)
                        mask = get_qn_mask(qnmat, m.qntot)
                        cs = []
                        for iroot in range(3):
                            c = rng.rand(*mask.shape) - 0.5
                            if cplx:
                                c = c + 1j * (rng.rand(*mask.shape) - 0.5)
                            c[~mask] = 0
                            cs.append(c)
                        cs_bk = [c.copy() for c in cs]
                        ams = m._update_mps(cs, cidx, qnbigl, qnbigr, percent)
                        same = all(np.array_equal(a, b) for a, b in zip(cs, cs_bk))
                        print(cplx, nsite, percent, sweep, cidx, m.to_right, m.qnidx,
                              [dig(np.abs(np.asarray(a))) for a in ams],
                              [dig(np.abs(np.asarray(m[i].array))) for i in cidx],
                              [np.asarray(q).tolist() for q in m.qn[cidx[0]:cidx[-1] + 2]], same)
                    m._switch_direction()
    # one-root list and the non-list path (must return None)
    np.random.seed(5)
    m = Mps.random(model, 1, 4, percent=1)
    m.ensure_right_canonical()
    qnbigl, qnbigr, qnmat = m._get_big_qn([0, 1])
    mask = get_qn_mask(qnmat, m.qntot)
    c = np.random.rand(*mask.shape)
    c[~mask] = 0
    m2 = m.copy()
    print("single-root list", [dig(np.abs(np.asarray(a))) for a in m._update_mps([c], [0, 1], qnbigl, qnbigr, 0)])
    print("non-list", m2._update_mps(c, [0, 1], qnbigl, qnbigr, 0), dig(np.abs(np.asarray(m2[0].array))))
    try:
        m2.copy()._update_mps([], [0, 1], qnbigl, qnbigr, 0)
    except Exception as e:
        print("empty list ->", type(e).__name__)


# --------------------------------------------------------- optimize_mps
def stacked_holstein():
    model = holstein_model.switch_scheme(4) if False else holstein_model
    terms = list(model.ham_terms)
    half = len(terms) // 2
    mpos = [Mpo(Model(model.basis, terms[:half])), Mpo(Model(model.basis, terms[half:]))]
    return StackedMpo(mpos)


def run_optimize():
    print("== optimize_mps")
    proc = [[8, 0.4], [14, 0.2], [14, 0], [14, 0]]
    configs = [
        # method, nroots, algo, omega, stacked
        ("1site", 1, "direct", None, False),
        ("2site", 1, "davidson", None, False),
        ("2site", 3, "direct", None, False),
        ("1site", 3, "davidson", None, False),
        ("2site", 2, "davidson", None, False),
        ("2site", 1, "davidson", 0.084, False),
        ("1site", 2, "direct", 0.084, False),
        ("2site", 2, "davidson", 0.084, False),
        ("2site", 1, "direct", None, True),
        ("2site", 2, "davidson", None, True),
        ("1site", 1, "davidson", None, True),
    ]
    for method, nroots, algo, omega, stacked in configs:
        np.random.seed(2024)
        calls.clear()
        mps, mpo = construct_mps_mpo(holstein_model, proc[0][0], 1)
        op = stacked_holstein() if stacked else mpo
        mps.optimize_config.procedure = proc
        mps.optimize_config.method = method
        mps.optimize_config.nroots = nroots
        mps.optimize_config.algo = algo
        try:
            energies, res = optimize_mps(mps, op, omega=omega)
        except Exception as e:
            print((method, nroots, algo, omega, stacked), "EXC", type(e).__name__, str(e)[:80])
            continue
        if nroots == 1:
            res = [res]
        print((method, nroots, algo, omega, stacked), sorted(calls.items()))
        print("  energies", r(energies))
        for mp in res:
            print("  state", mp.bond_dims, r(mp.expectation(mpo)), r(mp.norm),
                  [np.asarray(q).tolist() for q in mp.qn][1:3], mp.qnidx, mp.to_right,
                  [np.asarray(mt.array).shape for mt in mp][:3])
        print("  input mps", mps.bond_dims, mps.qnidx, mps.to_right)
    # omega with a stacked operator must raise
    np.random.seed(1)
    mps, mpo = construct_mps_mpo(holstein_model, 4, 1)
    mps.optimize_config.procedure = proc
    try:
        optimize_mps(mps, stacked_holstein(), omega=0.1)
    except NotImplementedError as e:
        print("stacked+omega ->", type(e).__name__, e)
    # unknown iterative algorithm
    np.random.seed(1)
    mps, mpo = construct_mps_mpo(holstein_model, 10, 1)
    mps.optimize_config.procedure = proc
    mps.optimize_config.method = "2site"
    mps.optimize_config.algo = "nonexistent"
    try:
        optimize_mps(mps, mpo)
    except BaseException as e:
        print("bad algo ->", type(e).__name__)


if __name__ == "__main__":
    run_eigh_qn()
    run_update_mps()
    run_optimize()
