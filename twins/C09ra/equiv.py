"""Equivalence digest for the C09ra refactoring.

Exercises: renormalizer.mps.mps.projector, Mps.evolve, Mps._evolve_tdvp_ps,
Mps._evolve_prop_and_compress (and through them VMF / min_abs / adaptive wrapper).
"""
import os
import sys

# set iteration order (used when the model / MPO are built) depends on the string hash
# seed, which changes floating point round-off from run to run: pin it.
if os.environ.get("PYTHONHASHSEED") != "0":
    os.environ["PYTHONHASHSEED"] = "0"
    os.execv(sys.executable, [sys.executable] + sys.argv)

import hashlib
import logging
import warnings

import numpy as np

warnings.filterwarnings("ignore")
logging.disable(logging.CRITICAL)

from renormalizer.model import Phonon, Mol, HolsteinModel
from renormalizer.mps import Mps, Mpo, MpDm
from renormalizer.mps.mps import projector, min_abs
from renormalizer.utils import (
    EvolveMethod, EvolveConfig, CompressConfig, CompressCriteria, Quantity,
)

ND = 9


def arr_digest(a):
    a = np.asarray(a)
    if np.iscomplexobj(a):
        r = np.round(np.stack([a.real, a.imag]), ND) + 0.0
    else:
        r = np.round(a.astype(float), ND) + 0.0
    h = hashlib.md5(np.ascontiguousarray(r).tobytes()).hexdigest()[:12]
    return f"{a.dtype}{a.shape} sum={np.round(complex(a.sum()), ND) + 0} abs={round(float(np.abs(a).sum()), ND)} md5={h}"


def num(x):
    if x is None:
        return "None"
    x = complex(x)
    return f"{round(x.real, ND) + 0.0}+{round(x.imag, ND) + 0.0}j"


def mp_digest(mp):
    lines = [
        f"  cls={type(mp).__name__} dtype={np.dtype(mp.dtype).name} dims={list(mp.bond_dims)} pdims={list(mp.pbond_dims)}",
        f"  qn={[np.asarray(q).tolist() for q in mp.qn]} qntot={np.asarray(mp.qntot).tolist()} qnidx={mp.qnidx} to_right={mp.to_right}",
        f"  coeff={num(mp.coeff)} guess_dt={num(mp.evolve_config.guess_dt)} method={mp.evolve_config.method.name}"
        f" criteria={mp.compress_config.criteria.name}",
        f"  norm={round(float(mp.norm), ND)} mp_norm={round(float(mp.mp_norm), ND)}",
    ]
    for i, ms in enumerate(mp):
        lines.append(f"  site{i}: {arr_digest(ms.array)}")
    stat = getattr(mp.evolve_config, "stat", None)
    if stat is not None:
        lines.append(f"  stat: nobs={stat.nobs} minmax={tuple(int(x) for x in stat.minmax)} mean={round(float(stat.mean), ND)}")
    return "\n".join(lines)


# --------------------------------------------------------------------------
# 1. projector
# --------------------------------------------------------------------------
def rnd(rng, shape, cplx):
    a = rng.standard_normal(shape)
    if cplx:
        a = a + 1j * rng.standard_normal(shape)
    return a


def test_projector():
    print("== projector ==")
    rng = np.random.default_rng(1234)
    shapes = [(2, 3, 4), (1, 2, 1), (3, 2, 2, 3), (1, 1, 1), (4, 1, 2), (2, 2, 3, 1)]
    for shape in shapes:
        for cplx in (False, True):
            ms = rnd(rng, shape, cplx)
            for left in (True, False):
                p = projector(ms, left)
                print(shape, cplx, left, "plain", arr_digest(p))
                # positional / keyword with explicit None
                p = projector(ms, left, None, None)
                print(shape, cplx, left, "none ", arr_digest(p))
                if left:
                    d0, d1 = shape[0], shape[-1]
                else:
                    d0, d1 = shape[-1], shape[0]
                ovlp0 = rnd(rng, (d0, d0), cplx)
                ovlp_inv1 = rnd(rng, (d1, d1), cplx)
                p = projector(ms, left, ovlp_inv1, ovlp0)
                print(shape, cplx, left, "ovlp ", arr_digest(p))
                p = projector(ms, left=left, Ovlp_inv1=ovlp_inv1, Ovlp0=ovlp0)
                print(shape, cplx, left, "ovlpk", arr_digest(p))
    # truthy / falsy non-bool `left`
    ms = rnd(rng, (2, 3, 2), True)
    for left in (1, 0, "x", ""):
        print("left=%r" % (left,), arr_digest(projector(ms, left)))
    # error: Ovlp_inv1 given but Ovlp0 missing
    for left in (True, False):
        try:
            projector(ms, left, np.eye(2))
            print("no error")
        except Exception as e:
            print("error", type(e).__name__)


def test_min_abs():
    print("== min_abs ==")
    cases = [
        (1, 2), (2, 1), (-3, 2), (2, -3), (0.1, 0.1), (0.1, -0.1), (-0.1, 0.1), (0, 0.0), (0.0, 0),
        (1j, 2j), (-2j, 1j), (-1j, 1j), (1j, -1j), (1 + 1j, -2j), (3 - 4j, 5j), (5j, 3 - 4j),
        (np.float64(0.3), 0.2), (0.2, np.float64(0.3)), (np.complex128(-0.1j), -0.2j),
        (np.float32(0.5), np.float64(0.5)), (float("inf"), 1.0), (float("nan"), 1.0), (1.0, float("nan")),
        (True, 2), (np.int64(-7), 3),
        # mixed real / complex: assertion
        (1.0, 1j), (1j, 1.0), (complex(1, 0), 2j),
        # arrays
        (np.array([1.0]), np.array([2.0])), (np.array([1.0, 2.0]), np.array([2.0, 1.0])),
        ("a", 1),
    ]
    for t1, t2 in cases:
        try:
            r = min_abs(t1, t2)
            which = "t1" if r is t1 else ("t2" if r is t2 else "other")
            print(repr(t1), repr(t2), "->", type(r).__name__, repr(r), which)
        except Exception as e:
            print(repr(t1), repr(t2), "-> EXC", type(e).__name__)


# --------------------------------------------------------------------------
# 2. evolution
# --------------------------------------------------------------------------
def build(nsites=3, nlevels=2):
    ph = Phonon.simple_phonon(Quantity(1), Quantity(1), nlevels)
    mol = Mol(Quantity(0), [ph])
    model = HolsteinModel([mol] * nsites, Quantity(1), 3)
    tentative_mpo = Mpo(model)
    init_mps = Mpo.onsite(model, r"a^\dagger", dof_set={0}) @ Mps.ground_state(model, False)
    init_mps = init_mps.expand_bond_dimension(hint_mpo=tentative_mpo)
    init_mpdm = MpDm.from_mps(init_mps).expand_bond_dimension(hint_mpo=tentative_mpo)
    e = init_mps.expectation(tentative_mpo)
    mpo = Mpo(model, offset=Quantity(e))
    return model, init_mps, init_mpdm, mpo


def run_case(label, mps, mpo, dts, normalize=True, check_input=True):
    print(f"-- {label}")
    cur = mps
    try:
        for dt in dts:
            inp = cur
            cur = cur.evolve(mpo, dt, normalize) if normalize is not None else cur.evolve(mpo, dt)
            if check_input:
                print(" input after step:")
                print(mp_digest(inp))
            print(f" result dt={dt!r}:")
            print(mp_digest(cur))
    except Exception as e:
        print(" EXC", type(e).__name__, str(e)[:100])
    return cur


def test_evolve():
    print("== evolve ==")
    model, init_mps, init_mpdm, mpo = build()
    np.random.seed(7)
    rand_mps = Mps.random(model, 1, 6, percent=1.0)
    rand_mps.to_complex(inplace=True)
    for i in range(len(rand_mps)):
        a = rand_mps[i].array
        rand_mps[i] = a * np.exp(0.3j * (i + 1))
    # a sum of two states: flags claim canonical but it is not
    summed = init_mps.add(rand_mps.scale(0.3 - 0.2j))

    states = {"mps": init_mps, "mpdm": init_mpdm, "rand": rand_mps, "sum": summed}

    # ---- TDVP-PS: both local solvers, adaptive on/off, both directions, real/imag time
    for sname, st in states.items():
        for solver in ("krylov", "RK45", "RK23"):
            if sname in ("rand", "sum") and solver == "RK23":
                continue
            for adaptive in (False, True):
                if adaptive and sname == "mpdm" and solver != "krylov":
                    continue
                m = st.copy()
                m.evolve_config = EvolveConfig(EvolveMethod.tdvp_ps, adaptive=adaptive, guess_dt=0.2,
                                               ivp_solver=solver)
                run_case(f"tdvp_ps {sname} solver={solver} adaptive={adaptive}", m, mpo, [0.3, 0.05])
    # left-going start
    for solver in ("krylov", "RK45"):
        m = rand_mps.copy()
        m.ensure_left_canonical()
        print("start to_right:", m.to_right, "qnidx:", m.qnidx)
        m.evolve_config = EvolveConfig(EvolveMethod.tdvp_ps, ivp_solver=solver)
        run_case(f"tdvp_ps rand left-canonical solver={solver}", m, mpo, [0.1, 0.1])
        m = rand_mps.copy()
        m.ensure_right_canonical()
        print("start to_right:", m.to_right, "qnidx:", m.qnidx)
        m.evolve_config = EvolveConfig(EvolveMethod.tdvp_ps, ivp_solver=solver)
        run_case(f"tdvp_ps rand right-canonical solver={solver}", m, mpo, [0.1, -0.1])
    # imaginary time
    for solver in ("krylov", "RK45"):
        for adaptive in (False, True):
            m = init_mpdm.copy()
            m.evolve_config = EvolveConfig(EvolveMethod.tdvp_ps, adaptive=adaptive, guess_dt=-0.1j,
                                           ivp_solver=solver)
            run_case(f"tdvp_ps imag mpdm solver={solver} adaptive={adaptive}", m, mpo, [-0.2j, -0.05j])
            run_case(f"tdvp_ps imag mpdm solver={solver} adaptive={adaptive} nonorm", m, mpo, [-0.2j],
                     normalize=False)
    # normalize flag variants
    m = init_mps.copy()
    m.evolve_config = EvolveConfig(EvolveMethod.tdvp_ps)
    run_case("tdvp_ps normalize=False", m, mpo, [0.1], normalize=False)
    run_case("tdvp_ps normalize default", m, mpo, [0.1], normalize=None)
    run_case("tdvp_ps normalize=0", m, mpo, [0.1], normalize=0)
    # numpy scalar time steps / complex with zero imaginary part
    run_case("tdvp_ps np.float64 dt", m, mpo, [np.float64(0.1)])
    run_case("tdvp_ps complex(0.1, 0) dt", m, mpo, [complex(0.1, 0)])
    # two-site model (first/last site branches only) and one-site chain
    model2, mps2, mpdm2, mpo2 = build(nsites=1, nlevels=3)
    for solver in ("krylov", "RK45"):
        m = mps2.copy()
        m.evolve_config = EvolveConfig(EvolveMethod.tdvp_ps, ivp_solver=solver)
        run_case(f"tdvp_ps nsites=1 solver={solver}", m, mpo2, [0.1, 0.2])

    # ---- Taylor P&C
    for sname in ("mps", "mpdm", "sum"):
        st = states[sname]
        for criteria in (CompressCriteria.threshold, CompressCriteria.fixed, CompressCriteria.both):
            if sname != "mps" and criteria is CompressCriteria.both:
                continue
            for adaptive, guess in ((False, 0.1), (True, 0.05), (True, 10.0), (True, 0.3)):
                if sname == "mpdm" and guess in (0.05, 0.3):
                    continue
                m = st.copy()
                m.compress_config = CompressConfig(criteria, max_bonddim=8)
                m.evolve_config = EvolveConfig(EvolveMethod.prop_and_compress, adaptive=adaptive, guess_dt=guess)
                run_case(f"pc {sname} {criteria.name} adaptive={adaptive} guess={guess}", m, mpo, [0.3, 0.07])
    for order in (1, 2, 3, 5):
        for adaptive in (False, True):
            m = init_mps.copy()
            m.evolve_config = EvolveConfig(EvolveMethod.prop_and_compress, adaptive=adaptive, guess_dt=0.02,
                                           taylor_order=order, adaptive_rtol=1e-3)
            run_case(f"pc taylor_order={order} adaptive={adaptive}", m, mpo, [0.05])
    # rejected sub-steps (guess_dt < evolve_dt but far too large for the tolerance) and rejected last step
    for guess, dt in ((0.5, 0.6), (0.6, 0.6), (-0.5, -0.6)):
        m = rand_mps.copy()
        m.evolve_config = EvolveConfig(EvolveMethod.prop_and_compress, adaptive=True, guess_dt=guess,
                                       adaptive_rtol=1e-6)
        run_case(f"pc rejected steps guess={guess} dt={dt}", m, mpo, [dt])
    # imaginary time P&C
    for adaptive, guess in ((False, -0.1j), (True, -0.02j), (True, -5j)):
        m = init_mpdm.copy()
        m.evolve_config = EvolveConfig(EvolveMethod.prop_and_compress, adaptive=adaptive, guess_dt=guess)
        run_case(f"pc imag adaptive={adaptive} guess={guess}", m, mpo, [-0.1j])
        run_case(f"pc imag adaptive={adaptive} guess={guess} nonorm", m, mpo, [-0.1j], normalize=False)
    # error paths
    m = init_mps.copy()
    m.evolve_config = EvolveConfig(EvolveMethod.prop_and_compress, adaptive=True, guess_dt=0.1)
    run_case("pc adaptive wrong direction", m, mpo, [-0.1])
    run_case("pc adaptive real/imag mismatch", m, mpo, [-0.1j])
    m.evolve_config = EvolveConfig(EvolveMethod.prop_and_compress, adaptive=False)
    run_case("pc dt None", m, mpo, [None])
    m.evolve_config.method = "nonsense"
    run_case("unknown method", m, mpo, [0.1])

    # ---- other schemes through Mps.evolve (VMF uses projector)
    for method in (EvolveMethod.tdvp_mu_vmf, EvolveMethod.tdvp_vmf, EvolveMethod.tdvp_mu_cmf,
                   EvolveMethod.tdvp_ps2, EvolveMethod.prop_and_compress_tdrk4,
                   EvolveMethod.prop_and_compress_tdrk):
        for sname in ("mps", "mpdm"):
            for force_ovlp in (True, False):
                if method not in (EvolveMethod.tdvp_mu_vmf, EvolveMethod.tdvp_vmf) and not force_ovlp:
                    continue
                is_cmf = method is EvolveMethod.tdvp_mu_cmf
                if is_cmf and sname == "mpdm":
                    continue
                m = states[sname].copy()
                m.evolve_config = EvolveConfig(method, force_ovlp=force_ovlp)
                m.evolve_config.vmf_auto_switch = False
                run_case(f"{method.name} {sname} force_ovlp={force_ovlp}", m, mpo,
                         [0.02] if is_cmf else [0.05, 0.02], check_input=False)


if __name__ == "__main__":
    test_projector()
    test_min_abs()
    test_evolve()
