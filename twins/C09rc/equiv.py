# -*- coding: utf-8 -*-
# Equivalence check for the C09rc refactoring.
# Exercises: transferMat, integrand_func_factory,
# Mps._evolve_prop_and_compress_tdrk4, Mps._evolve_prop_and_compress_tdrk
# (plus VMF / CMF end-to-end runs that go through the two module functions).
import hashlib
import logging
import re
import time
import sys

T0 = time.time()

import numpy as np

from renormalizer.model import Phonon, Mol, HolsteinModel
from renormalizer.mps import Mps, Mpo, MpDm
from renormalizer.mps import mps as mps_module
from renormalizer.mps.mps import transferMat, integrand_func_factory
from renormalizer.mps.matrix import Matrix
from renormalizer.utils import (
    EvolveMethod,
    EvolveConfig,
    CompressConfig,
    CompressCriteria,
    Quantity,
)
from renormalizer.utils.rk import method_list

logging.disable(logging.CRITICAL)
np.set_printoptions(precision=9, linewidth=200, suppress=False)


def digest_array(a, exact=True):
    # exact=True: include a hash of the raw bytes (bitwise comparison)
    # exact=False: rounded numbers only. Used for the long end-to-end VMF / CMF runs, whose last
    # bits are not reproducible from one process to the next even on the unchanged code.
    a = np.asarray(a)
    nd = 9 if exact else 6
    h = hashlib.sha256(np.ascontiguousarray(a).tobytes()).hexdigest()[:16] if exact else "-"
    r = np.round(a.astype(np.complex128), nd) + 0.0
    flat = r.ravel()
    head = " ".join(f"{x.real:+.{nd}f}{x.imag:+.{nd}f}j" for x in flat[:6])
    return f"shape={a.shape} dtype={a.dtype} sha={h} sum={complex(np.round(flat.sum(), nd) + 0.0)} head=[{head}]"


def digest_mps(m, exact=True):
    dense = m.todense() if not m.is_mpdm else np.concatenate([np.asarray(ms.array).ravel() for ms in m])
    if not exact:
        # gauge independent quantities only
        if m.is_mpdm:
            dense = np.array([m.norm, m.expectation(mpo)] + list(m.e_occupations))
    return (
        f"bond={list(m.bond_dims)} coeff={complex(np.round(m.coeff, 10 if exact else 6))} "
        f"qn={[np.asarray(q).reshape(len(q), -1).tolist() for q in m.qn]} qnidx={m.qnidx} to_right={m.to_right} "
        f"guess_dt={m.evolve_config.guess_dt} method={m.evolve_config.method} "
        f"dense: {digest_array(dense, exact)}"
    )


def out(tag, s):
    print(f"{tag}: {s}")


class Capture(logging.Handler):
    """collects the debug messages of the adaptive step size control"""

    def __init__(self):
        super().__init__(level=logging.DEBUG)
        self.msgs = []

    def emit(self, record):
        msg = record.getMessage()
        if re.search(r"guess_dt|relative error|sub-step", msg):
            self.msgs.append(msg)


def with_log(fun):
    # returns result of fun + digest of the step-size-control log
    lg = logging.getLogger("renormalizer.mps.mps")
    cap = Capture()
    old_level, old_prop = lg.level, lg.propagate
    lg.addHandler(cap)
    lg.setLevel(logging.DEBUG)
    lg.propagate = False
    logging.disable(logging.NOTSET)
    try:
        res = outcome(fun)
    finally:
        logging.disable(logging.CRITICAL)
        lg.removeHandler(cap)
        lg.setLevel(old_level)
        lg.propagate = old_prop
    nrej = sum("not converged" in m for m in cap.msgs)
    h = hashlib.sha256("\n".join(cap.msgs).encode()).hexdigest()[:16]
    last = cap.msgs[-1] if cap.msgs else None
    return f"{res} || log: n={len(cap.msgs)} rejected={nrej} sha={h} last={last!r}"


def outcome(fun):
    try:
        return fun()
    except BaseException as e:  # noqa
        return f"EXC {type(e).__name__}: {e}"


# ----------------------------------------------------------------------
# model
ph = Phonon.simple_phonon(Quantity(1), Quantity(1), 2)
mol = Mol(Quantity(0), [ph])
model = HolsteinModel([mol] * 3, Quantity(1), 3)
tentative_mpo = Mpo(model)
init_mps = Mpo.onsite(model, r"a^\dagger", dof_set={0}) @ Mps.ground_state(model, False)
init_mps = init_mps.expand_bond_dimension(hint_mpo=tentative_mpo)
init_mpdm = MpDm.from_mps(init_mps).expand_bond_dimension(hint_mpo=tentative_mpo)
e = init_mps.expectation(tentative_mpo)
mpo = Mpo(model, offset=Quantity(e))

np.random.seed(2024)
rand_mps = Mps.random(model, 1, 6, percent=1.0).to_complex()
for i in range(len(rand_mps)):
    arr = np.asarray(rand_mps[i].array)
    rand_mps[i] = arr * np.exp(1j * (0.3 * i + 0.1))  # complex, keeps the qn block structure
rand_mps.canonicalise()
rand_mps.normalize("mps_only")

out("init_mps", digest_mps(init_mps))
out("rand_mps", digest_mps(rand_mps))


def mpo_of_t(t, *args, **kwargs):
    return mpo.copy().scale(1 + 0.3 * t)


print('section 1', round(time.time() - T0, 1), file=sys.stderr)
# ----------------------------------------------------------------------
# 1. transferMat
rng = np.random.RandomState(7)
for name, state in [("mps", rand_mps), ("init", init_mps.to_complex()), ("mpdm", init_mpdm.to_complex())]:
    other = state.copy()
    for i in range(len(other)):
        a = np.asarray(other[i].array)
        other[i] = a * (1.0 + 0.2j) + 0.05 * (rng.rand(*a.shape) - 0.5)
    for conj_name, conj in [("none", None), ("other", other)]:
        # from the left
        val = np.ones([1, 1], dtype=np.complex128)
        for imps in range(len(state)):
            val = transferMat(state, conj, "L", imps, val)
            out(f"transferMat {name} conj={conj_name} L {imps}", digest_array(val) + f" type={type(val).__name__}")
        # from the right
        val = np.ones([1, 1], dtype=np.complex128)
        for imps in reversed(range(len(state))):
            val = transferMat(state, conj, "R", imps, val)
            out(f"transferMat {name} conj={conj_name} R {imps}", digest_array(val) + f" type={type(val).__name__}")
        # val given as a Matrix / random non-hermitian val
        d = state[2].shape[0]
        v = rng.rand(d, d) + 1j * rng.rand(d, d)
        out(f"transferMat {name} conj={conj_name} L randval", digest_array(transferMat(state, conj, "L", 2, v)))
        out(f"transferMat {name} conj={conj_name} L Matrixval", digest_array(transferMat(state, conj, "L", 2, Matrix(v))))
        d = state[2].shape[-1]
        v = rng.rand(d, d) + 1j * rng.rand(d, d)
        out(f"transferMat {name} conj={conj_name} R randval", digest_array(transferMat(state, conj, "R", 2, v)))
    # invalid domain
    for bad in ["l", "", None, 0, ["R"]]:
        out(f"transferMat {name} bad domain {bad!r}",
            outcome(lambda: digest_array(transferMat(state, None, bad, 0, np.ones([1, 1])))))
    # invalid site index
    out(f"transferMat {name} bad idx", outcome(lambda: digest_array(transferMat(state, None, "L", 99, np.ones([1, 1])))))


class FakeMp(list):
    pass


for nd in (2, 5):
    fake = FakeMp([Matrix(rng.rand(*([2] * nd))) for _ in range(2)])
    for dom in ("L", "R", "x"):
        out(f"transferMat fake ndim={nd} {dom}", outcome(lambda: digest_array(transferMat(fake, None, dom, 0, np.ones([1, 1])))))
# a plain list of matrices works as well
fake = FakeMp([Matrix(rng.rand(3, 2, 4) + 1j * rng.rand(3, 2, 4)), Matrix(rng.rand(4, 2, 3))])
out("transferMat fake3 L", digest_array(transferMat(fake, None, "L", 0, rng.rand(3, 3))))
out("transferMat fake3 R", digest_array(transferMat(fake, fake, "R", 0, rng.rand(4, 4))))
fake = FakeMp([Matrix(rng.rand(3, 2, 2, 4) + 1j * rng.rand(3, 2, 2, 4))])
out("transferMat fake4 L", digest_array(transferMat(fake, None, "L", 0, rng.rand(3, 3))))
out("transferMat fake4 R", digest_array(transferMat(fake, fake, "R", 0, rng.rand(4, 4))))


print('section 2', round(time.time() - T0, 1), file=sys.stderr)
# ----------------------------------------------------------------------
# 2. integrand_func_factory
def make_hop(shape, seed):
    r = np.random.RandomState(seed)
    n = int(np.prod(shape))
    h = r.rand(n, n) + 1j * r.rand(n, n)
    h = h + h.conj().T

    def hop(y):
        return h.dot(np.asarray(y).ravel()).reshape(shape)

    return hop


def herm_pos(r, d):
    a = r.rand(d, d) + 1j * r.rand(d, d)
    return a.dot(a.conj().T) + np.eye(d)


r = np.random.RandomState(99)
for shape in ([3, 2, 4], [3, 2, 2, 4], [1, 2, 1], [3, 4], [2, 2, 2, 2, 2]):
    hop = make_hop(shape, 5)
    y = r.rand(*shape) + 1j * r.rand(*shape)
    for left in (True, False):
        dS = shape[-1] if left else shape[0]
        d0 = shape[0] if left else shape[-1]
        d1 = dS
        S_inv = r.rand(dS, dS) + 1j * r.rand(dS, dS)
        o_inv1, o_inv0, o0 = herm_pos(r, d1), herm_pos(r, d0), herm_pos(r, d0)
        for islast in (True, False):
            for coef in (1j, -1, 2.5):
                for ovlp in (False, True):
                    for wrap in (False, True):
                        kw = dict(ovlp_inv1=o_inv1, ovlp_inv0=o_inv0, ovlp0=o0) if ovlp else {}
                        if wrap:
                            kw = {k: Matrix(v) for k, v in kw.items()}
                            S_arg = Matrix(S_inv)
                        else:
                            S_arg = S_inv
                        tag = f"integrand shape={shape} left={left} islast={islast} coef={coef} ovlp={ovlp} wrap={wrap}"

                        def run():
                            func = integrand_func_factory(shape, hop, islast, S_arg, left, coef, **kw)
                            res1 = func(0, y.ravel())
                            res2 = func(1.5, y.copy())  # un-ravelled input, t ignored
                            assert np.array_equal(res1, res2)
                            return digest_array(res1)

                        out(tag, outcome(run))
# positional ovlp arguments and only some of them given
shape = [3, 2, 4]
hop = make_hop(shape, 11)
y = r.rand(*shape) + 1j * r.rand(*shape)
S_inv = r.rand(4, 4)
func = integrand_func_factory(shape, hop, False, S_inv, True, 1j, herm_pos(r, 4), herm_pos(r, 3), herm_pos(r, 3))
out("integrand positional", digest_array(func(0, y.ravel())))
func = integrand_func_factory(shape, hop, False, S_inv, True, 1j, ovlp_inv0=herm_pos(r, 3))
out("integrand only ovlp_inv0", digest_array(func(0, y.ravel())))
out("integrand only ovlp_inv1",
    outcome(lambda: digest_array(integrand_func_factory(shape, hop, False, S_inv, True, 1j, ovlp_inv1=herm_pos(r, 4))(0, y.ravel()))))
out("integrand bad S_inv",
    outcome(lambda: digest_array(integrand_func_factory(shape, hop, False, "abc", True, 1j)(0, y.ravel()))))
# real y
func = integrand_func_factory(shape, hop, False, r.rand(3, 3), False, -1)
out("integrand real y", outcome(lambda: digest_array(func(0, r.rand(*shape).ravel()))))


print('section 3', round(time.time() - T0, 1), file=sys.stderr)
# ----------------------------------------------------------------------
# 3. prop & compress, classical RK4 for time dependent H
def run_evolve(state, method, h, dt, nsteps=2, compress=None, **cfg):
    m = state.copy()
    m.evolve_config = EvolveConfig(method, **cfg)
    if compress is not None:
        m.compress_config = compress
    res = []
    for _ in range(nsteps):
        m = m.evolve(h, dt)
        res.append(digest_mps(m))
    return " | ".join(res)


fixed = CompressConfig(CompressCriteria.fixed)
fixed4 = CompressConfig(CompressCriteria.fixed, max_bonddim=4)
for sname, state in [("init", init_mps), ("rand", rand_mps), ("mpdm", init_mpdm)]:
    for hname, h in [("mpo", mpo), ("callable", mpo_of_t)]:
        for dt, cname, cc in [(0.2, "fixed", fixed), (0.01, "fixed4", fixed4), (-0.1, "fixed4", fixed4)]:
            if True:
                out(f"tdrk4 {sname} {hname} dt={dt} {cname}",
                    outcome(lambda: run_evolve(state, EvolveMethod.prop_and_compress_tdrk4, h, dt, compress=cc)))
# direct call: the input must not be modified, unsupported type raises
m = init_mps.copy()
m.evolve_config = EvolveConfig(EvolveMethod.prop_and_compress_tdrk4)
before = digest_mps(m)
out("tdrk4 direct", digest_mps(m._evolve_prop_and_compress_tdrk4(mpo, 0.3)))
out("tdrk4 direct complex dt", digest_mps(m._evolve_prop_and_compress_tdrk4(mpo, 0.3 - 0.1j)))
out("tdrk4 input untouched", str(before == digest_mps(m)))
for bad in (None, 3, "mpo", [mpo]):
    out(f"tdrk4 bad mpo {type(bad).__name__}", outcome(lambda: m._evolve_prop_and_compress_tdrk4(bad, 0.3)))
calls = []


def recording_mpo(t, *args, **kwargs):
    calls.append((round(float(t), 12), len(args), sorted(kwargs)))
    return mpo


out("tdrk4 recording", digest_mps(m._evolve_prop_and_compress_tdrk4(recording_mpo, 0.3)))
out("tdrk4 recorded calls", repr(calls))

print('section 4', round(time.time() - T0, 1), file=sys.stderr)
# ----------------------------------------------------------------------
# 4. prop & compress, general RK
adaptive_methods = []
for rk in method_list:
    order = EvolveConfig(EvolveMethod.prop_and_compress_tdrk, rk_solver=rk).rk_config.order
    if len(order) == 2:
        adaptive_methods.append(rk)
    for sname, state, hname, h in [("init", init_mps, "mpo", mpo), ("rand", rand_mps, "callable", mpo_of_t)]:
        out(f"tdrk {rk} order={order} {sname} {hname} fixed-step",
            outcome(lambda: run_evolve(state, EvolveMethod.prop_and_compress_tdrk, h, 0.1, compress=fixed,
                                       rk_solver=rk, adaptive=False)))
    out(f"tdrk {rk} init callable adaptive",
        with_log(lambda: run_evolve(init_mps, EvolveMethod.prop_and_compress_tdrk, mpo_of_t, 0.2, compress=fixed,
                                    rk_solver=rk, adaptive=True, guess_dt=0.05)))
out("adaptive methods", repr(adaptive_methods))
for rk in adaptive_methods:
    # large guess (rejections), tiny guess with loose tol (growth capped by p_max), negative time, mpdm
    for gname, kw in [
        ("big guess", dict(guess_dt=0.4, adaptive_rtol=1e-7)),
        ("tiny guess", dict(guess_dt=0.002, adaptive_rtol=1e-2)),
        ("default tol", dict(guess_dt=0.02)),
    ]:
        out(f"tdrk {rk} adaptive {gname}",
            with_log(lambda: run_evolve(init_mps, EvolveMethod.prop_and_compress_tdrk, mpo, 0.4, nsteps=2, compress=fixed,
                                        rk_solver=rk, adaptive=True, **kw)))
    out(f"tdrk {rk} adaptive negative",
        with_log(lambda: run_evolve(rand_mps, EvolveMethod.prop_and_compress_tdrk, mpo_of_t, -0.3, nsteps=2, compress=fixed4,
                                    rk_solver=rk, adaptive=True, guess_dt=-0.1)))
    out(f"tdrk {rk} adaptive wrong sign guess",
        with_log(lambda: run_evolve(rand_mps, EvolveMethod.prop_and_compress_tdrk, mpo, -0.3, nsteps=1, compress=fixed4,
                                    rk_solver=rk, adaptive=True, guess_dt=0.1)))
out("tdrk RKF45 adaptive mpdm",
    with_log(lambda: run_evolve(init_mpdm, EvolveMethod.prop_and_compress_tdrk, mpo, 0.3, nsteps=1, compress=fixed,
                                rk_solver="RKF45", adaptive=True, guess_dt=0.1)))
m = init_mps.copy()
m.compress_config = fixed
m.evolve_config = EvolveConfig(EvolveMethod.prop_and_compress_tdrk, rk_solver="RKF45", adaptive=True, guess_dt=0.1)
for bad in (None, 3, "mpo"):
    out(f"tdrk bad mpo {type(bad).__name__}", outcome(lambda: m._evolve_prop_and_compress_tdrk(bad, 0.3)))
calls.clear()
res = m._evolve_prop_and_compress_tdrk(recording_mpo, 0.3)
out("tdrk recording", digest_mps(res))
out("tdrk recorded calls", repr(calls))
out("tdrk input guess_dt after", repr(m.evolve_config.guess_dt))
m.evolve_config = EvolveConfig(EvolveMethod.prop_and_compress_tdrk, rk_solver="C_RK4", adaptive=True, guess_dt=0.1)
out("tdrk adaptive with single order tableau", outcome(lambda: digest_mps(m._evolve_prop_and_compress_tdrk(mpo, 0.3))))
m.evolve_config = EvolveConfig(EvolveMethod.prop_and_compress_tdrk, rk_solver="RKF45", adaptive=False)
out("tdrk fixed step with embedded tableau", outcome(lambda: digest_mps(m._evolve_prop_and_compress_tdrk(mpo, 0.3))))

print('section 5', round(time.time() - T0, 1), file=sys.stderr)
# ----------------------------------------------------------------------
# 5. end to end: VMF / CMF go through integrand_func_factory and transferMat
def run_vmf(state, method, force_ovlp, dt):
    mm = state.copy()
    mm.evolve_config = EvolveConfig(method, ivp_rtol=1e-4, ivp_atol=1e-7, force_ovlp=force_ovlp)
    mm.evolve_config.vmf_auto_switch = False
    return digest_mps(mm.evolve(mpo, dt), exact=False)


def run_cmf(state, solver, trapz, force_ovlp, nsteps):
    mm = state.copy()
    mm.evolve_config = EvolveConfig(EvolveMethod.tdvp_mu_cmf, ivp_solver=solver, force_ovlp=force_ovlp)
    mm.evolve_config.tdvp_cmf_c_trapz = trapz
    for _ in range(nsteps):
        mm = mm.evolve(mpo, 0.02)
    return digest_mps(mm, exact=False)


for method in (EvolveMethod.tdvp_mu_vmf, EvolveMethod.tdvp_vmf):
    for force_ovlp in (True, False):
        out(f"vmf init {method} force_ovlp={force_ovlp}", outcome(lambda: run_vmf(init_mps, method, force_ovlp, 0.2)))
    out(f"vmf mpdm {method} force_ovlp=True", outcome(lambda: run_vmf(init_mpdm, method, True, 0.05)))
for solver in ("krylov", "RK45"):
    for trapz in (True, False):
        for force_ovlp in (True, False):
            out(f"cmf init solver={solver} trapz={trapz} force_ovlp={force_ovlp}",
                outcome(lambda: run_cmf(init_mps, solver, trapz, force_ovlp, 2)))
out("cmf mpdm krylov trapz force_ovlp", outcome(lambda: run_cmf(init_mpdm, "krylov", True, True, 1)))
out("cmf mpdm RK45 force_ovlp", outcome(lambda: run_cmf(init_mpdm, "RK45", False, True, 1)))
# imaginary time
def run():
    mm = init_mps.copy()
    mm.evolve_config = EvolveConfig(EvolveMethod.tdvp_mu_vmf, ivp_rtol=1e-4, ivp_atol=1e-7, force_ovlp=True)
    mm.evolve_config.vmf_auto_switch = False
    return digest_mps(mm.evolve(mpo, -0.1j), exact=False)
out("vmf imag time", outcome(run))
print('end', round(time.time() - T0, 1), file=sys.stderr)
