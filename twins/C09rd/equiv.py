import sys, types
_pt = types.ModuleType("print_tree"); _pt.print_tree = object; sys.modules.setdefault("print_tree", _pt)

import hashlib
import os
import logging
import traceback

import numpy as np

logging.disable(logging.CRITICAL)

from renormalizer.model import Phonon, Mol, HolsteinModel, Op
from renormalizer.utils import Quantity, EvolveConfig, EvolveMethod, CompressConfig, CompressCriteria
from renormalizer.mps import Mps, Mpo, MpDm
from renormalizer.tn import BasisTree, TTNO, TTNS
from renormalizer.tn.tree import from_mps, TTNEnviron
from renormalizer.tn.node import TreeNodeBasis
from renormalizer.tn import time_evolution as tn_te


# NOTE: the digests are built from gauge independent quantities rounded to 6-7 digits. Hashing the raw
# bytes of the site tensors is NOT stable on the unchanged tree: the last bits of BLAS / einsum reductions
# depend on the memory alignment of the buffers (an unrelated allocation before the call flips them), and
# the bond-expanded states have (numerically) null directions in which this noise is amplified to ~1e-5
# in the individual site tensors while the represented state agrees to ~1e-12.
DEC = 6
_JUNK = [np.zeros(7 + i) for i in range(1000)] if os.environ.get("EQUIV_JUNK") else None


def rnd(a, dec=DEC):
    a = np.round(np.asarray(a), dec)
    return a + 0.0  # remove negative zeros


def sha(a):
    a = np.ascontiguousarray(rnd(a))
    return hashlib.sha1(a.tobytes()).hexdigest()[:12] + f"|{a.dtype}|{a.shape}"


def sig(x, n=5):
    x = complex(x)
    return f"{x.real:.{n}e}{x.imag:+.{n}e}j"


def dense_of(mp):
    res = np.ones((1, 1))
    for mt in mp:
        arr = np.asarray(mt.array)
        res = np.tensordot(res, arr, axes=1)
        res = res.reshape(1, -1, arr.shape[-1])[0]
        res = res.reshape(-1, arr.shape[-1])
    return res[:, 0] * mp.coeff


def mps_digest(mps, h=None):
    out = []
    out.append(f"type={type(mps).__name__} dtype={mps.dtype} coeff_type={type(mps.coeff).__name__} coeff={sig(mps.coeff)} to_right={mps.to_right} qnidx={mps.qnidx} qntot={mps.qntot}")
    out.append("bond=" + repr(list(mps.bond_dims)) + " shapes=" + repr([tuple(ms.shape) for ms in mps]))
    out.append("qn(sorted)=" + repr([sorted(np.asarray(q).tolist()) for q in mps.qn]))
    dense = dense_of(mps)
    out.append(f"dense {sha(dense)} norm={rnd(np.linalg.norm(dense), 7)!r} head={rnd(dense[np.argsort(-np.abs(rnd(dense, 4)), kind='stable')[:4]]).tolist()}")
    out.append(f"mp_norm={rnd(mps.mp_norm, 7)!r} e_occ={rnd(mps.e_occupations).tolist()} ph_occ={rnd(mps.ph_occupations).tolist()}")
    if h is not None:
        out.append(f"<H>={rnd(mps.expectation(h), 7)!r}")
    cfg = mps.evolve_config
    out.append(f"cfg method={cfg.method} adaptive={cfg.adaptive} guess_dt={sig(cfg.guess_dt, 4)} midpoint={cfg.tdvp_cmf_midpoint} trapz={cfg.tdvp_cmf_c_trapz} solver={cfg.ivp_solver}")
    stat = getattr(cfg, "stat", None)
    out.append(f"stat.nobs={None if stat is None else int(stat.nobs)}")
    return "\n".join(out)


def ttns_digest(ttns, h=None):
    out = [f"coeff_type={type(ttns.coeff).__name__} coeff={sig(ttns.coeff)} bond={list(ttns.bond_dims)} dtypes={sorted(set(str(n.tensor.dtype) for n in ttns.node_list))}"]
    out.append("shapes=" + repr([tuple(n.tensor.shape) for n in ttns.node_list]))
    out.append("qn(sorted)=" + repr([sorted(np.asarray(n.qn).tolist()) for n in ttns.node_list]))
    order = [b for b in ttns.basis.basis_list if type(b).__name__ != 'BasisDummy']
    dense = np.asarray(ttns.todense(order)).ravel() * ttns.coeff
    out.append(f"dense {sha(dense)} norm={rnd(np.linalg.norm(dense), 7)!r} head={rnd(dense[np.argsort(-np.abs(rnd(dense, 4)), kind='stable')[:4]]).tolist()}")
    if h is not None:
        out.append(f"<H>={rnd(ttns.expectation(h), 7)!r}")
    return "\n".join(out)


def run(label, f):
    print("=" * 10, label)
    try:
        print(f())
    except Exception as e:
        tb = traceback.extract_tb(e.__traceback__)
        print(f"EXC {type(e).__name__}: {e} @ {tb[-1].name}")


# ------------------------------------------------------------------ models
N_SITES = 3
ph = Phonon.simple_phonon(Quantity(1.0), Quantity(1.0), 3)
mol = Mol(Quantity(0), [ph])
model = HolsteinModel([mol] * N_SITES, Quantity(1.0), 3)
ph2 = Phonon.simple_phonon(Quantity(0.7), Quantity(0.6), 2)
model2 = HolsteinModel([Mol(Quantity(0.1 * i), [ph, ph2]) for i in range(2)], Quantity(0.5), 3)


def build_states(model):
    mpo0 = Mpo(model)
    gs = Mps.ground_state(model, False)
    ex = Mpo.onsite(model, r"a^\dagger", dof_set={0}) @ gs
    ex = ex.expand_bond_dimension(hint_mpo=mpo0)
    e = ex.expectation(mpo0)
    mpo = Mpo(model, offset=Quantity(e))
    states = {}
    states["ex"] = ex
    states["mpdm"] = MpDm.from_mps(ex).expand_bond_dimension(hint_mpo=mpo0)
    np.random.seed(11)
    r1 = Mps.random(model, 1, 6)
    states["rand_q1"] = r1
    np.random.seed(12)
    r2 = Mps.random(model, 1, 4)
    cplx = r2.to_complex()
    for i in range(len(cplx)):
        arr = np.asarray(cplx[i].array)
        cplx[i] = arr * np.exp(0.3j * (i + 1))
    states["complex"] = cplx
    # a sum of two states: flags say canonical but it is not
    states["sum"] = r1 + ex
    np.random.seed(13)
    r3 = Mps.random(model, 1, 5)
    r3.ensure_right_canonical() if hasattr(r3, "ensure_right_canonical") else None
    states["rand_other_gauge"] = r3
    np.random.seed(14)
    states["rand_q0"] = Mps.random(model, 0, 3)
    # bond dimensions reduced to what two sweeps of QR leave
    for k in ("rand_q1", "complex", "sum"):
        c = states[k].copy()
        c.canonicalise()
        c.canonicalise()
        states[k + "_c"] = c
    return mpo, states


def evolve_case(state, mpo, cfg_kwargs, attrs, dt, nsteps=1, normalize=True, ccfg=None):
    def f():
        mps = state.copy()
        mps.evolve_config = EvolveConfig(**cfg_kwargs)
        for k, v in attrs.items():
            setattr(mps.evolve_config, k, v)
        if ccfg is not None:
            mps.compress_config = ccfg
        before = mps_digest(mps)
        cur = mps
        for _ in range(nsteps):
            cur = cur.evolve(mpo, dt, normalize=normalize)
        lines = ["RESULT", mps_digest(cur, mpo), "INPUT-AFTER", mps_digest(mps, mpo)]
        lines.append("input dense changed? %s" % (before != mps_digest(mps)))
        return "\n".join(lines)
    return f


mpo, states = build_states(model)
mpo2, states2 = build_states(model2)

# -------------------------------------------------------------- TDVP-PS (MPS)
for sname in ["ex", "mpdm", "rand_q1", "complex", "sum", "rand_other_gauge", "rand_q0"]:
    for solver in ["krylov", "RK45"]:
        for dt in [0.3, -0.05j]:
            if sname in ("mpdm",) and solver == "RK45" and dt != 0.3:
                continue
            run(f"ps {sname} {solver} dt={dt}",
                evolve_case(states[sname], mpo, dict(method=EvolveMethod.tdvp_ps, ivp_solver=solver), {}, dt, nsteps=2))

run("ps direct no-normalize RK23",
    evolve_case(states["rand_q1"], mpo, dict(method=EvolveMethod.tdvp_ps, ivp_solver="RK23", ivp_rtol=1e-6, ivp_atol=1e-9), {}, 0.02, nsteps=3, normalize=False))
run("ps adaptive krylov",
    evolve_case(states["ex"], mpo, dict(method=EvolveMethod.tdvp_ps, adaptive=True, guess_dt=0.1), {}, 0.4))
run("ps adaptive RK45 imag",
    evolve_case(states["ex"], mpo, dict(method=EvolveMethod.tdvp_ps, adaptive=True, guess_dt=-0.05j, ivp_solver="RK45"), {}, -0.1j))
run("ps negative dt", evolve_case(states["rand_q1"], mpo, dict(method=EvolveMethod.tdvp_ps), {}, -0.2))
run("ps model2 krylov", evolve_case(states2["rand_q1"], mpo2, dict(method=EvolveMethod.tdvp_ps), {}, 0.25, nsteps=2))
run("ps model2 RK45", evolve_case(states2["sum"], mpo2, dict(method=EvolveMethod.tdvp_ps, ivp_solver="RK45"), {}, 0.25))
run("ps bad solver", evolve_case(states["ex"], mpo, dict(method=EvolveMethod.tdvp_ps, ivp_solver="nonsense"), {}, 0.1))


# called directly on a state whose direction flag has been switched
def ps_switched():
    mps = states["rand_q1"].copy()
    mps.ensure_left_canonical()
    mps.evolve_config = EvolveConfig(EvolveMethod.tdvp_ps)
    new = mps._evolve_tdvp_ps(mpo, 0.15)
    new2 = new._evolve_tdvp_ps(mpo, 0.15j * -1)
    return mps_digest(new, mpo) + "\n" + mps_digest(new2, mpo)


run("ps direct call, left canonical start", ps_switched)

# -------------------------------------------------------------- CMF (MPS)
for sname in ["ex", "mpdm", "rand_q1_c", "complex_c", "sum_c", "rand_q1", "sum"]:
    for solver in ["krylov", "RK45"]:
        for midpoint, trapz in [(True, False), (True, True), (False, False)]:
            for force_ovlp in [True, False]:
                if sname == "mpdm" and (solver == "RK45" or not force_ovlp):
                    continue
                if sname in ("complex_c", "sum_c") and not (midpoint and force_ovlp):
                    continue
                if sname in ("rand_q1", "sum") and not (midpoint and trapz and force_ovlp and solver == "krylov"):
                    continue
                run(f"cmf {sname} {solver} mid={midpoint} trapz={trapz} ovlp={force_ovlp}",
                    evolve_case(states[sname], mpo,
                                dict(method=EvolveMethod.tdvp_mu_cmf, ivp_solver=solver, force_ovlp=force_ovlp),
                                dict(tdvp_cmf_midpoint=midpoint, tdvp_cmf_c_trapz=trapz), 0.02, nsteps=2 if sname == "ex" else 1))

run("cmf invalid: trapz without midpoint",
    evolve_case(states["ex"], mpo, dict(method=EvolveMethod.tdvp_mu_cmf), dict(tdvp_cmf_midpoint=False, tdvp_cmf_c_trapz=True), 0.02))
for trapz in (False, True):
    run(f"cmf imag time trapz={trapz} krylov",
        evolve_case(states["ex"], mpo, dict(method=EvolveMethod.tdvp_mu_cmf), dict(tdvp_cmf_c_trapz=trapz), -0.01j, nsteps=2))
    run(f"cmf imag time trapz={trapz} RK45",
        evolve_case(states["rand_q1_c"], mpo, dict(method=EvolveMethod.tdvp_mu_cmf, ivp_solver="RK45"), dict(tdvp_cmf_c_trapz=trapz), -0.01j))
run("cmf adaptive",
    evolve_case(states["ex"], mpo, dict(method=EvolveMethod.tdvp_mu_cmf, adaptive=True, guess_dt=0.01), {}, 0.03))
run("cmf model2 trapz", evolve_case(states2["rand_q1_c"], mpo2, dict(method=EvolveMethod.tdvp_mu_cmf), dict(tdvp_cmf_c_trapz=True), 0.02))
run("cmf model2 first order no ovlp RK45",
    evolve_case(states2["ex"], mpo2, dict(method=EvolveMethod.tdvp_mu_cmf, ivp_solver="RK45", force_ovlp=False), dict(tdvp_cmf_midpoint=False), 0.02))
run("cmf no-normalize q0", evolve_case(states["rand_q0"], mpo, dict(method=EvolveMethod.tdvp_mu_cmf), {}, 0.02, normalize=False))

# -------------------------------------------------------------- TTN
def add_ttno_offset(ttns, ttno):
    e = ttns.expectation(ttno)
    ham_terms = ttno.terms.copy()
    ham_terms.append(ttns.basis.identity_op * (-e))
    return TTNO(ttno.basis, ham_terms)


def chain():
    basis, ttns, ttno = from_mps(states["ex"])
    return ttns, add_ttno_offset(ttns, ttno)


def tree():
    node_list = [TreeNodeBasis([b]) for b in model.basis]
    root = node_list[2]
    root.add_child(node_list[0])
    root.add_child(node_list[3])
    root.add_child(node_list[4])
    node_list[0].add_child(node_list[1])
    node_list[4].add_child(node_list[5])
    basis = BasisTree(root)
    ttno = TTNO(basis, model.ham_terms)
    ttns = TTNS(basis, {0: 1})
    return ttns, add_ttno_offset(ttns, ttno)


def mctdh():
    basis = BasisTree.binary_mctdh(model.basis)
    ttns = TTNS(basis, {0: 1})
    ttno = TTNO(basis, model.ham_terms)
    return ttns, add_ttno_offset(ttns, ttno)


def ttn_case(builder, method, tau, expand, nsteps=2, m=5, crit=CompressCriteria.fixed):
    def f():
        ttns, ttno = builder()
        if expand:
            np.random.seed(21)
            ttns = ttns + ttns.random(ttns.basis, 1, m).scale(1e-3, inplace=True)
            ttns.canonicalise()
        else:
            ttns = ttns.copy()
        ttns.evolve_config = EvolveConfig(method)
        ttns.compress_config = CompressConfig(crit)
        cur = ttns
        outs = []
        for _ in range(nsteps):
            cur = cur.evolve(ttno, tau)
            outs.append(ttns_digest(cur, ttno))
        outs.append("INPUT-AFTER\n" + ttns_digest(ttns, ttno))
        return "\n".join(outs)
    return f


for bname, builder in [("chain", chain), ("tree", tree), ("mctdh", mctdh)]:
    for method in [EvolveMethod.tdvp_ps2, EvolveMethod.tdvp_ps]:
        for tau in [0.4, -0.05j]:
            run(f"ttn {bname} {method} tau={tau} expand", ttn_case(builder, method, tau, True))
    run(f"ttn {bname} ps2 no expand", ttn_case(builder, EvolveMethod.tdvp_ps2, 0.3, False, nsteps=1))
    run(f"ttn {bname} ps2 threshold", ttn_case(builder, EvolveMethod.tdvp_ps2, 0.3, True, nsteps=2, crit=CompressCriteria.threshold))


# direct calls of the module level functions (complex coeff, not canonical input, single node tree)
def direct_ps2(coeff, tau):
    def f():
        ttns, ttno = tree()
        np.random.seed(22)
        ttns = ttns + ttns.random(ttns.basis, 1, 4).scale(1e-2, inplace=True)
        ttns.canonicalise()
        ttns = ttns.to_complex()
        ttns.compress_config = CompressConfig(CompressCriteria.fixed)
        ret = tn_te.evolve_tdvp_ps2(ttns, ttno, coeff, tau)
        return f"same object: {ret is ttns}\n" + ttns_digest(ret, ttno)
    return f


run("ttn direct ps2 coeff=-1j", direct_ps2(-1j, 0.2))
run("ttn direct ps2 coeff=0.5-1j", direct_ps2(0.5 - 1j, 0.1))
run("ttn direct ps2 tau=0", direct_ps2(-1j, 0.0))


def direct_forward():
    ttns, ttno = mctdh()
    np.random.seed(23)
    ttns = ttns + ttns.random(ttns.basis, 1, 4).scale(1e-2, inplace=True)
    ttns.canonicalise()
    ttns = ttns.to_complex()
    ttns.compress_config = CompressConfig(CompressCriteria.fixed)
    ttne = TTNEnviron(ttns, ttno)
    steps = tn_te._tdvp_ps2_recursion_forward(ttns.root, ttns, ttno, ttne, -1j, 0.1)
    return f"nsteps={len(steps)}\n" + ttns_digest(ttns, ttno)


run("ttn direct forward recursion", direct_forward)


def not_canonical():
    ttns, ttno = tree()
    np.random.seed(24)
    ttns = ttns + ttns.random(ttns.basis, 1, 4).scale(1e-2, inplace=True)
    ttns = ttns.to_complex()
    ret = tn_te.evolve_tdvp_ps2(ttns, ttno, -1j, 0.1)
    return ttns_digest(ret)


run("ttn ps2 non canonical input", not_canonical)


def single_node():
    basis = BasisTree(TreeNodeBasis(list(model.basis[:2])))
    ttns = TTNS(basis, {0: 1})
    ttno = TTNO(basis, [Op(r"a^\dagger a", 0)])
    ttns = ttns.to_complex()
    ret = tn_te.evolve_tdvp_ps2(ttns, ttno, -1j, 0.1)
    return ttns_digest(ret)


run("ttn ps2 single node (assert)", single_node)
