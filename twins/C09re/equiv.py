# -*- coding: utf-8 -*-
"""Equivalence digest for the C09 refactoring of renormalizer/mps/mps.py

Exercises adaptive_tdvp, Mps.evolve, Mps._evolve_prop_and_compress and
Mps._evolve_tdvp_mu_vmf and prints a deterministic digest.
"""
import os
import sys

# the library iterates over sets somewhere on the way: fix the hash seed so that the
# digest is reproducible from run to run
if os.environ.get("PYTHONHASHSEED") != "0":
    os.environ["PYTHONHASHSEED"] = "0"
    os.execv(sys.executable, [sys.executable] + sys.argv)

import hashlib
import logging

import numpy as np

logging.disable(logging.CRITICAL)

from renormalizer.model import Phonon, Mol, HolsteinModel, Model, Op
from renormalizer.model import basis as ba
from renormalizer.mps import Mps, Mpo, MpDm
from renormalizer.mps.mps import adaptive_tdvp
from renormalizer.utils import (EvolveMethod, EvolveConfig, CompressConfig,
                                CompressCriteria, Quantity)

np.random.seed(2024)

ph = Phonon.simple_phonon(Quantity(1), Quantity(1), 2)
mol = Mol(Quantity(0), [ph])
model = HolsteinModel([mol] * 3, Quantity(1), 3)

tentative_mpo = Mpo(model)
init_mps = Mpo.onsite(model, r"a^\dagger", dof_set={0}) @ Mps.ground_state(model, False)
init_mps = init_mps.expand_bond_dimension(hint_mpo=tentative_mpo)
init_mpdm = MpDm.from_mps(init_mps).expand_bond_dimension(hint_mpo=tentative_mpo)
e0 = init_mps.expectation(tentative_mpo)
mpo = Mpo(model, offset=Quantity(e0))

np.random.seed(7)
rand_mps = Mps.random(model, 1, 6, percent=1.0)
# remove the rank deficient bonds of the random state
rand_mps.compress_config = CompressConfig(CompressCriteria.threshold, threshold=1e-10)
rand_mps.canonicalise().compress()
rand_mps.compress_config = CompressConfig()
rand_mps = rand_mps.to_complex()
for i in range(rand_mps.site_num):
    arr = rand_mps[i].array
    rand_mps[i] = arr * np.exp(1j * 0.3 * (i + 1))
rand_mps.normalize("mps_only")


def h(arr):
    arr = np.asarray(arr)
    arr = np.round(arr.astype(np.complex128), 9) + 0.0
    return hashlib.md5(np.ascontiguousarray(arr).tobytes()).hexdigest()[:12]


def r(x, n=9):
    x = complex(x)
    return f"({round(x.real, n) + 0.0},{round(x.imag, n) + 0.0})"


def describe(mps, with_cfg=True):
    parts = [
        type(mps).__name__,
        "dims=" + str(list(mps.bond_dims)),
        "dtype=" + str(np.dtype(mps.dtype)),
        "to_right=" + str(mps.to_right),
        "qnidx=" + str(mps.qnidx),
        "qntot=" + str(mps.qntot),
        "qn=" + str([[list(map(int, np.ravel(q))) for q in qs] for qs in mps.qn]),
        "coeff=" + r(mps.coeff),
        "norm=" + r(mps.norm),
        "mp_norm=" + r(mps.mp_norm),
        "E=" + r(mps.expectation(tentative_mpo)),
        "occ=" + str(np.round(np.asarray(mps.e_occupations, dtype=float), 8).tolist()),
        "dense=" + h(mps.todense()),
        "mats=" + ",".join(h(mt.array) for mt in mps),
    ]
    if with_cfg:
        cfg = mps.evolve_config
        parts.append(f"method={cfg.method.name} guess_dt={r(cfg.guess_dt)} adaptive={cfg.adaptive}")
        parts.append(f"ccrit={mps.compress_config.criteria.name}")
    return " | ".join(parts)


import sys, time
_T0 = time.time()


def run(label, fn):
    sys.stderr.write(f"{time.time() - _T0:7.2f} {label}\n")
    try:
        out = fn()
    except Exception as exc:  # digest the exception too
        print(f"[{label}] EXC {type(exc).__name__}: {str(exc)[:160]}")
        return None
    if isinstance(out, (list, tuple)):
        for i, o in enumerate(out):
            print(f"[{label}#{i}] {o}")
    else:
        print(f"[{label}] {out}")
    return out


# ---------------------------------------------------------------- A. dispatcher
def evolve_steps(state, cfg, dts, normalize=True, ccfg=None, the_mpo=mpo):
    mps = state.copy()
    mps.evolve_config = cfg
    if ccfg is not None:
        mps.compress_config = ccfg
    res = []
    for dt in dts:
        src = mps
        mps = src.evolve(the_mpo, dt, normalize) if normalize is not None else src.evolve(the_mpo, dt)
        res.append(describe(mps))
        res.append("src: " + describe(src))
    return res


for state_name, state in (("mps", init_mps), ("mpdm", init_mpdm), ("rand", rand_mps)):
    for method in EvolveMethod:
        kw = {}
        if method in (EvolveMethod.tdvp_mu_vmf, EvolveMethod.tdvp_vmf):
            if state_name == "mpdm":
                continue
            kw = dict(ivp_rtol=1e-4, ivp_atol=1e-7)
        cfg = EvolveConfig(method, **kw)
        dts = [0.01, 0.005] if method is EvolveMethod.tdvp_mu_cmf else [0.1, 0.05]
        run(f"A/{state_name}/{method.name}",
            lambda: evolve_steps(state, cfg, dts, normalize=None,
                                 ccfg=CompressConfig(CompressCriteria.fixed, max_bonddim=8)))

run("A/no-normalize/pc", lambda: evolve_steps(
    rand_mps, EvolveConfig(EvolveMethod.prop_and_compress), [0.3], normalize=False))
run("A/no-normalize/ps", lambda: evolve_steps(
    rand_mps, EvolveConfig(EvolveMethod.tdvp_ps), [0.3], normalize=False))
run("A/normalize-0/pc", lambda: evolve_steps(
    init_mps, EvolveConfig(EvolveMethod.prop_and_compress), [0.3], normalize=0))
run("A/normalize-str/pc", lambda: evolve_steps(
    init_mps, EvolveConfig(EvolveMethod.prop_and_compress), [0.3], normalize="yes"))
# imaginary time: normalisation kind switches
for method in (EvolveMethod.prop_and_compress, EvolveMethod.tdvp_ps, EvolveMethod.tdvp_ps2,
               EvolveMethod.tdvp_mu_cmf, EvolveMethod.tdvp_mu_vmf, EvolveMethod.tdvp_vmf,
               EvolveMethod.prop_and_compress_tdrk4):
    cfg = EvolveConfig(method, guess_dt=-0.1j, ivp_rtol=1e-4, ivp_atol=1e-7)
    sc = 0.1 if method is EvolveMethod.tdvp_mu_cmf else 1
    run(f"A/imag/{method.name}", lambda: evolve_steps(init_mps, cfg, [-0.1j * sc, -0.05j * sc]))
    if method in (EvolveMethod.prop_and_compress, EvolveMethod.tdvp_ps, EvolveMethod.tdvp_mu_cmf):
        run(f"A/imag-nonorm/{method.name}", lambda: evolve_steps(init_mps, cfg, [-0.1j * sc], normalize=False))
run("A/complex-zero-imag", lambda: evolve_steps(
    init_mps, EvolveConfig(EvolveMethod.tdvp_ps), [0.1 + 0j]))
run("A/int-dt", lambda: evolve_steps(
    init_mps, EvolveConfig(EvolveMethod.prop_and_compress), [1]))


def bad_method():
    mps = init_mps.copy()
    mps.evolve_config = EvolveConfig()
    mps.evolve_config.method = "tdvp_ps"
    return describe(mps.evolve(mpo, 0.1))


run("A/bad-method", bad_method)
run("A/array-dt", lambda: evolve_steps(
    init_mps, EvolveConfig(EvolveMethod.prop_and_compress), [np.array([0.1, 0.2])]))

# ---------------------------------------------------------------- B. P&C
for crit in (CompressCriteria.threshold, CompressCriteria.fixed, CompressCriteria.both):
    for adaptive, guess in ((False, 0.1), (True, 0.6), (True, 0.02), (True, 0.2)):
        for order in (None, 2):
            cfg = EvolveConfig(EvolveMethod.prop_and_compress, adaptive=adaptive,
                               guess_dt=guess, taylor_order=order, adaptive_rtol=1e-3)
            ccfg = CompressConfig(crit, threshold=1e-6, max_bonddim=6)
            for sname, state in (("mps", init_mps), ("rand", rand_mps), ("mpdm", init_mpdm)):
                if sname == "mpdm" and (order is not None or guess == 0.02):
                    continue
                if sname == "mps" and crit is not CompressCriteria.threshold:
                    continue
                run(f"B/{crit.name}/ad={adaptive}/g={guess}/o={order}/{sname}",
                    lambda: evolve_steps(state, cfg, [0.25, 0.1], ccfg=ccfg))


def direct_pc(dt, cfg, state=rand_mps):
    mps = state.copy()
    mps.evolve_config = cfg
    orig_cc = mps.compress_config
    new = mps._evolve_prop_and_compress(mpo, dt)
    return [describe(new), describe(mps),
            f"same_cc={mps.compress_config is orig_cc} new_cc_same={new.compress_config is orig_cc}"]


run("B/direct/none", lambda: direct_pc(None, EvolveConfig()))
run("B/direct/wrong-direction", lambda: direct_pc(-0.1, EvolveConfig(adaptive=True, guess_dt=0.1)))
run("B/direct/real-imag-mix", lambda: direct_pc(-0.1j, EvolveConfig(adaptive=True, guess_dt=0.1)))
run("B/direct/imag-adaptive", lambda: direct_pc(-0.3j, EvolveConfig(adaptive=True, guess_dt=-0.1j)))
run("B/direct/imag-fixed", lambda: direct_pc(-0.3j, EvolveConfig()))
run("B/direct/negative", lambda: direct_pc(-0.3, EvolveConfig(adaptive=True, guess_dt=-0.05)))
run("B/direct/fixed", lambda: direct_pc(0.3, EvolveConfig()))
run("B/direct/order1", lambda: direct_pc(0.3, EvolveConfig(taylor_order=1)))
run("B/direct/order1-adaptive", lambda: direct_pc(0.02, EvolveConfig(taylor_order=1, adaptive=True, guess_dt=0.3, adaptive_rtol=1e-2)))
run("B/direct/loose", lambda: direct_pc(0.3, EvolveConfig(adaptive=True, guess_dt=0.3, adaptive_rtol=10.)))
run("B/direct/tight", lambda: direct_pc(0.05, EvolveConfig(adaptive=True, guess_dt=0.05, adaptive_rtol=1e-5, taylor_order=2)))

# ---------------------------------------------------------------- C. VMF
left_mps = init_mps.copy()
left_mps.ensure_right_canonical()
rand_left = rand_mps.copy()
rand_left.ensure_right_canonical()


def mpo_of_t(t, *args, **kwargs):
    return Mpo(model, offset=Quantity(e0 + 0.5 * t))


for method in (EvolveMethod.tdvp_mu_vmf, EvolveMethod.tdvp_vmf):
    for force_ovlp in (True, False):
        for auto in (True, False):
            for sname, state in (("mps", init_mps), ("rand", rand_mps), ("left", left_mps),
                                 ("randleft", rand_left)):
                if sname in ("mps", "left") and not (force_ovlp and auto):
                    continue
                if sname == "rand" and not force_ovlp and not auto:
                    continue

                def go():
                    cfg = EvolveConfig(method, ivp_rtol=1e-4, ivp_atol=1e-7, force_ovlp=force_ovlp)
                    cfg.vmf_auto_switch = auto
                    return evolve_steps(state, cfg, [0.2, 0.1])
                run(f"C/{method.name}/ovlp={force_ovlp}/auto={auto}/{sname}", go)
    for eps in (1e-3, 1e-14):
        def go():
            cfg = EvolveConfig(method, ivp_rtol=1e-4, ivp_atol=1e-7, reg_epsilon=eps)
            return evolve_steps(rand_mps, cfg, [0.1, 0.1])
        run(f"C/{method.name}/eps={eps}", go)

    def go_td():
        cfg = EvolveConfig(method, ivp_rtol=1e-4, ivp_atol=1e-7)
        return evolve_steps(rand_mps, cfg, [0.2], the_mpo=mpo_of_t)
    run(f"C/{method.name}/callable", go_td)

    def go_bad():
        cfg = EvolveConfig(method)
        return evolve_steps(rand_mps, cfg, [0.2], the_mpo="not an mpo")
    run(f"C/{method.name}/badmpo", go_bad)

    def go_mpdm():
        cfg = EvolveConfig(method, ivp_rtol=1e-3, ivp_atol=1e-6)
        return evolve_steps(init_mpdm, cfg, [0.1])
    run(f"C/{method.name}/mpdm", go_mpdm)

    def go_direct():
        mps = rand_left.copy()
        cfg = EvolveConfig(method, ivp_rtol=1e-4, ivp_atol=1e-7)
        mps.evolve_config = cfg
        new = mps._evolve_tdvp_mu_vmf(mpo, -0.1j)
        return [describe(new), describe(mps)]
    run(f"C/{method.name}/direct-imag", go_direct)

    def go_wrong_method():
        mps = rand_mps.copy()
        mps.evolve_config = EvolveConfig(EvolveMethod.tdvp_ps)
        return describe(mps._evolve_tdvp_mu_vmf(mpo, 0.1))
    run(f"C/{method.name}/wrong-method", go_wrong_method)

# one-site model: no environment step at all -> empty sw_min_list
one_model = Model([ba.BasisSHO("v", 1.3, 4)],
                  [Op("p^2", "v", 0.5), Op("x^2", "v", 0.5 * 1.3 ** 2), Op("x", "v", 0.2)])
one_mpo = Mpo(one_model)
np.random.seed(11)
one_mps = Mps.random(one_model, 0, 1)
for auto in (True, False):
    for method in (EvolveMethod.tdvp_mu_vmf, EvolveMethod.tdvp_vmf):
        def go():
            mps = one_mps.copy()
            cfg = EvolveConfig(method)
            cfg.vmf_auto_switch = auto
            mps.evolve_config = cfg
            new = mps.evolve(one_mpo, 0.2)
            return [str(list(new.bond_dims)), h(new.todense()), new.evolve_config.method.name]
        run(f"C/one-site/{method.name}/auto={auto}", go)

# ---------------------------------------------------------------- D. adaptive_tdvp
for method in (EvolveMethod.tdvp_ps, EvolveMethod.tdvp_ps2, EvolveMethod.tdvp_mu_cmf):
    for guess, rtol in ((0.5, 5e-4), (0.02, 5e-4), (0.1, 1e-7), (0.1, 10.)):
        if method is EvolveMethod.tdvp_mu_cmf and rtol == 1e-7:
            rtol = 1e-5
        for solver in ("krylov", "RK45"):
            if solver == "RK45" and (guess != 0.5 or method is EvolveMethod.tdvp_mu_cmf):
                continue
            cfg = EvolveConfig(method, adaptive=True, guess_dt=guess, adaptive_rtol=rtol,
                               ivp_solver=solver)
            ccfg = CompressConfig(CompressCriteria.fixed, max_bonddim=6)
            dts = [0.05, 0.02] if method is EvolveMethod.tdvp_mu_cmf else [0.3, 0.1]
            run(f"D/{method.name}/g={guess}/rtol={rtol}/{solver}",
                lambda: evolve_steps(rand_mps, cfg, dts, ccfg=ccfg))
    run(f"D/{method.name}/wrong-direction", lambda: evolve_steps(
        init_mps, EvolveConfig(method, adaptive=True, guess_dt=-0.1), [0.1]))
    run(f"D/{method.name}/mix", lambda: evolve_steps(
        init_mps, EvolveConfig(method, adaptive=True, guess_dt=-0.1j), [0.1]))
    sc = 0.2 if method is EvolveMethod.tdvp_mu_cmf else 1
    run(f"D/{method.name}/imag", lambda: evolve_steps(
        init_mps, EvolveConfig(method, adaptive=True, guess_dt=-0.05j * sc), [-0.1j * sc]))
    if method is not EvolveMethod.tdvp_mu_cmf:
        run(f"D/{method.name}/negative", lambda: evolve_steps(
            init_mps, EvolveConfig(method, adaptive=True, guess_dt=-0.05), [-0.1]))


class Scalar:
    """A stand-in 'state' for the decorator: y' = -i w y solved with a 2nd order map."""
    calls = []

    def __init__(self, y, cfg):
        self.y = complex(y)
        self.evolve_config = cfg

    def distance(self, other):
        return abs(self.y - other.y)

    @property
    def mp_norm(self):
        return abs(self.y)

    @adaptive_tdvp
    def step(self, w, dt):
        """one step"""
        Scalar.calls.append(complex(dt))
        z = -1j * w * dt
        return Scalar(self.y * (1 + z + z * z / 2), self.evolve_config.copy())


print("D/dummy/meta", Scalar.step.__name__, Scalar.step.__doc__)
for adaptive in (True, False):
    for guess, target, rtol, w in ((0.1, 1.0, 1e-3, 3.0), (5.0, 1.0, 1e-6, 3.0), (1e-3, 0.01, 1e-1, 1.0),
                                   (0.1, 0.1, 1e-11, 2.0), (-0.2j, -1j, 1e-4, 2.0), (-0.1, -0.35, 1e-5, 4.0),
                                   (0.1, 1.0, 1e-3, 0.0), (0.1, -1.0, 1e-3, 1.0), (0.1, -1.0j, 1e-3, 1.0),
                                   (0.3, 1, 1e-3, 1.0)):
        def go():
            Scalar.calls = []
            cfg = EvolveConfig(EvolveMethod.tdvp_ps, adaptive=adaptive, guess_dt=guess, adaptive_rtol=rtol)
            s0 = Scalar(0.6 + 0.8j, cfg)
            out = s0.step(w, target)
            return [r(out.y, 12), "out_guess=" + r(out.evolve_config.guess_dt, 12),
                    "in_guess=" + r(cfg.guess_dt, 12),
                    "ncalls=%d" % len(Scalar.calls),
                    "calls=" + h(np.array(Scalar.calls)),
                    "same_cfg=" + str(out.evolve_config is cfg)]
        run(f"D/dummy/ad={adaptive}/g={guess}/t={target}/rtol={rtol}/w={w}", go)
