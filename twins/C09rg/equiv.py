# -*- coding: utf-8 -*-
"""Equivalence digest for the C09rg refactoring.

Exercises expm_krylov, integrand_func_factory, Mps._evolve_prop_and_compress_tdrk
and Mps._evolve_tdvp_mu_cmf on deterministic inputs and prints a digest.
"""
import os
import sys

# set iteration order inside the library depends on the hash seed and changes the
# floating point round-off from run to run; pin it so that the digest is reproducible
if os.environ.get("PYTHONHASHSEED") != "0":
    os.environ["PYTHONHASHSEED"] = "0"
    os.execv(sys.executable, [sys.executable] + sys.argv)

import logging
import hashlib

import numpy as np

logging.disable(logging.CRITICAL)

from renormalizer.model import Phonon, Mol, HolsteinModel
from renormalizer.mps import Mps, Mpo, MpDm
from renormalizer.mps.mps import integrand_func_factory
from renormalizer.mps.backend import xp
from renormalizer.lib import expm_krylov
from renormalizer.utils import (
    EvolveMethod,
    EvolveConfig,
    CompressConfig,
    CompressCriteria,
    Quantity,
)
from renormalizer.utils.rk import method_list


def dig(a, nd=9):
    a = np.asarray(a)
    if np.iscomplexobj(a):
        a = np.stack([a.real, a.imag])
    a = np.round(a.astype(float), nd) + 0.0
    h = hashlib.md5(np.ascontiguousarray(a).tobytes()).hexdigest()[:12]
    return f"shape={a.shape} sum={a.sum():.9f} abs={np.abs(a).sum():.9f} md5={h}"


def outcome(fn):
    try:
        return fn()
    except Exception as e:  # noqa
        return f"EXC {type(e).__name__}: {str(e)[:90]}"


# ----------------------------------------------------------------------------
# A. expm_krylov
# ----------------------------------------------------------------------------
def run_krylov():
    print("== expm_krylov")
    rng = np.random.RandomState(2024)
    for N in (1, 2, 5, 12, 60):
        for cplx in (False, True):
            a = rng.rand(N, N) / N
            if cplx:
                a = a + rng.rand(N, N) / N / 1j
            a = a + a.T.conj()
            v = rng.rand(N) - 0.5
            if cplx:
                v = v + 1j * (rng.rand(N) - 0.5)
            for block_size in (1, 2, 3, 50):
                for dt in (1, 1.0, -0.3, -0.5j, complex(0.2, 0.0), 0.1 - 0.2j, np.float64(0.7)):
                    calls = []

                    def afunc(x):
                        calls.append(1)
                        return xp.asarray(a).dot(x)

                    v_in = xp.array(v)
                    v_copy = v_in.copy()

                    def go():
                        res, nvec = expm_krylov(afunc, dt, v_in, block_size)
                        return f"nvec={nvec} type={type(nvec).__name__} dtype={res.dtype} {dig(res)}"

                    r = outcome(go)
                    untouched = bool(np.array_equal(np.asarray(v_in), np.asarray(v_copy)))
                    print(f"N={N} cplx={cplx} bs={block_size} dt={dt!r} calls={len(calls)} untouched={untouched} {r}")

    # breakdown: start vector is an eigenvector / invariant subspace
    a = np.diag(np.arange(1.0, 9.0))
    for v in (np.eye(8)[2], np.eye(8)[2] + np.eye(8)[5], np.ones(8), np.zeros(8)):
        for bs in (1, 4, 50):
            r = outcome(lambda: (lambda res_n: f"nvec={res_n[1]} {dig(res_n[0])}")(
                expm_krylov(lambda x: a.dot(x), -0.4j, v, bs)))
            print(f"breakdown v={v.tolist()} bs={bs} {r}")
    # default block size, python list as start vector, non-numeric dt
    print("default", outcome(lambda: dig(expm_krylov(lambda x: a.dot(x), 0.3, [1.0, 2, 3, 4, 5, 6, 7, 8])[0])))
    print("bad dt", outcome(lambda: expm_krylov(lambda x: a.dot(x), "x", np.ones(8))))
    print("empty", outcome(lambda: expm_krylov(lambda x: x, 1.0, np.zeros(0))))
    # a dense case where the convergence check terminates the iteration
    rng = np.random.RandomState(7)
    a2 = rng.rand(300, 300) / 300
    a2 = a2 + a2.T
    v2 = rng.rand(300)
    for bs in (5, 7, 50):
        res, nvec = expm_krylov(lambda x: a2.dot(x), 1.0, v2, bs)
        print(f"converge bs={bs} nvec={nvec} {dig(res)}")


# ----------------------------------------------------------------------------
# B. integrand_func_factory
# ----------------------------------------------------------------------------
def rand_herm(rng, n, cplx=True):
    m = rng.rand(n, n) - 0.5
    if cplx:
        m = m + 1j * (rng.rand(n, n) - 0.5)
    return m + m.T.conj() + n * np.eye(n)


def run_integrand():
    print("== integrand_func_factory")
    rng = np.random.RandomState(99)
    shapes = [(2, 3, 4), (1, 2, 1), (3, 2, 2, 2), (1, 2, 2, 3), (4, 1, 5), (2, 3)]
    for shape in shapes:
        w = rng.rand(*shape) + 1j * rng.rand(*shape)
        ncalls = []

        def hop(y0):
            ncalls.append(type(y0).__name__)
            return xp.asarray(w) * y0 + 0.5 * y0.conj()

        for left in (True, False):
            d_s = shape[-1] if left else shape[0]
            d_0 = shape[0] if left else shape[-1]
            d_1 = shape[-1] if left else shape[0]
            for islast in (True, False):
                for with_ovlp in ("none", "all", "inv0_only", "proj_only"):
                    for coef in (1j, -1, 2.0):
                        S_inv = rand_herm(rng, d_s)
                        kw = {}
                        if with_ovlp in ("all", "inv0_only"):
                            kw["ovlp_inv0"] = rand_herm(rng, d_0)
                        if with_ovlp in ("all", "proj_only"):
                            kw["ovlp_inv1"] = rand_herm(rng, d_1)
                            kw["ovlp0"] = rand_herm(rng, d_0)
                        y = rng.rand(int(np.prod(shape))) + 1j * rng.rand(int(np.prod(shape)))
                        y_copy = y.copy()

                        def go():
                            func = integrand_func_factory(list(shape), hop, islast, S_inv, left, coef, **kw)
                            r1 = func(0, y)
                            r2 = func(0.3, y.real.copy())
                            return f"{r1.dtype} {dig(r1)} | {r2.dtype} {dig(r2)}"

                        r = outcome(go)
                        print(f"shape={shape} left={left} islast={islast} ovlp={with_ovlp} coef={coef!r} "
                              f"untouched={bool(np.array_equal(y, y_copy))} {r}")
        print(f"shape={shape} hop calls={len(ncalls)} types={sorted(set(ncalls))}")

    # positional use of the optional arguments, wrong shape
    shape = (2, 2, 3)
    S = rand_herm(rng, 3)
    o1, o0i, o0 = rand_herm(rng, 3), rand_herm(rng, 2), rand_herm(rng, 2)
    f = integrand_func_factory(shape, lambda y0: 2 * y0, False, S, True, 1j, o1, o0i, o0)
    print("positional", dig(f(0, np.arange(12.0))))
    print("wrong size", outcome(lambda: f(0, np.arange(11.0))))
    f = integrand_func_factory(shape, lambda y0: 2 * y0, False, S, 1, 1j)
    print("truthy left", dig(f(0, np.arange(12.0))))
    f = integrand_func_factory(shape, lambda y0: 2 * y0, 0, rand_herm(rng, 2), 0, -1)
    print("falsy left", dig(f(0, np.arange(12.0))))


# ----------------------------------------------------------------------------
# C. evolution schemes
# ----------------------------------------------------------------------------
def build():
    ph = Phonon.simple_phonon(Quantity(1), Quantity(1), 2)
    mol = Mol(Quantity(0), [ph])
    model = HolsteinModel([mol] * 3, Quantity(1), 3)
    tentative_mpo = Mpo(model)
    init_mps = Mpo.onsite(model, r"a^\dagger", dof_set={0}) @ Mps.ground_state(model, False)
    init_mps = init_mps.expand_bond_dimension(hint_mpo=tentative_mpo)
    init_mpdm = MpDm.from_mps(init_mps).expand_bond_dimension(hint_mpo=tentative_mpo)
    e = init_mps.expectation(tentative_mpo)
    mpo = Mpo(model, offset=Quantity(e))
    return model, init_mps, init_mpdm, mpo


def cfg_digest(cfg):
    items = []
    for k in sorted(cfg.__dict__):
        v = cfg.__dict__[k]
        if k in ("rk_config", "taylor_config"):
            v = type(v).__name__
        elif isinstance(v, (float, complex)):
            v = complex(np.round(v, 12))
        items.append(f"{k}={v}")
    return ",".join(items)


def mp_digest(mp):
    dense = mp.todense()
    occ = mp.e_occupations
    return (f"{type(mp).__name__} dims={mp.bond_dims} qn={[np.asarray(q).tolist() for q in mp.qn]} "
            f"qnidx={mp.qnidx} to_right={mp.to_right} "
            f"coeff={complex(np.round(mp.coeff, 7))} dtype={mp.dtype} norm={mp.norm:.7f} "
            f"occ={(np.round(occ, 7) + 0.0).tolist()} dense[{dig(dense, 12)}]")


def run_case(label, init, mpo, cfg, dts, compress=None, normalize=True):
    mps = init.copy()
    mps.evolve_config = cfg
    if compress is not None:
        mps.compress_config = compress

    def go():
        cur = mps
        lines = []
        for dt in dts:
            cfg_before = cur.evolve_config
            snap = cfg_digest(cfg_before)
            self_before = mp_digest(cur)
            new = cur.evolve(mpo, dt, normalize=normalize)
            lines.append(
                f"  dt={dt!r} new[{mp_digest(new)}]\n"
                f"    self_same_digest={self_before == mp_digest(cur)} "
                f"cfg_identity_kept={cur.evolve_config is cfg_before} "
                f"cfg_values_kept={cfg_digest(cur.evolve_config) == snap} "
                f"orig_obj_values_kept={cfg_digest(cfg_before) == snap} "
                f"new_cfg_is_self_cfg={new.evolve_config is cur.evolve_config}\n"
                f"    new_cfg[{cfg_digest(new.evolve_config)}]"
            )
            cur = new
        return "\n".join(lines)

    print(f"-- {label}")
    print(outcome(go))


def run_evolve():
    print("== evolve")
    model, init_mps, init_mpdm, mpo = build()
    fixed = CompressConfig(CompressCriteria.fixed)
    thresh = CompressConfig(CompressCriteria.threshold, threshold=1e-6)

    # random complex state in a non-trivial gauge
    np.random.seed(11)
    rnd = Mps.random(model, 1, 5, percent=1.0).to_complex()
    rnd = rnd.scale(np.exp(0.3j)).canonicalise()
    rnd.canonicalise()

    # ---- general RK P&C: every tableau, fixed step
    for rk in method_list:
        cfg = EvolveConfig(EvolveMethod.prop_and_compress_tdrk, rk_solver=rk, adaptive=False)
        run_case(f"tdrk {rk} fixed mps", init_mps, mpo, cfg, [0.05, 0.1], fixed)
    cfg = EvolveConfig(EvolveMethod.prop_and_compress_tdrk, rk_solver="Kutta_RK3")
    run_case("tdrk Kutta_RK3 mpdm threshold", init_mpdm, mpo, cfg, [0.1], thresh)
    cfg = EvolveConfig(EvolveMethod.prop_and_compress_tdrk, rk_solver="38rule_RK4")
    run_case("tdrk 38rule random complex no-normalize", rnd, mpo, cfg, [0.07, -0.03], fixed, normalize=False)
    cfg = EvolveConfig(EvolveMethod.prop_and_compress_tdrk, rk_solver="C_RK4", guess_dt=-0.1j)
    run_case("tdrk C_RK4 imaginary time", init_mps, mpo, cfg, [-0.05j], fixed)

    # ---- adaptive
    for rk in ("RKF45", "Cash-Karp45"):
        for guess in (0.01, 0.3, 5.0):
            cfg = EvolveConfig(EvolveMethod.prop_and_compress_tdrk, rk_solver=rk, adaptive=True,
                               guess_dt=guess, adaptive_rtol=1e-5)
            run_case(f"tdrk {rk} adaptive guess={guess}", init_mps, mpo, cfg, [0.2, 0.4], fixed)
    cfg = EvolveConfig(EvolveMethod.prop_and_compress_tdrk, rk_solver="Cash-Karp45", adaptive=True, guess_dt=0.05)
    run_case("tdrk Cash-Karp45 adaptive mpdm", init_mpdm, mpo, cfg, [0.2], fixed)
    cfg = EvolveConfig(EvolveMethod.prop_and_compress_tdrk, rk_solver="C_RK4", adaptive=True, guess_dt=0.05)
    run_case("tdrk C_RK4 adaptive -> assertion", init_mps, mpo, cfg, [0.2], fixed)
    cfg = EvolveConfig(EvolveMethod.prop_and_compress_tdrk, rk_solver="RKF45", adaptive=False)
    run_case("tdrk RKF45 non adaptive -> assertion", init_mps, mpo, cfg, [0.2], fixed)
    cfg = EvolveConfig(EvolveMethod.prop_and_compress_tdrk, rk_solver="RKF45", adaptive=True, guess_dt=0.05)
    run_case("tdrk adaptive wrong direction", init_mps, mpo, cfg, [-0.2], fixed)
    cfg = EvolveConfig(EvolveMethod.prop_and_compress_tdrk, rk_solver="RKF45", adaptive=True, guess_dt=0.05j)
    run_case("tdrk adaptive real/imag mismatch", init_mps, mpo, cfg, [0.2], fixed)

    # ---- time-dependent Hamiltonian callables
    seen = []

    def mpo_t(t, *args, **kwargs):
        seen.append((round(float(np.real(t)), 10), sorted(kwargs), len(args)))
        return mpo.scale(1 + 0.5 * np.cos(float(np.real(t))))

    for rk in ("Heun_RK2", "Fehlberg5"):
        cfg = EvolveConfig(EvolveMethod.prop_and_compress_tdrk, rk_solver=rk)
        run_case(f"tdrk {rk} callable", init_mps, mpo_t, cfg, [0.1, 0.05], fixed)
    cfg = EvolveConfig(EvolveMethod.prop_and_compress_tdrk, rk_solver="RKF45", adaptive=True, guess_dt=0.08)
    run_case("tdrk RKF45 adaptive callable", init_mps, mpo_t, cfg, [0.3], fixed)
    print("callable seen:", seen)

    def strict_mpo_t(t):
        return mpo

    cfg = EvolveConfig(EvolveMethod.prop_and_compress_tdrk)
    run_case("tdrk callable without mps kwarg", init_mps, strict_mpo_t, cfg, [0.1], fixed)
    run_case("tdrk unsupported mpo", init_mps, 3.0, cfg, [0.1], fixed)
    run_case("tdrk unsupported mpo None", init_mps, None, cfg, [0.1], fixed)

    # ---- CMF
    for solver in ("krylov", "RK45"):
        for midpoint, trapz in ((True, False), (True, True), (False, False), (False, True)):
            for force_ovlp in (True, False):
                cfg = EvolveConfig(EvolveMethod.tdvp_mu_cmf, ivp_solver=solver, force_ovlp=force_ovlp)
                cfg.tdvp_cmf_midpoint = midpoint
                cfg.tdvp_cmf_c_trapz = trapz
                run_case(f"cmf {solver} midpoint={midpoint} trapz={trapz} force_ovlp={force_ovlp} mps",
                         init_mps, mpo, cfg, [0.02, 0.01])
    cfg = EvolveConfig(EvolveMethod.tdvp_mu_cmf)
    run_case("cmf mpdm", init_mpdm, mpo, cfg, [0.02])
    cfg = EvolveConfig(EvolveMethod.tdvp_mu_cmf, ivp_solver="RK45")
    cfg.tdvp_cmf_c_trapz = True
    run_case("cmf mpdm trapz RK45", init_mpdm, mpo, cfg, [0.02])
    cfg = EvolveConfig(EvolveMethod.tdvp_mu_cmf)
    run_case("cmf random complex no-normalize", rnd, mpo, cfg, [0.02, -0.01], normalize=False)
    cfg = EvolveConfig(EvolveMethod.tdvp_mu_cmf, ivp_solver="RK45", guess_dt=-0.01j)
    run_case("cmf imaginary time RK45", init_mps, mpo, cfg, [-0.02j])
    cfg = EvolveConfig(EvolveMethod.tdvp_mu_cmf, guess_dt=-0.01j)
    cfg.tdvp_cmf_c_trapz = True
    run_case("cmf imaginary time krylov trapz", init_mps, mpo, cfg, [-0.02j])
    cfg = EvolveConfig(EvolveMethod.tdvp_mu_cmf, adaptive=True, guess_dt=0.01, adaptive_rtol=1e-4)
    run_case("cmf adaptive", init_mps, mpo, cfg, [0.04])
    cfg = EvolveConfig(EvolveMethod.tdvp_mu_cmf)
    run_case("cmf bad mpo -> exception, config afterwards", init_mps, None, cfg, [0.02])

    # config state after a failing midpoint evolution
    mps = init_mps.copy()
    cfg = EvolveConfig(EvolveMethod.tdvp_mu_cmf)
    mps.evolve_config = cfg
    r = outcome(lambda: mps.evolve(None, 0.02))
    print("after failure:", r[:60], "identity kept:", mps.evolve_config is cfg, cfg_digest(mps.evolve_config))

    # direct call bypassing evolve(); right-canonical input
    mps = init_mps.copy()
    mps.evolve_config = EvolveConfig(EvolveMethod.tdvp_mu_cmf)
    mps.ensure_right_canonical()
    new = mps._evolve_tdvp_mu_cmf(mpo, 0.03)
    print("direct cmf:", mp_digest(new), "| self:", mp_digest(mps))
    mps = init_mps.copy()
    mps.evolve_config = EvolveConfig(EvolveMethod.prop_and_compress_tdrk, rk_solver="Ralston_RK2")
    mps.compress_config = fixed
    new = mps._evolve_prop_and_compress_tdrk(mpo, 0.03)
    print("direct tdrk:", mp_digest(new), "| self:", mp_digest(mps))

    # sequence switching scheme and step
    cur = init_mps.copy()
    cur.compress_config = fixed
    for method, kw, dt in (
        (EvolveMethod.prop_and_compress_tdrk, dict(rk_solver="Cash-Karp45", adaptive=True, guess_dt=0.02), 0.1),
        (EvolveMethod.tdvp_mu_cmf, dict(ivp_solver="RK45"), 0.02),
        (EvolveMethod.prop_and_compress_tdrk, dict(rk_solver="midpoint_RK2"), 0.01),
        (EvolveMethod.tdvp_mu_cmf, dict(), 0.03),
    ):
        cur.evolve_config = EvolveConfig(method, **kw)
        cur = cur.evolve(mpo, dt)
        print("seq:", method, dt, mp_digest(cur))


if __name__ == "__main__":
    run_krylov()
    run_integrand()
    run_evolve()
