# -*- coding: utf-8 -*-
"""Equivalence digest for the refactoring of
Mps.evolve, Mps._evolve_prop_and_compress_tdrk4, Mps._evolve_prop_and_compress_tdrk,
Mps._evolve_tdvp_ps (renormalizer/mps/mps.py)."""
import os
import sys

if os.environ.get("PYTHONHASHSEED") != "0":
    # the library iterates over sets of strings somewhere (gauge of rank deficient states
    # depends on it): fix the hash seed to get a reproducible digest
    os.environ["PYTHONHASHSEED"] = "0"
    os.execv(sys.executable, [sys.executable] + sys.argv)

import hashlib
import logging
import re

import numpy as np

from renormalizer.model import Phonon, Mol, HolsteinModel
from renormalizer.mps import Mps, Mpo, MpDm
from renormalizer.utils import (
    EvolveMethod, EvolveConfig, CompressConfig, CompressCriteria, Quantity,
)

NDIG = 9


class ListHandler(logging.Handler):
    def __init__(self):
        super().__init__(level=logging.DEBUG)
        self.records = []

    def emit(self, record):
        self.records.append(f"{record.levelname}:{record.getMessage()}")


mps_logger = logging.getLogger("renormalizer.mps.mps")
mps_logger.setLevel(logging.DEBUG)
mps_logger.propagate = False
handler = ListHandler()
mps_logger.addHandler(handler)

_float_re = re.compile(r"-?\d+\.\d+(e[-+]?\d+)?")


def _round_floats(s):
    # make the log text robust w.r.t. the last digits of floats
    return _float_re.sub(lambda m: "%.7e" % float(m.group(0)), s)


def arr_digest(a):
    a = np.asarray(a)
    if np.iscomplexobj(a):
        a = np.stack([a.real, a.imag])
    a = np.round(a.astype(float), NDIG) + 0.0  # remove -0.0
    return f"{a.shape}:{hashlib.md5(a.tobytes()).hexdigest()[:12]}"


def num(x):
    x = complex(x)
    return "(%.9e,%.9e)" % (round(x.real, 11) + 0.0, round(x.imag, 11) + 0.0)


def mp_digest(mp, mpo=None):
    parts = [
        type(mp).__name__,
        f"dtype={np.dtype(mp.dtype).name}",
        f"dims={list(mp.bond_dims)}",
        f"qnidx={mp.qnidx}",
        f"to_right={mp.to_right}",
        f"qntot={np.asarray(mp.qntot).tolist()}",
        f"qn={[np.asarray(q).tolist() for q in mp.qn]}",
        f"coeff={num(mp.coeff)}",
        f"norm={num(mp.norm)}",
        f"mp_norm={num(mp.mp_norm)}",
        f"guess_dt={num(mp.evolve_config.guess_dt)}",
        f"method={mp.evolve_config.method}",
        "mats=" + ",".join(arr_digest(m.array) for m in mp),
    ]
    if mpo is not None:
        parts.append(f"e={num(mp.expectation(mpo))}")
    stat = getattr(mp.evolve_config, "stat", None)
    if stat is not None:
        parts.append(f"stat=({stat.nobs},{stat.minmax},{round(float(stat.mean), 8)})")
    return " ".join(parts)


def flush_log(tag):
    msgs = [_round_floats(m) for m in handler.records]
    handler.records.clear()
    h = hashlib.md5("\n".join(msgs).encode()).hexdigest()[:12]
    print(f"  log[{tag}] n={len(msgs)} md5={h}")
    for m in msgs[:3] + msgs[-2:]:
        print("    |", m[:160])


def run(tag, fn):
    try:
        res = fn()
    except Exception as e:  # digest of the exception
        print(f"{tag}: EXC {type(e).__name__}: {str(e)[:200]}")
        flush_log(tag)
        return None
    return res


def build(nlevels=3, nsites=3):
    ph = Phonon.simple_phonon(Quantity(1.0), Quantity(1.0), nlevels)
    mol = Mol(Quantity(0), [ph])
    return HolsteinModel([mol] * nsites, Quantity(1.0), 3)


model = build()
h_mpo = Mpo(model)
gs = Mps.ground_state(model, False)
exc = Mpo.onsite(model, r"a^\dagger", dof_set={0}) @ gs
exc = exc.expand_bond_dimension(hint_mpo=h_mpo)
e0 = exc.expectation(h_mpo)
mpo = Mpo(model, offset=Quantity(e0))

np.random.seed(2024)
rnd = Mps.random(model, 1, 6, percent=1.0)
rnd2 = Mps.random(model, 1, 6, percent=1.0)
cplx = rnd.add(rnd2.scale(0.3 + 0.7j))
cplx.canonicalise()
cplx.normalize("mps_only")
left = rnd.copy()
left.ensure_left_canonical()
mpdm = MpDm.from_mps(exc).expand_bond_dimension(hint_mpo=h_mpo)

STATES = {"exc": exc, "rnd": rnd, "cplx": cplx, "left": left, "mpdm": mpdm}
for k, v in STATES.items():
    v.compress_config = CompressConfig(CompressCriteria.fixed, max_bonddim=8)
    print("init", k, mp_digest(v, mpo))
handler.records.clear()


class TdMpo:
    """time dependent Hamiltonian recording the way it is called"""

    def __init__(self, strength=0.3):
        self.calls = []
        self.strength = strength

    def __call__(self, t, *args, **kwargs):
        self.calls.append((num(t), len(args), sorted(kwargs),
                           [type(v).__name__ for v in kwargs.values()]))
        return mpo.scale(1 + self.strength * complex(t).real)


def evolve_seq(state, config, dts, the_mpo=mpo, normalize=True):
    mps = state.copy()
    mps.evolve_config = config
    out = []
    for dt in dts:
        mps = mps.evolve(the_mpo, dt, normalize=normalize) if normalize is not None \
            else mps.evolve(the_mpo, dt)
        out.append(mp_digest(mps, mpo))
    return out


def show(tag, res):
    if res is None:
        return
    for i, line in enumerate(res):
        print(f"{tag}[{i}]: {line}")
    flush_log(tag)


# ---------------------------------------------------------------- tdrk4
for name in ["exc", "cplx", "left", "mpdm"]:
    show(f"tdrk4/{name}", run(f"tdrk4/{name}", lambda: evolve_seq(
        STATES[name], EvolveConfig(EvolveMethod.prop_and_compress_tdrk4), [0.1, 0.05])))
# integer time step, no normalisation, positional call
show("tdrk4/int", run("tdrk4/int", lambda: evolve_seq(
    rnd, EvolveConfig(EvolveMethod.prop_and_compress_tdrk4), [1], normalize=False)))
# imaginary time
show("tdrk4/imag", run("tdrk4/imag", lambda: evolve_seq(
    rnd, EvolveConfig(EvolveMethod.prop_and_compress_tdrk4), [-0.1j, -0.05j], normalize=None)))
show("tdrk4/imag-nonorm", run("tdrk4/imag-nonorm", lambda: evolve_seq(
    cplx, EvolveConfig(EvolveMethod.prop_and_compress_tdrk4), [-0.1j], normalize=False)))
td = TdMpo()
show("tdrk4/td", run("tdrk4/td", lambda: evolve_seq(
    exc, EvolveConfig(EvolveMethod.prop_and_compress_tdrk4), [0.1, 0.2], the_mpo=td)))
print("tdrk4/td calls", td.calls)
for bad in [3, None, "mpo", [mpo]]:
    run(f"tdrk4/bad-{type(bad).__name__}", lambda: evolve_seq(
        exc, EvolveConfig(EvolveMethod.prop_and_compress_tdrk4), [0.1], the_mpo=bad))
# direct call of the private method
res = run("tdrk4/direct", lambda: [mp_digest(exc._evolve_prop_and_compress_tdrk4(mpo, 0.07), mpo)])
show("tdrk4/direct", res)

# ---------------------------------------------------------------- tdrk
from renormalizer.utils.rk import method_list

for rk in method_list:
    adaptive_opts = [False]
    if rk in ("RKF45", "Cash-Karp45"):
        adaptive_opts = [False, True]
    for adaptive in adaptive_opts:
        for name in ["exc", "cplx"]:
            tag = f"tdrk/{rk}/{'ad' if adaptive else 'fix'}/{name}"

            def job():
                cfg = EvolveConfig(EvolveMethod.prop_and_compress_tdrk, rk_solver=rk,
                                   adaptive=adaptive, guess_dt=0.03, adaptive_rtol=1e-5)
                return evolve_seq(STATES[name], cfg, [0.1, 0.02])
            show(tag, run(tag, job))

# adaptive with restarts (large guess), left-canonical and density-operator states
for name in ["left", "mpdm"]:
    tag = f"tdrk/restart/{name}"
    show(tag, run(tag, lambda: evolve_seq(
        STATES[name],
        EvolveConfig(EvolveMethod.prop_and_compress_tdrk, rk_solver="Cash-Karp45", adaptive=True,
                     guess_dt=2.0, adaptive_rtol=1e-6), [0.8, 0.3])))
# adaptive requested with a non-embedded tableau -> assertion
run("tdrk/adaptive-CRK4", lambda: evolve_seq(
    exc, EvolveConfig(EvolveMethod.prop_and_compress_tdrk, rk_solver="C_RK4", adaptive=True), [0.1]))
# non adaptive with an embedded pair -> assertion
run("tdrk/fix-RKF45", lambda: evolve_seq(
    exc, EvolveConfig(EvolveMethod.prop_and_compress_tdrk, rk_solver="RKF45", adaptive=False), [0.1]))
# wrong direction / incompatible time step
run("tdrk/wrongdir", lambda: evolve_seq(
    exc, EvolveConfig(EvolveMethod.prop_and_compress_tdrk, guess_dt=0.1), [-0.1]))
run("tdrk/realimag", lambda: evolve_seq(
    exc, EvolveConfig(EvolveMethod.prop_and_compress_tdrk, guess_dt=0.1), [-0.1j]))
# imaginary time
show("tdrk/imag", run("tdrk/imag", lambda: evolve_seq(
    rnd, EvolveConfig(EvolveMethod.prop_and_compress_tdrk, rk_solver="Kutta_RK3", guess_dt=-0.1j),
    [-0.1j, -0.05j])))
show("tdrk/imag-ad", run("tdrk/imag-ad", lambda: evolve_seq(
    rnd, EvolveConfig(EvolveMethod.prop_and_compress_tdrk, rk_solver="RKF45", adaptive=True,
                      guess_dt=-0.5j, adaptive_rtol=1e-5), [-0.3j], normalize=False)))
td = TdMpo()
show("tdrk/td", run("tdrk/td", lambda: evolve_seq(
    exc, EvolveConfig(EvolveMethod.prop_and_compress_tdrk, rk_solver="38rule_RK4"), [0.1, 0.2],
    the_mpo=td)))
print("tdrk/td calls", td.calls)
td = TdMpo()
show("tdrk/td-ad", run("tdrk/td-ad", lambda: evolve_seq(
    cplx, EvolveConfig(EvolveMethod.prop_and_compress_tdrk, rk_solver="Cash-Karp45", adaptive=True,
                       guess_dt=0.5, adaptive_rtol=1e-5), [0.4], the_mpo=td)))
print("tdrk/td-ad calls", td.calls)
for bad in [3, None, "mpo"]:
    run(f"tdrk/bad-{type(bad).__name__}", lambda: evolve_seq(
        exc, EvolveConfig(EvolveMethod.prop_and_compress_tdrk), [0.1], the_mpo=bad))
# the type check comes before any look at the configuration
run("tdrk/bad-before-dt", lambda: evolve_seq(
    exc, EvolveConfig(EvolveMethod.prop_and_compress_tdrk, guess_dt=0.1), [-0.1j], the_mpo=3))

# ---------------------------------------------------------------- tdvp_ps
for solver in ["krylov", "RK45", "RK23"]:
    for name in ["exc", "rnd", "cplx", "left", "mpdm"]:
        tag = f"ps/{solver}/{name}"

        def job():
            cfg = EvolveConfig(EvolveMethod.tdvp_ps, ivp_solver=solver)
            return evolve_seq(STATES[name], cfg, [0.1, 0.03])
        show(tag, run(tag, job))
    tag = f"ps/{solver}/imag"
    show(tag, run(tag, lambda: evolve_seq(
        rnd, EvolveConfig(EvolveMethod.tdvp_ps, ivp_solver=solver, guess_dt=-0.1j), [-0.1j, -0.02j],
        normalize=None)))
    tag = f"ps/{solver}/imag-left-nonorm"
    show(tag, run(tag, lambda: evolve_seq(
        left, EvolveConfig(EvolveMethod.tdvp_ps, ivp_solver=solver, guess_dt=-0.1j), [-0.2j],
        normalize=False)))
    tag = f"ps/{solver}/adaptive"
    show(tag, run(tag, lambda: evolve_seq(
        cplx, EvolveConfig(EvolveMethod.tdvp_ps, ivp_solver=solver, adaptive=True, guess_dt=0.2,
                           adaptive_rtol=1e-4), [0.3, 0.1])))
    tag = f"ps/{solver}/negative"
    show(tag, run(tag, lambda: evolve_seq(
        exc, EvolveConfig(EvolveMethod.tdvp_ps, ivp_solver=solver), [-0.1])))
    tag = f"ps/{solver}/int"
    show(tag, run(tag, lambda: evolve_seq(
        exc, EvolveConfig(EvolveMethod.tdvp_ps, ivp_solver=solver), [1])))
run("ps/badsolver", lambda: evolve_seq(exc, EvolveConfig(EvolveMethod.tdvp_ps, ivp_solver="nope"), [0.1]))
# the argument is not changed in place, direct call of the private method
before = mp_digest(left, mpo)
cfg_left = left.evolve_config
left.evolve_config = EvolveConfig(EvolveMethod.tdvp_ps, ivp_solver="RK45")
res = run("ps/direct", lambda: [mp_digest(left._evolve_tdvp_ps(mpo, 0.05), mpo)])
show("ps/direct", res)
left.evolve_config = cfg_left
print("ps/direct argument untouched:", before == mp_digest(left, mpo))

# one- and two-site chains
for nsites in (1, 2):
    small = build(2, nsites)
    smpo = Mpo(small)
    np.random.seed(7 + nsites)
    if nsites == 1:
        s = Mps.ground_state(small, False)
        s = Mpo.onsite(small, r"a^\dagger", dof_set={0}) @ s
    else:
        s = Mps.random(small, 1, 4, percent=1.0)
    for method, solver in [(EvolveMethod.tdvp_ps, "krylov"), (EvolveMethod.tdvp_ps, "RK45"),
                           (EvolveMethod.prop_and_compress_tdrk4, "krylov"),
                           (EvolveMethod.prop_and_compress_tdrk, "krylov")]:
        tag = f"small{nsites}/{method.name}/{solver}"

        def job():
            m = s.copy()
            m.evolve_config = EvolveConfig(method, ivp_solver=solver)
            m = m.evolve(smpo, 0.1)
            return [mp_digest(m, smpo)]
        show(tag, run(tag, job))

# ---------------------------------------------------------------- evolve dispatch
for method in EvolveMethod:
    tag = f"evolve/{method.name}"

    def job():
        out = []
        slow = method in (EvolveMethod.tdvp_mu_vmf, EvolveMethod.tdvp_vmf, EvolveMethod.tdvp_mu_cmf)
        for normalize in ((True, False) if slow else (True, False, 1, 0, None, "yes", "")):
            for dt in (0.05, -0.05j):
                m = exc.copy()
                m.evolve_config = EvolveConfig(method, guess_dt=0.05 if np.isreal(dt) else -0.05j)
                m2 = m.evolve(mpo, dt, normalize)
                out.append(f"normalize={normalize!r} dt={dt!r} " + mp_digest(m2, mpo))
        return out
    res = run(tag, job)
    if res is not None:
        for i, line in enumerate(res):
            print(f"{tag}[{i}]: {line}")
        handler.records.clear()


def bad_method():
    m = exc.copy()
    m.evolve_config = EvolveConfig()
    m.evolve_config.method = "tdvp_ps"  # a plain string is not a key of the dispatch table
    return [mp_digest(m.evolve(mpo, 0.1))]


run("evolve/badmethod", bad_method)
# keyword call
m = exc.copy()
m.evolve_config = EvolveConfig(EvolveMethod.tdvp_ps)
print("evolve/kw", mp_digest(m.evolve(mpo=mpo, evolve_dt=0.1, normalize=False), mpo))
print("evolve/arg untouched", mp_digest(m, mpo) == mp_digest(
    (lambda x: (setattr(x, "evolve_config", m.evolve_config), x)[1])(exc.copy()), mpo))
