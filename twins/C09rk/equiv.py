# -*- coding: utf-8 -*-
# equivalence digest for: adaptive_tdvp, expm_krylov, Mps._evolve_prop_and_compress_tdrk,
# Mps._evolve_tdvp_ps2
import logging
import hashlib
import warnings

warnings.filterwarnings("ignore")
logging.disable(logging.CRITICAL)

import numpy as np

from renormalizer.model import Phonon, Mol, HolsteinModel
from renormalizer.utils import (Quantity, constant, EvolveConfig, EvolveMethod,
                                CompressConfig, CompressCriteria)
from renormalizer.utils.rk import method_list as rk_method_list
from renormalizer.mps import Mps, Mpo, MpDm
from renormalizer.mps.mps import adaptive_tdvp
from renormalizer.mps.backend import xp
from renormalizer.lib import expm_krylov


def h(arr):
    arr = np.asarray(arr)
    arr = np.round(arr.astype(np.complex128), 9) + (0.0 + 0.0j)
    return hashlib.md5(np.ascontiguousarray(arr).tobytes()).hexdigest()[:12]


def fmt(x):
    if isinstance(x, (complex, np.complexfloating)):
        return f"({x.real:.10e},{x.imag:.10e})"
    if isinstance(x, (float, np.floating)):
        return f"{x:.10e}"
    return repr(x)


def mps_digest(mps):
    dense = np.asarray(mps.todense()).ravel()
    return " ".join([
        type(mps).__name__,
        f"bd={list(mps.bond_dims)}",
        f"qn={h(np.concatenate([np.asarray(q).ravel() for q in mps.qn]))}",
        f"qnidx={mps.qnidx}", f"to_right={mps.to_right}",
        f"coeff={fmt(complex(mps.coeff))}",
        f"dtype={[str(np.asarray(m.array).dtype) if hasattr(m, 'array') else '?' for m in mps][:2]}",
        f"norm={fmt(float(np.linalg.norm(dense)))}",
        f"dense={h(dense)}",
        f"sum={fmt(complex(dense.sum()))}",
        f"guess_dt={fmt(mps.evolve_config.guess_dt)}",
    ])


# ----------------------------------------------------------------------------
# 1. expm_krylov
# ----------------------------------------------------------------------------
def run_krylov():
    print("== expm_krylov")
    rng = np.random.RandomState(2024)
    for N in (1, 2, 3, 4, 7, 10, 49, 50, 51, 120):
        for cplx in (False, True):
            a = rng.rand(N, N) / N
            if cplx:
                a = a + rng.rand(N, N) / N / 1j
            a = a + a.T.conj()
            v = rng.rand(N) - 0.5
            if cplx:
                v = v + 1j * (rng.rand(N) - 0.5)
            a_xp = xp.array(a)
            for dt in (1, 0.3, -0.7j, 0.2 - 0.5j, np.complex128(0.4), np.float64(-0.25)):
                for bs in (3, 30, 50):
                    ncall = [0]

                    def afunc(x):
                        ncall[0] += 1
                        return a_xp.dot(x)

                    v_in = xp.array(v)
                    v_copy = v.copy()
                    res, j = expm_krylov(afunc, dt, v_in, bs)
                    assert np.array_equal(np.asarray(v_in), v_copy)
                    print(f"N={N} c={cplx} dt={dt!r} bs={bs} j={j} ncall={ncall[0]} "
                          f"dtype={res.dtype} shape={res.shape} res={h(res)} s={fmt(complex(np.asarray(res).sum()))}")
    # default block size, list input, eigenvector start (beta ~ 0 at the first step)
    a = np.diag(np.arange(1.0, 7.0))
    res, j = expm_krylov(lambda x: a.dot(x), -0.5j, [0.0, 0.0, 2.0, 0.0, 0.0, 0.0])
    print("eigvec", j, h(res), res.dtype)
    res, j = expm_krylov(lambda x: a.dot(x), 2, np.array([1.0, 1.0, 0, 0, 0, 0]))
    print("two-dim invariant subspace", j, h(res), res.dtype)
    # Afunc returning a fresh copy / identity operator
    res, j = expm_krylov(lambda x: x.copy(), 0.3, np.arange(1.0, 6.0))
    print("identity", j, h(res))
    # an operator that needs many Lanczos vectors (exercises buffer growth with the default block)
    M = 140
    d = np.linspace(-40, 40, M)
    off = np.ones(M - 1) * 5
    t = np.diag(d) + np.diag(off, 1) + np.diag(off, -1)
    v = np.random.RandomState(3).rand(M)
    for bs in (50, 7):
        res, j = expm_krylov(lambda x: t.dot(x), -1j, v, bs)
        print("stiff", bs, j, h(res), fmt(float(np.linalg.norm(res))))
    # zero vector -> AssertionError ; int vector
    for bad in (np.zeros(4), np.zeros(0)):
        try:
            expm_krylov(lambda x: x.copy(), 1.0, bad)
            print("no error")
        except Exception as e:
            print("exc", type(e).__name__)
    try:
        res, j = expm_krylov(lambda x: a.dot(x), 1.0, np.array([1, 2, 3, 4, 5, 6]))
        print("intvec", j, h(res), res.dtype)
    except Exception as e:
        print("intvec exc", type(e).__name__)


# ----------------------------------------------------------------------------
# 2. adaptive_tdvp with a mock state
# ----------------------------------------------------------------------------
class Fake:
    def __init__(self, y, config, order=2, w=1.3):
        self.y = y
        self.evolve_config = config
        self.order = order
        self.w = w

    def distance(self, other):
        return float(abs(self.y - other.y))

    @property
    def mp_norm(self):
        return float(abs(self.y))


def run_adaptive_mock():
    print("== adaptive_tdvp (mock)")
    calls = []

    def step(self, mpo, dt):
        calls.append(dt)
        z = -1j * self.w * dt
        fac = 1 + z
        if self.order >= 2:
            fac = fac + z * z / 2
        if mpo == "exact":
            fac = np.exp(z)
        if mpo == "nan":
            fac = float("nan")
        return Fake(self.y * fac, self.evolve_config.copy(), self.order, self.w)

    wrapped = adaptive_tdvp(step)
    print("wrapped name", wrapped.__name__)

    cases = []
    for guess in (1e-4, 0.01, 0.1, 0.5, 3.0, 50.0):
        for target in (0.05, 0.4, 2.0):
            for rtol in (5e-4, 1e-7):
                for order in (1, 2):
                    cases.append((guess, target, rtol, order, "h"))
    cases += [(-0.1, -0.7, 5e-4, 2, "h"), (-5.0, -0.7, 1e-6, 1, "h"),
              (-0.1j, -0.6j, 5e-4, 2, "h"), (-4j, -0.6j, 1e-5, 2, "h"),
              (0.1, 0.5, 5e-4, 2, "exact"), (7.0, 0.5, 5e-4, 2, "exact"),
              (0.1, -0.5, 5e-4, 2, "h"), (0.1, -0.5j, 5e-4, 2, "h"), (0.1j, 0.5, 5e-4, 2, "h"),
              (0.1, 0.5, 5e-4, 2, "nan")]
    for guess, target, rtol, order, mpo in cases:
        del calls[:]
        cfg = EvolveConfig(EvolveMethod.tdvp_ps, adaptive=True, guess_dt=guess, adaptive_rtol=rtol)
        start = Fake(1.0 + 0.5j, cfg, order)
        try:
            if mpo == "nan":
                # would never terminate if it looped; it must take the accepted branch at once
                pass
            out = wrapped(start, mpo, target)
            print(f"g={guess!r} t={target!r} rtol={rtol} o={order} {mpo}: y={fmt(complex(out.y))} "
                  f"new_guess={fmt(out.evolve_config.guess_dt)} type={type(out.evolve_config.guess_dt).__name__} "
                  f"ncalls={len(calls)} calls={h(np.array(calls, dtype=complex))} "
                  f"orig_guess={fmt(start.evolve_config.guess_dt)} same_cfg={out.evolve_config is cfg}")
        except Exception as e:
            print(f"g={guess!r} t={target!r} rtol={rtol} o={order} {mpo}: exc {type(e).__name__} ncalls={len(calls)}")
    # not adaptive: plain pass through
    del calls[:]
    cfg = EvolveConfig(EvolveMethod.tdvp_ps, adaptive=False, guess_dt=0.1)
    out = wrapped(Fake(1.0, cfg), "h", 0.3)
    print("non adaptive", fmt(complex(out.y)), calls)


# ----------------------------------------------------------------------------
# 3. real MPS runs
# ----------------------------------------------------------------------------
def build():
    elocalex = Quantity(2.67, "eV")
    j_matrix = np.array([[0.0, -0.1, -0.2], [-0.1, 0.0, -0.3], [-0.2, -0.3, 0.0]]) / constant.au2ev
    omega = [[Quantity(106.51, "cm^{-1}")] * 2, [Quantity(1555.55, "cm^{-1}")] * 2]
    disp = [[Quantity(0), Quantity(30.1370, "a.u.")], [Quantity(0), Quantity(8.7729, "a.u.")]]
    ph_list = [Phonon(*args) for args in zip(omega, disp, [3, 2])]
    model = HolsteinModel([Mol(elocalex, ph_list, 15.45)] * 3, j_matrix)
    tentative = Mpo(model)
    init = Mpo.onsite(model, r"a^\dagger", dof_set={0}) @ Mps.ground_state(model, False)
    init = init.expand_bond_dimension(hint_mpo=tentative)
    e = init.expectation(tentative)
    mpo = Mpo(model, offset=Quantity(e))
    mpdm = MpDm.from_mps(init).expand_bond_dimension(hint_mpo=tentative)
    return model, init, mpdm, mpo


def observables(mps, mpo):
    return (f"e_occ={h(np.asarray(mps.e_occupations))} "
            f"E={round(float(np.real(mps.expectation(mpo))), 7) + 0.0:.7f} ")


def evolve_seq(state, mpo, cfg, ccfg, dts, normalize=True):
    mps = state.copy()
    mps.evolve_config = cfg
    mps.compress_config = ccfg
    out = []
    for dt in dts:
        mpo_arg = mpo
        mps = mps.evolve(mpo_arg, dt, normalize=normalize)
        out.append(mps_digest(mps))
    return mps, out


def run_tdrk(model, init, mpdm, mpo):
    print("== _evolve_prop_and_compress_tdrk")
    two_order = ("RKF45", "Cash-Karp45")
    for name in rk_method_list:
        for adaptive in (False, True):
            cfg_ok = True
            try:
                cfg = EvolveConfig(EvolveMethod.prop_and_compress_tdrk, rk_solver=name,
                                   adaptive=adaptive, guess_dt=0.05)
                ccfg = CompressConfig(CompressCriteria.fixed, max_bonddim=6)
                mps, out = evolve_seq(init, mpo, cfg, ccfg, (0.1, 0.23))
                for line in out:
                    print(name, adaptive, line)
                print(name, adaptive, observables(mps, mpo))
            except Exception as e:
                print(name, adaptive, "exc", type(e).__name__)
    # direct calls (no normalisation), density operator, threshold criterion, backwards time,
    # a too large guess (forces rejections), a callable Hamiltonian
    calls = []

    def mpo_t(t, *args, **kwargs):
        calls.append((round(float(t), 12), sorted(kwargs)))
        return mpo.scale(1 + 0.3 * t) if hasattr(mpo, "scale") else mpo

    for state in (init, mpdm):
        for name, adaptive, guess, dt in (("Cash-Karp45", True, 5.0, 0.6),
                                          ("RKF45", True, 0.02, 0.11),
                                          ("RKF45", True, -0.3, -0.25),
                                          ("Kutta_RK3", False, 0.1, 0.05),
                                          ("Forward_Euler", False, 0.1, -0.02)):
            if state is mpdm and name not in ("Cash-Karp45", "Kutta_RK3"):
                continue
            for ham in (mpo, mpo_t):
                del calls[:]
                mps = state.copy()
                mps.evolve_config = EvolveConfig(EvolveMethod.prop_and_compress_tdrk, rk_solver=name,
                                                 adaptive=adaptive, guess_dt=guess, adaptive_rtol=1e-4)
                mps.compress_config = CompressConfig(CompressCriteria.threshold, threshold=1e-6)
                before = mps_digest(mps)
                try:
                    new = mps._evolve_prop_and_compress_tdrk(ham, dt)
                    print(type(state).__name__, name, adaptive, guess, dt, ham is mpo, mps_digest(new),
                          "self_unchanged", before.split("guess_dt")[0] == mps_digest(mps).split("guess_dt")[0],
                          "self_guess", fmt(mps.evolve_config.guess_dt),
                          "ncalls", len(calls), h(np.array([c[0] for c in calls] or [0.0])),
                          sorted(set(tuple(c[1]) for c in calls)))
                except Exception as e:
                    print(type(state).__name__, name, adaptive, guess, dt, ham is mpo, "exc", type(e).__name__)
    # error paths
    mps = init.copy()
    mps.evolve_config = EvolveConfig(EvolveMethod.prop_and_compress_tdrk, rk_solver="RKF45", adaptive=True, guess_dt=0.1)
    for bad_h, dt in ((3.0, 0.1), (None, 0.1), (mpo, -0.1), (mpo, -0.1j)):
        try:
            mps._evolve_prop_and_compress_tdrk(bad_h, dt)
            print("no error")
        except Exception as e:
            print("tdrk exc", type(e).__name__, str(e)[:40])


def run_ps2(model, init, mpdm, mpo):
    print("== _evolve_tdvp_ps2")
    for state in (init, mpdm):
        for solver in ("krylov", "RK45"):
            for adaptive in (False, True):
                for m in ((4, 16) if state is init else (4,)):
                    try:
                        cfg = EvolveConfig(EvolveMethod.tdvp_ps2, ivp_solver=solver, adaptive=adaptive,
                                           guess_dt=0.3, adaptive_rtol=1e-3)
                        ccfg = CompressConfig(CompressCriteria.fixed, max_bonddim=m)
                        dts = (0.2, 0.35) if not adaptive else (0.5,)
                        mps, out = evolve_seq(state, mpo, cfg, ccfg, dts)
                        for line in out:
                            print(type(state).__name__, solver, adaptive, m, line)
                        print(type(state).__name__, solver, adaptive, m, observables(mps, mpo),
                              "stat", mps.evolve_config.stat.nobs, fmt(float(mps.evolve_config.stat.mean)),
                              mps.evolve_config.stat.minmax)
                    except Exception as e:
                        print(type(state).__name__, solver, adaptive, m, "exc", type(e).__name__)
    # imaginary time, both sweep directions, direct call
    for solver in ("krylov", "RK45"):
        for dt in (-0.4j, 0.3, -0.2):
            for flip in (False, True):
                mps = init.copy()
                if flip:
                    mps.ensure_left_canonical()
                    mps.to_right = False if mps.to_right else True
                mps.evolve_config = EvolveConfig(EvolveMethod.tdvp_ps2, ivp_solver=solver)
                mps.compress_config = CompressConfig(CompressCriteria.threshold, threshold=1e-5)
                before = mps_digest(mps)
                try:
                    new = mps._evolve_tdvp_ps2(mpo, dt)
                    print("direct", solver, dt, flip, mps_digest(new), "self_same", before == mps_digest(mps),
                          new.evolve_config.stat.nobs, fmt(float(new.evolve_config.stat.mean)))
                except Exception as e:
                    print("direct", solver, dt, flip, "exc", type(e).__name__)
    # adaptive through the decorator on a second decorated scheme (decorator only)
    for method in (EvolveMethod.tdvp_ps, EvolveMethod.tdvp_mu_cmf):
        cfg = EvolveConfig(method, adaptive=True, guess_dt=0.2, adaptive_rtol=1e-4)
        ccfg = CompressConfig(CompressCriteria.fixed, max_bonddim=8)
        try:
            mps, out = evolve_seq(init, mpo, cfg, ccfg, (0.3,))
            print(method, out[0], observables(mps, mpo))
        except Exception as e:
            print(method, "exc", type(e).__name__)


if __name__ == "__main__":
    np.random.seed(7)
    run_krylov()
    run_adaptive_mock()
    model, init, mpdm, mpo = build()
    run_tdrk(model, init, mpdm, mpo)
    run_ps2(model, init, mpdm, mpo)
