"""Equivalence digest for the C10 refactoring (exact propagator, normalize,
Mps.evolve, ThermalProp.evolve_exact)."""
import os
import sys

# some intermediate orderings in the library depend on str hashing (set iteration);
# pin the hash seed so that the digest is reproducible from run to run
if os.environ.get("PYTHONHASHSEED") != "0":
    os.environ["PYTHONHASHSEED"] = "0"
    os.execv(sys.executable, [sys.executable] + sys.argv)

import hashlib
import logging

import numpy as np

logging.disable(logging.CRITICAL)

from renormalizer.model import Phonon, Mol, HolsteinModel
from renormalizer.mps import Mps, Mpo, MpDm, ThermalProp
from renormalizer.mps import mps as mps_module
from renormalizer.utils import Quantity, EvolveConfig, EvolveMethod, CompressConfig
from renormalizer.utils import constant


def r(x, nd=9):
    """deterministic rounded repr of numbers / arrays"""
    a = np.asarray(x)
    if np.iscomplexobj(a):
        a = np.stack([a.real, a.imag], axis=-1)
    a = a.astype(float)
    with np.errstate(all="ignore"):
        scale = np.where((a != 0) & np.isfinite(a), 10.0 ** np.floor(np.log10(np.abs(np.where(a == 0, 1, a)))), 1.0)
        a = np.round(a / scale, nd) * scale
    a = a + 0.0  # kill -0.0
    return np.array2string(a, precision=nd, floatmode="maxprec", threshold=10 ** 6, max_line_width=10 ** 6).replace("\n", "")


def sha(a):
    a = np.ascontiguousarray(np.asarray(a))
    return hashlib.sha256(str(a.dtype).encode() + str(a.shape).encode() + a.tobytes()).hexdigest()[:16]


def make_model(nmols=2, pdims=(3, 4), scheme=2, seed=0):
    rng = np.random.RandomState(seed)
    omega_q = [Quantity(106.51, "cm^{-1}"), Quantity(1555.55, "cm^{-1}")]
    omega = [[omega_q[0], omega_q[0]], [omega_q[1], omega_q[1]]]
    dis_q = [Quantity(30.1370, "a.u."), Quantity(8.7729, "a.u.")]
    dis = [[Quantity(0), dis_q[0]], [Quantity(0), dis_q[1]]]
    ph_list = [Phonon(*args) for args in zip(omega, dis, pdims)]
    j = rng.uniform(-0.3, -0.05, size=(nmols, nmols)) / constant.au2ev
    j = (j + j.T) / 2
    np.fill_diagonal(j, 0)
    return HolsteinModel([Mol(Quantity(2.67, "eV"), ph_list, 15.45)] * nmols, j, scheme)


def mp_digest(mp, raw=True):
    out = []
    out.append("type=%s len=%d dtype=%s" % (type(mp).__name__, len(mp), np.dtype(mp.dtype).name))
    out.append("shapes=%s" % [tuple(m.shape) for m in mp])
    out.append("mtdtypes=%s" % [np.dtype(m.dtype).name for m in mp])
    out.append("qn=%s" % [np.asarray(q).tolist() for q in mp.qn])
    out.append("qnidx=%s qntot=%s to_right=%s" % (mp.qnidx, np.asarray(mp.qntot).tolist(), mp.to_right))
    if hasattr(mp, "coeff"):
        out.append("coeff=%s" % r(mp.coeff))
    if raw:
        out.append("sha=%s" % [sha(np.asarray(m.array)) for m in mp])
        for m in mp:
            out.append("  mt " + r(np.asarray(m.array).ravel()))
    return "\n".join(out)


def section(name):
    print("=" * 10, name)


# ---------------------------------------------------------------- exact_propagator
def check_exact_propagator():
    section("Mpo.exact_propagator")
    xs = [-0.5, 0.0, 3.0, -12.5j, 0.3 - 0.7j, 1 + 0j, np.float64(-40.0), np.complex128(2j), -7]
    shifts = [0.0, 0.37, -1.25]
    for scheme in (1, 2, 3, 4):
        for nmols, pdims in ((1, (2, 2)), (2, (3, 4)), (3, (4, 2))):
            model = make_model(nmols, pdims, scheme, seed=scheme * 10 + nmols)
            for space in ("GS", "EX"):
                for ix, x in enumerate(xs):
                    shift = shifts[(ix + nmols) % 3]
                    print("-- scheme", scheme, "nmols", nmols, pdims, space, "x", repr(x), "shift", shift)
                    try:
                        mpo = Mpo.exact_propagator(model, x, space, shift)
                    except Exception as e:  # noqa
                        print("EXC", type(e).__name__, e)
                        continue
                    print(mp_digest(mpo))
                    print("model is", mpo.model is model, "alias_qn", all(q is mpo.qn[0] for q in mpo.qn))
    model = make_model(2, (3, 3), 2)
    # default arguments and keyword usage
    print(mp_digest(Mpo.exact_propagator(model, -0.2)))
    print(mp_digest(Mpo.exact_propagator(model, x=-0.2j, space="EX", shift=0.11)))
    # bad space
    for bad in ("gs", None, "XX", 1):
        try:
            Mpo.exact_propagator(model, -0.1, bad)
            print("no exception", bad)
        except Exception as e:  # noqa
            print("EXC", repr(bad), type(e).__name__, str(e))
    # MpDm subclass call (cls() is MpDm)
    try:
        p = MpDm.exact_propagator(model, -0.1j, "EX", 0.2)
        print(mp_digest(p))
    except Exception as e:  # noqa
        print("EXC mpdm", type(e).__name__, str(e))
    # overflow / shift making everything zero -> assertion in scale
    for x, shift in ((-1e6, 1e3), (1e6, 1.0), (np.inf, 0.0)):
        try:
            with np.errstate(all="ignore"):
                p = Mpo.exact_propagator(model, x, "GS", shift)
            print(mp_digest(p))
        except Exception as e:  # noqa
            print("EXC", x, shift, type(e).__name__, str(e))


# ---------------------------------------------------------------- normalize
class FakeTTN:
    def __init__(self, norm, coeff):
        self.ttns_norm = norm
        self.coeff = coeff
        self.calls = []

    def scale(self, val, inplace=False):
        self.calls.append((r(val), inplace))
        return self


class FakeBoth(FakeTTN):
    mp_norm = 4.0


class NoNorm:
    coeff = 1.0

    def scale(self, val, inplace=False):
        raise RuntimeError("must not be called")


class RaisingNorm:
    coeff = 1.0

    @property
    def mp_norm(self):
        raise KeyError("boom")


def check_normalize():
    section("normalize")
    model = make_model(2, (3, 3), 2)
    kinds = ["mps_only", "mps_and_coeff", "mps_norm_to_coeff", "ttns_only", "ttns_and_coeff",
             "ttns_norm_to_coeff", "bad", None, ["mps_only"], ("mps_only",), 3, "MPS_ONLY", ""]
    for coeff in (1, 2.5, -0.5 + 1.5j, np.complex128(3j), 0.0):
        for kind in kinds:
            np.random.seed(11)
            mps = Mps.random(model, 1, 5, percent=1.0)
            mps.scale(1.7, inplace=True)
            mps.coeff = coeff
            for how in ("method", "function"):
                m = mps.copy()
                try:
                    with np.errstate(all="ignore"):
                        res = m.normalize(kind) if how == "method" else mps_module.normalize(m, kind)
                    print(how, repr(coeff), repr(kind), "same", res is m, "coeff", r(m.coeff), type(m.coeff).__name__,
                          "norm", r(m.mp_norm), "sha", [sha(np.asarray(x.array)) for x in m])
                except Exception as e:  # noqa
                    print(how, repr(coeff), repr(kind), "EXC", type(e).__name__, str(e), "coeff", r(m.coeff),
                          "norm", r(m.mp_norm))
    # complex mps / mpdm
    np.random.seed(5)
    mps = Mps.random(model, 1, 4, percent=1.0).to_complex()
    mps = mps.scale(0.3 - 0.4j)
    for kind in kinds[:6]:
        m = mps.copy()
        m.coeff = 2 - 1j
        m.normalize(kind)
        print("cplx", kind, r(m.coeff), r(m.mp_norm), r(m.todense()))
    mpdm = MpDm.max_entangled_ex(model, normalize=False)
    for kind in kinds[:6]:
        m = mpdm.copy()
        m.coeff = 0.5j
        res = mps_module.normalize(m, kind)
        print("mpdm", kind, res is m, r(m.coeff), r(m.mp_norm))
    # duck-typed objects
    for cls in (FakeTTN, FakeBoth):
        for kind in kinds:
            obj = cls(2.0, 3 + 4j)
            try:
                res = mps_module.normalize(obj, kind)
                print(cls.__name__, repr(kind), res is obj, r(obj.coeff), obj.calls)
            except Exception as e:  # noqa
                print(cls.__name__, repr(kind), "EXC", type(e).__name__, str(e), r(obj.coeff), obj.calls)
    for obj in (NoNorm(), RaisingNorm(), 1.0, None):
        for kind in ("mps_only", "bad"):
            try:
                mps_module.normalize(obj, kind)
                print("no exception")
            except Exception as e:  # noqa
                print(type(obj).__name__, kind, "EXC", type(e).__name__, str(e))
    # zero norm
    obj = FakeTTN(0.0, 1.0)
    try:
        with np.errstate(all="ignore"):
            mps_module.normalize(obj, "ttns_norm_to_coeff")
        print("zero", r(obj.coeff), obj.calls)
    except Exception as e:  # noqa
        print("zero EXC", type(e).__name__, str(e))


# ---------------------------------------------------------------- Mps.evolve
def check_evolve():
    section("Mps.evolve")
    model = make_model(2, (3, 3), 2, seed=3)
    mpo = Mpo(model)
    methods = [
        EvolveMethod.prop_and_compress,
        EvolveMethod.prop_and_compress_tdrk4,
        EvolveMethod.prop_and_compress_tdrk,
        EvolveMethod.tdvp_mu_vmf,
        EvolveMethod.tdvp_vmf,
        EvolveMethod.tdvp_mu_cmf,
        EvolveMethod.tdvp_ps,
        EvolveMethod.tdvp_ps2,
    ]
    dts = [2.0, -3j, np.complex128(-1.5j), 1 + 0j, np.float64(0.5)]
    for method in methods:
        full = method in (EvolveMethod.prop_and_compress, EvolveMethod.tdvp_ps)
        vmf = method in (EvolveMethod.tdvp_mu_vmf, EvolveMethod.tdvp_vmf)
        for dt in (dts if full else ((0.5, -0.8j) if vmf else dts[:2])):
            for norm_flag in ((True, False, 1, 0, None, "yes") if full else (None, False)):
                np.random.seed(7)
                mps = Mps.random(model, 1, 6, percent=1.0)
                mps.coeff = 0.9 - 1.2j
                mps.scale(1.3, inplace=True)
                mps.compress_config = CompressConfig(max_bonddim=8)
                mps.evolve_config = EvolveConfig(method)
                mps = mps.expand_bond_dimension(mpo, include_ex=False) if method not in methods[:3] else mps
                mps.coeff = 0.9 - 1.2j
                tag = "%s dt=%r norm=%r" % (method.name, dt, norm_flag)
                try:
                    if norm_flag is None:
                        new = mps.evolve(mpo, dt)
                    elif norm_flag == "yes":
                        new = mps.evolve(mpo, dt, normalize=True)
                    else:
                        new = mps.evolve(mpo, dt, norm_flag)
                except Exception as e:  # noqa
                    print(tag, "EXC", type(e).__name__, str(e)[:100])
                    continue
                print(tag, "coeff", r(new.coeff, 7), "norm", r(new.mp_norm, 7), "E", r(new.expectation(mpo), 6),
                      "occ", r(new.e_occupations, 6), "ph", r(new.ph_occupations, 6), "dtype", np.dtype(new.dtype).name,
                      "is_self", new is mps)
    # MpDm, imaginary time (thermal) and real time
    for method in (EvolveMethod.prop_and_compress, EvolveMethod.tdvp_ps, EvolveMethod.tdvp_mu_cmf):
        for gs in (False, True):
            for dt in (-5j, 4.0):
                np.random.seed(13)
                mpdm = MpDm.max_entangled_gs(model) if gs else MpDm.max_entangled_ex(model)
                mpdm.compress_config = CompressConfig(max_bonddim=10)
                mpdm.evolve_config = EvolveConfig(method)
                if method != EvolveMethod.prop_and_compress:
                    mpdm = mpdm.expand_bond_dimension(mpo, include_ex=False)
                mpdm.coeff = 1.2 + 1.6j
                for norm_flag in (True, False):
                    tag = "mpdm %s gs=%s dt=%r norm=%r" % (method.name, gs, dt, norm_flag)
                    try:
                        new = mpdm.evolve(mpo, dt, norm_flag)
                    except Exception as e:  # noqa
                        print(tag, "EXC", type(e).__name__, str(e)[:100])
                        continue
                    print(tag, "coeff", r(new.coeff, 7), "norm", r(new.mp_norm, 7), "E", r(new.expectation(mpo), 6),
                          "occ", r(new.e_occupations, 6), "ph", r(new.ph_occupations, 6))
    # array-valued dt: ambiguous truth value
    np.random.seed(7)
    mps = Mps.random(model, 1, 4, percent=1.0)
    try:
        mps.evolve(mpo, np.array([1.0, 2.0]))
        print("no exception")
    except Exception as e:  # noqa
        print("array dt EXC", type(e).__name__, str(e)[:80])


# ---------------------------------------------------------------- ThermalProp.evolve_exact
def check_thermal():
    section("ThermalProp.evolve_exact")
    for scheme in (2, 4):
        for space in ("GS", "EX"):
            for gs_init in (True, False):
                model = make_model(2, (3, 4), scheme, seed=5)
                np.random.seed(17)
                init = MpDm.max_entangled_gs(model) if gs_init else MpDm.max_entangled_ex(model)
                beta = Quantity(298, "K").to_beta()
                tp = ThermalProp(init, exact=True, space=space)
                # direct calls
                for dt in (beta / 2j, -3j, np.complex128(-100 - 50j), -0.0j):
                    try:
                        new = tp.evolve_exact(tp.latest_mps, dt)
                        print("direct", scheme, space, gs_init, repr(dt), "coeff", r(new.coeff), "norm", r(new.mp_norm),
                              "E", r(new.expectation(tp.h_mpo), 7), "ph", r(new.ph_occupations, 7),
                              "dims", new.bond_dims, "old_untouched", r(tp.latest_mps.mp_norm), new is tp.latest_mps,
                              type(new).__name__)
                    except Exception as e:  # noqa
                        print("direct", scheme, space, gs_init, repr(dt), "EXC", type(e).__name__, str(e)[:80])
                # full run, several steps
                for nsteps in (1, 3):
                    tp = ThermalProp(init.copy(), exact=True, space=space)
                    tp.evolve(None, nsteps, beta / 2j)
                    print("run", scheme, space, gs_init, nsteps, "E", r(tp.energies, 7), "coeff", r(tp.latest_mps.coeff),
                          "ph", r(tp.latest_mps.ph_occupations, 7), "times", r(tp.evolve_times))
    # different hamiltonian model than the state's model
    model = make_model(2, (3, 4), 2, seed=5)
    other = make_model(2, (3, 4), 2, seed=9)
    tp = ThermalProp(MpDm.max_entangled_ex(model), h_mpo_model=other, exact=True, space="EX")
    tp.evolve(-2j, 2)
    print("othermodel", r(tp.energies, 7), r(tp.latest_mps.ph_occupations, 7))
    # non exact path through evolve_single_step for comparison of both branches
    for method in (EvolveMethod.prop_and_compress, EvolveMethod.tdvp_ps):
        np.random.seed(19)
        init = MpDm.max_entangled_ex(model)
        init.compress_config = CompressConfig(max_bonddim=10)
        tp = ThermalProp(init, evolve_config=EvolveConfig(method, adaptive=False), exact=False)
        tp.evolve(-20j, 2)
        print("prop", method.name, "E", r(tp.energies, 6), "occ", r(tp.e_occupations_array, 6),
              "ph", r(tp.ph_occupations_array, 6), "coeff", r(tp.latest_mps.coeff, 6))
    # energies list empty -> IndexError in evolve_exact
    tp = ThermalProp(MpDm.max_entangled_gs(model), exact=True)
    tp.energies = []
    try:
        tp.evolve_exact(tp.latest_mps, -1j)
        print("no exception")
    except Exception as e:  # noqa
        print("empty energies EXC", type(e).__name__, str(e))
    # real dt is rejected by evolve, but evolve_exact uses .imag only
    tp = ThermalProp(MpDm.max_entangled_gs(model), exact=True)
    for dt in (1.0, 2):
        try:
            new = tp.evolve_exact(tp.latest_mps, dt)
            print("real dt", r(new.coeff), r(new.mp_norm), r(new.ph_occupations))
        except Exception as e:  # noqa
            print("real dt EXC", type(e).__name__, str(e))
    try:
        tp.evolve(1.0, 1)
        print("no exception")
    except Exception as e:  # noqa
        print("evolve real EXC", type(e).__name__, str(e))


# ---------------------------------------------------------------- normalize on tree states
def check_ttns():
    section("normalize / TTNS")
    import types
    _pt = types.ModuleType("print_tree")
    _pt.print_tree = object
    sys.modules.setdefault("print_tree", _pt)
    from renormalizer.tn import BasisTree, TTNS

    model = make_model(2, (3, 3), 2, seed=3)
    for name, basis in (("chain", BasisTree.linear(model.basis)), ("binary", BasisTree.binary(model.basis))):
        for coeff in (1, -0.5 + 1.5j):
            for kind in ("ttns_only", "ttns_and_coeff", "ttns_norm_to_coeff", "mps_only", "mps_and_coeff",
                         "mps_norm_to_coeff", "bad"):
                np.random.seed(3)
                ttns = TTNS.random(basis, 1, 4)
                ttns.scale(2.2, inplace=True)
                ttns.coeff = coeff
                for how in ("method", "function"):
                    t = ttns.copy()
                    try:
                        res = t.normalize(kind) if how == "method" else mps_module.normalize(t, kind)
                        print(name, how, repr(coeff), kind, res is t, "coeff", r(t.coeff), "norm", r(t.ttns_norm),
                              "dense", sha(np.round(t.todense(), 10) + 0.0))
                    except Exception as e:  # noqa
                        print(name, how, repr(coeff), kind, "EXC", type(e).__name__, str(e), r(t.coeff), r(t.ttns_norm))


if __name__ == "__main__":
    import time
    for f in (check_exact_propagator, check_normalize, check_ttns, check_evolve, check_thermal):
        t0 = time.time()
        f()
        print(f.__name__, "%.1fs" % (time.time() - t0), file=sys.stderr)
