"""Equivalence digest for the C10 refactoring (exact propagators).

Exercises Mpo.exact_propagator, Mps.evolve_exact, MpDm.evolve_exact,
ThermalProp.evolve_exact / evolve_single_step and prints a deterministic digest.
"""
import hashlib
import logging
import os

for _v in ("OMP_NUM_THREADS", "OPENBLAS_NUM_THREADS", "MKL_NUM_THREADS"):
    os.environ.setdefault(_v, "1")

import numpy as np

logging.disable(logging.CRITICAL)

from renormalizer.model import Phonon, Mol, HolsteinModel
from renormalizer.mps import Mps, Mpo, MpDm, ThermalProp
from renormalizer.utils import Quantity, EvolveConfig, EvolveMethod
from renormalizer.tests import parameter

NDIG = 9


def arr_digest(a):
    a = np.asarray(a)
    r = np.round(a.astype(complex), NDIG) + 0.0  # kill negative zeros
    r = np.where(np.isfinite(r), r, 0) if not np.all(np.isfinite(r)) else r
    h = hashlib.md5(np.ascontiguousarray(r).tobytes()).hexdigest()[:12]
    nan = int(np.isnan(a).sum()) if a.dtype.kind in "fc" else 0
    inf = int(np.isinf(a).sum()) if a.dtype.kind in "fc" else 0
    return f"{a.dtype} {a.shape} {h} sum={np.round(complex(np.nansum(r)), 7) + 0.0} nan={nan} inf={inf}"


def mp_digest(tag, mp):
    print(f"== {tag}: type={type(mp).__name__} nsite={len(mp)} dtype={mp.dtype} "
          f"complex={mp.is_complex} qnidx={mp.qnidx} qntot={np.asarray(mp.qntot).tolist()} "
          f"to_right={mp.to_right} bond={list(mp.bond_dims)}")
    coeff = getattr(mp, "coeff", None)
    if coeff is not None:
        print(f"   coeff={np.round(complex(coeff), NDIG) + 0.0}")
    print("   qn=", [np.asarray(q).tolist() for q in mp.qn])
    print("   qn_alias=", [mp.qn[i] is mp.qn[0] for i in range(len(mp.qn))])
    for i, mt in enumerate(mp):
        print(f"   site {i}: {arr_digest(mt.array)}")


def dense_digest(tag, mp):
    try:
        d = mp.todense()
    except ValueError as e:
        print(f"   {tag} dense: skipped ({e})")
        return
    coeff = getattr(mp, "coeff", 1)
    print(f"   {tag} dense: {arr_digest(np.asarray(d) * coeff)}")


def safe(tag, fn, *args, **kwargs):
    """call fn, print a digest of the resulting matrix product or the exception"""
    try:
        with np.errstate(all="ignore"):
            res = fn(*args, **kwargs)
    except Exception as e:  # noqa
        print(f"== {tag}: EXC {type(e).__name__}: {e}")
        return None
    mp_digest(tag, res)
    return res


def small_model(scheme=1, nmols=2, omegas=(0.7, 1.3), disps=(0.4, -0.9), pdim=(3, 4), j=0.3):
    ph_list = [
        Phonon.simple_phonon(Quantity(w), Quantity(d), n)
        for w, d, n in zip(omegas, disps, pdim)
    ]
    mols = [Mol(Quantity(0.5 + 0.1 * i), ph_list) for i in range(nmols)]
    jm = np.zeros((nmols, nmols))
    for i in range(nmols - 1):
        jm[i, i + 1] = jm[i + 1, i] = j
    model = HolsteinModel(mols, jm)
    if scheme != 1:
        model = model.switch_scheme(scheme)
    return model


# ---------------------------------------------------------------- exact_propagator
print("##### Mpo.exact_propagator")
models = {
    "param1": parameter.holstein_model,
    "param4": parameter.holstein_model4,
    "small1": small_model(1),
    "small4": small_model(4, nmols=3),
    "single": small_model(1, nmols=1, omegas=(1.1,), disps=(0.7,), pdim=(5,)),
}
xs = [-0.37, 0.0, 2.5, -1.0j * 30, 0.13 - 0.4j, 1 + 0j, np.float64(-0.02), -800.0, 800.0]
for mname, model in models.items():
    for space in ["GS", "EX"]:
        for x in xs:
            for shift in [0.0, -0.321, 1.7]:
                if abs(x) > 100 and shift != 0.0:
                    continue
                tag = f"prop {mname} {space} x={x!r} shift={shift}"
                try:
                    with np.errstate(all="ignore"):
                        p = Mpo.exact_propagator(model, x, space, shift)
                except Exception as e:  # noqa
                    print(f"== {tag}: EXC {type(e).__name__}: {e}")
                    continue
                mp_digest(tag, p)
                print("   model is:", p.model is model)
# default args and keywords
mp_digest("prop defaults", Mpo.exact_propagator(models["small1"], -0.5))
mp_digest("prop kw", Mpo.exact_propagator(model=models["small1"], x=-0.5j, shift=0.25, space="EX"))
for bad in ["gs", "XX", None]:
    try:
        Mpo.exact_propagator(models["small1"], -0.5, bad)
        print("bad space", bad, "no exception")
    except Exception as e:  # noqa
        print("bad space", bad, type(e).__name__, str(e))
# dense check against the exponential of the local vibrational H (digest only)
p = Mpo.exact_propagator(models["small1"], -0.3 + 0.2j, "EX", 0.4)
dense_digest("small1 EX", p)
p = Mpo.exact_propagator(models["small4"], -0.3, "GS", -0.4)
dense_digest("small4 GS", p)

# ---------------------------------------------------------------- Mps.evolve_exact
print("##### Mps.evolve_exact")
np.random.seed(2024)
for mname in ["small1", "small4", "param1"]:
    model = models[mname]
    for offset in [0.0, 0.123, -2.5]:
        h_mpo = Mpo(model, offset=Quantity(offset))
        for qntot in [0, 1]:
            mps = Mps.random(model, qntot, 6, percent=1.0)
            mps.coeff = 0.8 - 0.3j if qntot else 1.5
            for dt in [0.7, -0.7, -0.4j, 0.3 - 0.2j, 0]:
                for space in ["GS", "EX"]:
                    before = [mt.array.copy() for mt in mps]
                    tag = f"mps {mname} off={offset} qn={qntot} dt={dt!r} {space}"
                    try:
                        new = mps.evolve_exact(h_mpo, dt, space)
                    except Exception as e:  # noqa
                        print(f"== {tag}: EXC {type(e).__name__}: {e}")
                        continue
                    mp_digest(tag, new)
                    dense_digest(tag, new)
                    unchanged = all(np.array_equal(a, mt.array) for a, mt in zip(before, mps))
                    print("   input untouched:", unchanged, "coeff", mps.coeff, "new is old:", new is mps)
# a non-canonical state with the other sweep direction
model = models["small1"]
mps = Mps.random(model, 1, 5, percent=1.0)
mps.ensure_right_canonical()
h_mpo = Mpo(model, offset=Quantity(0.05))
safe("mps right-canon", mps.evolve_exact, h_mpo, 0.25, "EX")
mps.ensure_left_canonical()
safe("mps left-canon", mps.evolve_exact, h_mpo, 0.25, "GS")
gs = Mps.ground_state(model, max_entangled=False)
safe("mps ground -1j", gs.evolve_exact, h_mpo, -1j, "EX")
safe("mps ground 2", gs.evolve_exact, h_mpo, 2, "EX")
safe("mps ground kw", gs.evolve_exact, space="GS", evolve_dt=0.5 + 0.5j, h_mpo=h_mpo)
try:
    gs.evolve_exact(h_mpo, 0.1, "bad")
    print("no exc")
except Exception as e:  # noqa
    print("mps bad space", type(e).__name__, str(e))

# ---------------------------------------------------------------- MpDm.evolve_exact
print("##### MpDm.evolve_exact")
for mname in ["small1", "small4", "param1"]:
    model = models[mname]
    for offset in [0.0, 0.321]:
        h_mpo = Mpo(model, offset=Quantity(offset))
        for init in ["gs", "ex", "ex_nonorm"]:
            if init == "gs":
                dm = MpDm.max_entangled_gs(model)
            elif init == "ex":
                dm = MpDm.max_entangled_ex(model)
            else:
                dm = MpDm.max_entangled_ex(model, normalize=False)
            for dt in [0.9, -0.9, -0.25j, 0.1 + 0.05j]:
                for space in ["GS", "EX"]:
                    before = [mt.array.copy() for mt in dm]
                    c0 = dm.coeff
                    tag = f"mpdm {mname} off={offset} {init} dt={dt!r} {space}"
                    try:
                        new = dm.evolve_exact(h_mpo, dt, space)
                    except Exception as e:  # noqa
                        print(f"== {tag}: EXC {type(e).__name__}: {e}")
                        continue
                    mp_digest(tag, new)
                    unchanged = all(np.array_equal(a, mt.array) for a, mt in zip(before, dm))
                    print("   input untouched:", unchanged, dm.coeff == c0, "new is old:", new is dm)
                    # chain two steps
                    safe(tag + " back", new.evolve_exact, h_mpo, -dt, space)

# ---------------------------------------------------------------- ThermalProp
print("##### ThermalProp")


class _Recorder:
    pass


for mname in ["small1", "small4"]:
    model = models[mname]
    for space in ["GS", "EX"]:
        for init in ["gs", "ex"]:
            dm = MpDm.max_entangled_gs(model) if init == "gs" else MpDm.max_entangled_ex(model)
            tp = ThermalProp(dm, exact=True, space=space)
            for nsteps, beta in [(1, 0.05), (3, 2.0), (2, 50.0)]:
                tp2 = ThermalProp(dm.copy(), exact=True, space=space)
                tag = f"tp-exact {mname} {space} {init} n={nsteps} beta={beta}"
                try:
                    tp2.evolve(evolve_dt=-1j * beta / nsteps, nsteps=nsteps)
                except Exception as e:  # noqa
                    print(f"== {tag}: EXC {type(e).__name__}: {e}")
                print(tag, "energies", np.round(np.array(tp2.energies), NDIG).tolist(),
                      "times", [complex(t) for t in tp2.evolve_times])
                mp_digest(tag, tp2.latest_mps)
            # direct calls
            for dt in [-0.3j, 0.2 - 0.7j, -0.0j + 0.4, 0.5]:
                safe(f"tp.evolve_exact direct {mname} {space} {init} dt={dt!r}", tp.evolve_exact, tp.latest_mps, dt)
                safe(f"tp.single_step exact {mname} {space} {init} dt={dt!r}", tp.evolve_single_step, dt)
            print("   energies after direct:", np.round(np.array(tp.energies), NDIG).tolist())

# non-exact route through evolve_single_step / evolve_prop
for mname in ["small1", "small4"]:
    model = models[mname]
    for method in [EvolveMethod.prop_and_compress_tdrk4, EvolveMethod.tdvp_ps]:
        dm = MpDm.max_entangled_ex(model)
        dm.compress_config.bond_dim_max_value = 8
        tp = ThermalProp(dm, evolve_config=EvolveConfig(method))
        tp.evolve(evolve_dt=-0.2j, nsteps=2)
        print(f"tp-prop {mname} {method}", "energies", np.round(np.array(tp.energies), 7).tolist())
        print("   e_occ", np.round(tp.e_occupations_array, 6).tolist())
        new = tp.evolve_single_step(-0.1j)
        print("   single_step norm", np.round(new.mp_norm, 7), "E", np.round(new.expectation(tp.h_mpo), 7))
        new = tp.evolve_prop(tp.latest_mps, -0.1j)
        print("   evolve_prop norm", np.round(new.mp_norm, 7), "E", np.round(new.expectation(tp.h_mpo), 7))

# ThermalProp with a Hamiltonian model different from the state's model
model = models["small1"]
other = small_model(1, omegas=(0.9, 1.6), disps=(0.2, 0.5))
dm = MpDm.max_entangled_gs(model)
tp = ThermalProp(dm, h_mpo_model=other, exact=True, space="EX")
tp.evolve(evolve_dt=-0.5j, nsteps=2)
print("tp other-model energies", np.round(np.array(tp.energies), NDIG).tolist())
mp_digest("tp other-model", tp.latest_mps)
# evolve_exact before any energy was recorded -> IndexError
tp = ThermalProp.__new__(ThermalProp)
tp.energies = []
tp.h_mpo = Mpo(model)
tp.space = "GS"
tp.exact = True
for fn in (tp.evolve_exact, tp.evolve_prop):
    try:
        fn(dm, -0.1j)
        print("no exc")
    except Exception as e:  # noqa
        print(fn.__name__, "empty energies:", type(e).__name__, str(e))
print("DONE")
