# -*- coding: utf-8 -*-
"""Equivalence digest for the C10 refactoring.

Exercises MpDm.from_mps, Mps.evolve, ThermalProp.evolve_prop and
ThermalProp.process_mps and prints a deterministic digest.
"""
import hashlib
import logging
import re
import warnings

import numpy as np

from renormalizer.model import Phonon, Mol, HolsteinModel, Op
from renormalizer.mps import Mps, Mpo, MpDm, ThermalProp
from renormalizer.mps import thermalprop as thermalprop_module
from renormalizer.property import Property
from renormalizer.utils import (
    Quantity,
    EvolveConfig,
    EvolveMethod,
    CompressConfig,
    OptimizeConfig,
    constant,
)

logging.disable(logging.NOTSET)
np.set_printoptions(precision=8, suppress=False, linewidth=200)

OUT = []


import time as _time, sys as _sys
_T0 = [_time.time()]


def emit(*args):
    line = " ".join(str(a) for a in args)
    if "--time" in _sys.argv:
        now = _time.time()
        if now - _T0[0] > 0.3:
            _sys.stderr.write("TIME %.2f %s\n" % (now - _T0[0], line[:60]))
        _T0[0] = now
    OUT.append(line)
    print(line)


def rnd(x, nd=8):
    a = np.asarray(x)
    if np.iscomplexobj(a):
        a = np.round(a.real, nd) + 1j * np.round(a.imag, nd) + (0.0 + 0.0j)
    else:
        a = np.round(a.astype(float), nd) + 0.0
    return a


def arr_digest(x, nd=8):
    a = rnd(x, nd)
    h = hashlib.md5(np.ascontiguousarray(a).tobytes()).hexdigest()[:12]
    return f"{a.shape}|{a.dtype}|{h}|sum={rnd(a.sum(), 7)}"


def build_model(nmols=2, pdim=3):
    elocalex = Quantity(2.67, "eV")
    dipole_abs = 15.45
    j = np.zeros((nmols, nmols))
    for i in range(nmols):
        for k in range(nmols):
            if i != k:
                j[i, k] = -0.1 * (abs(i - k)) / constant.au2ev
    omega_q = [Quantity(106.51, "cm^{-1}"), Quantity(1555.55, "cm^{-1}")]
    omega = [[omega_q[0], omega_q[0]], [omega_q[1], omega_q[1]]]
    dis_q = [Quantity(30.1370, "a.u."), Quantity(8.7729, "a.u.")]
    displacement = [[Quantity(0), dis_q[0]], [Quantity(0), dis_q[1]]]
    ph_list = [Phonon(*args) for args in zip(omega, displacement, [pdim, pdim])]
    return HolsteinModel([Mol(elocalex, ph_list, dipole_abs)] * nmols, j)


MODEL2 = build_model(2, 3)
MODEL3 = build_model(3, 2)


def mp_digest(tag, mp):
    emit(tag, "class", type(mp).__name__, "len", len(mp), "dtype", mp.dtype)
    for i, mt in enumerate(mp):
        emit(tag, "site", i, arr_digest(mt.array),
             "sigmaqn", None if mt.sigmaqn is None else arr_digest(mt.sigmaqn))
    emit(tag, "coeff", repr(rnd(mp.coeff).item()) if mp.coeff is not None else None)
    emit(tag, "qn", [np.asarray(q).tolist() for q in mp.qn])
    emit(tag, "qntot", None if mp.qntot is None else np.asarray(mp.qntot).tolist(),
         "qnidx", mp.qnidx, "to_right", mp.to_right)


# ----------------------------------------------------------------------------
# A. MpDm.from_mps
# ----------------------------------------------------------------------------
def check_from_mps(tag, mps):
    with warnings.catch_warnings(record=True) as wlist:
        warnings.simplefilter("always")
        try:
            mpdm = MpDm.from_mps(mps)
        except Exception as e:  # noqa
            emit(tag, "EXC", type(e).__name__, str(e)[:100])
            return None
    emit(tag, "warnings", sorted(w.category.__name__ for w in wlist))
    mp_digest(tag, mpdm)
    emit(tag, "same evolve_config", mpdm.evolve_config is mps.evolve_config,
         "same optimize_config", mpdm.optimize_config is mps.optimize_config,
         "same compress_config", mpdm.compress_config is mps.compress_config,
         "same model", mpdm.model is mps.model,
         "same qntot", mpdm.qntot is mps.qntot,
         "qn shared", [a is b for a, b in zip(mpdm.qn, mps.qn)])
    emit(tag, "compress", mpdm.compress_config.criteria, mpdm.compress_config.threshold,
         mpdm.compress_config.bond_dim_max_value)
    emit(tag, "flags", mpdm.is_mps, mpdm.is_mpo, mpdm.is_mpdm)
    if len(mpdm):
        emit(tag, "e_occ", rnd(mpdm.e_occupations).tolist(), "norm", rnd(mpdm.norm))
        # the source must not be mutated
        emit(tag, "src", [arr_digest(mt.array) for mt in mps])
    return mpdm


def section_from_mps():
    np.random.seed(1234)
    check_from_mps("A1-gs", Mps.ground_state(MODEL2, max_entangled=False))
    check_from_mps("A2-gs-maxent", Mps.ground_state(MODEL3, max_entangled=True))
    r1 = Mps.random(MODEL2, 1, 5, percent=1.0)
    check_from_mps("A3-rand-q1", r1)
    r0 = Mps.random(MODEL3, 0, 4, percent=0.7)
    check_from_mps("A4-rand-q0", r0)
    r2 = Mps.random(MODEL3, 2, 6, percent=1.0)
    r2.coeff = 0.3 - 0.7j
    r2.compress_config = CompressConfig(threshold=1e-5)
    r2.compress_config.bond_dim_max_value = 7
    r2.optimize_config = OptimizeConfig(procedure=[[3, 0.1]])
    r2.evolve_config = EvolveConfig(EvolveMethod.tdvp_ps)
    r2 = r2.canonicalise()
    check_from_mps("A5-rand-q2-canon", r2)
    r2.canonicalise()
    check_from_mps("A6-rand-q2-canon-back", r2)
    # complex state: the (real) density operator container drops the imaginary part
    c = r1.to_complex()
    for i in range(len(c)):
        c[i] = c[i].array * np.exp(0.3j * (i + 1))
    check_from_mps("A7-complex", c)
    # evolved (complex) state
    ex = Mpo.onsite(MODEL2, r"a^\dagger") @ Mps.ground_state(MODEL2, False)
    ex.evolve_config = EvolveConfig(EvolveMethod.prop_and_compress)
    ex2 = ex.evolve(Mpo(MODEL2), 3.0)
    check_from_mps("A8-evolved", ex2)
    # empty
    check_from_mps("A9-empty", Mps())
    # class methods that delegate to from_mps
    mp_digest("A10-max_entangled_ex", MpDm.max_entangled_ex(MODEL2))
    mp_digest("A11-max_entangled_ex-nonorm", MpDm.max_entangled_ex(MODEL3, normalize=False))
    mp_digest("A12-max_entangled_gs", MpDm.max_entangled_gs(MODEL3))
    # an MpDm as input (four-index matrices)
    check_from_mps("A13-mpdm-input", MpDm.max_entangled_gs(MODEL2))


# ----------------------------------------------------------------------------
# B. Mps.evolve
# ----------------------------------------------------------------------------
def state_digest(tag, mp, h_mpo):
    emit(tag, "class", type(mp).__name__, "dtype", mp.dtype, "to_right", mp.to_right,
         "coeff", repr(rnd(mp.coeff, 7).item()),
         "norm", rnd(mp.norm, 7), "mp_norm", rnd(mp.mp_norm, 7),
         "e", rnd(mp.expectation(h_mpo), 7),
         "eocc", rnd(mp.e_occupations, 6).tolist(),
         "bond", mp.bond_dims)


def section_evolve():
    np.random.seed(555)
    h = Mpo(MODEL2, offset=Quantity(0.095))
    h_off = Mpo(MODEL2, offset=Quantity(0.09))
    gs = Mps.ground_state(MODEL2, max_entangled=False)
    ex0 = Mpo.onsite(MODEL2, r"a^\dagger", dof_set={0}) @ gs
    ex0.compress_config.bond_dim_max_value = 6
    ex0 = ex0.expand_bond_dimension(h, include_ex=False)
    ex0.canonicalise()
    dm0 = MpDm.max_entangled_ex(MODEL2)
    dm0.compress_config.bond_dim_max_value = 8
    dm0 = dm0.expand_bond_dimension(h)
    # non-unit coefficients: the kinds of normalization differ in the coefficient only
    ex0.coeff = 2.5
    dm0.coeff = 0.4

    methods = [
        EvolveMethod.prop_and_compress,
        EvolveMethod.prop_and_compress_tdrk4,
        EvolveMethod.prop_and_compress_tdrk,
        EvolveMethod.tdvp_ps,
        EvolveMethod.tdvp_ps2,
        EvolveMethod.tdvp_mu_vmf,
        EvolveMethod.tdvp_vmf,
        EvolveMethod.tdvp_mu_cmf,
    ]
    dts = [("real", 4.0), ("imag", -4.0j), ("cplx0", complex(4.0, 0.0)),
           ("npimag", np.complex128(-2.5j))]
    for method in methods:
        for dt_name, dt in dts:
            if method == EvolveMethod.prop_and_compress_tdrk4 and dt_name != "real":
                continue
            if method == EvolveMethod.tdvp_mu_cmf:
                # imaginary time CMF is slow for long steps: short step only
                if dt_name == "npimag":
                    continue
                if dt_name == "imag":
                    dt = -0.2j
            for norm_flag in (True, False):
                for sname, s0, hm in (("mps", ex0, h), ("mpdm", dm0, h_off)):
                    if sname == "mpdm" and (dt_name in ("cplx0", "npimag") or method not in (
                            EvolveMethod.prop_and_compress, EvolveMethod.tdvp_ps,
                            EvolveMethod.tdvp_ps2)):
                        continue
                    tag = f"B-{method.name}-{dt_name}-{norm_flag}-{sname}"
                    s = s0.copy()
                    s.evolve_config = EvolveConfig(method)
                    s.evolve_config.ivp_rtol = 1e-6
                    s.evolve_config.ivp_atol = 1e-9
                    before = [arr_digest(mt.array, 7) for mt in s]
                    try:
                        new = s.evolve(hm, dt, normalize=norm_flag)
                    except Exception as e:  # noqa
                        emit(tag, "EXC", type(e).__name__, str(e)[:100])
                        continue
                    state_digest(tag, new, hm)
                    emit(tag, "new is s", new is s,
                         "src_unchanged", before == [arr_digest(mt.array, 7) for mt in s])
    # default and unusual values of the ``normalize`` flag, both sweep directions
    for flag in ("default", 1, 0, "yes", "", None):
        for back in (False, True):
            s = ex0.copy()
            if back:
                s.canonicalise()
            s.evolve_config = EvolveConfig(EvolveMethod.tdvp_ps)
            s.coeff = 0.6 - 1.1j
            for dt in (-1.5j, 1.5):
                if flag == "default":
                    new = s.evolve(h, dt)
                else:
                    new = s.evolve(h, dt, flag)
                state_digest(f"B-flag-{flag!r}-back{back}-{dt}", new, h)
    # krylov local solver
    for dt in (-1.5j, 1.5):
        for method in (EvolveMethod.tdvp_ps, EvolveMethod.tdvp_ps2):
            s = ex0.copy()
            s.evolve_config = EvolveConfig(method, ivp_solver="krylov")
            state_digest(f"B-krylov-{method.name}-{dt}", s.evolve(h, dt), h)
    # unknown method
    s = ex0.copy()
    s.evolve_config = EvolveConfig(EvolveMethod.tdvp_ps)
    s.evolve_config.method = "no such method"
    try:
        s.evolve(h, 1.0)
    except Exception as e:  # noqa
        emit("B-unknown", type(e).__name__, str(e))
    # array valued evolve_dt: truth value of np.iscomplex(array) is ambiguous
    s = ex0.copy()
    s.evolve_config = EvolveConfig(EvolveMethod.prop_and_compress)
    for flag in (True, False):
        try:
            new = s.evolve(h, np.array([1.0]), flag)
            state_digest(f"B-arraydt-{flag}", new, h)
        except Exception as e:  # noqa
            emit(f"B-arraydt-{flag}", type(e).__name__, str(e)[:80])


# ----------------------------------------------------------------------------
# C. ThermalProp
# ----------------------------------------------------------------------------
_FLOAT_RE = re.compile(r"[-+]?\d+\.\d*(?:[eE][-+]?\d+)?|[-+]?\d+[eE][-+]?\d+")


def round_floats(msg, nd=2):
    # the last digits of the logged numbers depend on memory alignment in BLAS (and
    # numbers like 1e-9 are printed in varying formats): keep coarse values only.
    # The numbers themselves are part of the array digests.
    def repl(m):
        v = round(float(m.group(0)), nd) + 0.0
        return f"{v:.{nd}f}"
    # numpy pads array elements depending on the digits of the unrounded numbers
    out = re.sub(r"\s+", " ", _FLOAT_RE.sub(repl, msg))
    return out.replace(" ]", "]").replace("[ ", "[")


class ListHandler(logging.Handler):
    def __init__(self, sink):
        super().__init__(level=logging.DEBUG)
        self.sink = sink

    def emit(self, record):
        self.sink.append(f"LOG {record.levelname} {round_floats(record.getMessage())}")


def with_log_capture(sink):
    lg = thermalprop_module.logger
    handler = ListHandler(sink)
    old_level = lg.level
    lg.setLevel(logging.DEBUG)
    lg.addHandler(handler)
    return lg, handler, old_level


def release_log_capture(lg, handler, old_level):
    lg.removeHandler(handler)
    lg.setLevel(old_level)


def tp_digest(tag, tp, nd=5):
    # nd: digits kept. The last digits depend on memory alignment in BLAS and the
    # variable mean field integrator amplifies that noise.
    emit(tag, "energies", rnd(tp.energies, nd).tolist())
    emit(tag, "e_occ", arr_digest(tp.e_occupations_array, nd), rnd(tp.e_occupations_array, nd).tolist())
    emit(tag, "ph_occ", arr_digest(tp.ph_occupations_array, nd))
    emit(tag, "vn", arr_digest(tp.vn_entropy_array, nd))
    emit(tag, "times", [repr(t) for t in tp.evolve_times])
    d = tp.get_dump_dict()
    emit(tag, "dump keys", list(d.keys()))
    for k, v in d.items():
        try:
            emit(tag, "dump", k, arr_digest(np.array(v, dtype=complex), nd))
        except Exception as e:  # noqa
            emit(tag, "dump", k, "unhashable", type(e).__name__)
    last = tp.latest_mps
    emit(tag, "latest", type(last).__name__, "coeff", repr(rnd(last.coeff, nd).item()),
         "norm", rnd(last.norm, nd), "bond", last.bond_dims, "dtype", last.dtype)
    emit(tag, "init is latest", tp.init_mpdm is tp.latest_mps)


def section_thermalprop():
    model = MODEL2
    beta = Quantity(298, "K").to_beta()
    cases = [
        ("pc", dict(evolve_config=EvolveConfig(EvolveMethod.prop_and_compress)), "ex", 3, None),
        ("pc-adaptive", dict(evolve_config=EvolveConfig(
            EvolveMethod.prop_and_compress, adaptive=True, guess_dt=0.1 / 1j)), "ex", 1, None),
        ("ps", dict(evolve_config=EvolveConfig(EvolveMethod.tdvp_ps)), "ex", 3, 8),
        ("ps-noexpand", dict(evolve_config=EvolveConfig(EvolveMethod.tdvp_ps), auto_expand=False), "ex", 2, 8),
        ("ps2-gs", dict(evolve_config=EvolveConfig(EvolveMethod.tdvp_ps2), auto_expand=False), "gs", 2, 8),
        ("vmf", dict(evolve_config=EvolveConfig(EvolveMethod.tdvp_mu_vmf, ivp_rtol=1e-4, ivp_atol=1e-7,
                                                reg_epsilon=1e-8)), "ex", 1, 4),
        ("exact-gs", dict(exact=True, space="GS"), "gs", 3, None),
        ("exact-ex", dict(exact=True, space="EX"), "ex", 3, None),
        ("default-config", dict(), "ex", 2, None),
    ]
    for name, kwargs, init, nsteps, mmax in cases:
        tag = f"C-{name}"
        np.random.seed(4321)
        sink = []
        cap = with_log_capture(sink)
        try:
            if init == "ex":
                init_mpdm = MpDm.max_entangled_ex(model)
            else:
                init_mpdm = MpDm.max_entangled_gs(model)
            if mmax is not None:
                init_mpdm.compress_config.bond_dim_max_value = mmax
            tp = ThermalProp(init_mpdm, **kwargs)
            try:
                tp.evolve(evolve_dt=beta / 2j / nsteps, nsteps=nsteps)
            except Exception as e:  # noqa
                emit(tag, "EXC", type(e).__name__, str(e)[:100])
        finally:
            release_log_capture(*cap)
        noisy = name == "vmf"
        tp_digest(tag, tp, nd=3 if noisy else 5)
        emit(tag, "nlog", len(sink), "logdigest",
             hashlib.md5("\n".join(sink).encode()).hexdigest()[:12])
        for line in sink[:6]:
            emit(tag, line[:160])

    # with a different Hamiltonian model and user properties
    np.random.seed(99)
    sink = []
    cap = with_log_capture(sink)
    try:
        h_model = build_model(2, 3)
        prop_mpos = {
            "n0": Mpo(model, Op(r"a^\dagger a", 0)),
            "occs": [Mpo(model, Op(r"a^\dagger a", dof)) for dof in model.e_dofs],
        }
        prop = Property(["n0", "occs", "e_rdm"], prop_mpos)
        init_mpdm = MpDm.max_entangled_ex(model)
        tp = ThermalProp(init_mpdm, h_mpo_model=h_model,
                         evolve_config=EvolveConfig(EvolveMethod.prop_and_compress),
                         properties=prop)
        tp.evolve(nsteps=2, evolve_time=beta / 2j)
        # continue the job with a different step
        tp.evolve(evolve_dt=beta / 7j, nsteps=1)
    finally:
        release_log_capture(*cap)
    tp_digest("C-prop", tp)
    for k in prop.prop_strs:
        emit("C-prop", k, arr_digest(np.array(prop.prop_res[k], dtype=complex), 6))
    emit("C-prop", "nlog", len(sink), hashlib.md5("\n".join(sink).encode()).hexdigest()[:12])

    # direct calls of evolve_prop / process_mps / init_mps
    np.random.seed(77)
    init_mpdm = MpDm.max_entangled_ex(model)
    tp = ThermalProp(init_mpdm, evolve_config=EvolveConfig(EvolveMethod.tdvp_ps), auto_expand=True)
    state = tp.latest_mps
    state.coeff = 1.7
    emit("C-direct", "init bond", state.bond_dims, "cfg shared", state.evolve_config is tp.evolve_config)
    for dt in (-3j, -30j, 2.0, np.complex128(-1j)):
        new = tp.evolve_prop(state, dt)
        state_digest(f"C-direct-evolve_prop-{dt}", new, tp.h_mpo)
        emit(f"C-direct-evolve_prop-{dt}", "energies untouched", len(tp.energies),
             "offset untouched", repr(tp.h_mpo.offset))
    # a different last energy changes the shift only
    tp.energies.append(0.123)
    new = tp.evolve_prop(state, -3j)
    state_digest("C-direct-evolve_prop-shifted", new, tp.h_mpo)
    tp.energies.append(0.05 + 0.0j)
    try:
        new = tp.evolve_prop(state, -3j)
        state_digest("C-direct-evolve_prop-complex-energy", new, tp.h_mpo)
    except Exception as e:  # noqa
        emit("C-direct-evolve_prop-complex-energy", type(e).__name__, str(e)[:80])
    tp.energies.clear()
    try:
        tp.evolve_prop(state, -3j)
    except Exception as e:  # noqa
        emit("C-direct-evolve_prop-noenergy", type(e).__name__, str(e))

    # process_mps with stand-ins: order of the accesses and state after failures
    class StubProps:
        def __init__(self, events):
            self.events = events
            self.prop_res = {"zz": [1, 2]}

        def calc_properties(self, mps):
            self.events.append(f"calc_properties({type(mps).__name__})")

    class Occ:
        def __init__(self, events, name, val):
            self.events, self.name, self.val = events, name, val

        def sum(self):
            self.events.append(f"{self.name}.sum")
            return self.val

        def __format__(self, spec):
            self.events.append(f"{self.name}.format")
            return f"<{self.name}>"

    class StubMps:
        def __init__(self, events, fail=None):
            self.events = events
            self.fail = fail

        def _maybe_fail(self, name):
            self.events.append(name)
            if self.fail == name:
                raise RuntimeError(f"fail in {name}")

        def expectation(self, mpo):
            self._maybe_fail("expectation")
            return 1.5

        @property
        def e_occupations(self):
            self._maybe_fail("e_occupations")
            return Occ(self.events, "eocc", 7)

        @property
        def ph_occupations(self):
            self._maybe_fail("ph_occupations")
            return Occ(self.events, "phocc", 9)

        def calc_bond_entropy(self):
            self._maybe_fail("calc_bond_entropy")
            return "entropy"

    for exact in (False, True):
        for with_props in (False, True):
            for fail in (None, "expectation", "e_occupations", "ph_occupations", "calc_bond_entropy"):
                events = []
                tp2 = ThermalProp(MpDm.max_entangled_gs(model), exact=exact,
                                  properties=StubProps(events) if with_props else None)
                n0 = (len(tp2.energies), len(tp2._e_occupations_array),
                      len(tp2._ph_occupations_array), len(tp2._vn_entropy_array))
                cap = with_log_capture(events)
                try:
                    ret = tp2.process_mps(StubMps(events, fail))
                    events.append(f"ret={ret!r}")
                except Exception as e:  # noqa
                    events.append(f"EXC {type(e).__name__} {e}")
                finally:
                    release_log_capture(*cap)
                n1 = (len(tp2.energies), len(tp2._e_occupations_array),
                      len(tp2._ph_occupations_array), len(tp2._vn_entropy_array))
                emit(f"C-stub-exact{exact}-props{with_props}-fail{fail}", n0, n1, events)

    # init_mps: idempotence and expansion
    np.random.seed(11)
    for method, auto in ((EvolveMethod.tdvp_ps, True), (EvolveMethod.tdvp_ps, False),
                         (EvolveMethod.prop_and_compress, True)):
        init_mpdm = MpDm.max_entangled_ex(model)
        init_mpdm.compress_config.bond_dim_max_value = 5
        tp3 = ThermalProp(init_mpdm, evolve_config=EvolveConfig(method), auto_expand=auto)
        emit(f"C-init-{method.name}-{auto}", tp3.latest_mps.bond_dims,
             tp3.latest_mps is tp3.init_mpdm, len(tp3.energies), rnd(tp3.energies, 8).tolist())


if __name__ == "__main__":
    section_from_mps()
    section_evolve()
    section_thermalprop()
    emit("TOTAL", len(OUT), hashlib.md5("\n".join(OUT).encode()).hexdigest())
