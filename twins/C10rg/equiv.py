# -*- coding: utf-8 -*-
# Equivalence check for the C10rg refactoring:
#   ThermalProp.init_mps, ThermalProp.evolve_exact, MpDm.max_entangled_ex, Mps._evolve_tdvp_ps2
import os
import sys

# the symbolic MPO construction iterates over sets of strings: fix the hash seed for a deterministic digest
if os.environ.get("PYTHONHASHSEED") != "0":
    os.environ["PYTHONHASHSEED"] = "0"
    os.execv(sys.executable, [sys.executable] + sys.argv)

import hashlib
import logging

import numpy as np

from renormalizer.model import Phonon, Mol, HolsteinModel, Model
from renormalizer.mps import Mps, Mpo, MpDm, ThermalProp
from renormalizer.utils import (
    Quantity,
    EvolveConfig,
    EvolveMethod,
    CompressConfig,
    CompressCriteria,
    OFS,
)

logging.disable(logging.CRITICAL)
np.set_printoptions(precision=9, suppress=False, linewidth=200)


def rnd(x, n=9):
    x = np.asarray(x)
    if np.iscomplexobj(x):
        return (np.round(x.real, n) + 0.0) + 1j * (np.round(x.imag, n) + 0.0)
    if x.dtype.kind in "iub":
        return x
    return np.round(x.astype(float), n) + 0.0


def sha(x):
    x = np.ascontiguousarray(np.asarray(x))
    return hashlib.sha1(x.tobytes()).hexdigest()[:12] + f"/{x.dtype}/{x.shape}"


def show(tag, x):
    print(f"{tag}: {rnd(x).tolist()}")


def mp_digest(tag, mp, dense=True):
    print(f"--- {tag}")
    print("type", type(mp).__name__, "len", len(mp), "bond", list(mp.bond_dims), "pbond", list(mp.pbond_list))
    print("dtype", [str(m.dtype) for m in mp], "is_complex", mp.is_complex)
    print("to_right", mp.to_right, "qnidx", mp.qnidx, "qntot", np.asarray(mp.qntot).tolist())
    print("qn", [np.asarray(q).tolist() for q in mp.qn])
    show("coeff", mp.coeff)
    for i, m in enumerate(mp):
        arr = np.asarray(m.array)
        print(" site", i, arr.shape, sha(arr), "absum", float(np.round(np.abs(arr).sum(), 9)))
    if dense:
        d = mp.todense()
        print("dense", sha(d))
        show("dense-abs-sorted-head", np.sort(np.abs(np.asarray(d)).ravel())[::-1][:8])
    show("e_occ", mp.e_occupations)
    show("ph_occ", mp.ph_occupations)
    show("norm", mp.mp_norm)


# --------------------------------------------------------------------------------------
# models
# --------------------------------------------------------------------------------------
def holstein(nsites, nlevels, scheme, j=0.7, omega=1.0, dis=1.0, e0=0.0, nph=1):
    phs = [Phonon.simple_phonon(Quantity(omega * (1 + 0.3 * k)), Quantity(dis / (1 + k)), nlevels) for k in range(nph)]
    mol = Mol(Quantity(e0), phs)
    return HolsteinModel([mol] * nsites, Quantity(j), scheme)


m3 = holstein(3, 2, 3)
m2 = holstein(2, 3, 2, e0=0.4, nph=2)
m1 = holstein(3, 3, 1, j=0.3)
m4 = m3.switch_scheme(4)
m_single = holstein(1, 3, 2, e0=0.2, nph=2)
m_general = Model(m3.basis, m3.ham_terms)


class SubMpDm(MpDm):
    pass


# --------------------------------------------------------------------------------------
# A. MpDm.max_entangled_ex
# --------------------------------------------------------------------------------------
print("=" * 30, "A max_entangled_ex")
for name, mdl in [("m3", m3), ("m2", m2), ("m1", m1), ("m4", m4), ("m_single", m_single), ("m_general", m_general)]:
    for kwargs in [dict(), dict(normalize=True), dict(normalize=False), dict(normalize=0), dict(normalize="yes")]:
        mpdm = MpDm.max_entangled_ex(mdl, **kwargs)
        mp_digest(f"max_entangled_ex {name} {kwargs}", mpdm)
        print('model is', mpdm.model is mdl)
mpdm = SubMpDm.max_entangled_ex(m3, False)
mp_digest("max_entangled_ex subclass positional", mpdm)
print("subclass type", type(mpdm).__name__)
# electron-free model -> exception is part of the behaviour
try:
    from renormalizer.model import basis as ba, Op
    m_noe = Model([ba.BasisSHO("v0", 1.0, 3), ba.BasisSHO("v1", 1.3, 2)], [Op("b^\\dagger b", "v0"), Op("b^\\dagger b", "v1")])
    MpDm.max_entangled_ex(m_noe)
    print("no-electron: no exception")
except Exception as e:  # noqa
    print("no-electron:", type(e).__name__, str(e))


# --------------------------------------------------------------------------------------
# B. ThermalProp.init_mps / evolve_exact
# --------------------------------------------------------------------------------------
print("=" * 30, "B ThermalProp")


def tp_digest(tag, tp):
    print(f"--- {tag}")
    show("energies", tp.energies)
    show("times", tp.evolve_times)
    if not tp.exact:
        show("e_occ_arr", tp.e_occupations_array)
        show("ph_occ_arr", tp.ph_occupations_array)
        show("vn", tp.vn_entropy_array)
    mp_digest(tag + " latest", tp.latest_mps, dense=False)


configs = [
    ("pc", lambda: EvolveConfig(EvolveMethod.prop_and_compress), 1),
    ("ps1-krylov", lambda: EvolveConfig(EvolveMethod.tdvp_ps), 1),
    ("ps2-krylov", lambda: EvolveConfig(EvolveMethod.tdvp_ps2, ivp_solver="krylov"), 2),
    ("ps2-rk45", lambda: EvolveConfig(EvolveMethod.tdvp_ps2, ivp_solver="RK45"), 2),
    ("ps2-adaptive", lambda: EvolveConfig(EvolveMethod.tdvp_ps2, adaptive=True, guess_dt=-0.05j), 1),
]
for name, mdl in [("m3", m3), ("m2", m2)]:
    for cname, mk, nsteps in configs:
        for auto_expand in (True, False, 1, 0):
            if not isinstance(auto_expand, bool) and cname != "ps2-krylov":
                continue
            np.random.seed(2024)
            init = MpDm.max_entangled_ex(mdl)
            init.compress_config = CompressConfig(CompressCriteria.fixed, max_bonddim=6)
            ec = mk()
            tp = ThermalProp(init, evolve_config=ec, auto_expand=auto_expand)
            print("identity:", tp.init_mpdm is tp.latest_mps, tp.init_mpdm.evolve_config is ec,
                  tp.latest_mps.evolve_config is ec, tp.init_mpdm is init)
            print("init bond", list(tp.init_mpdm.bond_dims))
            # a second direct call (mutates self.init_mpdm again for tdvp + auto_expand)
            before = tp.init_mpdm
            np.random.seed(7)
            try:
                again = tp.init_mps()
                print("again:", again is tp.init_mpdm, again is before, list(again.bond_dims), again.evolve_config is ec)
                tp.latest_mps = again
            except AssertionError as e:
                print("again: AssertionError", tp.init_mpdm is before, tp.init_mpdm.evolve_config is ec)
            tp.evolve(evolve_dt=-0.2j, nsteps=nsteps)
            tp_digest(f"ThermalProp {name} {cname} auto_expand={auto_expand!r}", tp)

# different Hamiltonian model than the state's model, default evolve_config
np.random.seed(11)
init = MpDm.max_entangled_ex(m3)
tp = ThermalProp(init, h_mpo_model=holstein(3, 2, 3, j=0.2, e0=0.5))
print("default config identity", tp.init_mpdm.evolve_config is tp.evolve_config)
tp.evolve(evolve_dt=-0.1j, nsteps=2)
tp_digest("ThermalProp other h model", tp)

# exact propagation
for name, mdl in [("m3", m3), ("m2", m2), ("m1", m1), ("m4", m4), ("m_single", m_single)]:
    for space in ("GS", "EX"):
        for which in ("gs", "ex"):
            np.random.seed(5)
            init = MpDm.max_entangled_gs(mdl) if which == "gs" else MpDm.max_entangled_ex(mdl)
            tp = ThermalProp(init, exact=True, space=space)
            print("identity:", tp.init_mpdm is tp.latest_mps, list(tp.init_mpdm.bond_dims))
            tp.evolve(evolve_dt=-0.15j, nsteps=3)
            tp_digest(f"exact {name} {space} {which}", tp)
            # direct calls with unusual time steps; must not touch the job's state
            old = tp.latest_mps
            old_dense = old.todense().copy()
            n_energy = len(tp.energies)
            for dt in (-0.3j, 0.25 - 0.1j, 0.2j, complex(0.5, 0.0), np.complex128(-1e-3j)):
                new = tp.evolve_exact(old, dt)
                mp_digest(f"evolve_exact direct {name} {space} {which} dt={dt!r}", new)
                assert new is not old
            print("untouched:", np.array_equal(old_dense, old.todense()), len(tp.energies) == n_energy,
                  tp.latest_mps is old)
            for bad in (0.3, 1):
                try:
                    tp.evolve_exact(old, bad)
                    print("bad dt", bad, "no exception")
                except Exception as e:  # noqa
                    print("bad dt", bad, type(e).__name__)

# --------------------------------------------------------------------------------------
# C. Mps._evolve_tdvp_ps2
# --------------------------------------------------------------------------------------
print("=" * 30, "C _evolve_tdvp_ps2")


def prepare(mdl, kind, to_right, seed):
    np.random.seed(seed)
    hint = Mpo(mdl)
    if kind == "mps":
        st = Mpo.onsite(mdl, r"a^\dagger", dof_set={0}) @ Mps.ground_state(mdl, False)
        st.compress_config = CompressConfig(CompressCriteria.fixed, max_bonddim=4)
        st = st.expand_bond_dimension(hint_mpo=hint)
    elif kind == "random":
        st = Mps.random(mdl, 1, 4, percent=1.0)
        st.compress_config = CompressConfig(CompressCriteria.fixed, max_bonddim=4)
    elif kind == "mpdm":
        st = MpDm.max_entangled_ex(mdl)
        st.compress_config = CompressConfig(CompressCriteria.fixed, max_bonddim=5)
        st = st.expand_bond_dimension(hint_mpo=hint)
    elif kind == "sum":
        a = Mpo.onsite(mdl, r"a^\dagger", dof_set={0}) @ Mps.ground_state(mdl, False)
        b = Mpo.onsite(mdl, r"a^\dagger", dof_set={mdl.e_dofs[-1]}) @ Mps.ground_state(mdl, False)
        st = a + b.scale(0.5 - 0.25j)
        st.compress_config = CompressConfig(CompressCriteria.threshold, threshold=1e-6)
    st = st.canonicalise()
    if st.to_right != to_right:
        st.ensure_left_canonical() if to_right is False else st.ensure_right_canonical()
        st.to_right = to_right
        st.qnidx = st.qnidx  # untouched
        if to_right:
            st.move_qnidx(0)
        else:
            st.move_qnidx(len(st) - 1)
    return st


def ps2_case(tag, mdl, kind, to_right, ec, dt, seed=3, offset=0.1, nrepeat=1, ofs=None, direct=False):
    st = prepare(mdl, kind, to_right, seed)
    if ofs is not None:
        st.model = Model(st.model.basis, st.model.ham_terms)
        st.compress_config = CompressConfig(CompressCriteria.fixed, max_bonddim=4, ofs=ofs)
    st.evolve_config = ec
    mpo = Mpo(st.model, offset=Quantity(offset))
    in_digest = [sha(np.asarray(m.array)) for m in st]
    in_flags = (st.to_right, st.qnidx, list(st.bond_dims))
    cur = st
    try:
        for _ in range(nrepeat):
            if direct:
                cur = cur._evolve_tdvp_ps2(mpo, dt)
            else:
                cur = cur.evolve(mpo, dt)
    except Exception as e:  # noqa
        print(f"--- {tag}: EXC {type(e).__name__} {e}")
        return
    mp_digest(tag, cur, dense=len(cur) <= 6 and not cur.is_mpdm)
    show("energy", cur.expectation(mpo))
    stat = cur.evolve_config.stat
    print("stat", None if stat is None else (stat.nobs, stat.minmax, round(float(stat.mean), 9)))
    print("guess_dt", cur.evolve_config.guess_dt)
    print("input untouched:", in_digest == [sha(np.asarray(m.array)) for m in st],
          in_flags == (st.to_right, st.qnidx, list(st.bond_dims)), "same cfg obj", cur.evolve_config is ec)
    print("mpo bond", list(mpo.bond_dims))


dts = [("real", 0.3), ("imag", -0.25j), ("negreal", -0.2), ("mixed", 0.2 - 0.15j), ("czero", complex(0.3, 0.0)),
       ("posimag", 0.1j), ("npc", np.complex128(-0.2j)), ("npf", np.float64(0.15))]
for solver in ("krylov", "RK45", "RK23"):
    for kind in ("mps", "mpdm", "random", "sum"):
        for to_right in (True, False):
            for dname, dt in dts:
                if solver == "RK23" and (kind != "mps" or dname not in ("real", "imag")):
                    continue
                if kind in ("random", "sum") and dname not in ("real", "imag", "mixed"):
                    continue
                mdl = m3 if kind != "mpdm" else m2
                if kind == "mpdm" and dname not in ("real", "imag", "mixed", "czero"):
                    continue
                ec = EvolveConfig(EvolveMethod.tdvp_ps2, ivp_solver=solver)
                ps2_case(f"ps2 {solver} {kind} to_right={to_right} {dname}", mdl, kind, to_right, ec, dt,
                         nrepeat=2 if dname in ("real", "imag") else 1)

# direct call of the decorated method, two-site chain (single sweep position), scheme 4 and scheme 1
for solver in ("krylov", "RK45"):
    for dname, dt in (("real", 0.3), ("imag", -0.25j)):
        ec = EvolveConfig(EvolveMethod.tdvp_ps2, ivp_solver=solver)
        ps2_case(f"ps2 direct m4 {solver} {dname}", m4, "mps", True, ec, dt, direct=True)
        ec = EvolveConfig(EvolveMethod.tdvp_ps2, ivp_solver=solver)
        ps2_case(f"ps2 direct m1 {solver} {dname}", m1, "mps", False, ec, dt, direct=True)
        ec = EvolveConfig(EvolveMethod.tdvp_ps2, ivp_solver=solver, ivp_rtol=1e-3, ivp_atol=1e-5)
        ps2_case(f"ps2 loose tol {solver} {dname}", m3, "random", True, ec, dt, direct=True)
    # adaptive
    ec = EvolveConfig(EvolveMethod.tdvp_ps2, ivp_solver=solver, adaptive=True, guess_dt=0.1)
    ps2_case(f"ps2 adaptive real {solver}", m3, "mps", True, ec, 0.3)
    ec = EvolveConfig(EvolveMethod.tdvp_ps2, ivp_solver=solver, adaptive=True, guess_dt=-0.1j)
    ps2_case(f"ps2 adaptive imag {solver}", m2, "mpdm", True, ec, -0.3j)
    # adaptive with incompatible dt -> exception from the decorator
    ec = EvolveConfig(EvolveMethod.tdvp_ps2, ivp_solver=solver, adaptive=True, guess_dt=0.1)
    ps2_case(f"ps2 adaptive incompatible {solver}", m3, "mps", True, ec, -0.3j)
    # on-the-fly swapping
    for ofs in (OFS.ofs_s, OFS.ofs_d):
        for dname, dt in (("real", 0.3), ("imag", -0.25j)):
            ec = EvolveConfig(EvolveMethod.tdvp_ps2, ivp_solver=solver)
            ps2_case(f"ps2 ofs {ofs} {solver} {dname}", m3, "mps", True, ec, dt, ofs=ofs, nrepeat=2)
# array valued dt: the exception is behaviour too
ec = EvolveConfig(EvolveMethod.tdvp_ps2)
ps2_case("ps2 array dt", m3, "mps", True, ec, np.array([0.1, 0.2j]), direct=True)
ec = EvolveConfig(EvolveMethod.tdvp_ps2, ivp_solver="nonsense")
ps2_case("ps2 bad solver real", m3, "mps", True, ec, 0.1, direct=True)
ec = EvolveConfig(EvolveMethod.tdvp_ps2, ivp_solver="nonsense")
ps2_case("ps2 bad solver imag", m3, "mps", True, ec, -0.1j, direct=True)
print("done")
