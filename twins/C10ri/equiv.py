# -*- coding: utf-8 -*-
"""Equivalence check for the C10ri refactoring.

Exercises
    Mps.evolve, MpDm.evolve_exact, ThermalProp.process_mps (and the thermal
    propagation drivers that call it), TTNS.evolve
on deterministic inputs and prints a digest.
"""
import os
import sys

_HERE = os.path.dirname(os.path.abspath(__file__))
if _HERE not in sys.path:
    # the stub module ``print_tree`` lives next to this file
    sys.path.insert(0, _HERE)

import logging
import random
import hashlib
import warnings

warnings.filterwarnings("ignore")

import numpy as np

import renormalizer  # noqa: F401  (initialises logging / seeds)

logging.disable(logging.NOTSET)
logging.getLogger("renormalizer").setLevel(logging.WARNING)

from renormalizer.model import Phonon, Mol, HolsteinModel
from renormalizer.mps import Mps, Mpo, MpDm, ThermalProp
from renormalizer.mps.mps import expand_bond_dimension_general
from renormalizer.property import Property
from renormalizer.utils import (
    Quantity,
    EvolveConfig,
    EvolveMethod,
    CompressConfig,
    CompressCriteria,
)
from renormalizer.tn import BasisTree, TTNO, TTNS
from renormalizer.tn.tree import from_mps
from renormalizer.tn.utils_eph import max_entangled_ex as ttn_max_entangled_ex
from renormalizer.model import Op


ND = 6  # alignment dependent BLAS noise (1e-16) is amplified to ~1e-10 by the adaptive integrators


def seed(i=0):
    np.random.seed(1234 + i)
    random.seed(4321 + i)


def rnd(x, nd=None):
    """deterministic textual form of a number / array"""
    ND = nd if nd is not None else globals()["ND"]
    a = np.asarray(x)
    if a.dtype == object:
        return repr(x)
    if np.iscomplexobj(a):
        a = np.round(a.real, ND) + 1j * np.round(a.imag, ND)
        a = a + (0.0 + 0.0j)  # kill negative zeros
    else:
        a = np.round(a.astype(float), ND) + 0.0
    return np.array2string(a, precision=ND, separator=",", threshold=10 ** 6, max_line_width=10 ** 6).replace("\n", "")


def arr_hash(a):
    a = np.asarray(a)
    if np.iscomplexobj(a):
        b = np.stack([np.round(a.real, 6), np.round(a.imag, 6)]) + 0.0
    else:
        b = np.round(a.astype(float), 6) + 0.0
    return hashlib.md5(np.ascontiguousarray(b).tobytes()).hexdigest()[:12] + str(a.shape) + str(a.dtype)


def out(*args):
    print(*args)


def make_model(nmols=2, nlev=(3, 2), scheme=2):
    omega = [Quantity(0.012), Quantity(0.031)]
    disp = [Quantity(1.3), Quantity(-0.7)]
    ph_list = [
        Phonon([w, w], [Quantity(0), d], n) for w, d, n in zip(omega, disp, nlev)
    ]
    j = np.zeros((nmols, nmols))
    for i in range(nmols - 1):
        j[i, i + 1] = j[i + 1, i] = -0.02 * (i + 1)
    mol = Mol(Quantity(0.05), ph_list, 1.5)
    return HolsteinModel([mol] * nmols, j, scheme)


def mp_digest(mp, h_mpo=None):
    items = [
        type(mp).__name__,
        "dtype=%s" % mp.dtype,
        "bond=%s" % list(mp.bond_dims),
        "coeff=%s" % rnd(mp.coeff),
        "qntot=%s" % rnd(mp.qntot),
        "qnidx=%s" % mp.qnidx,
        "to_right=%s" % mp.to_right,
        "norm=%s" % rnd(mp.mp_norm),
    ]
    if h_mpo is not None:
        items.append("e=%s" % rnd(mp.expectation(h_mpo)))
    if mp.site_num <= 8 and not mp.is_mpdm:
        d = mp.todense()
        items.append("dense=%s" % arr_hash(np.abs(d)))
    items.append("eocc=%s" % rnd(mp.e_occupations))
    items.append("phocc=%s" % rnd(mp.ph_occupations))
    return " ".join(items)


def safe(label, fn):
    if os.environ.get("EQ_TRACE"):
        sys.stderr.write("RUN %s\n" % label)
    try:
        res = fn()
    except BaseException as e:  # noqa
        out(label, "EXC", type(e).__name__, repr(e)[:200])
        return None
    return res


# ---------------------------------------------------------------------------
# 1. Mps.evolve
# ---------------------------------------------------------------------------
def check_mps_evolve():
    out("== Mps.evolve")
    model = make_model()
    tentative = Mpo(model)
    seed(0)
    init_mps = Mpo.onsite(model, r"a^\dagger", dof_set={0}) @ Mps.ground_state(model, False)
    init_mps = init_mps.expand_bond_dimension(hint_mpo=tentative)
    init_mpdm = MpDm.from_mps(init_mps).expand_bond_dimension(hint_mpo=tentative)
    e = init_mps.expectation(tentative)
    mpo = Mpo(model, offset=Quantity(e))
    mpo0 = Mpo(model)

    configs = []
    configs.append(("pc", lambda: EvolveConfig(EvolveMethod.prop_and_compress)))
    configs.append(("pc_adaptive", lambda: EvolveConfig(EvolveMethod.prop_and_compress, adaptive=True, guess_dt=0.05)))
    configs.append(("tdrk4", lambda: EvolveConfig(EvolveMethod.prop_and_compress_tdrk4)))
    configs.append(("tdrk", lambda: EvolveConfig(EvolveMethod.prop_and_compress_tdrk)))
    configs.append(("ps", lambda: EvolveConfig(EvolveMethod.tdvp_ps)))
    configs.append(("ps2", lambda: EvolveConfig(EvolveMethod.tdvp_ps2)))
    configs.append(("vmf", lambda: EvolveConfig(EvolveMethod.tdvp_vmf, ivp_rtol=1e-4, ivp_atol=1e-7, reg_epsilon=1e-8)))
    configs.append(("mu_vmf", lambda: EvolveConfig(EvolveMethod.tdvp_mu_vmf, ivp_rtol=1e-4, ivp_atol=1e-7, reg_epsilon=1e-8)))
    configs.append(("mu_cmf", lambda: EvolveConfig(EvolveMethod.tdvp_mu_cmf, ivp_rtol=1e-4, ivp_atol=1e-7)))

    dts = [0.3, -0.2, -0.25j, complex(0.2, 0.0), 0.1 - 0.15j, np.float64(0.15), np.complex128(-0.1j)]

    for state_name, state in (("mps", init_mps), ("mpdm", init_mpdm)):
        for cname, cfn in configs:
            for idt, dt in enumerate(dts):
                if state_name == "mpdm" and idt not in (0, 2):
                    continue
                if cname in ("pc_adaptive", "tdrk", "vmf", "mu_vmf", "mu_cmf") and idt not in (0, 2, 3):
                    continue
                if state_name == "mpdm" and cname == "mu_cmf" and idt == 2:
                    # does not terminate on the unchanged tree either
                    continue
                for normalize in (True, False):
                    if state_name == "mpdm" and not normalize and cname not in ("pc", "ps"):
                        continue
                    seed(1)
                    mps = state.copy()
                    mps.evolve_config = cfn()
                    mps.compress_config = CompressConfig(CompressCriteria.fixed, max_bonddim=8)
                    mps.coeff = 0.6 - 0.8j if idt % 2 else 1
                    before = mp_digest(mps)
                    label = "%s %s dt=%r norm=%s" % (state_name, cname, complex(dt), normalize)

                    def run():
                        if normalize:
                            return mps.evolve(mpo, dt)
                        return mps.evolve(mpo, dt, normalize=False)

                    new = safe(label, run)
                    if new is None:
                        continue
                    out(label, "->", mp_digest(new, mpo0))
                    out("   self untouched:", before == mp_digest(mps), "is self:", new is mps,
                        "cfg shared:", new.evolve_config is mps.evolve_config)

    # keyword / positional call styles, two consecutive steps
    seed(2)
    mps = init_mps.copy()
    mps.evolve_config = EvolveConfig(EvolveMethod.tdvp_ps)
    a = mps.evolve(mpo=mpo, evolve_dt=-0.1j, normalize=True).evolve(mpo, 0.2, True)
    out("two steps", mp_digest(a, mpo0))

    # time dependent mpo (callable) for tdrk4
    seed(3)
    mps = init_mps.copy()
    mps.evolve_config = EvolveConfig(EvolveMethod.prop_and_compress_tdrk4)
    mps.compress_config = CompressConfig(CompressCriteria.fixed, max_bonddim=8)
    a = safe("callable", lambda: mps.evolve(lambda t, *args, **kw: mpo, 0.2))
    if a is not None:
        out("callable mpo", mp_digest(a, mpo0))
    safe("bad mpo", lambda: mps.evolve("nonsense", 0.2))

    # unknown / unsupported methods
    for bad in ("no such method", None, 3):
        mps = init_mps.copy()
        mps.evolve_config = EvolveConfig(EvolveMethod.tdvp_ps)
        mps.evolve_config.method = bad
        safe("bad method %r" % (bad,), lambda: mps.evolve(mpo, 0.1))
    mps = init_mps.copy()
    mps.evolve_config = None
    safe("no config", lambda: mps.evolve(mpo, 0.1))
    # array valued time step: truth value is ambiguous only when normalising
    mps = init_mps.copy()
    mps.evolve_config = EvolveConfig(EvolveMethod.tdvp_ps)
    safe("array dt", lambda: mps.evolve(mpo, np.array([0.1, 0.2])))
    safe("str dt", lambda: mps.evolve(mpo, "0.1"))


# ---------------------------------------------------------------------------
# 2. MpDm.evolve_exact
# ---------------------------------------------------------------------------
def check_evolve_exact():
    out("== MpDm.evolve_exact")
    for scheme in (2, 4):
        model = make_model(nmols=2, nlev=(3, 2), scheme=scheme)
        h0 = Mpo(model)
        states = [
            ("gs", MpDm.max_entangled_gs(model)),
            ("ex", MpDm.max_entangled_ex(model)),
            ("ex_unnorm", MpDm.max_entangled_ex(model, normalize=False)),
        ]
        offsets = [Quantity(0), Quantity(0.37), Quantity(-1.2), Quantity(0.5, "eV")]
        dts = [0.7, -0.4, -0.5j, 0.3 - 0.2j, complex(0.25, 0), 0, np.float64(1.5), 30.0]
        for sname, state in states:
            for ioff, off in enumerate(offsets):
                h_mpo = Mpo(model, offset=off)
                for idt, dt in enumerate(dts):
                    for space in ("GS", "EX"):
                        if (ioff + idt) % 2 and sname == "ex_unnorm":
                            continue
                        mpdm = state.copy()
                        mpdm.coeff = (0.3 + 0.4j) if idt % 3 == 1 else 1
                        before = mp_digest(mpdm)
                        label = "s%d %s off=%s dt=%r %s" % (scheme, sname, rnd(h_mpo.offset), complex(dt), space)
                        new = safe(label, lambda: mpdm.evolve_exact(h_mpo, dt, space))
                        if new is None:
                            continue
                        out(label, "->", mp_digest(new, h0),
                            "coefftype=%s" % type(new.coeff).__name__,
                            "dense=%s" % arr_hash(new.todense()),
                            "qn=%s" % hashlib.md5(repr([np.asarray(q).tolist() for q in new.qn]).encode()).hexdigest()[:8])
                        out("   self untouched:", before == mp_digest(mpdm), new is mpdm)
        # keyword call, invalid space, invalid time step
        mpdm = states[0][1].copy()
        h_mpo = Mpo(model, offset=Quantity(0.1))
        new = safe("kw imag", lambda: mpdm.evolve_exact(h_mpo=h_mpo, evolve_dt=-0.2j, space="GS"))
        new = safe("kw", lambda: mpdm.evolve_exact(h_mpo=h_mpo, evolve_dt=0.2, space="EX"))
        out("kw", mp_digest(new, h0))
        safe("bad space", lambda: mpdm.evolve_exact(h_mpo, 0.1, "XX"))
        safe("bad dt", lambda: mpdm.evolve_exact(h_mpo, "0.1", "GS"))
        safe("none dt", lambda: mpdm.evolve_exact(h_mpo, None, "GS"))
        safe("bad h", lambda: mpdm.evolve_exact(None, 0.1, "GS"))
        # base class method for comparison (not changed, but shares the propagator)
        mps = Mps.ground_state(model, max_entangled=False)
        new = mps.evolve_exact(h_mpo, 0.3, "GS")
        out("mps exact", mp_digest(new, h0))


# ---------------------------------------------------------------------------
# 3. ThermalProp.process_mps (+ drivers)
# ---------------------------------------------------------------------------
class ListHandler(logging.Handler):
    def __init__(self):
        super().__init__(level=logging.DEBUG)
        self.records = []

    def emit(self, record):
        self.records.append("%s:%s" % (record.levelname, record.getMessage()))


class RecorderMps:
    """stands in for an MpDm and records the order of the calls"""

    def __init__(self, trace, fail=None):
        self.trace = trace
        self.fail = fail

    def _hit(self, name):
        self.trace.append(name)
        if self.fail == name:
            raise RuntimeError("fail in " + name)

    def expectation(self, mpo, *args, **kwargs):
        self._hit("expectation(%s,%d,%s)" % (type(mpo).__name__, len(args), sorted(kwargs)))
        return 0.125

    def expectations(self, mpos, *args, **kwargs):
        self._hit("expectations(%d)" % len(mpos))
        return np.arange(len(mpos)) * 0.5

    @property
    def e_occupations(self):
        self._hit("e_occupations")
        return np.array([0.25, 0.5, 0.125])

    @property
    def ph_occupations(self):
        self._hit("ph_occupations")
        return np.array([1.5, 2.5])

    def calc_bond_entropy(self, *args, **kwargs):
        self._hit("calc_bond_entropy(%d,%s)" % (len(args), sorted(kwargs)))
        return np.array([0.1, 0.2, 0.3])

    def calc_edof_rdm(self):
        self._hit("calc_edof_rdm")
        return np.eye(2)


def tp_digest(tp):
    items = [
        "energies=%s" % rnd(tp.energies),
        "eocc=%s" % rnd(tp.e_occupations_array),
        "phocc=%s" % rnd(tp.ph_occupations_array),
        "vn=%s" % rnd(tp.vn_entropy_array, 5),  # entropies of tiny singular values: noisy in the last digits
        "times=%s" % rnd(tp.evolve_times_array),
    ]
    if tp.properties is not None:
        for k in sorted(tp.properties.prop_res):
            items.append("prop[%s]=%s" % (k, rnd(np.array(tp.properties.prop_res[k]))))
    dd = tp.get_dump_dict()
    items.append("dump_keys=%s" % sorted(dd))
    return " ".join(items)


def check_thermal_prop():
    out("== ThermalProp")
    model = make_model(nmols=2, nlev=(3, 2))
    h0 = Mpo(model)
    tp_logger = logging.getLogger("renormalizer.mps.thermalprop")
    handler = ListHandler()
    tp_logger.addHandler(handler)
    tp_logger.setLevel(logging.DEBUG)
    tp_logger.propagate = False

    def make_props():
        return Property(
            ["n", "h", "e_rdm"],
            {"n": [Mpo(model, Op(r"a^\dagger a", d)) for d in model.e_dofs], "h": Mpo(model)},
        )

    beta = Quantity(600, "K").to_beta()
    cases = [
        ("exact GS", dict(exact=True, space="GS"), "gs", 3),
        ("exact EX", dict(exact=True, space="EX"), "ex", 3),
        ("exact GS + props", dict(exact=True, space="GS", properties=make_props()), "gs", 2),
        ("pc", dict(evolve_config=EvolveConfig(EvolveMethod.prop_and_compress)), "ex", 3),
        ("pc + props", dict(evolve_config=EvolveConfig(EvolveMethod.prop_and_compress), properties=make_props()), "ex", 2),
        ("ps", dict(evolve_config=EvolveConfig(EvolveMethod.tdvp_ps)), "ex", 3),
        ("ps noexpand + props", dict(evolve_config=EvolveConfig(EvolveMethod.tdvp_ps), auto_expand=False, properties=make_props()), "ex", 2),
        ("ps2 gs", dict(evolve_config=EvolveConfig(EvolveMethod.tdvp_ps2)), "gs", 2),
        ("tdrk4", dict(evolve_config=EvolveConfig(EvolveMethod.prop_and_compress_tdrk4)), "ex", 2),
        ("other h model", dict(h_mpo_model=make_model(nmols=2, nlev=(3, 2)), evolve_config=EvolveConfig(EvolveMethod.tdvp_ps)), "ex", 2),
    ]
    for name, kwargs, init, nsteps in cases:
        seed(5)
        handler.records.clear()
        if init == "gs":
            mpdm = MpDm.max_entangled_gs(model)
        else:
            mpdm = MpDm.max_entangled_ex(model)
        mpdm.compress_config = CompressConfig(CompressCriteria.fixed, max_bonddim=10)

        def run():
            tp = ThermalProp(mpdm, **kwargs)
            out(name, "init", tp_digest(tp))
            tp.evolve(evolve_dt=beta / 2j / nsteps, nsteps=nsteps)
            return tp

        tp = safe(name, run)
        if tp is None:
            continue
        out(name, "final", tp_digest(tp))
        out(name, "latest", mp_digest(tp.latest_mps, h0))
        # a direct extra call: return value and what gets appended
        ret = tp.process_mps(tp.latest_mps)
        out(name, "ret", ret, "n=", len(tp.energies), len(tp._e_occupations_array),
            len(tp._ph_occupations_array), len(tp._vn_entropy_array))
        # single steps through the two drivers
        one = tp.evolve_single_step(-0.5j)
        out(name, "single", mp_digest(one, h0))
        one = tp.evolve_prop(tp.latest_mps, -0.25j) if not tp.exact else tp.evolve_exact(tp.latest_mps, -0.25j)
        out(name, "driver", mp_digest(one, h0))
        logs = [r for r in handler.records if "Bond dim" not in r]
        out(name, "nlogs", len(handler.records), hashlib.md5("\n".join(
            [r.split(":")[0] + ":" + r.split(":")[1][:14] for r in logs]).encode()).hexdigest()[:10])

    # order of calls / of log records with a recording stand-in
    mpdm = MpDm.max_entangled_ex(model)
    for exact in (True, False):
        for props in (None, make_props()):
            for fail in (None, "e_occupations", "ph_occupations", "calc_bond_entropy(0,[])",
                         "expectation(Mpo,0,[])", "calc_edof_rdm"):
                tp = ThermalProp(mpdm.copy(), exact=exact, properties=props,
                                 evolve_config=EvolveConfig(EvolveMethod.tdvp_ps))
                n0 = (len(tp.energies), len(tp._e_occupations_array), len(tp._ph_occupations_array),
                      len(tp._vn_entropy_array))
                handler.records.clear()
                trace = []
                rec = RecorderMps(trace, fail)
                label = "recorder exact=%s props=%s fail=%s" % (exact, props is not None, fail)
                try:
                    ret = tp.process_mps(rec)
                    res = "ret=%r" % (ret,)
                except RuntimeError as e:
                    res = "EXC %s" % e
                n1 = (len(tp.energies), len(tp._e_occupations_array), len(tp._ph_occupations_array),
                      len(tp._vn_entropy_array))
                out(label, res, "trace=", trace, "counts", n0, n1, "logs=", handler.records)
                if props is not None:
                    out("   props", {k: len(v) for k, v in sorted(props.prop_res.items())})
                out("   last", [rnd(x[-1]) if x else None for x in (
                    tp.energies, tp._e_occupations_array, tp._ph_occupations_array, tp._vn_entropy_array)])
                # the stored objects are the very objects returned by the state
    tp_logger.removeHandler(handler)

    # argument checks of ThermalProp.evolve (unchanged, but drives everything)
    tp = ThermalProp(MpDm.max_entangled_gs(model), exact=True)
    safe("real dt", lambda: tp.evolve(evolve_dt=0.1, nsteps=1))
    safe("positive imag dt", lambda: tp.evolve(evolve_dt=0.1j, nsteps=1))


# ---------------------------------------------------------------------------
# 4. TTNS.evolve
# ---------------------------------------------------------------------------
def ttns_digest(ttns, ttno=None, ops=()):
    items = [
        "dtype=%s" % sorted(set(str(n.tensor.dtype) for n in ttns.node_list)),
        "bond=%s" % list(ttns.bond_dims),
        "coeff=%s" % rnd(ttns.coeff),
        "norm=%s" % rnd(ttns.ttns_norm),
    ]
    if ttno is not None:
        items.append("e=%s" % rnd(ttns.expectation(ttno)))
    items.append("ops=%s" % rnd([ttns.expectation(o) for o in ops]))
    return " ".join(items)


def check_ttns_evolve():
    out("== TTNS.evolve")
    model = make_model(nmols=2, nlev=(3, 2), scheme=3) if False else make_model(nmols=2, nlev=(3, 2))
    seed(7)
    init_mps = Mpo.onsite(model, r"a^\dagger", dof_set={0}) @ Mps.ground_state(model, False)
    init_mps = init_mps.expand_bond_dimension(hint_mpo=Mpo(model))

    basis, chain, chain_ttno = from_mps(init_mps)
    chain_ops = [TTNO(basis, [Op(r"a^\dagger a", d)]) for d in model.e_dofs]

    tree_basis = BasisTree.binary_mctdh(model.basis)
    tree_ttno = TTNO(tree_basis, model.ham_terms)
    tree_ops = [TTNO(tree_basis, [Op(r"a^\dagger a", d)]) for d in model.e_dofs]
    seed(8)
    tree = TTNS(tree_basis, {model.e_dofs[0]: 1})
    tree = tree + TTNS.random(tree_basis, 1, 4).scale(1e-3, inplace=True)
    tree.canonicalise()

    # purified tree with auxiliary space
    pbasis = BasisTree.binary_mctdh(model.basis, contract_primitive=True)
    pbasis2 = pbasis.add_auxiliary_space()
    thermal = ttn_max_entangled_ex(pbasis2)
    thermal.compress_config.bond_dim_max_value = 6
    p_ttno = TTNO(pbasis, model.ham_terms)
    seed(9)
    thermal = expand_bond_dimension_general(thermal, hint_mpo=p_ttno)
    p_ops = [TTNO(pbasis, [Op(r"a^\dagger a", d)]) for d in model.e_dofs]

    configs = [
        ("ps", lambda: EvolveConfig(EvolveMethod.tdvp_ps)),
        ("ps2", lambda: EvolveConfig(EvolveMethod.tdvp_ps2)),
        ("pc4", lambda: EvolveConfig(EvolveMethod.prop_and_compress_tdrk4)),
        ("vmf", lambda: EvolveConfig(EvolveMethod.tdvp_vmf, ivp_rtol=1e-4, ivp_atol=1e-7, force_ovlp=False)),
    ]
    taus = [0.3, -0.2, -0.25j, complex(0.2, 0.0), 0.1 - 0.15j, np.float64(0.1), np.complex128(-0.05j)]
    for sname, state, ttno, ops in (
        ("chain", chain, chain_ttno, chain_ops),
        ("tree", tree, tree_ttno, tree_ops),
        ("thermal", thermal, p_ttno, p_ops),
    ):
        for cname, cfn in configs:
            for itau, tau in enumerate(taus):
                if sname == "thermal" and (itau not in (0, 2, 4) or cname == "vmf"):
                    continue
                if cname == "vmf" and itau not in (0, 2, 3):
                    continue
                for normalize in (True, False):
                    if not normalize and itau not in (0, 2):
                        continue
                    seed(10)
                    ttns = state.copy()
                    ttns.evolve_config = cfn()
                    ttns.compress_config = CompressConfig(CompressCriteria.fixed, max_bonddim=6)
                    ttns.coeff = 0.6 - 0.8j if itau % 2 else 1
                    before = ttns_digest(ttns, ttno, ops)
                    label = "%s %s tau=%r norm=%s" % (sname, cname, complex(tau), normalize)

                    def run():
                        if normalize:
                            return ttns.evolve(ttno, tau)
                        return ttns.evolve(ttno, tau, normalize=False)

                    new = safe(label, run)
                    if new is None:
                        continue
                    out(label, "->", ttns_digest(new, ttno, ops))
                    out("   self:", before == ttns_digest(ttns, ttno, ops), "is self:", new is ttns,
                        "self dtype", ttns.root.tensor.dtype)

    # keyword call, several steps in imaginary time (Gibbs state of the chain)
    seed(11)
    ttns = chain.copy()
    ttns.evolve_config = EvolveConfig(EvolveMethod.tdvp_ps)
    for i in range(3):
        ttns = ttns.evolve(ttno=chain_ttno, tau=-0.4j, normalize=True)
    out("chain 3 imag steps", ttns_digest(ttns, chain_ttno, chain_ops))

    for bad in (EvolveMethod.prop_and_compress, EvolveMethod.tdvp_mu_vmf, "nonsense", None):
        for tau in (0.1, -0.1j):
            ttns = chain.copy()
            ttns.evolve_config = EvolveConfig(EvolveMethod.tdvp_ps)
            ttns.evolve_config.method = bad
            safe("ttns bad method %r %r" % (bad, tau), lambda: ttns.evolve(chain_ttno, tau))
    ttns = chain.copy()
    ttns.evolve_config = EvolveConfig(EvolveMethod.tdvp_ps)
    safe("ttns array tau", lambda: ttns.evolve(chain_ttno, np.array([0.1, 0.2])))
    safe("ttns str tau", lambda: ttns.evolve(chain_ttno, "0.1"))
    safe("ttns none tau", lambda: ttns.evolve(chain_ttno, None))


if __name__ == "__main__":
    check_mps_evolve()
    check_evolve_exact()
    check_thermal_prop()
    check_ttns_evolve()
    out("done")
