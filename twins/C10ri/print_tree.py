"""Stub of the (not installed) third-party module ``print_tree``."""


def print_tree(*args, **kwargs):
    return None
