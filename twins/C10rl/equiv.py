import hashlib
import logging
import warnings

import numpy as np

logging.disable(logging.CRITICAL)

from renormalizer.model import Phonon, Mol, HolsteinModel
from renormalizer.mps import Mps, Mpo, MpDm, ThermalProp
from renormalizer.utils import Quantity, EvolveConfig, EvolveMethod, CompressConfig


def h(a):
    a = np.ascontiguousarray(np.asarray(a))
    return hashlib.sha1(a.tobytes()).hexdigest()[:12]


def r(a, n=9):
    a = np.asarray(a)
    if np.iscomplexobj(a):
        return np.round(a.real, n).tolist(), np.round(a.imag, n).tolist()
    return np.round(a.astype(float), n).tolist()


def fp(arr):
    # bit-exact hash for pure constructions, robust statistics for results of
    # canonicalisation / compression (last-bit noise between runs of LAPACK)
    if BITS:
        return h(arr)
    flat = np.asarray(arr).ravel()
    wgt = np.cos(1.0 + np.arange(flat.size))
    return r(flat @ wgt, 8), r((np.abs(flat) ** 2).sum(), 8)


BITS = True


def digest_mp(tag, mp):
    print(tag, type(mp).__name__, "len", len(mp), "dtype", mp.dtype, "is_complex", mp.is_complex)
    coeff = getattr(mp, "coeff", None)
    print(tag, "coeff", None if coeff is None else r(coeff), type(coeff).__name__)
    print(tag, "qnidx", mp.qnidx, "qntot", np.asarray(mp.qntot).tolist(), "to_right", mp.to_right)
    print(tag, "qn", [np.asarray(q).tolist() for q in mp.qn])
    print(tag, "qn-alias", [mp.qn[i] is mp.qn[0] for i in range(len(mp.qn))])
    for i, mt in enumerate(mp):
        arr = mt.array
        print(tag, i, arr.shape, arr.dtype, fp(arr), r(arr.sum(), 8), r(np.abs(arr).sum(), 8),
              None if mt.sigmaqn is None else h(mt.sigmaqn))


def make_model(nmols, scheme, pdims=(3, 4), j=-0.05, seed=0):
    rng = np.random.RandomState(seed)
    omegas = 0.005 + 0.01 * rng.rand(len(pdims))
    disps = 5 + 10 * rng.rand(len(pdims))
    ph_list = [
        Phonon([Quantity(w), Quantity(w)], [Quantity(0), Quantity(d)], p)
        for w, d, p in zip(omegas, disps, pdims)
    ]
    jm = np.zeros((nmols, nmols))
    for i in range(nmols - 1):
        jm[i, i + 1] = jm[i + 1, i] = j
    mols = [Mol(Quantity(0.1 + 0.01 * i), ph_list, 1.0 + i) for i in range(nmols)]
    return HolsteinModel(mols, jm, scheme)


# ---------------------------------------------------------------- exact_propagator
print("=== exact_propagator")
xs = [-0.7, 0.0, 13.0, -2.5j, 0.3 - 1.1j, np.float64(-40.0), complex(-1.5, 0.0), 1]
for scheme in [1, 2, 3, 4]:
    for nmols, pdims in [(1, (2,)), (2, (3, 4)), (3, (5,))]:
        model = make_model(nmols, scheme, pdims, seed=scheme + nmols)
        for ix, x in enumerate(xs):
            for space in ["GS", "EX"]:
                for shift in [0.0, 0.37, -1.2]:
                    if (ix + len(space) + int(shift * 10)) % 3 == 0 and nmols == 3:
                        continue
                    tag = f"EP s{scheme} n{nmols} x{ix} {space} sh{shift}"
                    try:
                        mpo = Mpo.exact_propagator(model, x, space=space, shift=shift)
                    except Exception as e:
                        print(tag, "EXC", type(e).__name__, e)
                        continue
                    arrs = [mt.array for mt in mpo]
                    print(tag, mpo.dtype, [a.shape for a in arrs], [h(a) for a in arrs],
                          mpo.qnidx, np.asarray(mpo.qntot).tolist(), len(mpo.qn),
                          all(q is mpo.qn[0] for q in mpo.qn), mpo.model is model)
model = make_model(2, 1, (3, 4), seed=5)
digest_mp("EPfull", Mpo.exact_propagator(model, -0.3 + 0.2j, "EX", 0.11))
digest_mp("EPdef", Mpo.exact_propagator(model, -0.3))
for bad in [dict(space="XX"), dict(space=None)]:
    try:
        Mpo.exact_propagator(model, -0.1, **bad)
        print("EPbad no exception")
    except Exception as e:
        print("EPbad", bad, type(e).__name__, str(e))
try:
    Mpo.exact_propagator(model, np.array([-0.1, 0.2j]))
    print("EParr no exception")
except Exception as e:
    print("EParr", type(e).__name__, str(e))
# very large argument: overflow to inf
with warnings.catch_warnings(record=True) as wl:
    warnings.simplefilter("always")
    for args in [(1e6, "EX", 2.0), (1e6, "GS", 2.0), (-1e6, "GS", 2.0), (-1e6, "EX", -2.0), (-1e6, "EX", 2.0)]:
        try:
            big = Mpo.exact_propagator(model, *args)
            print("EPbig", args, [h(mt.array) for mt in big])
        except Exception as e:
            print("EPbig", args, type(e).__name__, e)
    print("EPbig warnings", sorted((w.category.__name__, str(w.message)) for w in wl))


# ---------------------------------------------------------------- from_mps
print("=== from_mps")
np.random.seed(11)
for scheme in [1, 2, 4]:
    model = make_model(3, scheme, (3, 2), seed=scheme)
    gs = Mps.ground_state(model, max_entangled=False)
    digest_mp(f"FM gs s{scheme}", MpDm.from_mps(gs))
    me = Mps.ground_state(model, max_entangled=True)
    digest_mp(f"FM me s{scheme}", MpDm.from_mps(me))
    for nex, m in [(0, 3), (1, 5), (1, 1)]:
        np.random.seed(100 * scheme + 10 * nex + m)
        try:
            rnd = Mps.random(model, nex, m)
        except FloatingPointError as e:
            print(f"FM rnd s{scheme} q{nex} m{m} random failed", e)
            continue
        rnd.coeff = 0.5
        d1 = MpDm.from_mps(rnd)
        digest_mp(f"FM rnd s{scheme} q{nex} m{m}", d1)
        print("  indep qn", all(a is not b for a, b in zip(d1.qn, rnd.qn)),
              "cc indep", d1.compress_config is not rnd.compress_config,
              "oc same", d1.optimize_config is rnd.optimize_config,
              "ec same", d1.evolve_config is rnd.evolve_config,
              "model same", d1.model is rnd.model)
        print("  occ", r(d1.e_occupations), r(d1.ph_occupations), r(d1.norm))
        rnd2 = rnd.copy().canonicalise()
        rnd2.coeff = 0.3 - 0.4j
        digest_mp(f"FM can s{scheme} q{nex} m{m}", MpDm.from_mps(rnd2))
        rnd3 = rnd.copy()
        rnd3.ensure_left_canonical()
        digest_mp(f"FM lc s{scheme} q{nex} m{m}", MpDm.from_mps(rnd3))
        # complex mps: the imaginary part is discarded with a warning
        rnd4 = rnd.to_complex()
        for i in range(len(rnd4)):
            rnd4[i] = rnd4[i].array * np.exp(0.3j * (i + 1))
        with warnings.catch_warnings(record=True) as wl:
            warnings.simplefilter("always")
            try:
                d4 = MpDm.from_mps(rnd4)
                digest_mp(f"FM cplx s{scheme} q{nex} m{m}", d4)
            except Exception as e:
                print("FM cplx EXC", type(e).__name__, e)
            print("  warnings", [(w.category.__name__, str(w.message)) for w in wl])
        with warnings.catch_warnings():
            warnings.simplefilter("error")
            try:
                MpDm.from_mps(rnd4)
                print("  no error")
            except Exception as e:
                print("  FM cplx-as-error", type(e).__name__, e)
# an MpDm fed to from_mps (4-index tensors)
model = make_model(2, 2, (2,), seed=3)
try:
    dd = MpDm.from_mps(MpDm.max_entangled_gs(model))
    digest_mp("FM mpdm-in", dd)
except Exception as e:
    print("FM mpdm-in EXC", type(e).__name__, e)
# empty mps
emp = Mps()
emp.model = model
try:
    ee = MpDm.from_mps(emp)
    print("FM empty", len(ee), ee.coeff, ee.qn, ee.qnidx, ee.to_right)
except Exception as e:
    print("FM empty EXC", type(e).__name__, e)
# small dump threshold is not inherited during construction
rnd = Mps.random(model, 1, 4)
rnd.compress_config = CompressConfig(max_bonddim=7)
d5 = MpDm.from_mps(rnd)
print("FM cc", d5.compress_config.bond_dim_max_value, d5.compress_config is rnd.compress_config)

print("=== max_entangled")
for scheme in [1, 2, 3, 4]:
    model = make_model(3, scheme, (3, 2), seed=scheme)
    digest_mp(f"MEX s{scheme}", MpDm.max_entangled_ex(model))
    digest_mp(f"MEXnn s{scheme}", MpDm.max_entangled_ex(model, normalize=False))
    digest_mp(f"MGS s{scheme}", MpDm.max_entangled_gs(model))


# ---------------------------------------------------------------- ThermalProp
print("=== ThermalProp")
BITS = False


class Tp(ThermalProp):
    pass


def digest_tp(tag, tp):
    print(tag, "energies", r(tp.energies))
    print(tag, "eocc", r(tp.e_occupations_array), "phocc", r(tp.ph_occupations_array, 7))
    print(tag, "times", [complex(t) for t in tp.evolve_times])
    digest_mp(tag + " final", tp.latest_mps)


for scheme in [1, 4]:
    model = make_model(2, scheme, (3, 3), seed=7 + scheme)
    for space in ["GS", "EX"]:
        for init in ["gs", "ex"]:
            mpdm = MpDm.max_entangled_gs(model) if init == "gs" else MpDm.max_entangled_ex(model)
            tp = ThermalProp(mpdm, exact=True, space=space)
            tp.evolve(evolve_dt=-15j, nsteps=3)
            digest_tp(f"TPexact s{scheme} {space} {init}", tp)
            # direct calls
            new = tp.evolve_exact(tp.latest_mps, -4j)
            digest_mp(f"TPexact-direct s{scheme} {space} {init}", new)
            new = tp.evolve_exact(tp.latest_mps, 2.5 - 4j)
            digest_mp(f"TPexact-direct2 s{scheme} {space} {init}", new)
            new = tp.evolve_exact(tp.latest_mps, -3.0)
            digest_mp(f"TPexact-real s{scheme} {space} {init}", new)

model = make_model(2, 2, (3, 3), seed=21)
configs = [
    ("pc", EvolveConfig(EvolveMethod.prop_and_compress)),
    ("pcrk", EvolveConfig(EvolveMethod.prop_and_compress_tdrk4)),
    ("ps", EvolveConfig(EvolveMethod.tdvp_ps)),
    ("ps-adapt", EvolveConfig(EvolveMethod.tdvp_ps, adaptive=True, guess_dt=-2j)),
    ("vmf", EvolveConfig(EvolveMethod.tdvp_vmf, ivp_rtol=1e-6, ivp_atol=1e-8)),
]
for name, ec in configs:
    for init in ["gs", "ex"]:
        mpdm = MpDm.max_entangled_gs(model) if init == "gs" else MpDm.max_entangled_ex(model)
        mpdm.compress_config = CompressConfig(max_bonddim=10)
        np.random.seed(5)
        try:
            tp = Tp(mpdm, evolve_config=ec)
            tp.evolve(evolve_dt=-10j, nsteps=2)
        except AssertionError as e:
            print(f"TPprop {name} {init} AssertionError", e)
            continue
        new = tp.evolve_prop(tp.latest_mps, -5j)
        if name in ("pc", "pcrk"):
            digest_tp(f"TPprop {name} {init}", tp)
            digest_mp(f"TPprop-direct {name} {init}", new)
            print("  same-objects", new is tp.latest_mps, r(new.expectation(tp.h_mpo)))
        else:
            # TDVP on randomly expanded states amplifies last-bit LAPACK noise:
            # only gauge-invariant numbers at reduced precision
            tag = f"TPprop {name} {init}"
            print(tag, "energies", r(tp.energies, 6), "eocc", r(tp.e_occupations_array, 6),
                  "phocc", r(tp.ph_occupations_array, 5))
            print(tag, "times", [complex(t) for t in tp.evolve_times], tp.latest_mps.bond_dims,
                  type(tp.latest_mps).__name__, tp.latest_mps.dtype)
            print(tag, "direct", type(new).__name__, new.dtype, new.bond_dims, new is tp.latest_mps,
                  r(new.expectation(tp.h_mpo), 6), r(new.e_occupations, 6), r(new.coeff, 6),
                  np.asarray(new.qntot).tolist())

# other Hamiltonian model than the one of the state
model_b = make_model(2, 2, (3, 3), j=-0.02, seed=21)
tp = ThermalProp(MpDm.max_entangled_ex(model), h_mpo_model=model_b,
                 evolve_config=EvolveConfig(EvolveMethod.prop_and_compress))
tp.evolve(evolve_dt=-10j, nsteps=2)
digest_tp("TPother", tp)
tp = ThermalProp(MpDm.max_entangled_ex(model), h_mpo_model=model_b, exact=True, space="EX")
tp.evolve(evolve_dt=-10j, nsteps=2)
digest_tp("TPother-exact", tp)

# no energy recorded yet / bad time step
tp = ThermalProp(MpDm.max_entangled_gs(model), exact=True)
tp.energies = []
for fn in [tp.evolve_exact, tp.evolve_prop]:
    for dt in [-1j, "abc", None]:
        try:
            fn(tp.latest_mps, dt)
            print("TPerr no exception")
        except Exception as e:
            print("TPerr", fn.__name__, repr(dt), type(e).__name__, str(e))
tp.energies = [0.25]
for fn in [tp.evolve_exact, tp.evolve_prop]:
    for dt in ["abc", None]:
        try:
            fn(tp.latest_mps, dt)
            print("TPerr2 no exception")
        except Exception as e:
            print("TPerr2", fn.__name__, repr(dt), type(e).__name__, str(e)[:200])
print("done")
