import sys, types
_pt = types.ModuleType("print_tree"); _pt.print_tree = object; sys.modules.setdefault("print_tree", _pt)

import hashlib

import numpy as np

from renormalizer import BasisHalfSpin, BasisSHO, BasisSimpleElectron, BasisMultiElectron, Op, Model, Mps
from renormalizer.model.model import heisenberg_ops
from renormalizer.model.basis import BasisDummy
from renormalizer.tn.node import TreeNodeBasis
from renormalizer.tn.tree import TTNO, TTNS, from_mps
from renormalizer.tn.treebase import BasisTree
from renormalizer.utils import CompressConfig, CompressCriteria


def dig(a):
    """deterministic digest of an array-like"""
    a = np.asarray(a)
    if a.dtype == object:
        return "obj:" + repr(a.tolist())
    if np.iscomplexobj(a):
        r = np.round(a.real, 9) + 0.0
        i = np.round(a.imag, 9) + 0.0
        h = hashlib.sha256(np.ascontiguousarray(r).tobytes() + np.ascontiguousarray(i).tobytes()).hexdigest()[:16]
        return f"{a.dtype}{a.shape} sum={complex(np.round(a.sum(), 8) + 0.0)} abs={np.round(np.abs(a).sum(), 8)} h={h}"
    if a.dtype.kind == "f":
        r = np.round(a, 9) + 0.0
        h = hashlib.sha256(np.ascontiguousarray(r).tobytes()).hexdigest()[:16]
        return f"{a.dtype}{a.shape} sum={np.round(a.sum(), 8) + 0.0} abs={np.round(np.abs(a).sum(), 8)} h={h}"
    h = hashlib.sha256(np.ascontiguousarray(a).tobytes()).hexdigest()[:16]
    return f"{a.dtype}{a.shape} sum={a.sum()} h={h}"


def dense(ttns):
    # dummy basis sets have a squeezed (size 1) index, leave them out of the output
    order = [b for b in ttns.basis.basis_list if not isinstance(b, BasisDummy)]
    return ttns.todense(order)


def show_ttns(tag, ttns):
    print(tag, "coeff", ttns.coeff, "bond_dims", ttns.bond_dims)
    for i, node in enumerate(ttns.node_list):
        print(tag, i, "T", dig(node.tensor), "QN", dig(node.qn))


def attempt(tag, f):
    try:
        res = f()
    except Exception as e:  # noqa
        print(tag, "EXC", type(e).__name__, str(e)[:120].replace("\n", " "))
        return None
    return res


# ---------------------------------------------------------------- bases
def multi_basis_tree(basis_list):
    node1 = TreeNodeBasis([basis_list[0], basis_list[1]])
    node2 = TreeNodeBasis([basis_list[2]])
    node3 = TreeNodeBasis([basis_list[3]])
    node4 = TreeNodeBasis([basis_list[4], basis_list[5], basis_list[6]])
    node3.add_child(node2)
    node2.add_child(node1)
    node2.add_child(node4)
    return BasisTree(node3)


def star_tree(basis_list):
    # root with many children, children order as given
    root = TreeNodeBasis([basis_list[0]])
    for b in basis_list[1:]:
        root.add_child(TreeNodeBasis([b]))
    return BasisTree(root)


def holstein_like():
    # electron + vibration, non-zero total quantum number
    bl = []
    for i in range(3):
        bl.append(BasisSimpleElectron(f"e{i}"))
        bl.append(BasisSHO(f"v{i}a", 1.0 + 0.1 * i, 3))
        bl.append(BasisSHO(f"v{i}b", 0.5 + 0.1 * i, 2))
    nodes = [TreeNodeBasis([b]) for b in bl]
    root = nodes[3]
    root.add_child(nodes[0])
    root.add_child(nodes[6])
    for i in range(3):
        nodes[3 * i].add_child(nodes[3 * i + 1])
        nodes[3 * i + 1].add_child(nodes[3 * i + 2])
    return BasisTree(root), bl


def two_qn_tree():
    # quantum number of size 2
    bl = [BasisHalfSpin(i, sigmaqn=[[1, 0], [0, 1]]) for i in range(5)]
    n = [TreeNodeBasis([bl[0], bl[1]]), TreeNodeBasis([bl[2]]), TreeNodeBasis([bl[3]]), TreeNodeBasis([bl[4]])]
    n[0].add_child(n[1])
    n[0].add_child(n[2])
    n[2].add_child(n[3])
    return BasisTree(n[0]), bl


nspin = 7
spins = [BasisHalfSpin(i) for i in range(nspin)]
BASES = {
    "binary": (BasisTree.binary(spins), 0),
    "linear": (BasisTree.linear(spins), 0),
    "multi": (multi_basis_tree(spins), 0),
    "star": (star_tree(spins[:5]), 0),
    "mctdh2": (BasisTree.binary_mctdh(spins), 0),
    "mctdh3c": (BasisTree.ternary_mctdh(spins, contract_primitive=True), 0),
    "t3ns": (BasisTree.t3ns(spins), 0),
    "holstein": (holstein_like()[0], 1),
    "twoqn": (two_qn_tree()[0], np.array([3, 2])),
    "twonode": (BasisTree.linear(spins[:2]), 0),
}


def rand_ttns(basis, qntot, m, seed, cplx=False):
    np.random.seed(seed)
    ttns = TTNS.random(basis, qntot, m, 1)
    if cplx:
        ttns = ttns.to_complex()
        for k, node in enumerate(ttns.node_list):
            mask = ttns.get_qnmask(node)
            phase = np.exp(1j * (0.3 + 0.17 * k))
            node.tensor = node.tensor * phase
            node.tensor[~mask] = 0
    return ttns


# ---------------------------------------------------------------- get_qnmat
print("=== get_qnmat")
for name, (basis, qntot) in BASES.items():
    ttns = rand_ttns(basis, qntot, 4, 11)
    for i, node in enumerate(ttns.node_list):
        l, r, m = ttns.get_qnmat(node)
        print(name, i, "1site", dig(l), dig(r), dig(m))
        l, r, m = ttns.get_qnmat(node, include_parent=False)
        print(name, i, "1site-kw", dig(l), dig(r), dig(m))
        res = attempt(f"{name} {i} 2site", lambda: ttns.get_qnmat(node, True))
        if res is not None:
            print(name, i, "2site", dig(res[0]), dig(res[1]), dig(res[2]))
        res = attempt(f"{name} {i} mask", lambda: ttns.get_qnmask(node, include_parent=(i % 2 == 1)))
        if res is not None:
            print(name, i, "mask", dig(res.astype(int)))
    # product state (bond dimension 1)
    prod = TTNS(basis)
    for i, node in enumerate(prod.node_list):
        l, r, m = prod.get_qnmat(node)
        print(name, i, "prod", dig(l), dig(r), dig(m))
# a node that does not belong to the tree
other = rand_ttns(BASES["binary"][0], 0, 3, 5)
mine = rand_ttns(BASES["binary"][0], 0, 3, 6)
attempt("foreign node", lambda: mine.get_qnmat(other.node_list[1]))
attempt("foreign node 2site", lambda: mine.get_qnmat(other.node_list[1], include_parent=True))

# ---------------------------------------------------------------- add
print("=== add")
for name, (basis, qntot) in BASES.items():
    a = rand_ttns(basis, qntot, 4, 21)
    b = rand_ttns(basis, qntot, 2, 22, cplx=True)
    c = TTNS(basis, {basis.dof_list[-1]: 1}) if name != "mctdh2" else TTNS(basis)
    a.coeff = 0.5
    for tag, x, y in [("a+b", a, b), ("b+a", b, a), ("a+a", a, a), ("c+c", c, c), ("b+b", b, b)]:
        s = x.add(y)
        show_ttns(f"{name} {tag}", s)
        print(name, tag, "dense", dig(dense(s)), "vs", dig(dense(x) + dense(y)))
    s3 = a + b + a
    show_ttns(f"{name} a+b+a", s3)
    # the arguments are not modified
    show_ttns(f"{name} a-after", a)
# mismatching states
b1 = rand_ttns(BASES["binary"][0], 0, 3, 31)
b2 = rand_ttns(BASES["multi"][0], 0, 3, 32)
attempt("add mismatch topology", lambda: show_ttns("mm", b1.add(b2)))
attempt("add mismatch topology r", lambda: show_ttns("mm", b2.add(b1)))
h1 = rand_ttns(BASES["holstein"][0], 1, 3, 33)
h2 = rand_ttns(BASES["holstein"][0], 2, 3, 34)
attempt("add mismatch qntot", lambda: show_ttns("mq", h1.add(h2)))
sp_a = rand_ttns(BASES["star"][0], 0, 3, 35)
sp_b = rand_ttns(star_tree(spins[:4]), 0, 3, 36)
attempt("add mismatch size", lambda: show_ttns("ms", sp_a.add(sp_b)))

# ---------------------------------------------------------------- compress_node / compress
print("=== compress")
for name, (basis, qntot) in BASES.items():
    n_nodes = len(basis.node_list)
    for cplx in (False, True):
        base = rand_ttns(basis, qntot, 5, 41, cplx=cplx)
        tag0 = f"{name} c{int(cplx)}"
        # default config
        t = base.copy()
        show_ttns(tag0 + " default", t.compress())
        # int, list, tuple, ndarray, inf truncation
        t = base.copy()
        res, s_arr = t.compress(3, ret_s=True)
        show_ttns(tag0 + " int3", res)
        print(tag0, "int3 s", dig(s_arr))
        m_list = [1 + (k % 3) for k in range(n_nodes)]
        for kind, mm in [("list", m_list), ("tuple", tuple(m_list)), ("ndarray", np.array(m_list))]:
            t = base.copy()
            show_ttns(tag0 + " " + kind, t.compress(mm))
        t = base.copy()
        res, s_arr = t.compress(np.inf, ret_s=True)
        show_ttns(tag0 + " inf", res)
        print(tag0, "inf s", dig(s_arr))
        t = base.copy()
        show_ttns(tag0 + " m1", t.compress(1))
        print(tag0, "bond s", dig(base.calc_bond_singular_values()), "S", dig(base.calc_bond_entropy()))
        # compression configs
        for ctag, cfg in [
            ("thresh", CompressConfig(CompressCriteria.threshold, threshold=1e-2)),
            ("fixed", CompressConfig(CompressCriteria.fixed, max_bonddim=2)),
            ("both", CompressConfig(CompressCriteria.both, threshold=1e-3, max_bonddim=3)),
        ]:
            t = base.copy()
            t.compress_config = cfg
            show_ttns(tag0 + " " + ctag, t.compress())
        # sums are compressed losslessly
        t = base.add(base.copy().scale(0.5))
        t.canonicalise()
        d0 = dense(t)
        t.compress()
        print(tag0, "sum-compress", t.bond_dims, dig(dense(t)), dig(d0))
    # direct calls of compress_node, every (node, child) and both values of cano_child
    for cano_child in (True, False):
        for mt in (None, 2, [2] * n_nodes, np.inf):
            t = rand_ttns(basis, qntot, 4, 43)
            for inode, node in enumerate(t.node_list):
                for ichild in range(len(node.children)):
                    s = t.compress_node(node, ichild, mt, cano_child)
                    print(name, "node", inode, ichild, cano_child, repr(mt), "s", dig(s),
                          dig(node.tensor), dig(node.children[ichild].tensor), dig(node.children[ichild].qn))
                    break
            print(name, "direct", cano_child, repr(mt), t.bond_dims)
    t = rand_ttns(basis, qntot, 4, 44)
    attempt(name + " bad ichild", lambda: t.compress_node(t.root, 17))
    attempt(name + " leaf", lambda: t.compress_node(t.node_list[-1], 0))
    attempt(name + " short list", lambda: t.compress_node(t.root, 0, [2]))
    attempt(name + " m zero", lambda: print(name, "m0", dig(t.compress_node(t.root, 0, 0))))

# ---------------------------------------------------------------- calc_1dof_rdm
print("=== calc_1dof_rdm")
for name, (basis, qntot) in BASES.items():
    for cplx in (False, True):
        t = rand_ttns(basis, qntot, 4, 51, cplx=cplx)
        tag0 = f"{name} c{int(cplx)}"
        dofs = basis.dof_list
        rdm = t.calc_1dof_rdm()
        print(tag0, "keys", [repr(k) for k in rdm.keys()])
        for k, v in rdm.items():
            print(tag0, "all", repr(k), dig(v))
        single = t.calc_1dof_rdm(dofs[-1])
        print(tag0, "single", [(repr(k), dig(v)) for k, v in single.items()])
        sel = [dofs[-1], dofs[0], dofs[len(dofs) // 2], dofs[0]]
        rdm = t.calc_1dof_rdm(sel)
        print(tag0, "sel", [(repr(k), dig(v)) for k, v in rdm.items()])
        print(tag0, "sel unchanged", [repr(d) for d in sel])
        print(tag0, "empty", t.calc_1dof_rdm([]))
        ent = t.calc_1dof_entropy(sel[:2])
        print(tag0, "entropy", [(repr(k), round(float(v), 9) + 0.0) for k, v in ent.items()])
        attempt(tag0 + " tuple arg", lambda: print(tag0, "tup", [(repr(k), dig(v)) for k, v in t.calc_1dof_rdm((dofs[0], dofs[1])).items()]))
        attempt(tag0 + " unknown dof", lambda: t.calc_1dof_rdm("no such dof"))
        attempt(tag0 + " unknown in list", lambda: t.calc_1dof_rdm([dofs[0], "no such dof"]))
    # after operator application / addition
    if name in ("binary", "multi", "mctdh2", "t3ns"):
        t = rand_ttns(basis, qntot, 3, 52)
        ttno = TTNO(basis, heisenberg_ops(nspin))
        t2 = ttno.apply(t).add(t)
        t2.canonicalise()
        t2.compress()
        print(name, "apply-add", t2.bond_dims, [(repr(k), dig(v)) for k, v in t2.calc_1dof_rdm().items()])
        print(name, "mutual", [(repr(k), round(float(v), 9) + 0.0) for k, v in t2.calc_2dof_mutual_info((1, 5))[0].items()])

# chain -> tree
print("=== from_mps")
np.random.seed(61)
model = Model(spins, heisenberg_ops(nspin))
mps = Mps.random(model, 0, 6)
basis, ttns, ttno = from_mps(mps)
print("from_mps", dig(dense(ttns)), [(repr(k), dig(v)) for k, v in ttns.calc_1dof_rdm().items()])
s2 = ttns.add(ttns)
s2.canonicalise().compress()
show_ttns("from_mps sum", s2)
