import sys, types
_pt = types.ModuleType("print_tree"); _pt.print_tree = object; sys.modules.setdefault("print_tree", _pt)

import hashlib
import numpy as np

from renormalizer import BasisHalfSpin, BasisSHO, BasisSimpleElectron, Model, Mps, Op
from renormalizer.model.model import heisenberg_ops
from renormalizer.tn.node import TreeNodeBasis
from renormalizer.tn.tree import TTNO, TTNS, TTNEnviron, from_mps
from renormalizer.tn.treebase import BasisTree
from renormalizer.utils import CompressConfig, CompressCriteria


def arr_digest(a):
    a = np.asarray(a)
    if a.dtype.kind == "c":
        b = np.round(a, 9) + (0.0 + 0.0j)
    elif a.dtype.kind == "f":
        b = np.round(a, 9) + 0.0
    else:
        b = a
    h = hashlib.md5(np.ascontiguousarray(b).tobytes()).hexdigest()[:12]
    return f"{a.dtype}{tuple(a.shape)}:{h}:{np.round(float(np.abs(a).sum()), 8) if a.size else 0}"


def ttns_digest(tag, ttns):
    print(f"== {tag}: coeff={ttns.coeff!r} bond_dims={ttns.bond_dims}")
    for i, node in enumerate(ttns.node_list):
        print(f"   node{i} T={arr_digest(node.tensor)} qn={node.qn.tolist()}")
    dense = ttns.todense([b for b in ttns.basis.basis_list if b.nbas != 1])
    print(f"   dense {arr_digest(dense)}")


def env_digest(tag, env):
    print(f"== {tag}")
    for i, enode in enumerate(env.node_list):
        ep = None if enode.environ_parent is None else arr_digest(enode.environ_parent)
        ec = [arr_digest(c) for c in enode.environ_children]
        print(f"   enode{i} parent={ep} children={ec}")


def multi_basis_tree(basis_list):
    node1 = TreeNodeBasis([basis_list[0], basis_list[1]])
    node2 = TreeNodeBasis([basis_list[2]])
    node3 = TreeNodeBasis([basis_list[3]])
    node4 = TreeNodeBasis([basis_list[4], basis_list[5], basis_list[6]])
    node3.add_child(node2)
    node2.add_child(node1)
    node2.add_child(node4)
    return BasisTree(node3)


def star_tree(basis_list):
    # root with three children, one of which has a chain below, root has two physical indices
    root = TreeNodeBasis([basis_list[0], basis_list[1]])
    c1 = TreeNodeBasis([basis_list[2]])
    c2 = TreeNodeBasis([basis_list[3]])
    c3 = TreeNodeBasis([basis_list[4]])
    c4 = TreeNodeBasis([basis_list[5], basis_list[6]])
    root.add_child([c1, c2, c3])
    c2.add_child(c4)
    return BasisTree(root)


def holstein_tree():
    # electrons with qn [1] / [0], non-zero total quantum number
    basis = []
    for i in range(3):
        basis.append(BasisSimpleElectron(f"e{i}"))
        basis.append(BasisSHO(f"v{i}", omega=1.0 + 0.1 * i, nbas=3))
    nodes = [TreeNodeBasis([b]) for b in basis]
    root = nodes[2]
    root.add_child(nodes[0])
    root.add_child(nodes[4])
    root.add_child(nodes[3])
    nodes[0].add_child(nodes[1])
    nodes[4].add_child(nodes[5])
    terms = []
    for i in range(3):
        terms.append(Op(r"a^\dagger a", f"e{i}", 0.3 * (i + 1)))
        terms.append(Op(r"b^\dagger b", f"v{i}", 1.0 + 0.1 * i))
        terms.append(Op(r"a^\dagger a", f"e{i}", 0.2) * Op(r"b^\dagger+b", f"v{i}"))
        terms.append(Op(r"a^\dagger a", [f"e{i}", f"e{(i + 1) % 3}"], -0.1))
        terms.append(Op(r"a^\dagger a", [f"e{(i + 1) % 3}", f"e{i}"], -0.1))
    return BasisTree(root), terms, basis


nspin = 7
spin_basis = [BasisHalfSpin(i) for i in range(nspin)]
spin_terms = heisenberg_ops(nspin)

trees = {
    "binary": BasisTree.binary(spin_basis),
    "multi": multi_basis_tree(spin_basis),
    "star": star_tree(spin_basis),
    "linear": BasisTree.linear(spin_basis),
    "t3ns": BasisTree.t3ns(spin_basis),
    "two": BasisTree.linear(spin_basis[:2]),
}

np.random.seed(2024)

# ---------------------------------------------------------------- add / apply / compress on spin trees
for name, basis in trees.items():
    nsp = 2 if name == "two" else nspin
    terms = heisenberg_ops(nsp) if nsp > 2 else [Op("sigma_z sigma_z", [0, 1], 0.7), Op("sigma_x", 0, 0.3)]
    for qntot in (0,):
        a = TTNS.random(basis, qntot, 4)
        b = TTNS.random(basis, qntot, [1, 2, 3, 2, 1, 2, 3, 2, 1, 2, 3, 2, 1][: len(basis.node_list)])
        bc = b.scale(0.3 - 1.2j)
        ttno = TTNO(basis, terms)

        # add
        ttns_digest(f"{name} add real", a.add(b))
        ttns_digest(f"{name} add complex", a.add(bc))
        ttns_digest(f"{name} add complex-left", bc.add(a))
        ttns_digest(f"{name} add self", a + a)
        s = a.add(bc).add(b)
        ttns_digest(f"{name} add chained", s)
        # inputs not mutated
        ttns_digest(f"{name} a after add", a)

        # apply
        ttns_digest(f"{name} apply", ttno.apply(a))
        ttns_digest(f"{name} apply cano", ttno.apply(bc, canonicalise=True))
        ttns_digest(f"{name} matmul", ttno @ s)
        ttns_digest(f"{name} contract", ttno.contract(a))
        ttns_digest(f"{name} a after apply", a)

        # compress_node on canonical state, both cano_child, several m specs
        for cano_child in (True, False):
            for m in (None, 2, 1, 100, np.inf, list(range(1, len(basis.node_list) + 1)),
                      tuple([2] * len(basis.node_list)), np.array([3] * len(basis.node_list))):
                c = s.copy().canonicalise()
                node = c.root
                out = []
                for ichild in range(len(node.children)):
                    sv = c.compress_node(node, ichild, m, cano_child)
                    out.append(arr_digest(sv))
                print(f"-- {name} compress_node cano_child={cano_child} m={m!r}: {out}")
                ttns_digest(f"{name} compress_node result", c)
        # compress_node on an inner node
        c = s.copy().canonicalise()
        inner = [n for n in c.node_list if n.children and n.parent is not None]
        if inner:
            c.push_cano_to_child(c.root, c.root.children.index(inner[0].ancestors[-2]))
            sv = c.compress_node(inner[0].ancestors[-2], 0, 2, False)
            print("-- inner", arr_digest(sv))
            ttns_digest(f"{name} compress_node inner", c)

        # compress
        c = s.copy().canonicalise()
        ret = c.compress()
        print("   compress returns self:", ret is c)
        ttns_digest(f"{name} compress default", c)
        c = s.copy().canonicalise()
        ret, s_array = c.compress(temp_m_trunc=3, ret_s=True)
        print("   compress returns self:", ret is c, arr_digest(s_array))
        ttns_digest(f"{name} compress m=3", c)
        c = ttno.apply(a).canonicalise()
        c.compress_config = CompressConfig(CompressCriteria.fixed, max_bonddim=3)
        c.compress()
        print("   max_dims", c.compress_config.max_dims)
        ttns_digest(f"{name} compress fixed", c)
        c = ttno.apply(bc).canonicalise()
        c.compress_config = CompressConfig(CompressCriteria.both, threshold=1e-2, max_bonddim=5)
        ret = c.compress(ret_s=True)
        print("   s_array", arr_digest(ret[1]))
        ttns_digest(f"{name} compress both", c)
        print("   sv", arr_digest(s.calc_bond_singular_values()), "entropy", arr_digest(s.calc_bond_entropy()))

        # hartree product (bond dim 1 everywhere)
        h = TTNS(basis, {0: 1})
        ttns_digest(f"{name} hartree add", h.add(TTNS(basis, {1: 1})))
        hh = ttno.apply(h, canonicalise=True)
        ttns_digest(f"{name} hartree apply", hh)
        hh.compress()
        ttns_digest(f"{name} hartree compress", hh)

        # environments (also checks apply/compress keep expectation machinery intact)
        env = TTNEnviron(bc, ttno)
        env_digest(f"{name} environ", env)
        print("   expectation", np.round(bc.expectation(ttno), 9), np.round(s.expectation(ttno), 9))

# ---------------------------------------------------------------- partial operators
for name in ("binary", "multi", "star"):
    basis = trees[name]
    basis2 = basis.add_auxiliary_space()
    a = TTNS.random(basis2, 0, 3).scale(1.0 + 0.5j)
    ttno = TTNO(basis, spin_terms)
    ttno2 = TTNO(basis2, spin_terms)
    ttns_digest(f"{name} partial apply", ttno.apply(a))
    ttns_digest(f"{name} full apply", ttno2.apply(a, canonicalise=True))
    ttns_digest(f"{name} partial contract", ttno.contract(a))
    print("   expectation", np.round(a.expectation(ttno), 9))

# ---------------------------------------------------------------- non-zero quantum numbers
hbasis, hterms, hlist = holstein_tree()
hno = TTNO(hbasis, hterms)
for qntot in (1, 2):
    a = TTNS.random(hbasis, qntot, 5)
    b = TTNS.random(hbasis, qntot, 3).scale(-0.4 + 0.9j)
    s = a + b
    ttns_digest(f"holstein q{qntot} add", s)
    ttns_digest(f"holstein q{qntot} apply", hno.apply(s))
    ttns_digest(f"holstein q{qntot} contract", hno.contract(b))
    c = hno.apply(s, canonicalise=True)
    _, sa = c.compress(temp_m_trunc=[4, 3, 2, 3, 4, 2], ret_s=True)
    print("   s_array", arr_digest(sa))
    ttns_digest(f"holstein q{qntot} compress list", c)
    for cano_child in (True, False):
        c = s.copy().canonicalise()
        for ichild in range(3):
            sv = c.compress_node(c.root, ichild, None if ichild == 1 else 2, cano_child)
            print("   sv", arr_digest(sv))
        ttns_digest(f"holstein q{qntot} compress_node {cano_child}", c)
    env_digest(f"holstein q{qntot} environ", TTNEnviron(s, hno))
# adding states of different sectors must fail in the same way
try:
    TTNS.random(hbasis, 1, 2).add(TTNS.random(hbasis, 2, 2))
    print("add different sectors: no error")
except Exception as e:
    print("add different sectors:", type(e).__name__)
# adding states with different physical dimension
try:
    TTNS.random(trees["two"], 0, 2).add(TTNS.random(BasisTree.linear([BasisSHO(0, 1.0, 3), BasisSHO(1, 1.0, 3)]), 0, 2))
    print("add different pdim: no error")
except Exception as e:
    print("add different pdim:", type(e).__name__)
# single node tree can't be compressed
single = TTNS.random(BasisTree.linear(spin_basis[:1]), 0, 2)
ttns_digest("single add", single.add(single))
try:
    single.compress()
    print("single compress: no error")
except Exception as e:
    print("single compress:", type(e).__name__, e)

# ---------------------------------------------------------------- from_mps
model_spin = Model(spin_basis, spin_terms)
model_hol = Model(hlist, hterms)
for tag, model, qn in (("spin", model_spin, 0), ("holstein", model_hol, 1), ("holstein2", model_hol, 2),
                       ("one-site", Model(spin_basis[:1], [Op("sigma_x", 0)]), 0)):
    mps = Mps.random(model, qn, 6)
    mps_c = mps.to_complex() * (0.2 + 1.0j) if tag != "one-site" else mps
    for mtag, m in (("real", mps), ("complex", mps_c)):
        before = [arr_digest(mt.array) for mt in m]
        qnidx = m.qnidx
        basis, ttns, ttno = from_mps(m)
        print("   mps untouched", before == [arr_digest(mt.array) for mt in m], qnidx == m.qnidx)
        print("   basis dofs", [n.dofs for n in basis.node_list])
        ttns_digest(f"from_mps {tag} {mtag}", ttns)
        print("   ttno", [arr_digest(n.tensor) for n in ttno.node_list], [n.qn.tolist() for n in ttno.node_list])
        print("   e", np.round(ttns.expectation(ttno), 9))
# non-canonical mps
mps = Mps.random(model_spin, 0, 5)
mps = mps.add(Mps.random(model_spin, 0, 3))
basis, ttns, ttno = from_mps(mps)
ttns_digest("from_mps sum", ttns)
print("done")
