"""Equivalence digest for the C11 refactoring (TTNS.compress, TTNS.add,
TTNS.calc_1site_rdm, TTNEnviron.build_children_environ).

Prints a deterministic digest of the results of every changed function on a
collection of random / representative / unusual inputs.
"""
import os
import sys

sys.path.insert(0, os.path.dirname(os.path.abspath(__file__)))  # print_tree stub

import hashlib
import logging

logging.disable(logging.CRITICAL)

import numpy as np

from renormalizer import BasisHalfSpin, BasisSHO, BasisSimpleElectron, Op, OpSum
from renormalizer.model.basis import BasisDummy
from renormalizer.model.model import heisenberg_ops
from renormalizer.tn.node import TreeNodeBasis
from renormalizer.tn.tree import TTNO, TTNS, TTNEnviron
from renormalizer.tn.treebase import BasisTree
from renormalizer.utils import CompressConfig, CompressCriteria


def out(*args):
    print(*args)


def dig(a):
    """digest of an array: shape, dtype, rounded sums, exact-bytes hash"""
    a = np.asarray(a)
    h = hashlib.sha1(np.ascontiguousarray(a).tobytes()).hexdigest()[:12]
    if a.size == 0:
        return f"{a.shape} {a.dtype} empty {h}"
    flat = a.ravel()
    w = np.cos(np.arange(flat.size) * 0.7 + 0.3)
    s1 = complex(np.sum(flat))
    s2 = complex(np.sum(flat * w))
    s3 = float(np.sum(np.abs(flat) ** 2))
    return f"{a.shape} {a.dtype} {s1.real:.9f}{s1.imag:+.9f}j {s2.real:.9f}{s2.imag:+.9f}j {s3:.9f} {h}"


def dense(ttns):
    # size-one (dummy) physical indices are squeezed by the library and cannot be requested
    order = [b for b in ttns.basis.basis_list if b.nbas != 1]
    return ttns.todense(order)


def dig_ttns(ttns):
    lines = []
    for i, node in enumerate(ttns.node_list):
        lines.append(f"    node {i}: T {dig(node.tensor)} | QN {dig(node.qn)}")
    lines.append(f"    coeff {ttns.coeff!r} bond_dims {ttns.bond_dims}")
    return "\n".join(lines)


def attempt(label, func):
    try:
        res = func()
    except Exception as e:  # noqa
        msg = str(e).strip().splitlines()
        out(label, "RAISED", type(e).__name__, msg[0][:80] if msg else "")
        return None
    return res


# --------------------------------------------------------------------------------------
# topologies
def tree_binary(n=7):
    return BasisTree.binary([BasisHalfSpin(i) for i in range(n)])


def qn_spin(i):
    # half spin carrying a U(1) quantum number
    return BasisHalfSpin(i, sigmaqn=[0, 1])


def tree_linear(n=5):
    return BasisTree.linear([qn_spin(i) for i in range(n)])


def tree_multi(qn=True):
    b = [qn_spin(i) if qn else BasisHalfSpin(i) for i in range(7)]
    node1 = TreeNodeBasis([b[0], b[1]])
    node2 = TreeNodeBasis([b[2]])
    node3 = TreeNodeBasis([b[3]])
    node4 = TreeNodeBasis([b[4], b[5], b[6]])
    node3.add_child(node2)
    node2.add_child(node1)
    node2.add_child(node4)
    return BasisTree(node3)


def tree_star_dummy():
    # dummy root with three branches, one branch with a dummy inner node
    b = [BasisHalfSpin(i) for i in range(6)]
    root = TreeNodeBasis([BasisDummy("star root")])
    n0, n1, n2, n3, n4, n5 = [TreeNodeBasis([x]) for x in b]
    inner = TreeNodeBasis([BasisDummy("inner dummy")])
    root.add_child([n0, inner, n3])
    n0.add_child(n1)
    inner.add_child([n2, n4])
    n3.add_child(n5)
    return BasisTree(root)


def tree_two_qn():
    # two quantum numbers (up / down electrons) and a boson
    basis = []
    for i in range(3):
        basis.append(BasisSimpleElectron(("e", i, "a"), sigmaqn=[[0, 0], [1, 0]]))
        basis.append(BasisSimpleElectron(("e", i, "b"), sigmaqn=[[0, 0], [0, 1]]))
    nodes = [TreeNodeBasis([basis[2 * i], basis[2 * i + 1]]) for i in range(3)]
    nodes[1].add_child([nodes[0], nodes[2]])
    return BasisTree(nodes[1])


def tree_holstein():
    basis = []
    for i in range(3):
        basis.append(BasisSimpleElectron(("e", i)))
        basis.append(BasisSHO(("v", i, 0), 1.0 + 0.1 * i, 3))
        basis.append(BasisSHO(("v", i, 1), 0.5 + 0.1 * i, 2))
    nodes = [TreeNodeBasis([x]) for x in basis]
    root = nodes[3]
    root.add_child(nodes[0])
    root.add_child(nodes[6])
    for i in range(3):
        nodes[3 * i].add_child(nodes[3 * i + 1])
        nodes[3 * i + 1].add_child(nodes[3 * i + 2])
    return BasisTree(root)


def tree_single():
    return BasisTree(TreeNodeBasis([BasisHalfSpin(0), BasisHalfSpin(1)]))


TREES = [
    ("binary7", tree_binary, 0),
    ("linear5", tree_linear, 1),
    ("multi", tree_multi, 1),
    ("star_dummy", tree_star_dummy, 0),
    ("two_qn", tree_two_qn, np.array([2, 1])),
    ("holstein", tree_holstein, 1),
]


def _draw(basis, qntot, m, seed):
    for shift in range(20):
        # with tiny bond dimensions the random state may have no allowed block
        np.random.seed(seed + 1000 * shift)
        try:
            return TTNS.random(basis, qntot, m, 1)
        except (FloatingPointError, ValueError):
            continue
    np.random.seed(seed)
    return TTNS.random(basis, qntot, 3, 1)


def random_ttns(basis, qntot, m, cplx=False, seed=0):
    ttns = _draw(basis, qntot, m, seed)
    if cplx:
        # a complex state that is not a simple multiple of a real one
        ttns2 = _draw(basis, qntot, max(1, m - 1) if isinstance(m, int) else m, seed + 500)
        ttns = ttns.add(ttns2.scale(0.3 + 0.8j))
        ttns.canonicalise()
    return ttns


# --------------------------------------------------------------------------------------
def section_add():
    out("=== TTNS.add")
    for name, tf, qntot in TREES:
        basis = tf()
        for (m1, m2, c1, c2) in [(4, 2, False, False), (3, 3, False, True), (1, 1, True, False), (2, 5, True, True)]:
            a = random_ttns(basis, qntot, m1, c1, seed=11)
            b = random_ttns(basis, qntot, m2, c2, seed=12)
            a_before = [n.tensor.copy() for n in a]
            b_before = [n.tensor.copy() for n in b]
            c = attempt(f"add {name} {m1} {m2} {c1} {c2}", lambda: a.add(b))
            out(f"add {name} m=({m1},{m2}) cplx=({c1},{c2})")
            out(dig_ttns(c))
            out("    dense", dig(dense(c)))
            out("    vs dense", "ok" if np.allclose(dense(c), dense(a) + dense(b)) else "MISMATCH")
            # the operands must be untouched
            out("    operands untouched",
                all(np.array_equal(x, n.tensor) for x, n in zip(a_before, a)),
                all(np.array_equal(x, n.tensor) for x, n in zip(b_before, b)))
            # operator form and chained sums
            d = (c + a) + b
            out("    chained", dig(dense(d)), d.bond_dims)
    # m_max given as a list, bond dimension 1 everywhere
    basis = tree_multi()
    a = random_ttns(basis, 1, [1, 2, 3, 2], seed=3)
    b = TTNS(basis, {1: 1})
    c = a.add(b)
    out("add product state")
    out(dig_ttns(c))
    # different total quantum number -> must fail at the root
    a = random_ttns(basis, 1, 3, seed=4)
    b = random_ttns(basis, 0, 3, seed=5)
    attempt("add different qntot", lambda: a.add(b))
    # different basis (physical dimension mismatch)
    a = random_ttns(tree_linear(3), 0, 3, seed=4)
    bs = BasisTree.linear([qn_spin(0), BasisSHO(1, 1.0, 3), qn_spin(2)])
    np.random.seed(6)
    b = TTNS(bs)
    attempt("add different pdim", lambda: a.add(b))
    # single node tree
    bs = tree_single()
    a = random_ttns(bs, 0, 3, seed=7)
    b = random_ttns(bs, 0, 3, True, seed=8)
    c = a.add(b)
    out("add single node")
    out(dig_ttns(c))
    # integer-like qn with coeff kept
    a.coeff = 0.5j
    c = a.add(a)
    out("add self", dig_ttns(c))


def section_compress():
    out("=== TTNS.compress")
    for name, tf, qntot in TREES:
        basis = tf()
        for cplx in [False, True]:
            base = random_ttns(basis, qntot, 4, cplx, seed=21)
            base = base.add(random_ttns(basis, qntot, 3, False, seed=22))
            base.canonicalise()
            n = len(base)
            variants = [
                ("default", None, False, None),
                ("default+s", None, True, None),
                ("m2", 2, False, None),
                ("m3+s", 3, True, None),
                ("m1+s", 1, True, None),
                ("mlist+s", [1 + (i % 3) for i in range(n)], True, None),
                ("marr", np.array([2 + (i % 2) for i in range(n)]), False, None),
                ("fixed+s", None, True, "fixed"),
                ("fixed_dims", None, True, "fixed_dims"),
                ("thresh+s", None, True, "thresh"),
            ]
            for vname, m, ret_s, cfg in variants:
                ttns = base.copy()
                if cfg == "fixed":
                    ttns.compress_config = CompressConfig(CompressCriteria.fixed, max_bonddim=3)
                elif cfg == "fixed_dims":
                    ttns.compress_config = CompressConfig(CompressCriteria.fixed)
                    ttns.compress_config.max_dims = [1] + [1 + (i % 2) for i in range(n - 1)]
                elif cfg == "thresh":
                    ttns.compress_config = CompressConfig(CompressCriteria.threshold, threshold=0.2)
                label = f"compress {name} cplx={cplx} {vname}"
                res = attempt(label, lambda: ttns.compress(m, ret_s))
                if res is None:
                    continue
                if ret_s:
                    assert isinstance(res, tuple) and len(res) == 2
                    new, s_array = res
                else:
                    new, s_array = res, None
                out(label, "same object", new is ttns, "max_dims", ttns.compress_config.max_dims is not None)
                out(dig_ttns(ttns))
                if s_array is not None:
                    out("    s_array", dig(s_array))
                out("    dense", dig(dense(ttns)))
    # lossless compression keeps the vector
    basis = tree_multi()
    a = random_ttns(basis, 1, 3, True, seed=31)
    big = a.add(a).add(a)
    ref = dense(big)
    big.canonicalise()
    _, s = big.compress(ret_s=True)
    out("lossless", big.bond_dims, np.allclose(dense(big), ref), dig(s))
    # keyword / positional forms
    a2 = a.copy()
    r1 = a2.compress(temp_m_trunc=2, ret_s=True)
    out("kw", dig(r1[1]), r1[0] is a2)
    # single node: cannot compress
    bs = tree_single()
    a = random_ttns(bs, 0, 3, seed=7)
    attempt("compress single node", lambda: a.compress())
    attempt("compress single node ret_s", lambda: a.compress(ret_s=True))
    # temp_m_trunc list too short
    a = random_ttns(tree_binary(), 0, 4, seed=33)
    attempt("compress short list", lambda: a.compress([2, 2]))
    # truthy non-bool ret_s
    a = random_ttns(tree_linear(), 1, 4, seed=34)
    r = a.compress(2, 1)
    out("ret_s=1", type(r).__name__, dig(r[1]))
    a = random_ttns(tree_linear(), 1, 4, seed=34)
    r = a.compress(2, 0)
    out("ret_s=0", type(r).__name__, r is a)
    a = random_ttns(tree_linear(), 1, 4, seed=34)
    r = a.compress(2, None)
    out("ret_s=None", type(r).__name__, r is a)


def dig_rdm(rdm):
    lines = []
    for k in rdm:  # insertion order matters
        lines.append(f"    {k!r} ({type(k).__name__}): {dig(rdm[k])}")
    return "\n".join(lines) if lines else "    {}"


def section_rdm():
    out("=== TTNS.calc_1site_rdm")
    for name, tf, qntot in TREES:
        basis = tf()
        for cplx in [False, True]:
            ttns = random_ttns(basis, qntot, 4, cplx, seed=41)
            ttns.coeff = 0.7
            n = len(ttns)
            before = [x.tensor.copy() for x in ttns]
            rdm = ttns.calc_1site_rdm()
            out(f"rdm {name} cplx={cplx} all", type(rdm).__name__, list(rdm.keys()))
            out(dig_rdm(rdm))
            out("    traces", [f"{complex(np.trace(v.reshape(int(np.sqrt(v.size)), -1))).real:.9f}" for v in rdm.values()])
            out("    untouched", all(np.array_equal(x, y.tensor) for x, y in zip(before, ttns)))
            inputs = [
                0, n - 1, -1, [n - 1, 0], (1, 1, 0), [], (), True, [1], range(2), np.int64(1), np.array([0, 1]),
                "0", 1.0, n, [0, n], {0: 1}, [np.int64(1)], [-n],
            ]
            for idx in inputs:
                label = f"rdm {name} cplx={cplx} idx={idx!r}"
                r = attempt(label, lambda: ttns.calc_1site_rdm(idx))
                if r is not None:
                    out(label)
                    out(dig_rdm(r))
            # keyword form
            r = ttns.calc_1site_rdm(idx=[1])
            out("    kw", dig_rdm(r))
            ent = ttns.calc_1site_entropy()
            out("    entropy", {k: round(float(v), 8) for k, v in ent.items()})
            ent = ttns.calc_1site_entropy([0])
            out("    entropy0", {k: round(float(v), 8) for k, v in ent.items()})
    # not canonical, not normalised
    basis = tree_star_dummy()
    a = random_ttns(basis, 0, 3, True, seed=42)
    b = random_ttns(basis, 0, 2, False, seed=43)
    c = a.add(b)
    out("rdm non canonical")
    out(dig_rdm(c.calc_1site_rdm()))
    # dof rdm built on top
    r = c.calc_1dof_rdm()
    out("1dof rdm", [(str(k), dig(v)) for k, v in r.items()])
    # single node tree
    a = random_ttns(tree_single(), 0, 3, seed=7)
    out("rdm single node")
    out(dig_rdm(a.calc_1site_rdm()))
    out(dig_rdm(a.calc_1site_rdm(0)))
    # product state
    bs = tree_multi()
    a = TTNS(bs, {1: 1, 3: 1})
    out("rdm product state")
    out(dig_rdm(a.calc_1site_rdm([0, 3])))


def dig_env(env, parent=True):
    lines = []
    for i, enode in enumerate(env.node_list):
        lines.append(f"    enode {i}: nchild_env {len(enode.environ_children)}")
        for j, c in enumerate(enode.environ_children):
            lines.append(f"      child {j}: {dig(c)}")
        if parent:
            lines.append("      parent: " + (dig(enode.environ_parent) if enode.environ_parent is not None else "None"))
    return "\n".join(lines)


def hamiltonian(name, basis):
    dofs = [d for d in basis.dof_list]
    if name in ("binary7", "star_dummy"):
        n = len([b for b in basis.basis_list if not isinstance(b, BasisDummy)])
        return heisenberg_ops(n)
    if name in ("linear5", "multi"):
        n = len(basis.basis_list)
        terms = []
        for i in range(n - 1):
            terms.append(Op("sigma_z sigma_z", [i, i + 1], 0.25 + 0.01 * i))
            terms.append(Op("sigma_+ sigma_-", [i, i + 1], 0.5, [-1, 1]))
            terms.append(Op("sigma_- sigma_+", [i, i + 1], 0.5, [1, -1]))
        terms.append(Op("sigma_z", 0, 0.3))
        return terms
    if name == "two_qn":
        terms = []
        for i in range(2):
            for s in "ab":
                terms.append(Op(r"a^\dagger a", [("e", i, s), ("e", i + 1, s)], 0.3 + 0.1 * i, [[1, 0], [-1, 0]] if s == "a" else [[0, 1], [0, -1]]))
                terms.append(Op(r"a^\dagger a", [("e", i + 1, s), ("e", i, s)], 0.3 + 0.1 * i, [[1, 0], [-1, 0]] if s == "a" else [[0, 1], [0, -1]]))
        for i in range(3):
            terms.append(Op(r"a^\dagger a a^\dagger a", [("e", i, "a"), ("e", i, "a"), ("e", i, "b"), ("e", i, "b")], 1.5, [[1, 0], [-1, 0], [0, 1], [0, -1]]))
        return terms
    if name == "holstein":
        terms = []
        for i in range(3):
            terms.append(Op(r"a^\dagger a", ("e", i), 0.2 * i))
            terms.append(Op(r"a^\dagger a", [("e", i), ("e", (i + 1) % 3)], -0.1, [1, -1]))
            terms.append(Op(r"a^\dagger a", [("e", (i + 1) % 3), ("e", i)], -0.1, [1, -1]))
            for j in range(2):
                terms.append(Op("b^\\dagger b", ("v", i, j), 0.5 + 0.1 * j))
                terms.append(Op(r"a^\dagger a", ("e", i)) * Op("b^\\dagger+b", ("v", i, j)) * (0.3 + 0.05 * j))
        return terms
    raise ValueError(name)


def section_environ():
    out("=== TTNEnviron.build_children_environ")
    for name, tf, qntot in TREES:
        basis = tf()
        ttno = TTNO(basis, hamiltonian(name, basis))
        dummy = TTNO.dummy(basis)
        for cplx in [False, True]:
            ttns = random_ttns(basis, qntot, 3, cplx, seed=51)
            for oname, op in [("ham", ttno), ("dummy", dummy)]:
                env = TTNEnviron(ttns, op, build_environ=False)
                ret = env.build_children_environ(ttns, op)
                out(f"env {name} cplx={cplx} {oname} first run ret={ret!r}")
                out(dig_env(env))
                # second run: update path, after changing the state
                ttns2 = ttns.copy()
                ttns2.node_list[-1].tensor = ttns2.node_list[-1].tensor * 0.5
                # environment is associated with ttns (node_idx look-up): run again with the same state
                ret = env.build_children_environ(ttns, op)
                out(f"env {name} cplx={cplx} {oname} second run ret={ret!r}")
                out(dig_env(env))
                # keyword form
                env.build_children_environ(ttns=ttns, ttno=op)
                out("    kw", dig_env(env).count("\n"))
                # full environment through the constructor
                env = TTNEnviron(ttns, op)
                out(f"env {name} cplx={cplx} {oname} full")
                out(dig_env(env))
            # expectation relies on build_children_environ of an extended tree
            e = attempt(f"expectation {name} cplx={cplx}", lambda: ttns.expectation(ttno))
            if e is not None:
                out(f"expectation {name} cplx={cplx}", type(e).__name__, f"{complex(e).real:.10f}{complex(e).imag:+.10f}j")
            out("    parents reset", ttns.root.parent is None, ttno.root.parent is None, basis.root.parent is None)
            nrm = attempt(f"norm {name} cplx={cplx}", lambda: ttns.ttns_norm)
            if nrm is not None:
                out("    norm", f"{nrm:.10f}")
    # partial operator (operator defined on a sub-set of the dofs of the state)
    for tf in (tree_binary, lambda: tree_multi(qn=False)):
        basis = tf()
        basis2 = basis.add_auxiliary_space()
        ttns = random_ttns(basis2, 0, 3, True, seed=52)
        ttno = TTNO(basis, heisenberg_ops(7))
        env = TTNEnviron(ttns, ttno, build_environ=False)
        env.build_children_environ(ttns, ttno)
        out("env partial ttno")
        out(dig_env(env))
        e = ttns.expectation(ttno)
        out("    expectation", f"{complex(e).real:.10f}{complex(e).imag:+.10f}j")
    # single node tree: nothing to build
    bs = tree_single()
    a = random_ttns(bs, 0, 3, seed=7)
    op = TTNO(bs, [Op("sigma_z", 0), Op("sigma_x sigma_x", [0, 1])])
    env = TTNEnviron(a, op, build_environ=False)
    out("env single", env.build_children_environ(a, op))
    out(dig_env(env))
    e = a.expectation(op)
    out("    expectation", f"{complex(e).real:.10f}")
    e = a.expectation(Op("sigma_z", 0))
    out("    expectation Op", f"{complex(e).real:.10f}")
    e = a.expectation(OpSum([Op("sigma_z", 0), Op("sigma_z", 1) * 0.5]))
    out("    expectation OpSum", f"{complex(e).real:.10f}")
    attempt("expectation bra", lambda: a.expectation(op, a))
    # wrong arguments
    b = random_ttns(tree_binary(), 0, 3, seed=53)
    opb = TTNO.dummy(b.basis)
    env = TTNEnviron(b, opb, build_environ=False)
    r = attempt("env wrong ttns", lambda: env.build_children_environ(a, opb))
    out("env wrong ttns returned", r)
    out(dig_env(env, parent=False))
    attempt("env None", lambda: env.build_children_environ(None, opb))


if __name__ == "__main__":
    np.set_printoptions(precision=8, suppress=True)
    section_add()
    section_compress()
    section_rdm()
    section_environ()
