import os
import sys

sys.path.insert(0, os.path.dirname(os.path.abspath(__file__)))
import print_tree as _pt  # stub module living next to this script

sys.modules.setdefault("print_tree", _pt)

import hashlib
import numpy as np

from renormalizer import BasisHalfSpin, BasisSHO, BasisSimpleElectron, Op
from renormalizer.model.model import heisenberg_ops
from renormalizer.tn.node import TreeNodeBasis
from renormalizer.tn.tree import TTNO, TTNS, TTNEnviron
from renormalizer.tn.treebase import BasisTree
from renormalizer.tn.gs import optimize_ttns

ND = 9


def dig(a):
    a = np.asarray(a)
    if a.dtype == object:
        return repr(a)
    r = np.round(a.astype(complex) if np.iscomplexobj(a) else a.astype(float), ND) + 0.0
    flat = r.ravel()
    h = hashlib.md5(np.ascontiguousarray(r).tobytes()).hexdigest()[:12]
    s = np.round(np.sum(np.abs(flat)), 7) if flat.size else 0.0
    return "shape=%s dtype=%s sumabs=%s md5=%s" % (a.shape, a.dtype.kind, s, h)


def out(*args):
    print(*args)


def attempt(label, f):
    try:
        res = f()
    except Exception as e:  # digest of the exception type only
        out(label, "EXC", type(e).__name__)
        return None
    return res


def dense(x):
    # todense is not in scope here; it fails for trees with dummy nodes
    try:
        return dig(x.todense())
    except Exception as e:
        return "EXC " + type(e).__name__


def multi_basis_tree(basis_list):
    node1 = TreeNodeBasis([basis_list[0], basis_list[1]])
    node2 = TreeNodeBasis([basis_list[2]])
    node3 = TreeNodeBasis([basis_list[3]])
    node4 = TreeNodeBasis([basis_list[4], basis_list[5], basis_list[6]])
    node3.add_child(node2)
    node2.add_child(node1)
    node2.add_child(node4)
    return BasisTree(node3)


def star_tree(basis_list):
    # root with three children, one of which has two children; multi-set root
    root = TreeNodeBasis([basis_list[0], basis_list[1]])
    c1 = TreeNodeBasis([basis_list[2]])
    c2 = TreeNodeBasis([basis_list[3]])
    c3 = TreeNodeBasis([basis_list[4]])
    g1 = TreeNodeBasis([basis_list[5]])
    g2 = TreeNodeBasis([basis_list[6]])
    root.add_child(c1)
    root.add_child(c2)
    root.add_child(c3)
    c2.add_child(g1)
    c2.add_child(g2)
    return BasisTree(root)


def holstein_like_tree():
    # electrons with quantum numbers + vibrations, qntot = 1
    b = []
    for i in range(3):
        b.append(BasisSimpleElectron("e%d" % i))
        b.append(BasisSHO("v%d" % i, omega=1.0 + 0.1 * i, nbas=3))
    nodes = [TreeNodeBasis([x]) for x in b]
    root = nodes[2]
    root.add_child(nodes[0])
    root.add_child(nodes[4])
    for i in range(3):
        nodes[2 * i].add_child(nodes[2 * i + 1])
    terms = []
    for i in range(3):
        terms.append(Op(r"a^\dagger a", "e%d" % i, 0.3 * (i + 1)))
        terms.append(Op(r"b^\dagger b", "v%d" % i, 1.0 + 0.1 * i))
        terms.append(Op(r"a^\dagger a", "e%d" % i, 0.2) * Op(r"b^\dagger+b", "v%d" % i))
    for i in range(2):
        terms.append(Op(r"a^\dagger a", ["e%d" % i, "e%d" % (i + 1)], 0.15))
        terms.append(Op(r"a^\dagger a", ["e%d" % (i + 1), "e%d" % i], 0.15))
    return BasisTree(root), terms


def randomise(ttns, seed, cplx):
    rng = np.random.RandomState(seed)
    if cplx:
        ttns = ttns.to_complex()
        for node in ttns.node_list:
            phase = np.exp(1j * rng.rand(node.tensor.shape[-1]))
            node.tensor = node.tensor * phase
    return ttns


def dump_ttns(label, ttns):
    for i, node in enumerate(ttns.node_list):
        out(label, "node", i, dig(node.tensor), "qn", np.asarray(node.qn).tolist())


def dump_env(label, ttne):
    for i, enode in enumerate(ttne.node_list):
        out(label, "enode", i, "parent", dig(enode.environ_parent))
        for j, c in enumerate(enode.environ_children):
            out(label, "enode", i, "child", j, dig(c))


def all_pairs(n):
    return [(i, j) for i in range(n) for j in range(n) if i != j]


def check_rdm(label, ttns, stride=1):
    n = len(ttns)
    r = ttns.calc_1site_rdm()
    out(label, "1site keys", list(r.keys()))
    for k, v in r.items():
        out(label, "1site", k, type(v).__name__, dig(v))
    r = ttns.calc_1site_rdm(n - 1)
    out(label, "1site int", [(k, dig(v)) for k, v in r.items()])
    r = ttns.calc_1site_rdm([n - 1, 0, 0])
    out(label, "1site list", [(k, dig(v)) for k, v in r.items()])
    r = ttns.calc_1site_rdm((1,))
    out(label, "1site tuple", [(k, dig(v)) for k, v in r.items()])
    r = ttns.calc_1site_rdm([])
    out(label, "1site empty", r)
    r = ttns.calc_1site_rdm(-1)
    out(label, "1site neg", [(k, dig(v)) for k, v in r.items()])
    attempt(label + " 1site str", lambda: ttns.calc_1site_rdm("0"))
    attempt(label + " 1site np.int", lambda: ttns.calc_1site_rdm(np.int64(0)))
    attempt(label + " 1site range", lambda: ttns.calc_1site_rdm([n]))
    attempt(label + " 1site dict", lambda: ttns.calc_1site_rdm({0: 1}))
    out(label, "1site entropy", dig(list(ttns.calc_1site_entropy().values())))
    r = ttns.calc_1dof_rdm()
    for k in r:
        out(label, "1dof", repr(k), dig(r[k]))
    out(label, "1dof entropy", dig(list(ttns.calc_1dof_entropy().values())))

    pairs = all_pairs(n)[::stride]
    r = ttns.calc_2site_rdm(pairs)
    out(label, "2site keys", list(r.keys()) == pairs)
    for k, v in r.items():
        out(label, "2site", k, type(v).__name__, dig(v))
    r = ttns.calc_2site_rdm((0, n - 1))
    out(label, "2site tuple", [(k, dig(v)) for k, v in r.items()])
    r = ttns.calc_2site_rdm([])
    out(label, "2site empty", r)
    r = attempt(label + " 2site [list]", lambda: ttns.calc_2site_rdm([[0, 1]]))
    r = attempt(label + " 2site triple", lambda: ttns.calc_2site_rdm([(0, 1, 2)]))
    if r is not None:
        out(label, "2site triple", [(k, dig(v)) for k, v in r.items()])
    r = attempt(label + " 2site neg", lambda: ttns.calc_2site_rdm([(-1, 0)]))
    if r is not None:
        out(label, "2site neg", [(k, dig(v)) for k, v in r.items()])
    attempt(label + " 2site None", lambda: ttns.calc_2site_rdm())
    attempt(label + " 2site same", lambda: ttns.calc_2site_rdm((1, 1)))
    attempt(label + " 2site short", lambda: ttns.calc_2site_rdm([(1,)]))
    attempt(label + " 2site range", lambda: ttns.calc_2site_rdm([(0, n)]))
    out(label, "2site entropy", dig(list(ttns.calc_2site_entropy(pairs[:5]).values())))

    dofs = ttns.basis.dof_list
    dpairs = [(dofs[0], dofs[-1]), (dofs[1], dofs[0]), (dofs[-1], dofs[-2]), (dofs[2], dofs[3])]
    r = ttns.calc_2dof_rdm(dpairs)
    for k, v in r.items():
        out(label, "2dof", repr(k), dig(v))
    mi = ttns.calc_2dof_mutual_info(dpairs)
    out(label, "2dof mutual", dig(list(mi[0].values())))


def check_apply(label, ttno, ttns):
    before = [node.tensor.copy() for node in ttns.node_list]
    for cano in [False, True]:
        new = ttno.apply(ttns, canonicalise=cano)
        dump_ttns(label + " apply cano=%s" % cano, new)
        out(label, "apply dense", dense(new), "coeff", new.coeff, "bond", new.bond_dims)
    new = ttno @ ttns
    out(label, "matmul dense", dense(new))
    new = ttno.contract(ttns)
    out(label, "contract dense", dense(new), new.bond_dims)
    out(label, "apply arg untouched", all(np.array_equal(a, n.tensor) for a, n in zip(before, ttns.node_list)))
    out(label, "expectation", np.round(ttns.expectation(ttno), ND) + 0.0)


def check_update_2site(label, ttns, ttno, seed):
    rng = np.random.RandomState(seed)
    ttns = ttns.copy()
    ttne = TTNEnviron(ttns, ttno)
    dump_env(label + " env0", ttne)
    for snode in ttns.node_list:
        lab = label + " upd2 node %d" % ttns.node_idx[snode]
        if snode.parent is None:
            attempt(lab, lambda: ttne.update_2site(snode, ttns, ttno))
            dump_env(lab + " root", ttne)
            continue
        # perturb the tensors of the node and its parent then refresh the environments
        for nd in [snode, snode.parent]:
            pert = rng.rand(*nd.tensor.shape)
            if np.iscomplexobj(nd.tensor):
                pert = pert + 1j * rng.rand(*nd.tensor.shape)
            nd.tensor = nd.tensor + 0.1 * pert * (nd.tensor != 0)
        res = ttne.update_2site(snode, ttns, ttno)
        out(lab, "ret", res)
        dump_env(lab, ttne)
    # consistency: a freshly built environment
    fresh = TTNEnviron(ttns, ttno)
    dump_env(label + " fresh", fresh)


def main():
    nspin = 7
    spins = [BasisHalfSpin(i) for i in range(nspin)]
    ham = heisenberg_ops(nspin)
    partial_terms = [Op("sigma_z", 2), Op("sigma_x sigma_x", [0, 5], 0.7), Op("sigma_+ sigma_-", [3, 6], 1.3)]

    topologies = [
        ("binary", 7, lambda: BasisTree.binary([BasisHalfSpin(i) for i in range(nspin)])),
        ("multi", 7, lambda: multi_basis_tree([BasisHalfSpin(i) for i in range(nspin)])),
        ("star", 7, lambda: star_tree([BasisHalfSpin(i) for i in range(nspin)])),
        ("linear", 5, lambda: BasisTree.linear([BasisHalfSpin(i) for i in range(5)])),
        ("t3ns", 6, lambda: BasisTree.t3ns([BasisHalfSpin(i) for i in range(6)])),
    ]
    seed = 100
    for name, n_dof, mk in topologies:
        basis = mk()
        terms = [t for t in ham if all(d < n_dof for d in t.dofs)]
        for cplx in [False, True]:
            for m in ([1, 4] if not cplx else [3]):
                seed += 1
                np.random.seed(seed)
                label = "%s c=%d m=%d" % (name, cplx, m)
                ttns = randomise(TTNS.random(basis, qntot=0, m_max=m), seed, cplx)
                out(label, "bond", ttns.bond_dims)
                check_rdm(label, ttns, stride=1 if cplx else (2 if m > 1 else 3))
                ttno = TTNO(basis, terms)
                check_apply(label, ttno, ttns)
                check_update_2site(label, ttns, ttno, seed)
                ttno_p = TTNO(basis, [t for t in partial_terms if all(d < n_dof for d in t.dofs)])
                check_apply(label + " pterms", ttno_p, ttns)

    # partial operators: the state has auxiliary degrees of freedom the operator does not know
    for name, _, mk in topologies[:3]:
        basis = mk()
        basis2 = basis.add_auxiliary_space()
        seed += 1
        np.random.seed(seed)
        label = "aux-" + name
        ttns = randomise(TTNS.random(basis2, qntot=0, m_max=3), seed, True)
        ttno = TTNO(basis, ham)
        check_apply(label, ttno, ttns)
        check_update_2site(label, ttns, ttno, seed)
        r = ttns.calc_1site_rdm([0, 1])
        out(label, "1site", [(k, dig(v)) for k, v in r.items()])
        r = ttns.calc_2site_rdm([(0, len(ttns) - 1), (2, 1)])
        out(label, "2site", [(k, dig(v)) for k, v in r.items()])

    # non-zero quantum numbers
    basis, terms = holstein_like_tree()
    for cplx in [False, True]:
        seed += 1
        np.random.seed(seed)
        label = "holstein c=%d" % cplx
        ttns = randomise(TTNS.random(basis, qntot=1, m_max=4), seed, cplx)
        out(label, "bond", ttns.bond_dims, "qntot", np.asarray(ttns.qntot).tolist())
        check_rdm(label, ttns)
        ttno = TTNO(basis, terms)
        check_apply(label, ttno, ttns)
        check_update_2site(label, ttns, ttno, seed)

    # product state via condition
    ttns = TTNS(basis, {"e1": 1, "v0": 2})
    check_rdm("holstein product", ttns)
    check_apply("holstein product", TTNO(basis, terms), ttns)

    # two-site sweeps use TTNEnviron.update_2site in both directions
    np.random.seed(7)
    ttns = TTNS.random(basis, qntot=1, m_max=4)
    ttno = TTNO(basis, terms)
    e = optimize_ttns(ttns, ttno, [[4, 0.4], [4, 0.0]])
    out("gs holstein", np.round(e, 8))
    out("gs holstein dense", dig(np.abs(ttns.todense())))
    np.random.seed(8)
    b = BasisTree.binary([BasisHalfSpin(i) for i in range(nspin)])
    ttns = TTNS.random(b, qntot=0, m_max=6)
    e = optimize_ttns(ttns, TTNO(b, ham), [[6, 0.3], [6, 0.0]])
    out("gs heisenberg", np.round(e, 8))
    out("gs heisenberg 2site", dig(np.abs(ttns.calc_2site_rdm((0, 3))[(0, 3)])))

    # two-site time evolution uses both update_2site methods
    from renormalizer.utils import EvolveConfig, EvolveMethod
    np.random.seed(9)
    ttns = TTNS.random(basis, qntot=1, m_max=3)
    ttns.evolve_config = EvolveConfig(EvolveMethod.tdvp_ps2)
    ttno = TTNO(basis, terms)
    for _ in range(2):
        ttns = ttns.evolve(ttno, 0.05)
    out("tdvp_ps2", dense(ttns), np.round(ttns.expectation(ttno), 8))


if __name__ == "__main__":
    main()
