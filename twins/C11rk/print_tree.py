# minimal stub of the third-party ``print_tree`` package (not installed here)
class print_tree(object):
    def __init__(self, *args, **kwargs):
        pass
