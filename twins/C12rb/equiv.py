import sys, types

_pt = types.ModuleType("print_tree")
_pt.print_tree = object
sys.modules.setdefault("print_tree", _pt)

import logging
import warnings

warnings.filterwarnings("ignore")
logging.disable(logging.CRITICAL)

import numpy as np

from renormalizer import Op, Quantity
from renormalizer.mps.mps import expand_bond_dimension_general
from renormalizer.tests.parameter_exact import model
from renormalizer.tests import parameter
from renormalizer.tn import BasisTree, TTNO, TTNS
from renormalizer.tn.node import TreeNodeBasis
from renormalizer.tn.tree import TTNEnviron
from renormalizer.tn.utils_eph import max_entangled_ex
from renormalizer.tn import time_evolution as te
from renormalizer.utils import EvolveConfig, EvolveMethod, CompressConfig, CompressCriteria

ND = 9


def r(x):
    x = complex(x)
    re = round(x.real, ND) + 0.0
    im = round(x.imag, ND) + 0.0
    return f"({re:.{ND}f},{im:.{ND}f})"


def digest(tag, ttns, ops=()):
    print(f"[{tag}] bond_dims={list(ttns.bond_dims)} coeff={r(ttns.coeff)} norm={r(ttns.ttns_norm)}")
    for i, node in enumerate(ttns.node_list):
        t = np.asarray(node.tensor)
        print(
            f"   node{i} shape={t.shape} dtype={t.dtype} sum={r(t.sum())} abs={r(np.abs(t).sum())} "
            f"w={r((t.ravel() * np.cos(np.arange(t.size))).sum())} qn={np.asarray(node.qn).tolist()}"
        )
    for j, o in enumerate(ops):
        print(f"   op{j} -> {r(ttns.expectation(o))}")


def tree_t():
    node_list = [TreeNodeBasis([basis]) for basis in model.basis]
    root = node_list[2]
    root.add_child(node_list[0])
    root.add_child(node_list[3])
    root.add_child(node_list[4])
    node_list[0].add_child(node_list[1])
    node_list[4].add_child(node_list[5])
    return BasisTree(root)


def star():
    # root with three leaves, some nodes carry several basis sets
    b = list(model.basis)
    root = TreeNodeBasis(b[0:1])
    for group in (b[1:3], b[3:4], b[4:6]):
        root.add_child(TreeNodeBasis(group))
    return BasisTree(root)


def two_nodes():
    # two nodes, several basis sets per node
    n1 = TreeNodeBasis(list(model.basis[:3]))
    n2 = TreeNodeBasis(list(model.basis[3:]))
    n1.add_child(n2)
    return BasisTree(n1)


TOPOLOGIES = {
    "linear": lambda: BasisTree.linear(model.basis),
    "tree": tree_t,
    "mctdh": lambda: BasisTree.binary_mctdh(model.basis),
    "star": star,
    "two": two_nodes,
}


def setup(topo, seed, expand=True, m=5):
    np.random.seed(seed)
    basis = TOPOLOGIES[topo]()
    ttno = TTNO(basis, model.ham_terms)
    ops = [TTNO(basis, [Op(r"a^\dagger a", i)]) for i in range(3)] + [ttno]
    ttns = TTNS(basis, {0: 1})
    if expand:
        ttns = ttns + ttns.random(basis, 1, m).scale(1e-2, inplace=True)
        ttns.canonicalise()
    ttns.compress_config = CompressConfig(CompressCriteria.fixed, max_bonddim=8)
    return basis, ttns, ttno, ops


def run_evolve():
    methods = [
        (EvolveMethod.tdvp_vmf, dict(ivp_rtol=1e-4, ivp_atol=1e-7, force_ovlp=False)),
        (EvolveMethod.prop_and_compress_tdrk4, {}),
        (EvolveMethod.tdvp_ps, {}),
        (EvolveMethod.tdvp_ps2, {}),
    ]
    for topo in ["linear", "tree", "mctdh", "star", "two"]:
        for method, kw in methods:
            for tau in [0.3, -0.2j, 0.05j]:
                if method is EvolveMethod.tdvp_vmf and (tau == 0.05j or (topo in ("mctdh", "star") and tau != 0.3)):
                    continue
                basis, ttns, ttno, ops = setup(topo, 7)
                ttns.evolve_config = EvolveConfig(method, **kw)
                tag = f"evolve {topo} {method.name} tau={tau}"
                try:
                    cur = ttns
                    for istep in range(2):
                        cur = cur.evolve(ttno, tau)
                    digest(tag, cur, ops)
                    # the original state is untouched
                    digest(tag + " orig", ttns)
                except Exception as e:  # keep the digest deterministic
                    print(f"[{tag}] EXC {type(e).__name__}: {e}")


def run_evolve_variants():
    basis, ttns, ttno, ops = setup("tree", 11)
    for method in [EvolveMethod.tdvp_ps, EvolveMethod.tdvp_ps2, EvolveMethod.prop_and_compress_tdrk4]:
        ttns.evolve_config = EvolveConfig(method)
        for tau in [0.4, np.float64(0.25), 1, 0.3 + 0j, -0.1j, 0.2 - 0.1j, np.complex128(0.3j), -0.7]:
            if method is EvolveMethod.tdvp_ps2 and tau not in (0.4, -0.1j):
                continue
            for normalize in [True, False]:
                tag = f"variant {method.name} tau={tau!r} normalize={normalize}"
                try:
                    new = ttns.evolve(ttno, tau, normalize=normalize)
                    digest(tag, new, ops[-1:])
                    print("   same object:", new is ttns)
                except Exception as e:
                    print(f"[{tag}] EXC {type(e).__name__}: {e}")
    # complex initial state with a non-trivial coeff
    ttns.evolve_config = EvolveConfig(EvolveMethod.tdvp_ps)
    c = ttns.to_complex()
    c.root.tensor = c.root.tensor * np.exp(0.3j)
    c.coeff = 0.5 - 0.25j
    for tau in [0.2, -0.2j]:
        for normalize in [True, False]:
            new = c.evolve(ttno, tau, normalize=normalize)
            digest(f"complex-coeff tau={tau} normalize={normalize}", new, ops[-1:])
    # unknown method
    ttns.evolve_config = EvolveConfig(EvolveMethod.tdvp_mu_vmf)
    try:
        ttns.evolve(ttno, 0.1)
    except Exception as e:
        print(f"[unknown method] EXC {type(e).__name__}: {e}")


def run_random_qn():
    # random states in different symmetry sectors (incl. qntot = 0 and 2)
    for topo in ["tree", "linear"]:
        for qntot in [0, 1, 2]:
            np.random.seed(100 + qntot)
            basis = TOPOLOGIES[topo]()
            ttno = TTNO(basis, model.ham_terms)
            try:
                ttns = TTNS.random(basis, qntot, 4)
            except Exception as e:
                print(f"[random {topo} qn={qntot}] setup EXC {type(e).__name__}")
                continue
            ttns.compress_config = CompressConfig(CompressCriteria.fixed, max_bonddim=6)
            for method in [EvolveMethod.tdvp_ps, EvolveMethod.tdvp_ps2]:
                ttns.evolve_config = EvolveConfig(method)
                for tau in [0.5, -0.3j]:
                    tag = f"random {topo} qn={qntot} {method.name} tau={tau}"
                    try:
                        new = ttns.evolve(ttno, tau).evolve(ttno, tau)
                        digest(tag, new, [ttno])
                    except Exception as e:
                        print(f"[{tag}] EXC {type(e).__name__}: {e}")


def run_sweeps():
    # the two half sweeps called directly, with odd coefficients / negative steps
    for topo in ["linear", "tree", "mctdh", "star", "two"]:
        for coeff, tau in [(-1j, 0.2), (1, -0.15), (0.3 - 0.7j, 0.1)]:
            for order in ["fb", "bf"]:
                basis, ttns, ttno, ops = setup(topo, 3)
                if np.iscomplexobj(np.array(coeff)):
                    ttns = ttns.to_complex()
                ttne = TTNEnviron(ttns, ttno)
                fns = {"f": te._tdvp_ps_forward, "b": te._tdvp_ps_backward}
                tag = f"sweep {topo} coeff={coeff} tau={tau} {order}"
                try:
                    steps = []
                    for ch in order:
                        steps.append(fns[ch](ttns, ttno, ttne, coeff, tau))
                    print(f"[{tag}] steps={steps}")
                    digest(tag, ttns, ops[-1:])
                    for i, enode in enumerate(ttne.node_list):
                        ep = np.asarray(enode.environ_parent)
                        print(f"   env{i} parent shape={ep.shape} abs={r(np.abs(ep).sum())}")
                        for k, ec in enumerate(enode.environ_children):
                            ec = np.asarray(ec)
                            print(f"   env{i} child{k} shape={ec.shape} abs={r(np.abs(ec).sum())}")
                except Exception as e:
                    print(f"[{tag}] EXC {type(e).__name__}: {e}")


def run_single_node():
    basis = BasisTree(TreeNodeBasis(list(model.basis)))
    ttno = TTNO(basis, model.ham_terms)
    ttns = TTNS(basis, {0: 1})
    for method in [EvolveMethod.tdvp_ps, EvolveMethod.tdvp_ps2, EvolveMethod.tdvp_vmf]:
        ttns.evolve_config = EvolveConfig(method)
        for tau in [0.3, -0.3j]:
            tag = f"single-node {method.name} tau={tau}"
            try:
                new = ttns.evolve(ttno, tau)
                digest(tag, new, [ttno])
            except Exception as e:
                print(f"[{tag}] EXC {type(e).__name__}: {e}")
    ttns = ttns.to_complex()
    ttne = TTNEnviron(ttns, ttno)
    print("single fwd", te._tdvp_ps_forward(ttns, ttno, ttne, -1j, 0.1))
    print("single bwd", te._tdvp_ps_backward(ttns, ttno, ttne, -1j, 0.1))
    digest("single-node sweeps", ttns, [ttno])


def run_thermal():
    holstein_model = parameter.holstein_model
    basis_tree = BasisTree.binary_mctdh(holstein_model.basis, contract_primitive=True)
    basis_tree2 = basis_tree.add_auxiliary_space()
    ttns = max_entangled_ex(basis_tree2)
    ttns.compress_config.bond_dim_max_value = 8
    ttno = TTNO(basis_tree, holstein_model.ham_terms)
    ttns = expand_bond_dimension_general(ttns, hint_mpo=ttno)
    beta = Quantity(298, "K").to_beta()
    dbeta = beta / 2j / 20
    for method in [EvolveMethod.tdvp_ps, EvolveMethod.tdvp_ps2]:
        cur = ttns.copy()
        cur.evolve_config = EvolveConfig(method)
        try:
            for i in range(3):
                cur = cur.evolve(ttno, dbeta)
            digest(f"thermal imag {method.name}", cur, [ttno])
            for i in range(2):
                cur = cur.evolve(ttno, 5.0)
            digest(f"thermal real {method.name}", cur, [ttno])
        except Exception as e:
            print(f"[thermal {method.name}] EXC {type(e).__name__}: {e}")


def run_reginv():
    rng = np.random.RandomState(5)
    for n in [1, 2, 5, 8]:
        for kind in ["real", "complex", "singular"]:
            a = rng.rand(n, n) - 0.5
            if kind == "complex":
                a = a + 1j * (rng.rand(n, n) - 0.5)
            if kind == "singular":
                a = a[:, : max(n // 2, 1)]
            m = a @ a.conj().T
            for eps in [1e-10, 1e-5, 0.3]:
                with np.errstate(all="ignore"):
                    inv = te.regularized_inversion(m, eps)
                w = np.cos(np.arange(inv.size)).reshape(inv.shape)
                scale = max(np.abs(inv).max(), 1.0)
                print(
                    f"[reginv n={n} {kind} eps={eps}] shape={inv.shape} dtype={inv.dtype} "
                    f"w={r((inv * w).sum() / scale)} abs={r(np.abs(inv).sum() / scale)} "
                    f"herm={r(np.abs(inv - inv.conj().T).max() / scale)} log10scale={round(float(np.log10(scale)), 6)}"
                )
    # a non-hermitian input: eigh only reads one triangle
    m = rng.rand(4, 4) + 1j * rng.rand(4, 4)
    for eps in [1e-3, 10.0]:
        try:
            inv = te.regularized_inversion(m, eps)
            print(f"[reginv nonherm eps={eps}]", r(inv.sum()), r(np.abs(inv).sum()))
        except Exception as e:
            print(f"[reginv nonherm eps={eps}] EXC {type(e).__name__}: {e}")
    m = np.diag([-1.0, 0.0, 2.0])
    with np.errstate(all="ignore"):
        inv = te.regularized_inversion(m, 0.5)
    print("[reginv indefinite]", np.round(inv, ND).tolist())
    try:
        te.regularized_inversion(np.zeros((2, 3)), 0.5)
    except Exception as e:
        print(f"[reginv nonsquare] EXC {type(e).__name__}: {e}")


if __name__ == "__main__":
    run_reginv()
    run_single_node()
    run_sweeps()
    run_evolve()
    run_evolve_variants()
    run_random_qn()
    run_thermal()
