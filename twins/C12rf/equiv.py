import sys, types

_pt = types.ModuleType("print_tree")
_pt.print_tree = object
sys.modules.setdefault("print_tree", _pt)

import logging

logging.disable(logging.CRITICAL)

import numpy as onp

from renormalizer import BasisHalfSpin, Op, Quantity
from renormalizer.model.model import heisenberg_ops
from renormalizer.mps.mps import expand_bond_dimension_general
from renormalizer.tests import parameter
from renormalizer.tests.parameter_exact import model as exact_model
from renormalizer.tn import BasisTree, TTNO, TTNS
from renormalizer.tn.node import TreeNodeBasis
from renormalizer.tn.tree import TTNEnviron
from renormalizer.tn.gs import optimize_ttns, optimize_recursion, optimize_2site
from renormalizer.tn.hop_expr import hop_expr0, hop_expr1, hop_expr2
from renormalizer.tn import time_evolution as te
from renormalizer.tn.utils_eph import max_entangled_ex
from renormalizer.utils import EvolveConfig, EvolveMethod, CompressConfig, CompressCriteria

ND = 7


def r(x):
    """deterministic digest of a number / array"""
    a = onp.asarray(x)
    if a.dtype == bool:
        return f"bool{a.shape}:{int(a.sum())}"
    if a.dtype == object:
        return repr(x)
    a = a.astype(complex)
    parts = [
        str(a.shape),
        f"{onp.round(onp.linalg.norm(a.ravel()), ND):.{ND}f}",
        f"{onp.round(onp.abs(a).sum(), ND - 1):.{ND - 1}f}",
        f"{onp.round(onp.abs(a.real).sum(), ND - 1):.{ND - 1}f}",
        f"{onp.round(onp.abs(a.imag).sum(), ND - 1):.{ND - 1}f}",
    ]
    return "|".join(parts)


def state_digest(ttns: TTNS, dense=True):
    out = []
    for i, node in enumerate(ttns.node_list):
        out.append(f"  node{i} shape={tuple(node.tensor.shape)} dtype={node.tensor.dtype.kind} qn={onp.asarray(node.qn).tolist()} t={r(node.tensor)}")
    if dense:
        d = ttns.todense()
        out.append(f"  dense={r(d)} coeff={r(ttns.coeff)}")
    return "\n".join(out)


def section(name):
    print("=" * 10, name)


def guarded(f, *args, **kwargs):
    try:
        return f(*args, **kwargs)
    except Exception as e:  # noqa
        return f"EXC {type(e).__name__}: {str(e)[:80]}"


# ---------------------------------------------------------------- trees
def multi_basis_tree(basis_list):
    node1 = TreeNodeBasis([basis_list[0], basis_list[1]])
    node2 = TreeNodeBasis([basis_list[2]])
    node3 = TreeNodeBasis([basis_list[3]])
    node4 = TreeNodeBasis([basis_list[4], basis_list[5], basis_list[6]])
    node3.add_child(node2)
    node2.add_child(node1)
    node2.add_child(node4)
    return BasisTree(node3)


def exact_tree():
    node_list = [TreeNodeBasis([basis]) for basis in exact_model.basis]
    root = node_list[2]
    root.add_child(node_list[0])
    root.add_child(node_list[3])
    root.add_child(node_list[4])
    node_list[0].add_child(node_list[1])
    node_list[4].add_child(node_list[5])
    return BasisTree(root)


def holstein_scheme4():
    model = parameter.holstein_model.switch_scheme(4)
    node_list = [TreeNodeBasis([basis]) for basis in model.basis]
    root = node_list.pop(2)
    for i in range(3):
        root.add_child(node_list[2 * i])
        node_list[2 * i].add_child(node_list[2 * i + 1])
    return model, BasisTree(root)


nspin = 7
spin_basis = [BasisHalfSpin(i) for i in range(nspin)]
spin_basis_qn = [BasisHalfSpin(i, sigmaqn=[-1, 1]) for i in range(nspin)]


def spin_cases():
    yield "binary", BasisTree.binary(spin_basis), 0
    yield "multi", multi_basis_tree(spin_basis), 0
    yield "binary_qn", BasisTree.binary(spin_basis_qn), 1
    yield "multi_qn", multi_basis_tree(spin_basis_qn), -1
    yield "linear_qn", BasisTree.linear(spin_basis_qn[:4]), 0


# ---------------------------------------------------------------- 1. hop_expr1 / hop_expr2 / merge_with_parent / update_2site
def local_checks():
    section("local: merge_with_parent / hop_expr1 / hop_expr2 / update_2site")
    for name, basis, qntot in spin_cases():
        onp.random.seed(2024)
        n = len(basis.basis_list)
        ttno = TTNO(basis, heisenberg_ops(n))
        ttns = TTNS.random(basis, qntot=qntot, m_max=5)
        # make it complex
        ttns = ttns.to_complex()
        for node in ttns.node_list:
            node.tensor = node.tensor * onp.exp(0.3j)
        ttne = TTNEnviron(ttns, ttno)
        print(f"-- {name} qntot={onp.asarray(ttns.qntot).tolist()} bond_dims={list(ttns.bond_dims)}")
        for inode, node in enumerate(ttns.node_list):
            # hop_expr1 with and without hdiag
            e1 = hop_expr1(node, ttns, ttno, ttne)
            e1b, hd1 = hop_expr1(node, ttns, ttno, ttne, return_hdiag=True)
            print(f" n{inode} hop1={r(e1(node.tensor))} hop1b={r(e1b(node.tensor))} hdiag1={r(hd1)}")
            if node.parent is None:
                print(f" n{inode} hop2_root={guarded(hop_expr2, node, ttns, ttno, ttne)}")
                print(f" n{inode} merge_root={guarded(ttns.merge_with_parent, node)}")
                continue
            ms2 = ttns.merge_with_parent(node)
            e2, hd2 = hop_expr2(node, ttns, ttno, ttne)
            print(f" n{inode} ms2={r(ms2)} hop2={r(e2(ms2))} hdiag2={r(hd2)}")
            e0 = hop_expr0(node, ttns, ttno, ttne)
            x0 = onp.arange(node.shape[-1] ** 2).reshape(node.shape[-1], -1) + 0.5j
            print(f" n{inode} hop0={r(e0(x0))}")
            nidx = ttns.node_idx[node]
            m_variants = [
                ("None", None),
                ("int2", 2),
                ("int100", 100),
                ("list", [3] * len(ttns.node_list)),
                ("tuple", tuple(range(1, len(ttns.node_list) + 1))),
                ("ndarray", onp.arange(1, len(ttns.node_list) + 1)[::-1]),
            ]
            for mname, m in m_variants:
                for percent in (0, 0.4):
                    for cano_parent in (True, False):
                        t2 = ttns.copy()
                        t2.compress_config = CompressConfig(CompressCriteria.fixed, max_bonddim=3)
                        node2 = t2.node_list[nidx]
                        ret = t2.update_2site(node2, ms2.copy(), m, percent, cano_parent=cano_parent)
                        print(f" n{inode} upd m={mname} p={percent} cp={cano_parent} ret={ret} max_dims={onp.asarray(t2.compress_config.max_dims).tolist()}")
                        print(state_digest(t2))
            # default arguments, threshold criteria (bonddim_should_set False)
            t2 = ttns.copy()
            t2.compress_config = CompressConfig(CompressCriteria.threshold, threshold=1e-2)
            t2.update_2site(t2.node_list[nidx], ms2.copy())
            print(f" n{inode} upd default-threshold max_dims={t2.compress_config.max_dims}")
            print(state_digest(t2))
            t2 = ttns.copy()
            t2.compress_config = CompressConfig(CompressCriteria.both, threshold=1e-2, max_bonddim=2)
            t2.update_2site(t2.node_list[nidx], ms2.copy(), cano_parent=False)
            print(f" n{inode} upd both max_dims={onp.asarray(t2.compress_config.max_dims).tolist()}")
            print(state_digest(t2))
        # update_2site on root: assertion
        t2 = ttns.copy()
        print(" upd root:", guarded(t2.update_2site, t2.root, onp.ones(4)))


# ---------------------------------------------------------------- 2. sweeps of tdvp_ps called directly
def sweep_checks():
    section("sweeps: _tdvp_ps_forward / _tdvp_ps_backward / evolve_tdvp_ps")
    for name, basis, qntot in spin_cases():
        onp.random.seed(7)
        n = len(basis.basis_list)
        ttno = TTNO(basis, heisenberg_ops(n))
        ttns0 = TTNS.random(basis, qntot=qntot, m_max=4)
        ttns0.canonicalise()
        for coeff, tau in [(-1j, 0.3), (1, -0.2), (-1j, -0.15), (0.5 - 0.5j, 0.1)]:
            ttns = ttns0.to_complex()
            ttne = TTNEnviron(ttns, ttno)
            s1 = te._tdvp_ps_forward(ttns, ttno, ttne, coeff, tau)
            print(f"-- {name} coeff={coeff} tau={tau} forward steps={s1}")
            print(state_digest(ttns))
            s2 = te._tdvp_ps_backward(ttns, ttno, ttne, coeff, tau)
            print(f"-- {name} coeff={coeff} tau={tau} backward steps={s2}")
            print(state_digest(ttns))
            print(f"   e={r(ttns.expectation(ttno))} canonical={ttns.is_canonical()}")
            ttns = ttns0.to_complex()
            ret = te.evolve_tdvp_ps(ttns, ttno, coeff, tau)
            print(f"-- {name} evolve_tdvp_ps same_obj={ret is ttns}")
            print(state_digest(ret))
            ttns = ttns0.to_complex()
            ret = te.evolve_tdvp_ps2(ttns, ttno, coeff, tau)
            print(f"-- {name} evolve_tdvp_ps2 same_obj={ret is ttns}")
            print(state_digest(ret))
    # single node tree
    basis = BasisTree(TreeNodeBasis([spin_basis[0], spin_basis[1]]))
    ttno = TTNO(basis, heisenberg_ops(2))
    onp.random.seed(3)
    ttns = TTNS.random(basis, qntot=0, m_max=2).to_complex()
    ttne = TTNEnviron(ttns, ttno)
    print("-- single node forward", guarded(te._tdvp_ps_forward, ttns, ttno, ttne, -1j, 0.2))
    print(state_digest(ttns))
    print("-- single node backward", guarded(te._tdvp_ps_backward, ttns, ttno, ttne, -1j, 0.2))
    print(state_digest(ttns))
    print("-- single node ps", type(guarded(te.evolve_tdvp_ps, ttns, ttno, -1j, 0.2)).__name__)
    print(state_digest(ttns))
    r2 = guarded(te.evolve_tdvp_ps2, ttns, ttno, -1j, 0.2)
    print("-- single node ps2", r2 if isinstance(r2, str) else type(r2).__name__)
    # non-canonical input
    onp.random.seed(4)
    basis = BasisTree.binary(spin_basis)
    ttns = TTNS.random(basis, qntot=0, m_max=3)
    ttns.push_cano_to_child(ttns.root, 0)
    ttno = TTNO(basis, heisenberg_ops(nspin))
    r3 = guarded(te.evolve_tdvp_ps, ttns, ttno, -1j, 0.2)
    print("-- noncanonical ps", r3 if isinstance(r3, str) else type(r3).__name__)


# ---------------------------------------------------------------- 3. multi-step evolution through TTNS.evolve
def evolve_checks():
    section("evolve: multi-step, real and imaginary time")
    basis = exact_tree()
    ttno = TTNO(basis, exact_model.ham_terms)
    op_n_list = [TTNO(basis, [Op(r"a^\dagger a", i)]) for i in range(3)]
    for method in (EvolveMethod.tdvp_ps, EvolveMethod.tdvp_ps2):
        for tau in (0.4, -0.3j):
            onp.random.seed(11)
            ttns = TTNS(basis, {0: 1})
            ttns = ttns + ttns.random(ttns.basis, 1, 5).scale(1e-5, inplace=True)
            ttns.canonicalise()
            ttns.evolve_config = EvolveConfig(method)
            ttns.compress_config = CompressConfig(CompressCriteria.fixed)
            for istep in range(3):
                ttns = ttns.evolve(ttno, tau)
                es = [onp.round(complex(ttns.expectation(o)), ND) + 0 for o in op_n_list]
                print(f"-- {method.name} tau={tau} step={istep} n={es} e={r(ttns.expectation(ttno))} qntot={onp.asarray(ttns.qntot).tolist()} bond={list(ttns.bond_dims)}")
            print(state_digest(ttns))

    # finite temperature: auxiliary space, ttno lacks the Q dofs
    holstein_model = parameter.holstein_model
    basis_tree = BasisTree.binary_mctdh(holstein_model.basis, contract_primitive=True)
    basis_tree2 = basis_tree.add_auxiliary_space()
    ttno = TTNO(basis_tree, holstein_model.ham_terms)
    for method in (EvolveMethod.tdvp_ps, EvolveMethod.tdvp_ps2):
        onp.random.seed(5)
        ttns = max_entangled_ex(basis_tree2)
        ttns.compress_config.bond_dim_max_value = 6
        ttns = expand_bond_dimension_general(ttns, hint_mpo=ttno)
        ttns.evolve_config = EvolveConfig(method)
        beta = Quantity(298, "K").to_beta()
        dbeta = beta / 2j / 20
        for istep in range(2):
            res = guarded(ttns.evolve, ttno, dbeta)
            if isinstance(res, str):
                print(f"-- thermal {method.name} step={istep} {res}")
                break
            ttns = res
            print(f"-- thermal {method.name} step={istep} e={r(ttns.expectation(ttno))} bond={list(ttns.bond_dims)}")
        print(state_digest(ttns, dense=False))
        # local quantities with skipped physical indices
        ttne = TTNEnviron(ttns, ttno)
        for inode, node in enumerate(ttns.node_list):
            e1 = hop_expr1(node, ttns, ttno, ttne)
            line = f" n{inode} hop1={r(e1(node.tensor))}"
            res = guarded(hop_expr1, node, ttns, ttno, ttne, True)
            line += f" hd1={res if isinstance(res, str) else r(res[1])}"
            if node.parent is not None:
                ms2 = ttns.merge_with_parent(node)
                line += f" ms2={r(ms2)}"
                res = guarded(hop_expr2, node, ttns, ttno, ttne)
                if isinstance(res, str):
                    line += " hop2=" + res
                else:
                    line += f" hop2={r(res[0](ms2))} hd2={r(res[1])}"
            print(line)


# ---------------------------------------------------------------- 4. ground state
def gs_checks():
    section("gs: optimize_ttns / optimize_recursion / optimize_2site")
    model, basis = holstein_scheme4()
    ttno = TTNO(basis, model.ham_terms)
    for m_type in ("int", "list"):
        onp.random.seed(9)
        m = 4
        ttns = TTNS.random(basis, qntot=1, m_max=m)
        if m_type == "list":
            m = ttns.bond_dims
        procedure = [[m, 0.4], [m, 0.2], [m, 0]]
        e = optimize_ttns(ttns, ttno, procedure)
        print(f"-- holstein4 m={m_type} e={[float(onp.round(x, ND)) for x in e]}")
        print(state_digest(ttns, dense=False))
    for name, basis, qntot in spin_cases():
        onp.random.seed(10)
        n = len(basis.basis_list)
        ttno = TTNO(basis, heisenberg_ops(n))
        ttns = TTNS.random(basis, qntot=qntot, m_max=6)
        ttne = TTNEnviron(ttns, ttno)
        for inode, node in enumerate(ttns.node_list):
            if node.parent is None:
                continue
            e, c = optimize_2site(node, ttns, ttno, ttne)
            print(f"-- {name} optimize_2site n{inode} e={float(onp.round(e, ND))} c={r(c)}")
        micro = optimize_recursion(ttns.root, ttns, ttno, ttne, 5, 0.3)
        print(f"-- {name} recursion micro_e={[float(onp.round(x, ND)) for x in micro]}")
        print(state_digest(ttns))
        e = optimize_ttns(ttns, ttno, [[4, 0.2], [4, 0]])
        print(f"-- {name} optimize_ttns e={[float(onp.round(x, ND)) for x in e]}")
        print(state_digest(ttns))
    # single node
    basis = BasisTree(TreeNodeBasis([spin_basis[0], spin_basis[1]]))
    ttno = TTNO(basis, heisenberg_ops(2))
    ttns = TTNS.random(basis, qntot=0, m_max=2)
    print("-- single node gs", guarded(optimize_ttns, ttns, ttno, [[2, 0]]))


if __name__ == "__main__":
    import time

    t0 = time.time()
    local_checks()
    t1 = time.time()
    sweep_checks()
    t2 = time.time()
    evolve_checks()
    t3 = time.time()
    gs_checks()
    t4 = time.time()
    print(f"timing local={t1 - t0:.1f} sweep={t2 - t1:.1f} evolve={t3 - t2:.1f} gs={t4 - t3:.1f}", file=sys.stderr)
