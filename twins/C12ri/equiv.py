"""Equivalence check for the C12ri refactoring.

Exercises evolve_0site / evolve_1site / evolve_2site directly and TTNS.evolve with
all four tree evolution schemes, and prints a deterministic digest.
"""
import os
import sys

# stub module ``print_tree`` lives next to this script
sys.path.insert(0, os.path.dirname(os.path.abspath(__file__)))

import logging

logging.disable(logging.CRITICAL)

import numpy as np

from renormalizer import Op, BasisHalfSpin, BasisSHO, BasisSimpleElectron
from renormalizer.model.model import heisenberg_ops
from renormalizer.tn import BasisTree, TTNO, TTNS
from renormalizer.tn.node import TreeNodeBasis
from renormalizer.tn.tree import TTNEnviron
from renormalizer.tn import time_evolution as te
from renormalizer.utils import EvolveConfig, EvolveMethod, CompressConfig, CompressCriteria


def digest(x):
    x = np.asarray(x)
    flat = x.ravel()
    head = np.round(flat[:4], 9).tolist()
    return (
        f"shape={x.shape} dtype={x.dtype} norm={np.linalg.norm(flat):.10f} "
        f"sum={np.round(flat.sum(), 9)} abs1={np.round(np.abs(flat).sum(), 9)} head={head}"
    )


def ttns_digest(ttns):
    lines = [f"coeff={np.round(ttns.coeff, 10)} bond={ttns.bond_dims}"]
    for i, node in enumerate(ttns.node_list):
        lines.append(f"  n{i}: {digest(node.tensor)} qn={node.qn.tolist()}")
    return "\n".join(lines)


def out(*args):
    print(*args)


# ---------------------------------------------------------------------------
# models
# ---------------------------------------------------------------------------
def holstein_terms(nmol, j=1.0, omega=1.0, g=0.7):
    terms = []
    for i in range(nmol):
        terms.append(Op(r"a^\dagger a", f"e{i}", 0.1 * i))
        terms.append(Op(r"b^\dagger b", f"v{i}", omega))
        terms.append(Op(r"a^\dagger a", f"e{i}", g) * Op(r"b^\dagger+b", f"v{i}"))
    for i in range(nmol - 1):
        terms.append(Op(r"a^\dagger a", [f"e{i}", f"e{i+1}"], j))
        terms.append(Op(r"a^\dagger a", [f"e{i+1}", f"e{i}"], j))
    return terms


def holstein_basis_list(nmol, nlev=3):
    basis = []
    for i in range(nmol):
        basis.append(BasisSimpleElectron(f"e{i}"))
        basis.append(BasisSHO(f"v{i}", 1.0, nlev))
    return basis


def holstein_tree(nmol):
    # electrons on a chain below the root, every electron node carries its vibration as a leaf
    blist = holstein_basis_list(nmol)
    nodes = [TreeNodeBasis([b]) for b in blist]
    root = nodes[2]
    root.add_child(nodes[0])
    root.add_child(nodes[3])
    root.add_child(nodes[4])
    nodes[0].add_child(nodes[1])
    nodes[4].add_child(nodes[5])
    return BasisTree(root)


def spin_multi_tree(basis_list):
    node1 = TreeNodeBasis([basis_list[0], basis_list[1]])
    node2 = TreeNodeBasis([basis_list[2]])
    node3 = TreeNodeBasis([basis_list[3]])
    node4 = TreeNodeBasis([basis_list[4], basis_list[5]])
    node3.add_child(node2)
    node2.add_child(node1)
    node2.add_child(node4)
    return BasisTree(node3)


def make_state(basis, qntot, m, seed, scale=0.3, condition=None, cplx=False):
    np.random.seed(seed)
    rnd = TTNS.random(basis, qntot, m)
    if condition is not None:
        ttns = TTNS(basis, condition) + rnd.scale(scale, inplace=True)
    else:
        ttns = rnd
    ttns.canonicalise()
    ttns.normalize("ttns_and_coeff")
    if cplx:
        ttns = ttns.to_complex()
        rng = np.random.RandomState(seed + 1000)
        phase = np.exp(1j * rng.rand())
        ttns.root.tensor = ttns.root.tensor * phase
    return ttns


CASES = []

# Holstein, tree, one excitation (non-zero quantum number)
_b = holstein_tree(3)
CASES.append(("holstein-tree", _b, TTNO(_b, holstein_terms(3)), 1, {"e0": 1}))
# Holstein, linear tree
_b = BasisTree.linear(holstein_basis_list(2))
CASES.append(("holstein-linear", _b, TTNO(_b, holstein_terms(2)), 1, {"e1": 1}))
# Holstein, binary mctdh tree with virtual nodes
_b = BasisTree.binary_mctdh(holstein_basis_list(2))
CASES.append(("holstein-mctdh", _b, TTNO(_b, holstein_terms(2)), 1, {"e0": 1}))
# Heisenberg, multiple basis sets per node, qn = 0 everywhere
_sl = [BasisHalfSpin(i) for i in range(6)]
_b = spin_multi_tree(_sl)
CASES.append(("spin-multi", _b, TTNO(_b, heisenberg_ops(6)), 0, {1: 1, 3: 1}))
# two node tree
_sl2 = [BasisHalfSpin(i) for i in range(2)]
_b = BasisTree.linear(_sl2)
CASES.append(("spin-2", _b, TTNO(_b, heisenberg_ops(2)), 0, {0: 1}))


# ---------------------------------------------------------------------------
# 1. local propagators
# ---------------------------------------------------------------------------
def local_checks():
    out("=== local propagators ===")
    for icase, (name, basis, ttno, qntot, cond) in enumerate(CASES):
        for cplx in (False, True):
            ttns = make_state(basis, qntot, 4, 10 + icase, condition=cond, cplx=cplx)
            ttne = TTNEnviron(ttns, ttno)
            out(f"--- {name} complex={cplx} size={ttns.size}")
            for coeff, tau in [(-1j, 0.3), (1, -0.25), (-1j, -0.05), (1, 0.02 + 0j), (-1j, np.float64(0.7))]:
                if not cplx and coeff == -1j:
                    # real-time propagation is always done on complex tensors
                    continue
                # --- evolve_1site on the root (canonical centre)
                before = ttns.root.tensor.copy()
                res = te.evolve_1site(ttns.root, ttns, ttno, ttne, coeff, tau)
                assert isinstance(res, tuple) and len(res) == 2
                assert np.array_equal(before, ttns.root.tensor)
                out(f"1site root c={coeff} t={tau}: j={res[1]} {digest(res[0])}")
                # --- evolve_2site / evolve_0site on every bond
                for inode, node in enumerate(ttns.node_list):
                    if node.parent is None:
                        continue
                    work = ttns.copy()
                    # move the centre to the parent of ``node``
                    wnode = work.node_list[inode]
                    path = []
                    p = wnode.parent
                    while p is not None:
                        path.append(p)
                        p = p.parent
                    # path: parent ... root ; push from root downwards
                    path = path[::-1]
                    for a, b in zip(path[:-1], path[1:]):
                        work.push_cano_to_child(a, a.children.index(b))
                    wttne = TTNEnviron(work, ttno)
                    res2 = te.evolve_2site(wnode, work, ttno, wttne, coeff, tau)
                    assert isinstance(res2, tuple) and len(res2) == 2
                    out(f"2site n{inode} c={coeff} t={tau}: j={res2[1]} {digest(res2[0])}")
                    res1 = te.evolve_1site(wnode.parent, work, ttno, wttne, coeff, tau)
                    out(f"1site p(n{inode}) c={coeff} t={tau}: j={res1[1]} {digest(res1[0])}")
                    # zero-site: bond matrix between node and parent
                    ichild = wnode.parent.children.index(wnode)
                    ms = work.decompose_to_child(wnode.parent, ichild)
                    wttne.build_parent_environ_node(wnode.parent, ichild, work, ttno)
                    ms_copy = ms.copy()
                    res0 = te.evolve_0site(ms, wnode, work, ttno, wttne, coeff, tau)
                    assert isinstance(res0, tuple) and len(res0) == 2
                    assert np.array_equal(ms, ms_copy)
                    out(f"0site n{inode} c={coeff} t={tau}: j={res0[1]} {digest(res0[0])}")
                    # non-contiguous (transposed) and 1-d inputs
                    if ms.shape[0] == ms.shape[1]:
                        res0t = te.evolve_0site(ms.T, wnode, work, ttno, wttne, coeff, -tau)
                        out(f"0site^T n{inode}: j={res0t[1]} {digest(res0t[0])}")
                    res0f = te.evolve_0site(np.asfortranarray(ms), wnode, work, ttno, wttne, coeff, tau)
                    out(f"0siteF n{inode}: j={res0f[1]} {digest(res0f[0])}")

    # error behaviour
    name, basis, ttno, qntot, cond = CASES[0]
    ttns = make_state(basis, qntot, 3, 99, condition=cond, cplx=True)
    ttne = TTNEnviron(ttns, ttno)
    leaf = [n for n in ttns.node_list if not n.children][0]
    for label, func in [
        ("0site-list", lambda: te.evolve_0site([[1.0]], leaf, ttns, ttno, ttne, 1, 0.1)),
        ("0site-zero", lambda: te.evolve_0site(np.zeros((1, 1)), leaf, ttns, ttno, ttne, 1, 0.1)),
        ("0site-root", lambda: te.evolve_0site(np.ones((1, 1)), ttns.root, ttns, ttno, ttne, 1, 0.1)),
        ("2site-root", lambda: te.evolve_2site(ttns.root, ttns, ttno, ttne, 1, 0.1)),
        ("1site-strtau", lambda: te.evolve_1site(ttns.root, ttns, ttno, ttne, 1, "a")),
        ("1site-none", lambda: te.evolve_1site(None, ttns, ttno, ttne, 1, 0.1)),
        ("0site-badshape", lambda: te.evolve_0site(np.ones((7, 5)), leaf, ttns, ttno, ttne, 1, 0.1)),
    ]:
        try:
            r = func()
            out(f"err {label}: no error j={r[1]} {digest(r[0])}")
        except Exception as e:  # noqa
            out(f"err {label}: {type(e).__name__}: {str(e)[:80]}")


# ---------------------------------------------------------------------------
# 2. TTNS.evolve, all schemes
# ---------------------------------------------------------------------------
def evolve_checks():
    out("=== TTNS.evolve ===")
    methods = [
        (EvolveMethod.tdvp_ps, 3),
        (EvolveMethod.tdvp_ps2, 2),
        (EvolveMethod.prop_and_compress_tdrk4, 2),
        (EvolveMethod.tdvp_vmf, 1),
    ]
    taus = [0.2, 0.05j, -0.1j, 0.1 + 0j, np.float64(0.3), np.complex128(0.03j)]
    for icase, (name, basis, ttno, qntot, cond) in enumerate(CASES):
        for method, nsteps in methods:
            if method is EvolveMethod.tdvp_vmf and icase not in (0, 4):
                continue
            for itau, tau in enumerate(taus):
                if method is EvolveMethod.tdvp_vmf and itau not in (0, 1):
                    continue
                if icase in (1, 2, 3) and itau >= 3:
                    continue
                for normalize in (True, False):
                    ttns = make_state(basis, qntot, 4, 50 + icase, condition=cond)
                    if method is EvolveMethod.tdvp_vmf:
                        ttns.evolve_config = EvolveConfig(method, ivp_rtol=1e-4, ivp_atol=1e-7, force_ovlp=False)
                    else:
                        ttns.evolve_config = EvolveConfig(method)
                    ttns.compress_config = CompressConfig(CompressCriteria.fixed, max_bonddim=6)
                    ttns.coeff = 0.5 - 0.25j if itau % 2 else 2.0
                    snapshot = [n.tensor.copy() for n in ttns.node_list]
                    cur = ttns
                    for istep in range(nsteps):
                        new = cur.evolve(ttno, tau, normalize)
                        # for the schemes that work on a copy the argument must be untouched
                        cur = new
                    same_input = all(np.array_equal(a, n.tensor) for a, n in zip(snapshot, ttns.node_list))
                    e = cur.expectation(ttno)
                    out(
                        f"--- {name} {method.name} tau={tau!r} normalize={normalize} "
                        f"input_untouched={same_input} in_coeff={ttns.coeff}"
                    )
                    out(f"E={np.round(e, 9)} norm={cur.ttns_norm:.10f} qntot={cur.qntot.tolist()}")
                    out(ttns_digest(cur))

    # keyword call + truthy / falsy non-bool normalize flags
    name, basis, ttno, qntot, cond = CASES[0]
    for flag in (1, 0, None, "yes", ""):
        ttns = make_state(basis, qntot, 3, 77, condition=cond)
        ttns.evolve_config = EvolveConfig(EvolveMethod.tdvp_ps)
        new = ttns.evolve(ttno=ttno, tau=0.1j, normalize=flag)
        out(f"flag={flag!r}: {ttns_digest(new)}")
        new = ttns.evolve(ttno, 0.1, normalize=flag)
        out(f"flag={flag!r} real: {ttns_digest(new)}")

    # error behaviour
    def attempt(label, func):
        try:
            r = func()
            out(f"err {label}: no error\n{ttns_digest(r)}")
        except Exception as e:  # noqa
            out(f"err {label}: {type(e).__name__}: {str(e)[:80]}")

    ttns = make_state(basis, qntot, 3, 78, condition=cond)
    # default EvolveConfig method is not implemented for trees
    ttns.evolve_config = EvolveConfig()
    attempt("default-method", lambda: ttns.evolve(ttno, 0.1))
    attempt("default-method-imag", lambda: ttns.evolve(ttno, 0.1j))
    attempt("default-method-list", lambda: ttns.evolve(ttno, [0.1j]))
    ttns.evolve_config = EvolveConfig(EvolveMethod.tdvp_ps)
    attempt("tau-list-imag", lambda: ttns.evolve(ttno, [0.1j]))
    attempt("tau-list-real", lambda: ttns.evolve(ttno, [0.1]))
    attempt("tau-array2", lambda: ttns.evolve(ttno, np.array([0.1j, 0.2j])))
    attempt("tau-array1", lambda: ttns.evolve(ttno, np.array([0.1j])))
    attempt("tau-array1-real", lambda: ttns.evolve(ttno, np.array([0.1])))
    attempt("tau-str", lambda: ttns.evolve(ttno, "a"))
    attempt("tau-none", lambda: ttns.evolve(ttno, None))
    attempt("tau-zero", lambda: ttns.evolve(ttno, 0.0))
    attempt("tau-int", lambda: ttns.evolve(ttno, 1))
    attempt("ttno-none", lambda: ttns.evolve(None, 0.1))
    # one-node tree: 2-site scheme is impossible
    b1 = BasisTree.linear([BasisHalfSpin(0)])
    t1 = TTNS(b1, {0: 1})
    o1 = TTNO(b1, [Op("sigma_x", 0)])
    for m in (EvolveMethod.tdvp_ps, EvolveMethod.tdvp_ps2, EvolveMethod.tdvp_vmf, EvolveMethod.prop_and_compress_tdrk4):
        t1.evolve_config = EvolveConfig(m)
        attempt(f"one-node-{m.name}", lambda: t1.evolve(o1, 0.1))
        attempt(f"one-node-{m.name}-imag", lambda: t1.evolve(o1, 0.1j))


if __name__ == "__main__":
    np.set_printoptions(precision=9, suppress=True)
    local_checks()
    evolve_checks()
