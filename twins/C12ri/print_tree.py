"""Stub of the (not installed) third-party module ``print_tree``.

``renormalizer.tn.treebase`` only needs the name ``print_tree`` to exist.
"""


def print_tree(*args, **kwargs):
    raise NotImplementedError("print_tree stub")
