import sys, types, hashlib
sys.path.insert(0, "/tmp/seed_out/C12rm")
import print_tree  # stub module in /tmp/seed_out/C12rm

import warnings; warnings.simplefilter('ignore')
import numpy as np
from renormalizer import Op, BasisSimpleElectron, BasisSHO, BasisHalfSpin
from renormalizer.tn import BasisTree, TTNO, TTNS
from renormalizer.tn.node import TreeNodeBasis
from renormalizer.tn import time_evolution as te
from renormalizer.utils import EvolveConfig, EvolveMethod


def dig(a):
    a = np.asarray(a)
    r = np.round(a.astype(complex) if a.dtype.kind in "fc" else a, 8)
    if r.dtype.kind == "c":
        r = r + (0.0 + 0.0j)  # kill negative zeros
        r = np.where(np.abs(r.real) < 1e-8, 0, r.real) + 1j * np.where(np.abs(r.imag) < 1e-8, 0, r.imag)
    h = hashlib.md5(np.ascontiguousarray(r).tobytes()).hexdigest()[:12]
    return f"{a.shape} {a.dtype} {h} sum={np.round(complex(np.sum(a)), 7)} abs={np.round(float(np.sum(np.abs(a))), 7)}"


def holstein(nmol=2, nph=1, nlev=3):
    basis, terms = [], []
    for i in range(nmol):
        basis.append(BasisSimpleElectron(f"e{i}"))
        for k in range(nph):
            basis.append(BasisSHO(f"v{i}_{k}", omega=1.0 + 0.3 * k, nbas=nlev))
    for i in range(nmol):
        terms.append(Op(r"a^\dagger a", f"e{i}", 0.2 * i, qn=[1, -1]))
        if i + 1 < nmol:
            terms.append(Op(r"a^\dagger a", [f"e{i}", f"e{i+1}"], 0.5, qn=[1, -1]))
            terms.append(Op(r"a^\dagger a", [f"e{i+1}", f"e{i}"], 0.5, qn=[1, -1]))
        for k in range(nph):
            w = 1.0 + 0.3 * k
            terms.append(Op(r"b^\dagger b", f"v{i}_{k}", w))
            terms.append(Op(r"a^\dagger a", f"e{i}", 0.7) * Op(r"b^\dagger+b", f"v{i}_{k}", 1.0))
    return basis, terms


def trees(basis):
    yield "linear", BasisTree.linear(basis)
    yield "binary", BasisTree.binary_mctdh(basis)
    yield "t3ns", BasisTree.t3ns(basis)
    nodes = [TreeNodeBasis([b]) for b in basis]
    root = nodes[1]
    for n in nodes[:1] + nodes[2:]:
        root.add_child(n)
    yield "star", BasisTree(root)


print("== regularized_inversion")
rng = np.random.RandomState(7)
for n in (1, 2, 5):
    for cplx in (False, True):
        for eps in (1e-10, 1e-3, 0.5):
            a = rng.rand(n, n) - 0.5
            if cplx:
                a = a + 1j * (rng.rand(n, n) - 0.5)
            m = a @ a.conj().T
            print(n, cplx, eps, dig(te.regularized_inversion(m, eps)))
            # rank deficient
            m2 = m.copy(); m2[-1] = 0; m2[:, -1] = 0
            print(n, cplx, eps, "def", dig(te.regularized_inversion(m2, eps)))
m_int = np.array([[2, 1], [1, 3]])
print("int", dig(te.regularized_inversion(m_int, 1e-2)))
m_asym = np.array([[2.0, 1.0], [0.3, 3.0]])
print("asym", dig(te.regularized_inversion(m_asym, 1e-2)))
try:
    te.regularized_inversion(np.ones((2, 3)), 1e-3)
except Exception as e:
    print("exc", type(e).__name__)

print("== trees")
for nmol, nph in ((2, 1), (3, 1)):
    basis, terms = holstein(nmol, nph)
    for name, bt in trees(basis):
        ttno = TTNO(bt, terms)
        for qntot in (0, 1, 2):
            np.random.seed(100 + qntot + nmol)
            ttns = TTNS.random(bt, qntot, 4)
            ttns.evolve_config = EvolveConfig(EvolveMethod.tdvp_vmf, ivp_rtol=1e-4, ivp_atol=1e-7, reg_epsilon=1e-6)
            tag = f"{nmol} {name} qn={qntot}"
            # get_qnmask, positional / keyword / include_parent
            for i, node in enumerate(ttns.node_list):
                m1 = ttns.get_qnmask(node)
                m2 = ttns.get_qnmask(node, False)
                m3 = ttns.get_qnmask(node, include_parent=False)
                assert (m1 == m2).all() and (m1 == m3).all()
                print(tag, "mask", i, m1.shape, m1.dtype, int(m1.sum()), dig(m1.astype(int) * np.arange(m1.size).reshape(m1.shape)))
                if node.parent is not None:
                    mp = ttns.get_qnmask(node, True)
                    mp2 = ttns.get_qnmask(node, include_parent=True)
                    assert (mp == mp2).all()
                    print(tag, "mask2", i, mp.shape, int(mp.sum()), dig(mp.astype(int) * np.arange(mp.size).reshape(mp.shape)))
            # from_tensors
            nparam = sum(int(ttns.get_qnmask(n).sum()) for n in ttns.node_list)
            rs = np.random.RandomState(3)
            for params in (rs.rand(nparam), rs.rand(nparam) + 1j * rs.rand(nparam), np.arange(nparam)):
                new = TTNS.from_tensors(ttns, params)
                assert new is not ttns and new.basis is ttns.basis
                for i, (n, t) in enumerate(zip(new.node_list, ttns.node_list)):
                    assert n is not t
                    print(tag, "ft", i, dig(n.tensor), np.asarray(n.qn).tolist(), n.qn is t.qn, n.tensor.flags.c_contiguous)
                print(tag, "ft cfg", new.coeff, new.evolve_config.method, new.evolve_config.reg_epsilon,
                      new.evolve_config is ttns.evolve_config)
            for bad in (np.zeros(nparam + 1), np.zeros(max(nparam - 1, 0))):
                try:
                    TTNS.from_tensors(ttns, bad)
                    print(tag, "ft bad ok")
                except Exception as e:
                    print(tag, "ft bad", type(e).__name__)
            # time derivative for real and complex states
            if nparam == 0:
                continue
            before = [n.tensor.copy() for n in ttns.node_list]
            d = te.time_derivative_vmf(ttns, ttno)
            print(tag, "deriv", dig(d))
            assert all((b == n.tensor).all() for b, n in zip(before, ttns.node_list))
            ttns_c = TTNS.from_tensors(ttns, rs.rand(nparam) - 0.5 + 1j * (rs.rand(nparam) - 0.5))
            d = te.time_derivative_vmf(ttns_c, ttno)
            print(tag, "deriv c", dig(d))
            # evolve: real time, imaginary time, first_step
            if nmol == 2 and qntot == 1:
                for coeff, tau, fs in ((-1j, 0.1, None), (-1, 0.05, None), (-1j, 0.1, 0.01), (-1j, -0.1, None)):
                    new = te.evolve_tdvp_vmf(ttns, ttno, coeff, tau, first_step=fs)
                    assert new is not ttns
                    assert all((b == n.tensor).all() for b, n in zip(before, ttns.node_list))
                    print(tag, "evolve", coeff, tau, fs, [n.shape for n in new.node_list],
                          np.round(new.expectation(ttno), 7), np.round(new.norm, 7),
                          [dig(n.tensor) for n in new.node_list])
                    if fs is not None or tau < 0 or name == "t3ns":
                        continue
                    new = te.evolve_tdvp_vmf(ttns_c, ttno, coeff, tau, first_step=fs)
                    print(tag, "evolve c", coeff, tau, fs, [n.shape for n in new.node_list],
                          np.round(new.expectation(ttno), 7), np.round(new.norm, 7),
                          [dig(n.tensor) for n in new.node_list])
                new = te.evolve_tdvp_vmf(ttns, ttno, -1j, 0.1, 0.02)
                print(tag, "evolve pos", np.round(new.expectation(ttno), 7))
                # through the public API
                new = ttns.evolve(ttno, 0.1)
                print(tag, "evolve api", np.round(new.expectation(ttno), 7), np.round(new.norm, 7))
                new = ttns.evolve(ttno, -0.1j)
                print(tag, "evolve api imag", np.round(new.expectation(ttno), 7), np.round(new.norm, 7))
