def print_tree(*args, **kwargs):
    pass
