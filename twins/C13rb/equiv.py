import sys, types
_pt = types.ModuleType("print_tree"); _pt.print_tree = object; sys.modules.setdefault("print_tree", _pt)

import os
import shutil
import tempfile
import logging

import numpy as np

logging.disable(logging.CRITICAL)

from renormalizer import BasisHalfSpin, Model, Mpo, Mps, Op
from renormalizer.mps import MpDm
from renormalizer.model.model import heisenberg_ops
from renormalizer.mps.mpo import StackedMpo
from renormalizer.mps.matrix import Matrix
from renormalizer.tests.parameter import holstein_model, holstein_model4, offset
from renormalizer.tn.node import TreeNodeBasis
from renormalizer.tn.tree import TTNO, TTNS
from renormalizer.tn.treebase import BasisTree
from renormalizer.utils import Quantity

OUT = []


def emit(*args):
    OUT.append(" ".join(str(a) for a in args))


def r(x, n=8):
    x = complex(x)
    re, im = round(x.real, n) + 0.0, round(x.imag, n) + 0.0
    return f"({re:.8f},{im:.8f})"


def arr_digest(a):
    a = np.asarray(a)
    w = np.cos(np.arange(a.size) * 0.37 + 0.1).reshape(a.shape)
    return f"{a.shape}|{a.dtype}|{r(a.sum())}|{r((a * w).sum())}|{r(np.abs(a).sum())}"


def cfg_digest(c):
    d = {}
    for k, v in sorted(vars(c).items()):
        if isinstance(v, np.ndarray):
            d[k] = arr_digest(v)
        elif isinstance(v, (int, float, complex, str, bool, tuple, type(None))):
            d[k] = repr(v)
        else:
            d[k] = type(v).__name__
    return d


def mp_digest(tag, mp):
    emit(tag, "class", type(mp).__name__, "len", len(mp), "dtype", mp.dtype, "qnidx", mp.qnidx,
         "to_right", mp.to_right, "qntot", np.asarray(mp.qntot).tolist())
    emit(tag, "qn", [np.asarray(q).tolist() for q in mp.qn])
    for i, raw in enumerate(mp._mp):
        if raw is None:
            emit(tag, i, "None")
        elif isinstance(raw, str):
            emit(tag, i, "dumped", os.path.basename(raw), arr_digest(np.load(raw)))
        else:
            sq = None if raw.sigmaqn is None else np.asarray(raw.sigmaqn).tolist()
            emit(tag, i, type(raw).__name__, arr_digest(raw.array), raw.original_shape, sq)
    emit(tag, "compress_config", cfg_digest(mp.compress_config))
    for attr in ["coeff", "scheme", "offset", "primary_ops", "symbolic_out_ops_list"]:
        if hasattr(mp, attr):
            v = getattr(mp, attr)
            if attr == "coeff":
                emit(tag, attr, type(v).__name__, r(v))
            elif attr == "symbolic_out_ops_list":
                emit(tag, attr, type(v).__name__, len(v), repr(v)[:300])
            elif attr == "primary_ops":
                emit(tag, attr, type(v).__name__, len(v), sorted(repr(x) for x in v)[:6])
            else:
                emit(tag, attr, type(v).__name__, repr(v))
        else:
            emit(tag, attr, "<absent>")
    for attr in ["optimize_config", "evolve_config"]:
        if hasattr(mp, attr):
            emit(tag, attr, cfg_digest(getattr(mp, attr)))


def alias_digest(tag, a, b):
    """identity / memory-sharing relations between two matrix products"""
    rel = []
    for i in range(len(a)):
        x, y = a._mp[i], b._mp[i]
        if isinstance(x, Matrix) and isinstance(y, Matrix):
            rel.append((x is y, bool(np.shares_memory(x.array, y.array)),
                        x.sigmaqn is y.sigmaqn))
        else:
            rel.append((type(x).__name__, type(y).__name__, x == y if isinstance(x, str) else None))
    emit(tag, "mt-alias", rel)
    emit(tag, "meta-alias",
         "model", a.model is b.model,
         "cc", a.compress_config is b.compress_config,
         "qn", a.qn is b.qn, [p is q for p, q in zip(a.qn, b.qn)],
         "qntot", a.qntot is b.qntot)
    for attr in ["optimize_config", "evolve_config", "scheme", "offset", "primary_ops", "symbolic_out_ops_list"]:
        if hasattr(a, attr) and hasattr(b, attr):
            emit(tag, "attr-alias", attr, getattr(a, attr) is getattr(b, attr))


def mutate(mp, val):
    for i in range(len(mp)):
        mt = mp[i]
        if mt is None:
            continue
        mt.array[...] = val + i
        mp[i] = mt
    if hasattr(mp, "coeff"):
        mp.coeff = 17 + val
    mp.compress_config.vguess_m = (val, val)
    mp.qn[0][0][...] = 99
    mp.qntot[...] = 77


def check_mp(tag, make):
    """make() -> fresh deterministic matrix product"""
    # copy
    a = make()
    b = a.copy()
    mp_digest(tag + ".copy.src", a)
    mp_digest(tag + ".copy.res", b)
    alias_digest(tag + ".copy", a, b)
    mutate(b, 3)
    mp_digest(tag + ".copy.src-after-mutating-res", a)
    a = make()
    b = a.copy()
    mutate(a, 5)
    mp_digest(tag + ".copy.res-after-mutating-src", b)

    # to_complex, both modes
    for inplace in (False, True):
        a = make()
        raw_before = list(a._mp)
        b = a.to_complex(inplace=inplace)
        t = f"{tag}.to_complex[{inplace}]"
        emit(t, "same-object", b is a, "raw-kept", [x is y for x, y in zip(raw_before, a._mp)])
        mp_digest(t + ".src", a)
        mp_digest(t + ".res", b)
        alias_digest(t, a, b)
        if not inplace:
            mutate(b, 2)
            mp_digest(t + ".src-after-mutating-res", a)
    # default argument
    a = make()
    b = a.to_complex()
    emit(tag, "to_complex default is new", b is not a, b.dtype, a.dtype)
    # twice: complex -> complex
    c = b.to_complex()
    mp_digest(tag + ".to_complex.twice", c)
    alias_digest(tag + ".to_complex.twice", b, c)
    c2 = b.to_complex(True)
    emit(tag, "to_complex twice inplace", c2 is b)
    mp_digest(tag + ".to_complex.twice.inplace", c2)

    # metacopy
    a = make()
    m = a.metacopy()
    mp_digest(tag + ".metacopy.res", m)
    alias_digest(tag + ".metacopy", a, m)
    # to_complex of something holding dummy None matrices
    mc = m.to_complex()
    mp_digest(tag + ".metacopy.to_complex", mc)
    mi = m.to_complex(inplace=True)
    emit(tag, "metacopy.to_complex inplace", mi is m, m.dtype)
    mp_digest(tag + ".metacopy.to_complex.inplace", mi)
    # copy of something with None raises
    try:
        m.copy()
        emit(tag, "metacopy.copy ok?!")
    except Exception as e:
        emit(tag, "metacopy.copy raises", type(e).__name__, str(e))
    # mutate metacopy attributes, observe source
    for attr in ["scheme", "offset", "primary_ops", "symbolic_out_ops_list"]:
        if hasattr(m, attr):
            v = getattr(m, attr)
            if isinstance(v, list) and len(v) > 0:
                v[0] = "MUTATED"
            elif isinstance(v, dict):
                v["MUTATED"] = 1
            else:
                setattr(m, attr, "MUTATED")
    mp_digest(tag + ".metacopy.src-after-mutating-res", a)

    # downstream users of the changed functions
    a = make()
    for val in (2.0, -0.5, 1 + 0j, 0.3 - 0.7j, np.float64(1.5), np.complex128(2j)):
        s = a.scale(val)
        mp_digest(f"{tag}.scale[{val!r}]", s)
    mp_digest(tag + ".scale.src", a)
    cj = a.to_complex().scale(1j).conj()
    mp_digest(tag + ".conj", cj)
    emit(tag, "dot", r(a.conj().dot(a)), r(cj.dot(a)))
    if isinstance(a, Mps) and not isinstance(a, MpDm):
        s = a + a.scale(0.5j)
        mp_digest(tag + ".add", s)


rng_seed = [2024]


def seeded(f):
    def g():
        np.random.seed(rng_seed[0])
        return f()
    return g


# ---------------------------------------------------------------- chains
spin_basis = [BasisHalfSpin(i) for i in range(5)]
spin_model = Model(spin_basis, heisenberg_ops(5))
spin_basis_qn = [BasisHalfSpin(i, sigmaqn=[-1, 1]) for i in range(4)]
spin_model_qn = Model(spin_basis_qn, heisenberg_ops(4))
one_site_model = Model([BasisHalfSpin(0)], [Op("sigma_z", 0, 0.7)])


@seeded
def mk_mps_real():
    return Mps.random(holstein_model, 1, 6, percent=1.0)


@seeded
def mk_mps_cplx():
    mps = Mps.random(holstein_model4, 1, 5, percent=1.0)
    mps = mps.to_complex()
    for i in range(len(mps)):
        arr = mps[i].array
        mps[i] = arr * np.exp(1j * (0.3 + i))
    mps.coeff = 0.6 - 0.8j
    return mps


@seeded
def mk_mps_left():
    mps = Mps.random(spin_model_qn, 2, 4, percent=1.0)
    mps.canonicalise()
    mps.coeff = -2.5
    return mps


@seeded
def mk_mps_qn0():
    mps = Mps.random(spin_model, 0, 3)
    mps.compress_config.vguess_m = (3, 4)
    return mps


@seeded
def mk_mps_onesite():
    mps = Mps.hartree_product_state(one_site_model, {0: [0.6, 0.8]})
    return mps


def mk_mpo_offset():
    return Mpo(holstein_model, offset=offset)


def mk_mpo_zero_offset():
    return Mpo(spin_model_qn)


def mk_mpo_identity():
    return Mpo.identity(holstein_model)


def mk_mpo_onsite():
    return Mpo.onsite(holstein_model, r"a^\dagger", dipole=True)


def mk_mpo_cplx():
    return Mpo(spin_model, Op("sigma_y sigma_x", [0, 3], 0.5 + 0.25j))


def mk_mpo_bare():
    # an operator without any of the optional attributes
    src = Mpo(spin_model)
    new = Mpo.__new__(Mpo)
    new._mp = []
    new.dtype = src.dtype
    new.model = src.model
    new.compress_config = src.compress_config.copy()
    new.qn = [q.copy() for q in src.qn]
    new.qnidx = src.qnidx
    new.qntot = src.qntot.copy()
    new.to_right = src.to_right
    for mt in src:
        new.append(mt.array.copy())
    new.scheme = 7
    return new


@seeded
def mk_mpdm():
    return MpDm.max_entangled_ex(holstein_model)


@seeded
def mk_mpdm_gs():
    return MpDm.max_entangled_gs(holstein_model4)


DUMP_DIR = "/tmp/seed_out/C13rb/dump_tmp"
shutil.rmtree(DUMP_DIR, ignore_errors=True)
os.makedirs(DUMP_DIR)


@seeded
def mk_mps_dumped():
    mps = Mps.random(spin_model, 0, 4)
    mps.compress_config.dump_matrix_dir = DUMP_DIR
    mps.compress_config.dump_matrix_size = 100
    for i in range(len(mps)):
        mps[i] = mps[i].array
    return mps


cases = [
    ("mps_real", mk_mps_real),
    ("mps_cplx_scheme4", mk_mps_cplx),
    ("mps_left_qn2", mk_mps_left),
    ("mps_qn0", mk_mps_qn0),
    ("mps_onesite", mk_mps_onesite),
    ("mpo_offset", mk_mpo_offset),
    ("mpo_zero_offset", mk_mpo_zero_offset),
    ("mpo_identity", mk_mpo_identity),
    ("mpo_onsite", mk_mpo_onsite),
    ("mpo_cplx", mk_mpo_cplx),
    ("mpo_bare", mk_mpo_bare),
    ("mpdm_maxent", mk_mpdm),
    ("mpdm_gs", mk_mpdm_gs),
    ("mps_dumped", mk_mps_dumped),
]
for tag, make in cases:
    try:
        check_mp(tag, make)
    except Exception as e:  # deterministic digest of unexpected failures as well
        emit(tag, "EXC", type(e).__name__, str(e)[:200])

# empty matrix product
empty = Mps()
empty.model = spin_model
empty.qn = []
empty.qnidx = 0
empty.qntot = np.array([0])
empty.to_right = True
for name, f in [("copy", lambda: empty.copy()), ("to_complex", lambda: empty.to_complex()),
                ("to_complex_inplace", lambda: empty.to_complex(inplace=True)),
                ("metacopy", lambda: empty.metacopy())]:
    try:
        res = f()
        emit("empty", name, type(res).__name__, len(res), res.dtype, res is empty,
             getattr(res, "coeff", None), type(getattr(res, "coeff", None)).__name__)
    except Exception as e:
        emit("empty", name, "raises", type(e).__name__, str(e))

# stacked mpo (list-like with its own interface) only documents that nothing leaks
mpo = Mpo(spin_model)
mcopy = mpo.metacopy()
emit("mpo.metacopy keys", sorted(k for k in vars(mcopy)))
emit("mpo keys", sorted(k for k in vars(mpo)))
emit("identity.metacopy keys", sorted(k for k in vars(Mpo.identity(spin_model).metacopy())))

# evolve / apply users
np.random.seed(7)
mps0 = Mps.random(spin_model_qn, 0, 4)
mps0.canonicalise()
mps0.normalize("mps_and_coeff")
ham = Mpo(spin_model_qn)
before = [mt.array.copy() for mt in mps0]
new = ham.apply(mps0)
new_c = ham.apply(mps0.to_complex())
mp_digest("apply.res", new)
mp_digest("apply.res_c", new_c)
emit("apply src untouched", all(np.array_equal(x, mt.array) for x, mt in zip(before, mps0)), mps0.dtype)
for tau in (0.1, -0.1j):
    ev = mps0.evolve(ham, tau)
    mp_digest(f"evolve[{tau}]", ev)
    emit("evolve src untouched", all(np.array_equal(x, mt.array) for x, mt in zip(before, mps0)), mps0.dtype,
         r(mps0.coeff))


# ---------------------------------------------------------------- trees
def tree_digest(tag, t):
    emit(tag, "class", type(t).__name__, "n", len(t), "coeff", type(t.coeff).__name__, r(t.coeff))
    for i, node in enumerate(t):
        qn = None if node.qn is None else np.asarray(node.qn).tolist()
        tensor = getattr(node, "_tensor", None)
        emit(tag, i, "None" if tensor is None else arr_digest(tensor), qn)
    for attr in ["optimize_config", "evolve_config", "compress_config"]:
        emit(tag, attr, cfg_digest(getattr(t, attr)))


def tree_alias(tag, a, b):
    emit(tag, "same", a is b, "nodes",
         [(x is y, x._tensor is y._tensor, bool(np.shares_memory(x._tensor, y._tensor)), x.qn is y.qn)
          for x, y in zip(a, b)],
         "cfg", a.optimize_config is b.optimize_config, a.evolve_config is b.evolve_config,
         a.compress_config is b.compress_config, "basis", a.basis is b.basis)


def tree_mutate(t, val):
    for i, node in enumerate(t):
        node.tensor[...] = val + i
        node.qn[...] = 55
    t.coeff = val
    t.compress_config.vguess_m = (val, val)


def multi_basis_tree(basis_list):
    node1 = TreeNodeBasis([basis_list[0], basis_list[1]])
    node2 = TreeNodeBasis([basis_list[2]])
    node3 = TreeNodeBasis([basis_list[3]])
    node4 = TreeNodeBasis([basis_list[4], basis_list[5], basis_list[6]])
    node3.add_child(node2)
    node2.add_child(node1)
    node2.add_child(node4)
    return BasisTree(node3)


nspin = 7
tb_plain = [BasisHalfSpin(i) for i in range(nspin)]
tb_qn = [BasisHalfSpin(i, sigmaqn=[-1, 1]) for i in range(nspin)]
tree_cases = []


def add_tree_case(tag, basis, qntot, m, cplx, coeff):
    @seeded
    def make():
        t = TTNS.random(basis, qntot, m)
        if cplx:
            for i, node in enumerate(t):
                node.tensor = node.tensor * np.exp(1j * (0.2 + i))
        t.coeff = coeff
        return t
    tree_cases.append((tag, make))


add_tree_case("ttns_binary_real", BasisTree.binary(tb_plain), 0, 4, False, 1)
add_tree_case("ttns_multi_qn", multi_basis_tree(tb_qn), 1, 5, False, -0.5)
add_tree_case("ttns_multi_cplx", multi_basis_tree(tb_qn), -1, 3, True, 0.6 + 0.8j)
add_tree_case("ttns_linear", BasisTree.linear(tb_plain[:3]), 0, 2, False, 2.0)
add_tree_case("ttns_single", BasisTree.linear(tb_plain[:1]), 0, 1, False, 1.0)

for tag, make in tree_cases:
    try:
        for inplace in (False, True):
            a = make()
            old_tensors = [n._tensor for n in a]
            old_qn = [n.qn for n in a]
            b = a.to_complex(inplace=inplace)
            t = f"{tag}.to_complex[{inplace}]"
            emit(t, "same-object", b is a,
                 "src tensors kept", [x is n._tensor for x, n in zip(old_tensors, a)],
                 "src qn kept", [x is n.qn for x, n in zip(old_qn, a)])
            tree_digest(t + ".src", a)
            tree_digest(t + ".res", b)
            tree_alias(t, a, b)
            if not inplace:
                tree_mutate(b, 4)
                tree_digest(t + ".src-after-mutating-res", a)
                a = make()
                b = a.to_complex()
                tree_mutate(a, 6)
                tree_digest(t + ".res-after-mutating-src", b)
        a = make()
        c = a.to_complex().to_complex()
        tree_digest(tag + ".to_complex.twice", c)
        cp = a.copy()
        tree_digest(tag + ".copy", cp)
        tree_alias(tag + ".copy", a, cp)
        for val in (2.0, 0.5j, 1 + 0j):
            tree_digest(f"{tag}.scale[{val!r}]", a.scale(val))
        tree_digest(tag + ".src", a)
        # node without qn / tensor: exception and partial state
        for inplace in (False, True):
            a = make()
            a.node_list[-1]._qn = None
            try:
                a.to_complex(inplace=inplace)
                emit(tag, "qn None ok?!")
            except Exception as e:
                emit(tag, f"qn None raises[{inplace}]", type(e).__name__, str(e),
                     [str(n._tensor.dtype) for n in a])
    except Exception as e:
        emit(tag, "EXC", type(e).__name__, str(e)[:200])

# tree evolve / apply through the changed to_complex
np.random.seed(11)
basis = BasisTree.binary(tb_plain[:5])
ttno = TTNO(basis, heisenberg_ops(5))
ttns = TTNS.random(basis, 0, 4)
ttns.canonicalise()
ttns.normalize("mps_and_coeff")
before = [n.tensor.copy() for n in ttns]
res = ttno.apply(ttns)
tree_digest("tree.apply", res)
for tau in (0.05, -0.05j):
    ev = ttns.evolve(ttno, tau)
    emit("tree.evolve", tau, ev.coeff.__class__.__name__, r(ev.coeff),
         [str(n.tensor.dtype) for n in ev], r(ev.expectation(ttno)))
    emit("tree.evolve src untouched", all(np.array_equal(x, n.tensor) for x, n in zip(before, ttns)),
         r(ttns.coeff))

shutil.rmtree(DUMP_DIR, ignore_errors=True)
print("\n".join(OUT))
