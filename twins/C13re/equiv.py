"""Equivalence digest for MatrixProduct.scale / add / copy and Mpo.apply."""
import hashlib
import logging
import os
import shutil
import tempfile

import numpy as np

logging.disable(logging.CRITICAL)

from renormalizer.model import Model, Op
from renormalizer.model.basis import BasisSHO, BasisSimpleElectron, BasisHalfSpin
from renormalizer.mps import Mps, Mpo, MpDm
from renormalizer.mps.backend import backend
from renormalizer.tests import parameter


def h(arr):
    arr = np.ascontiguousarray(np.asarray(arr))
    return f"{arr.dtype}{arr.shape}:" + hashlib.md5(arr.tobytes()).hexdigest()[:12]


def digest(tag, mp):
    print(f"--- {tag}: {type(mp).__name__} dtype={np.dtype(mp.dtype).name} "
          f"qnidx={mp.qnidx} to_right={mp.to_right} qntot={np.asarray(mp.qntot).tolist()}")
    if hasattr(mp, "coeff"):
        print("    coeff", repr(mp.coeff), type(mp.coeff).__name__)
    for i in range(len(mp)):
        mt = mp[i]
        flags = mt.array.flags
        print(f"    mt{i} {h(mt.array)} c={flags.c_contiguous} f={flags.f_contiguous} "
              f"own={flags.owndata} orig={mt.original_shape} sigmaqn={h(mt.sigmaqn)}")
    for i, qn in enumerate(mp.qn):
        print(f"    qn{i} {h(np.asarray(qn))}")
    print("    raw", [type(x).__name__ for x in mp._mp])


def attempt(tag, f):
    try:
        res = f()
    except BaseException as e:  # noqa
        print(f"!!! {tag}: {type(e).__name__}: {str(e)[:80]}")
        return None
    return res


def make_models():
    models = {}
    models["holstein"] = parameter.holstein_model
    # electron + vibration, several sites
    basis = []
    for i in range(3):
        basis.append(BasisSimpleElectron(i))
        basis.append(BasisSHO(f"v{i}", 1.0 + 0.1 * i, 3))
    ham = [Op(r"a^\dagger a", i, 0.5 * (i + 1)) for i in range(3)]
    ham += [Op(r"a^\dagger a", [i, i + 1], 0.1) for i in range(2)]
    ham += [Op(r"a a^\dagger", [i, i + 1], 0.1) for i in range(2)]
    ham += [Op(r"b^\dagger b", f"v{i}", 1.0 + 0.1 * i) for i in range(3)]
    ham += [Op(r"a^\dagger a", i, 0.3) * Op(r"b^\dagger+b", f"v{i}") for i in range(3)]
    models["evib"] = Model(basis, ham)
    # two-site, one-site chains
    models["two"] = Model([BasisSimpleElectron(0), BasisSimpleElectron(1)],
                          [Op(r"a^\dagger a", 0, 1.0), Op(r"a^\dagger a", 1, 2.0),
                           Op(r"a^\dagger a", [0, 1], 0.3), Op(r"a a^\dagger", [0, 1], 0.3)])
    models["one"] = Model([BasisSHO("v", 1.0, 4)], [Op(r"b^\dagger b", "v", 1.0)])
    # spins (no quantum number)
    sb = [BasisHalfSpin(i) for i in range(4)]
    sh = [Op("sigma_z", i, 0.5) for i in range(4)] + [Op("sigma_x sigma_x", [i, i + 1], 0.7) for i in range(3)]
    models["spin"] = Model(sb, sh)
    return models


def check_inputs_untouched(tag, before, objs):
    after = [snapshot(o) for o in objs]
    print(f"    inputs untouched [{tag}]:", before == after)


def snapshot(mp):
    return (
        tuple(h(mp[i].array) for i in range(len(mp))),
        tuple(h(np.asarray(q)) for q in mp.qn),
        mp.qnidx, mp.to_right, h(mp.qntot), np.dtype(mp.dtype).name,
        repr(getattr(mp, "coeff", None)),
    )


def run_model(name, model, rng_seed):
    np.random.seed(rng_seed)
    print(f"========== model {name}")
    nsite = len(model.basis)
    has_e = any(b.is_electron for b in model.basis)
    nexc = 1 if has_e else 0
    mps_a = Mps.random(model, nexc, 6)
    mps_b = Mps.random(model, nexc, 4)
    mps_c = mps_b.to_complex()
    for i in range(len(mps_c)):
        arr = mps_c[i].array
        mps_c[i] = arr * np.exp(1j * 0.3 * (i + 1))
    mps_c.coeff = 0.5 - 0.25j
    mpo_h = Mpo(model)
    mpo_c = mpo_h.to_complex()
    mpo_c = mpo_c.scale(0.3 + 0.7j)
    mpdm = attempt("max_entangled_ex", lambda: MpDm.max_entangled_ex(model)) if has_e else None
    if mpdm is None:
        mpdm = MpDm.max_entangled_gs(model)

    # a state whose qn centre was moved and direction switched
    mps_d = mps_a.copy()
    if nsite > 1:
        mps_d.ensure_left_canonical()
    digest("mps_a", mps_a)
    digest("mps_d", mps_d)
    digest("mpo_h", mpo_h)
    digest("mpdm", mpdm)

    # ---- copy
    for tag, obj in [("mps_a", mps_a), ("mps_c", mps_c), ("mps_d", mps_d), ("mpo_h", mpo_h),
                     ("mpo_c", mpo_c), ("mpdm", mpdm)]:
        before = [snapshot(obj)]
        cp = obj.copy()
        digest(f"copy({tag})", cp)
        print("    shares memory:", [bool(np.shares_memory(cp[i].array, obj[i].array)) for i in range(len(obj))])
        print("    same Matrix objects:", [cp._mp[i] is obj._mp[i] for i in range(len(obj))])
        # mutate the copy; original must stay
        cp[0] = cp[0] * 2.0
        cp.qn[0][0] += 1
        check_inputs_untouched(f"copy {tag}", before, [obj])

    # ---- scale
    vals = [2.0, -0.5, 3, 1 + 0j, 0.5 + 0.5j, 1j, np.float64(1.5), np.complex128(2 - 1j), np.float32(0.25), True]
    for tag, obj in [("mps_a", mps_a), ("mps_c", mps_c), ("mps_d", mps_d), ("mpo_h", mpo_h),
                     ("mpo_c", mpo_c), ("mpdm", mpdm)]:
        for val in vals:
            before = [snapshot(obj)]
            res = attempt(f"scale({tag},{val!r})", lambda: obj.scale(val))
            if res is not None:
                digest(f"scale({tag},{val!r})", res)
                print("    is self:", res is obj)
            check_inputs_untouched(f"scale {tag} {val!r}", before, [obj])
            obj2 = obj.copy()
            res = attempt(f"scale_inplace({tag},{val!r})", lambda: obj2.scale(val, inplace=True))
            if res is not None:
                digest(f"scale_inplace({tag},{val!r})", res)
                print("    is self:", res is obj2)
            digest(f"after scale_inplace({tag},{val!r})", obj2)
        # python-level operators dispatching to scale
        for val in (2.0, 1j, 3):
            res = attempt(f"mul({tag},{val!r})", lambda: obj * val)
            if res is not None:
                digest(f"mul({tag},{val!r})", res)
    # scaling something with zero centre matrix must raise
    zero = mps_a.copy()
    zero[zero.qnidx] = np.zeros(zero[zero.qnidx].shape)
    attempt("scale(zero)", lambda: zero.scale(2.0))
    attempt("scale(zero, inplace)", lambda: zero.scale(2.0, inplace=True))
    attempt("scale(str)", lambda: mps_a.scale("a"))

    # ---- add
    pairs = [("a+b", mps_a, mps_b), ("b+a", mps_b, mps_a), ("a+c", mps_a, mps_c), ("c+a", mps_c, mps_a),
             ("d+a", mps_d, mps_a), ("a+d", mps_a, mps_d), ("a+a", mps_a, mps_a), ("c+c", mps_c, mps_c),
             ("h+h", mpo_h, mpo_h), ("h+hc", mpo_h, mpo_c), ("hc+h", mpo_c, mpo_h),
             ("dm+dm", mpdm, mpdm), ("a+h", mps_a, mpo_h), ("h+a", mpo_h, mps_a), ("h+dm", mpo_h, mpdm)]
    for tag, x, y in pairs:
        xx, yy = x.copy(), y.copy()
        if xx is not yy and x is y:
            yy = xx
        res = attempt(f"add({tag})", lambda: xx.add(yy))
        if res is not None:
            digest(f"add({tag})", res)
            print("    compress_config is input's:", res.compress_config is xx.compress_config)
            print("    shares:", [bool(np.shares_memory(res[i].array, xx[i].array)) or
                                  bool(np.shares_memory(res[i].array, yy[i].array)) for i in range(len(res))])
        digest(f"add({tag}) lhs after", xx)
        digest(f"add({tag}) rhs after", yy)
        res = attempt(f"__add__({tag})", lambda: xx + yy)
        if res is not None:
            digest(f"__add__({tag})", res)
    # mismatching qntot / length
    if has_e:
        other = Mps.random(model, 0, 3) if name != "holstein" else Mps.ground_state(model, False)
        attempt("add(qntot mismatch)", lambda: mps_a.add(other))
    # mismatching physical dimension in the middle of the chain
    if nsite >= 3:
        bad = mps_b.copy()
        arr = bad[1].array
        bad._mp[1].array = np.concatenate([arr, arr], axis=1)
        attempt("add(pdim mismatch)", lambda: mps_a.add(bad))
        attempt("add(pdim mismatch r)", lambda: bad.add(mps_a))
        badmpo = mpo_h.copy()
        arr = badmpo[1].array
        badmpo._mp[1].array = np.concatenate([arr, arr], axis=2)
        attempt("add(mpo pdim mismatch)", lambda: mpo_h.add(badmpo))
        badmpo._mp[1].array = np.concatenate([arr, arr], axis=1)
        attempt("add(mpo pdim mismatch 2)", lambda: mpo_h.add(badmpo))

    # ---- Mpo.apply
    ops = [("h", mpo_h), ("hc", mpo_c)]
    if has_e:
        raising = attempt("raising op", lambda: Mpo.onsite(model, r"a^\dagger"))
        if raising is not None:
            ops.append(("adag", raising))
    targets = [("mps_a", mps_a), ("mps_c", mps_c), ("mps_d", mps_d), ("mpo_h", mpo_h), ("mpo_c", mpo_c), ("mpdm", mpdm)]
    for otag, op in ops:
        for ttag, tgt in targets:
            for cano in (False, True):
                before = [snapshot(op), snapshot(tgt)]
                res = attempt(f"apply({otag},{ttag},cano={cano})", lambda: op.apply(tgt, canonicalise=cano))
                if res is not None:
                    digest(f"apply({otag},{ttag},cano={cano})", res)
                check_inputs_untouched(f"apply {otag} {ttag} {cano}", before, [op, tgt])
            res = attempt(f"matmul({otag},{ttag})", lambda: op @ tgt)
            if res is not None:
                digest(f"matmul({otag},{ttag})", res)
            res = attempt(f"contract({otag},{ttag})", lambda: op.contract(tgt))
            if res is not None:
                digest(f"contract({otag},{ttag})", res)
    # mismatching number of sites and dimension
    if name != "one":
        other_model = make_models()["one"]
        attempt("apply(site mismatch)", lambda: mpo_h.apply(Mps.random(other_model, 0, 2)))
    if nsite >= 3:
        bad = mps_b.copy()
        arr = bad[1].array
        bad._mp[1].array = np.concatenate([arr, arr], axis=1)
        attempt("apply(pdim mismatch)", lambda: mpo_h.apply(bad))
    # something that is neither mps, mpo nor mpdm
    class Weird(Mps):
        @property
        def is_mps(self):
            return False
    w = mps_a.copy()
    w.__class__ = Weird
    attempt("apply(weird)", lambda: mpo_h.apply(w))
    attempt("add(weird)", lambda: w.add(w))


def run_dump():
    """matrices spilled to disk"""
    print("========== dump")
    np.random.seed(77)
    model = make_models()["evib"]
    tmpdir = tempfile.mkdtemp(prefix="equiv_c13re_")
    try:
        mps = Mps.random(model, 1, 8)
        mps.compress_config.dump_matrix_size = 200
        mps.compress_config.dump_matrix_dir = tmpdir
        for i in range(len(mps)):
            mps[i] = mps[i].array
        print("raw", [type(x).__name__ for x in mps._mp])
        cp = mps.copy()
        print("copy raw", [type(x).__name__ for x in cp._mp])
        print("copy", [h(cp[i].array) for i in range(len(cp))])
        sc = mps.scale(0.5 + 1j)
        print("scale raw", [type(x).__name__ for x in sc._mp], np.dtype(sc.dtype).name)
        print("scale", [h(sc[i].array) for i in range(len(sc))])
        sc2 = mps.copy().scale(-2.0, inplace=True)
        print("scale2 raw", [type(x).__name__ for x in sc2._mp])
        print("scale2", [h(sc2[i].array) for i in range(len(sc2))])
        ad = mps.add(sc)
        print("add raw", [type(x).__name__ for x in ad._mp], np.dtype(ad.dtype).name)
        print("add", [h(ad[i].array) for i in range(len(ad))])
        ap = Mpo(model).apply(mps)
        print("apply raw", [type(x).__name__ for x in ap._mp])
        print("apply", [h(ap[i].array) for i in range(len(ap))])
        print("orig", [h(mps[i].array) for i in range(len(mps))])
        nfiles = sorted(len(fs) for _, _, fs in os.walk(tmpdir))
        print("files", nfiles)
    finally:
        shutil.rmtree(tmpdir, ignore_errors=True)


if __name__ == "__main__":
    print("real dtype", np.dtype(backend.real_dtype).name, "complex dtype", np.dtype(backend.complex_dtype).name)
    for seed, (name, model) in enumerate(make_models().items()):
        run_model(name, model, 1000 + seed)
    run_dump()
