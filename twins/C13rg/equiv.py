import sys, types
_pt = types.ModuleType("print_tree"); _pt.print_tree = object; sys.modules.setdefault("print_tree", _pt)

import logging
logging.disable(logging.CRITICAL)

import numpy as np

from renormalizer import BasisHalfSpin, Op
from renormalizer.model.model import heisenberg_ops
from renormalizer.tn.node import TreeNodeBasis
from renormalizer.tn.tree import TTNO, TTNS, TTNEnviron
from renormalizer.tn.treebase import BasisTree
from renormalizer.tests.parameter import holstein_model

DIGITS = 7


def rnd(a):
    a = np.asarray(a)
    if np.iscomplexobj(a):
        return (np.round(a.real, DIGITS) + 0.0) + 1j * (np.round(a.imag, DIGITS) + 0.0)
    return np.round(a.astype(float), DIGITS) + 0.0


def arr_digest(a):
    # deterministic, gauge / path independent only to DIGITS digits
    if a is None:
        return "None"
    a = np.asarray(a)
    flat = a.ravel()
    w = np.cos(np.arange(flat.size) * 0.37 + 0.11)
    vals = [flat.sum(), (flat * w).sum(), np.abs(flat).sum(), np.abs(flat).max() if flat.size else 0.0]
    return f"{a.shape} {a.dtype} " + " ".join(str(rnd(v)) for v in vals)


def state_digest(ttns, tag):
    out = [f"{tag}: coeff={ttns.coeff!r} n={len(ttns)}"]
    for i, node in enumerate(ttns.node_list):
        out.append(f"  node{i} T {arr_digest(node.tensor)}")
        out.append(f"  node{i} qn {node.qn.shape} {node.qn.dtype} {node.qn.tolist()}")
        out.append(f"  node{i} parent_is_none={node.parent is None} nchild={len(node.children)}")
    return out


def dense_digest(ttns, tag):
    d = ttns.todense()
    return [f"{tag}: dense {arr_digest(d)}"]


def env_digest(env, tag):
    out = [f"{tag}: env n={len(env)}"]
    for i, enode in enumerate(env.node_list):
        out.append(f"  e{i} parent {arr_digest(enode.environ_parent)}")
        out.append(f"  e{i} nchildren_env={len(enode.environ_children)}")
        for j, c in enumerate(enode.environ_children):
            out.append(f"  e{i} child{j} {arr_digest(c)}")
            out.append(f"  e{i} child{j} type={type(c).__name__}")
    return out


def snapshot(ttns):
    return [(n.tensor.copy(), n.qn.copy(), n.tensor, n.qn) for n in ttns.node_list]


def unchanged(ttns, snap):
    ok = True
    for n, (t, q, tobj, qobj) in zip(ttns.node_list, snap):
        ok &= n.tensor is tobj and n.qn is qobj
        ok &= n.tensor.dtype == t.dtype and n.tensor.shape == t.shape and np.array_equal(n.tensor, t)
        ok &= n.qn.shape == q.shape and np.array_equal(n.qn, q)
    return bool(ok)


def multi_basis_tree(basis_list):
    node1 = TreeNodeBasis([basis_list[0], basis_list[1]])
    node2 = TreeNodeBasis([basis_list[2]])
    node3 = TreeNodeBasis([basis_list[3]])
    node4 = TreeNodeBasis([basis_list[4], basis_list[5], basis_list[6]])
    node3.add_child(node2)
    node2.add_child(node1)
    node2.add_child(node4)
    return BasisTree(node3)


def holstein_scheme3():
    model = holstein_model
    node_list = [TreeNodeBasis([basis]) for basis in model.basis]
    root = node_list[3]
    root.add_child(node_list[0])
    root.add_child(node_list[6])
    for i in range(3):
        node_list[3 * i].add_child(node_list[3 * i + 1])
        node_list[3 * i + 1].add_child(node_list[3 * i + 2])
    return BasisTree(root)


def make_complex(ttns, seed):
    rng = np.random.RandomState(seed)
    new = ttns.copy()
    for node in new.node_list:
        phase = np.exp(1j * rng.rand())
        node.tensor = node.tensor * phase
    mask = new.get_qnmask(new.root)
    t = new.root.tensor.copy()
    t[mask] = t[mask] * np.exp(1j * rng.rand(int(mask.sum())))
    new.root.tensor = t
    return new


LINES = []


def emit(lines):
    if isinstance(lines, str):
        lines = [lines]
    LINES.extend(lines)


def guarded(tag, fn):
    try:
        return fn()
    except BaseException as e:  # noqa
        emit(f"{tag}: raised {type(e).__name__} args={e.args if not isinstance(e, AssertionError) else '<assert has_msg=%s>' % bool(e.args)}")
        return None


# ------------------------------------------------------------------ setups
nspin = 7
spins = [BasisHalfSpin(i) for i in range(nspin)]
spins_qn = [BasisHalfSpin(i, sigmaqn=[0, 1]) for i in range(nspin)]
spins_qn2 = [BasisHalfSpin(i, sigmaqn=[[0, 1], [1, 0]]) for i in range(4)]

setups = []
setups.append(("binary_noqn", BasisTree.binary(spins), 0, heisenberg_ops(nspin)))
setups.append(("multi_noqn", multi_basis_tree(spins), 0, heisenberg_ops(nspin)))
setups.append(("binary_qn3", BasisTree.binary(spins_qn), 3, heisenberg_ops(nspin)))
setups.append(("multi_qn2", multi_basis_tree(spins_qn), 2, heisenberg_ops(nspin)))
setups.append(("linear_qn1", BasisTree.linear(spins_qn[:3]), 1, heisenberg_ops(3)))
setups.append(("single_node", BasisTree(TreeNodeBasis([spins_qn[0], spins_qn[1]])), 1, heisenberg_ops(2)))
setups.append(("holstein3_qn1", holstein_scheme3(), 1, holstein_model.ham_terms))
setups.append(("twoqn", BasisTree.binary(spins_qn2), np.array([2, 2]), heisenberg_ops(4)))


for iset, (name, basis, qntot, terms) in enumerate(setups):
    np.random.seed(100 + iset)
    emit(f"=========== {name}")
    a = TTNS.random(basis, qntot, 4, 1)
    b = TTNS.random(basis, qntot, 3, 1)
    a.coeff = 0.5
    ac = make_complex(a, 7 + iset)
    bc = make_complex(b, 17 + iset)
    ttno = TTNO(basis, terms)
    emit(state_digest(a, "a"))
    emit(state_digest(bc, "bc"))

    # ---------------------------------------------------------- add
    for tag, x, y in [("a+b", a, b), ("a+bc", a, bc), ("ac+b", ac, b), ("ac+bc", ac, bc), ("b+a", b, a), ("a+a", a, a)]:
        sx, sy = snapshot(x), snapshot(y)
        s = guarded(f"add {tag}", lambda: x.add(y))
        emit(f"add {tag}: inputs unchanged {unchanged(x, sx)} {unchanged(y, sy)}")
        if s is None:
            continue
        emit(state_digest(s, f"add {tag}"))
        emit(dense_digest(s, f"add {tag}"))
        ref = x.todense() + y.todense()
        emit(f"add {tag}: matches dense sum {bool(np.allclose(s.todense(), ref, atol=1e-10))}")
        emit(f"add {tag}: coeff={s.coeff!r} shares_cfg={s.compress_config is x.compress_config}")
        # aliasing: mutate the result, inputs stay
        for n in s.node_list:
            n.tensor[...] = 0
            n.qn[...] = -7
        emit(f"add {tag}: inputs unchanged after mutating result {unchanged(x, sx)} {unchanged(y, sy)}")
        s2 = x + y
        emit(dense_digest(s2, f"__add__ {tag}"))

    # add with mismatching total qn / mismatching trees
    if name in ("binary_qn3", "multi_qn2", "linear_qn1", "holstein3_qn1"):
        other_qn = TTNS.random(basis, qntot + 1, 3, 1)
        sx = snapshot(a)
        guarded("add qn mismatch", lambda: a.add(other_qn))
        emit(f"add qn mismatch: a unchanged {unchanged(a, sx)}")
    if name == "binary_qn3":
        other_tree = TTNS.random(BasisTree.linear(spins_qn[:3]), 1, 3, 1)
        r = guarded("add tree mismatch 1", lambda: a.add(other_tree))
        if r is not None:
            emit(state_digest(r, "add tree mismatch 1"))
        r = guarded("add tree mismatch 2", lambda: other_tree.add(a))
        if r is not None:
            emit(state_digest(r, "add tree mismatch 2"))

    # ---------------------------------------------------------- scale
    vals = [2, -0.5, 1.5 + 0j, 0.3 - 0.4j, np.float64(3.0), np.complex128(0.0 + 2.0j), np.complex128(2.0), 0, True,
            np.array(2.0), np.array(1j)]
    for iv, val in enumerate(vals):
        for x_name, x0 in [("a", a), ("ac", ac)]:
            for inplace in [False, True]:
                x = x0.copy()
                sx = snapshot(x)
                tag = f"scale {x_name} val#{iv}={val!r} inplace={inplace}"
                r = guarded(tag, lambda: x.scale(val, inplace=inplace))
                if r is None:
                    emit(state_digest(x, tag + " input after exception"))
                    continue
                emit(f"{tag}: same_obj={r is x} input_unchanged={unchanged(x, sx)} coeff={r.coeff!r}")
                emit(state_digest(r, tag))
                emit(dense_digest(r, tag))
                if not inplace:
                    for n in r.node_list:
                        n.tensor[...] = 0
                        n.qn[...] = -7
                    emit(f"{tag}: input_unchanged after mutating result={unchanged(x, sx)}")
                else:
                    # non-root nodes keep their very arrays unless converted
                    same = [n.tensor is s[2] for n, s in zip(x.node_list, sx)]
                    emit(f"{tag}: array identities {same}")
    # positional inplace, default inplace
    x = a.copy()
    r = x.scale(2.0, True)
    emit(f"scale positional: {r is x}")
    r = x.scale(2.0)
    emit(f"scale default: {r is x}")
    for bad in ["s", None, [1, 2], np.array([1.0, 2.0])]:
        x = a.copy()
        sx = snapshot(x)
        guarded(f"scale bad {bad!r}", lambda: x.scale(bad, inplace=True))
        emit(f"scale bad {bad!r}: unchanged {unchanged(x, sx)}")

    # ---------------------------------------------------------- TTNEnviron
    for x_name, x in [("a", a), ("bc", bc)]:
        for o_name, o in [("ham", ttno), ("dummy", TTNO.dummy(basis)), ("ident", TTNO.identity(basis))]:
            tag = f"env {x_name} {o_name}"
            x = x.copy()
            sx = snapshot(x)
            so = snapshot(o)
            env = guarded(tag, lambda: TTNEnviron(x, o))
            if env is None:
                continue
            emit(env_digest(env, tag))
            emit(f"{tag}: inputs unchanged {unchanged(x, sx)} {unchanged(o, so)}")
            # not-built environ, children only
            env0 = TTNEnviron(x, o, build_environ=False)
            emit(env_digest(env0, tag + " unbuilt"))
            env0.build_children_environ(x, o)
            emit(env_digest(env0, tag + " children only"))
            # second children pass = the updating branch
            env0.build_children_environ(x, o)
            emit(env_digest(env0, tag + " children twice"))
            env0.build_parent_environ(x, o)
            emit(env_digest(env0, tag + " full"))
            # root call is a no-op
            emit(f"{tag}: root returns {env.build_children_environ_node(x.root, x, o)!r}")

            # updates after modifying a node
            rng = np.random.RandomState(5)
            for inode, snode in enumerate(x.node_list):
                snode.tensor = snode.tensor * (1.0 + 0.1 * rng.rand(*snode.tensor.shape))
                if snode.parent is not None:
                    env.update_1bond(snode, x, o)
                    emit(env_digest(env, f"{tag} update_1bond {inode}"))
                snode.tensor = snode.tensor * (1.0 + 0.1 * rng.rand(*snode.tensor.shape))
                env.update_1site(snode, x, o)
                emit(env_digest(env, f"{tag} update_1site {inode}"))
                if snode.parent is not None:
                    snode.tensor = snode.tensor * (1.0 + 0.1 * rng.rand(*snode.tensor.shape))
                    snode.parent.tensor = snode.parent.tensor * (1.0 + 0.1 * rng.rand(*snode.parent.tensor.shape))
                    env.update_2site(snode, x, o)
                    emit(env_digest(env, f"{tag} update_2site {inode}"))
                # direct calls of the two node builders, every child slot
                r1 = env.build_children_environ_node(snode, x, o)
                for ichild in range(len(snode.children)):
                    r2 = env.build_parent_environ_node(snode, ichild, x, o)
                    emit(f"{tag}: builders return {r1!r} {r2!r}")
                    r2 = env.build_parent_environ_node(snode, np.int64(ichild), x, o)
            emit(env_digest(env, f"{tag} final"))
            # environments consistent with the expectation value
            e = guarded(f"{tag} expectation", lambda: x.expectation(o))
            if e is not None:
                emit(f"{tag}: expectation {rnd(e)} {type(e).__name__}")
            for inode, enode in enumerate(env.node_list):
                for child, ec in zip(enode.children, enode.environ_children):
                    e3 = ec.ravel() @ child.environ_parent.ravel()
                    emit(f"{tag}: bond {inode} {rnd(e3)}")
                    if e is not None:
                        emit(f"{tag}: bond {inode} {bool(np.allclose(e3, e, atol=1e-9))}")
            # out-of-range child slot
            guarded(f"{tag} bad ichild", lambda: env.build_parent_environ_node(x.root, len(x.root.children), x, o))
            emit(f"{tag}: root parent is None {x.root.parent is None} {o.root.parent is None} {basis.root.parent is None}")

    # norms and expectations rely on the children environments
    guarded("norms", lambda: emit(f"norms: {rnd(a.norm)} {rnd(ac.ttns_norm)} {rnd(bc.norm)}"))
    guarded("expect", lambda: emit(f"expect: {rnd(a.expectation(ttno))} {rnd(bc.expectation(ttno))}"))

print("\n".join(LINES))
print("nlines", len(LINES))
