# -*- coding: utf-8 -*-
# Equivalence check for the C13ri refactoring:
#   MatrixProduct.scale, MatrixProduct.add, Mpo.contract, mps.normalize (module level, used by Mps.normalize)
#   and (indirectly) expand_bond_dimension, which uses all of them.
import hashlib
import logging
import sys

import numpy as np

logging.disable(logging.CRITICAL)

from renormalizer.model import Model
from renormalizer.model.basis import BasisSHO, BasisSimpleElectron, BasisHalfSpin
from renormalizer.model.op import Op
from renormalizer.mps import Mps, Mpo, MpDm
from renormalizer.mps import mps as mps_module
from renormalizer.mps.backend import backend
from renormalizer.tests import parameter
from renormalizer.utils import CompressConfig, CompressCriteria

LINES = []


def out(*args):
    line = " ".join(str(a) for a in args)
    LINES.append(line)
    print(line)


def arr_digest(a, exact=True):
    a = np.ascontiguousarray(np.asarray(a))
    if not exact:
        # the variational algorithm is not reproducible from run to run in the gauge of the site tensors
        # (even on the unchanged tree): only the shapes here, gauge invariant numbers are printed by the caller
        return f"{a.dtype}{a.shape}"
    s = complex(np.sum(a))
    h = hashlib.sha256(a.tobytes()).hexdigest()[:16]
    return f"{a.dtype}{a.shape} sum=({s.real:.10e},{s.imag:.10e}) abs={float(np.sum(np.abs(a))):.10e} {h}"


def mp_digest(tag, mp):
    out(f"[{tag}] {type(mp).__name__} dtype={np.dtype(mp.dtype)} qnidx={mp.qnidx} to_right={mp.to_right} "
        f"qntot={np.asarray(mp.qntot).tolist()} bond={list(map(int, mp.bond_dims))}")
    if hasattr(mp, "coeff"):
        out(f"[{tag}]   coeff={mp.coeff!r} type={type(mp.coeff).__name__}")
    out(f"[{tag}]   qn=" + repr([np.asarray(q).tolist() for q in mp.qn]))
    for i in range(mp.site_num):
        mt = mp[i]
        out(f"[{tag}]   site{i} {arr_digest(mt.array, exact='variational' not in tag)}")
    cc = mp.compress_config
    out(f"[{tag}]   cc: {cc.criteria} thr={cc.threshold} maxdims={None if cc.max_dims is None else list(map(int, cc.max_dims))}")


def dense(mp):
    """full vector / operator represented by the matrix product (times coeff if any)"""
    total = 1
    for mt in mp:
        total *= int(np.prod(mt.array.shape[1:-1]))
    if total > 200000:
        # too large to be built, use a cheap stand-in
        return np.zeros(1)
    t = np.ones((1, 1))
    for mt in mp:
        a = mt.array
        t = np.tensordot(t, a, axes=1).reshape(-1, a.shape[-1])
    v = t.ravel()
    if hasattr(mp, "coeff"):
        v = v * mp.coeff
    return v


def attempt(tag, func):
    try:
        return func()
    except Exception as e:  # noqa
        out(f"[{tag}] raised {type(e).__name__}: {str(e)[:120]}")
        return None


def seed(n):
    np.random.seed(n)


# ---------------------------------------------------------------------------------------
# models
# ---------------------------------------------------------------------------------------
holstein = parameter.holstein_model

# a spin-less fermion like chain of simple electrons and phonons (non trivial quantum numbers)
basis2 = []
for i in range(3):
    basis2.append(BasisSimpleElectron(i))
    basis2.append(BasisSHO(f"v_{i}", 1.0 + 0.1 * i, 3))
ham2 = [Op(r"a^\dagger a", [i, i + 1], 0.3) for i in range(2)] + \
       [Op(r"a^\dagger a", [i + 1, i], 0.3) for i in range(2)] + \
       [Op(r"a^\dagger a", i, 0.1 * (i + 1)) for i in range(3)] + \
       [Op(r"b^\dagger b", f"v_{i}", 1.0 + 0.1 * i) for i in range(3)] + \
       [Op(r"a^\dagger a", i, 0.2) * Op(r"b^\dagger+b", f"v_{i}") for i in range(3)]
model2 = Model(basis2, ham2)

# chains with 1 and 2 sites
model_1site = Model([BasisHalfSpin("s0")], [Op("sigma_z", "s0")])
model_2site = Model([BasisHalfSpin("s0"), BasisHalfSpin("s1")], [Op("sigma_z sigma_z", ["s0", "s1"]), Op("sigma_x", "s0")])
model_3site = Model([BasisHalfSpin(f"s{i}") for i in range(3)],
                    [Op("sigma_z sigma_z", [f"s{i}", f"s{i+1}"]) for i in range(2)] + [Op("sigma_x", f"s{i}", 0.7) for i in range(3)])


def random_mps(model, qntot, m, sd, cplx=False, coeff=None):
    seed(sd)
    mps = Mps.random(model, qntot, m)
    if cplx:
        mps = mps.to_complex()
        for i in range(mps.site_num):
            seed(sd + 100 + i)
            mps[i] = mps[i].array * np.exp(1j * 0.3 * (i + 1))
    if coeff is not None:
        mps.coeff = coeff
    return mps


def snapshot(mp):
    return [mp[i].array.copy() for i in range(mp.site_num)], [q.copy() for q in mp.qn], mp.qnidx, mp.to_right, \
        getattr(mp, "coeff", None), np.dtype(mp.dtype)


def same_snapshot(s1, s2):
    ok = all(a.dtype == b.dtype and a.shape == b.shape and np.array_equal(a, b) for a, b in zip(s1[0], s2[0]))
    ok = ok and all(np.array_equal(a, b) for a, b in zip(s1[1], s2[1]))
    ok = ok and s1[2:] == s2[2:]
    return ok


# ---------------------------------------------------------------------------------------
# 1. scale
# ---------------------------------------------------------------------------------------
out("==== scale ====")
scale_vals = [2.5, -0.5, 3, 1 + 0j, 2 - 1j, 1j, np.float64(0.25), np.complex128(0.5 + 0.5j), np.complex128(2.0),
              np.float32(1.5), np.int64(-2), True]
for name, maker in [
    ("holstein-real", lambda: random_mps(holstein, 1, 6, 11)),
    ("holstein-cplx", lambda: random_mps(holstein, 1, 6, 12, cplx=True, coeff=0.5 - 0.2j)),
    ("model2-q2", lambda: random_mps(model2, 2, 5, 13)),
    ("spin1", lambda: random_mps(model_1site, 0, 1, 14)),
    ("spin2", lambda: random_mps(model_2site, 0, 2, 15)),
]:
    for iv, val in enumerate(scale_vals):
        for inplace in (False, True):
            for center in ("first", "mid", "last"):
                mp = maker()
                if center == "mid":
                    mp.move_qnidx(mp.site_num // 2)
                elif center == "last":
                    mp.move_qnidx(mp.site_num - 1)
                    mp.to_right = False
                before = snapshot(mp)
                tag = f"scale {name} v{iv}={val!r} inplace={inplace} {center}"
                res = attempt(tag, lambda: mp.scale(val, inplace=inplace))
                if res is None:
                    continue
                out(f"[{tag}] is_self={res is mp} input_unchanged={same_snapshot(before, snapshot(mp))} "
                    f"shares_matrix={[res._mp[i] is mp._mp[i] for i in range(mp.site_num)] if res is not mp else 'n/a'}")
                mp_digest(tag, res)
                if res is not mp:
                    # mutate the result, observe the input
                    res[res.qnidx] = res[res.qnidx].array * 0 + 1
                    res[0].array[...] = 7
                    out(f"[{tag}] input_unchanged_after_result_mutation={same_snapshot(before, snapshot(mp))}")

# operators and density operators
seed(21)
mpo_h = Mpo(holstein)
mpo2 = Mpo(model2)
mpdm = MpDm.max_entangled_ex(holstein)
for name, obj in [("mpo_h", mpo_h), ("mpo2", mpo2), ("mpdm", mpdm), ("mpo-onsite", Mpo.onsite(holstein, r"a^\dagger"))]:
    for val in [0.5, -1, 1 + 0j, 0.3 + 0.4j]:
        for inplace in (False, True):
            o = obj.copy()
            before = snapshot(o)
            tag = f"scale {name} {val!r} inplace={inplace}"
            res = attempt(tag, lambda: o.scale(val, inplace=inplace))
            if res is None:
                continue
            out(f"[{tag}] is_self={res is o} input_unchanged={same_snapshot(before, snapshot(o))}")
            mp_digest(tag, res)

# zero centre -> assertion; zero elsewhere -> fine
mp = random_mps(holstein, 1, 4, 31)
mp[mp.qnidx] = mp[mp.qnidx].array * 0
attempt("scale zero centre", lambda: mp.scale(2.0))
attempt("scale zero centre inplace", lambda: mp.scale(2.0j, inplace=True))
mp_digest("scale zero centre (after failed complex inplace)", mp)
mp = random_mps(holstein, 1, 4, 32)
mp[3] = mp[3].array * 0
mp_digest("scale zero elsewhere", mp.scale(2.0))
# unusual values
mp = random_mps(holstein, 1, 4, 33)
attempt("scale str", lambda: mp.scale("a"))
attempt("scale array", lambda: mp.scale(np.array([1.0, 2.0])))
attempt("scale None", lambda: mp.scale(None))
r = attempt("scale 0-d array", lambda: mp.scale(np.array(2.0)))
if r is not None:
    mp_digest("scale 0-d array", r)
r = attempt("scale 1-elem complex array", lambda: mp.scale(np.array([2.0j])))
if r is not None:
    mp_digest("scale 1-elem complex array", r)
mp_digest("scale input after unusual", mp)
# operators * and __sub__ go through scale
a = random_mps(model2, 1, 4, 34)
b = random_mps(model2, 1, 3, 35)
mp_digest("a*2.0", a * 2.0)
mp_digest("2j*a", 2j * a)
mp_digest("a-b", a - b)
mp_digest("a after", a)
mp_digest("b after", b)

# ---------------------------------------------------------------------------------------
# 2. add
# ---------------------------------------------------------------------------------------
out("==== add ====")


def add_case(tag, a, b):
    sa, sb = snapshot(a), snapshot(b)
    da, db = dense(a), dense(b)
    res = attempt(tag, lambda: a.add(b))
    out(f"[{tag}] a_unchanged={same_snapshot(sa, snapshot(a))} b_unchanged={same_snapshot(sb, snapshot(b))} "
        f"a_vec_same={np.allclose(da, dense(a))} b_vec_same={np.allclose(db, dense(b))}")
    mp_digest(tag + " a", a)
    mp_digest(tag + " b", b)
    if res is None:
        return
    try:
        vec_ok = bool(np.allclose(dense(res), da + db))
    except ValueError as e:
        vec_ok = f"dense failed: {e}"
    out(f"[{tag}] vec_ok={vec_ok} "
        f"shares={[any(res._mp[i] is x for x in (a._mp[i], b._mp[i])) for i in range(res.site_num)]} "
        f"shares_cc={res.compress_config is a.compress_config or res.compress_config is b.compress_config} "
        f"shares_qn={any(rq is q for rq in res.qn for q in list(a.qn) + list(b.qn))}")
    mp_digest(tag + " res", res)
    # mutate result, observe inputs
    sa, sb = snapshot(a), snapshot(b)
    for i in range(res.site_num):
        res[i].array[...] = 3
    res.qn[0][...] = 5
    out(f"[{tag}] inputs_unchanged_after_result_mutation={same_snapshot(sa, snapshot(a)) and same_snapshot(sb, snapshot(b))}")


for (n1, m1, c1, co1), (n2, m2, c2, co2) in [
    ((41, 4, False, None), (42, 3, False, None)),
    ((43, 4, False, None), (44, 5, True, None)),
    ((45, 4, True, None), (46, 2, False, None)),
    ((47, 3, True, 0.5j), (48, 3, True, 0.5j)),
    ((49, 3, False, 2.0), (50, 4, False, 0.5)),
    ((51, 3, False, 1.0), (52, 4, True, 1j)),
]:
    for model, q in [(holstein, 1), (model2, 2), (model2, 0), (model_3site, 0), (model_2site, 0), (model_1site, 0)]:
        for layout in range(3):
            a = random_mps(model, q, m1, n1, cplx=c1, coeff=co1)
            b = random_mps(model, q, m2, n2, cplx=c2, coeff=co2)
            if layout == 1:
                b.move_qnidx(b.site_num - 1)
                b.to_right = False
            elif layout == 2:
                a.move_qnidx(a.site_num - 1)
                a.to_right = False
                b.move_qnidx(b.site_num // 2)
                a.compress_config = CompressConfig(CompressCriteria.fixed, max_bonddim=7)
            add_case(f"add mps {model.nsite}sites q{q} seeds{n1},{n2} layout{layout}", a, b)

# canonicalised inputs, compressed
a = random_mps(model2, 1, 6, 61).canonicalise().compress(3)
b = random_mps(model2, 1, 6, 62, cplx=True).canonicalise()
add_case("add cano", a, b)
add_case("add self+self", a, a)

# operators
op_a = Mpo(holstein)
op_b = Mpo.onsite(holstein, r"a^\dagger a")
add_case("add mpo", op_a, op_b)
add_case("add mpo cplx", op_a.scale(1j), op_b)
add_case("add mpo model2", Mpo(model2), Mpo(model2, Op(r"a^\dagger a", [0, 2], 0.7 - 0.1j)))
add_case("add mpo 1site", Mpo(model_1site), Mpo(model_1site, Op("sigma_x", "s0")))
add_case("add mpo 2site", Mpo(model_2site), Mpo(model_2site, Op("sigma_x", "s1")))
add_case("add mpo 3site", Mpo(model_3site), Mpo(model_3site, Op("sigma_x", "s1", 0.5 + 0.5j)))
# density operators
dm_a = MpDm.max_entangled_ex(holstein)
seed(63)
dm_b = Mpo.onsite(holstein, r"a^\dagger").apply(MpDm.max_entangled_gs(holstein))
add_case("add mpdm", dm_a, dm_b)
dm_c = dm_b.copy()
dm_c.coeff = 0.3j
add_case("add mpdm coeffs", dm_a, dm_c)
# error paths
add_case("add qntot mismatch", random_mps(model2, 1, 3, 64), random_mps(model2, 2, 3, 65))
add_case("add site_num mismatch", random_mps(model_2site, 0, 2, 66), random_mps(model_3site, 0, 2, 67))
add_case("add pdim mismatch", random_mps(holstein, 1, 3, 68), random_mps(parameter.custom_model(n_phys_dim=[3, 3]), 1, 3, 69))
add_case("add mps+mpdm", random_mps(holstein, 1, 3, 70), MpDm.max_entangled_ex(holstein))
add_case("add mpo+mps", Mpo(holstein), random_mps(holstein, 0, 3, 71))
add_case("add mpo pdim mismatch", Mpo(holstein), Mpo(parameter.custom_model(n_phys_dim=[3, 3])))

# ---------------------------------------------------------------------------------------
# 3. contract
# ---------------------------------------------------------------------------------------
out("==== contract ====")


def contract_case(tag, mpo, mps, algo):
    so, sm = snapshot(mpo), snapshot(mps)
    seed(99)
    res = attempt(tag, lambda: mpo.contract(mps, algo=algo) if algo is not None else mpo.contract(mps))
    out(f"[{tag}] mpo_unchanged={same_snapshot(so, snapshot(mpo))} mps_unchanged={same_snapshot(sm, snapshot(mps))}")
    mp_digest(tag + " mpo", mpo)
    mp_digest(tag + " mps", mps)
    if res is None:
        return
    out(f"[{tag}] res_is_input={res is mps or res is mpo} "
        f"shares={[res._mp[i] is mps._mp[i] for i in range(res.site_num)]}")
    mp_digest(tag + " res", res)
    exact_res = mpo.apply(mps)
    ovlp = complex(res.conj().dot(exact_res))
    nrm = complex(res.conj().dot(res))
    out(f"[{tag}] <res|res>=({nrm.real:.6f},{abs(nrm.imag):.6f}) |<res|mpo@mps>|={abs(ovlp):.6f}")
    sm = snapshot(mps)
    so = snapshot(mpo)
    for i in range(res.site_num):
        res[i].array[...] = 3
    out(f"[{tag}] inputs_unchanged_after_result_mutation={same_snapshot(sm, snapshot(mps)) and same_snapshot(so, snapshot(mpo))}")


for algo in (None, "svd", "variational", "bogus", "SVD", None.__class__):
    for name, mpo, maker in [
        ("holstein", Mpo(holstein), lambda: random_mps(holstein, 1, 5, 81)),
        ("holstein-cplx-thr", Mpo(holstein), lambda: random_mps(holstein, 1, 5, 82, cplx=True, coeff=0.3 + 0.1j)),
        ("model2", Mpo(model2), lambda: random_mps(model2, 2, 4, 83)),
        ("spin3", Mpo(model_3site), lambda: random_mps(model_3site, 0, 2, 84)),
        ("spin2", Mpo(model_2site), lambda: random_mps(model_2site, 0, 2, 85)),
        ("raise", Mpo.onsite(holstein, r"a^\dagger"), lambda: Mps.ground_state(holstein, False)),
    ]:
        mps = maker()
        if name == "holstein-cplx-thr":
            mps.compress_config = CompressConfig(CompressCriteria.threshold, threshold=1e-3)
        else:
            mps.compress_config = CompressConfig(CompressCriteria.fixed, max_bonddim=6)
        if name == "spin3":
            mps.canonicalise()
        contract_case(f"contract {name} algo={algo!r}", mpo, mps, algo)
    # mpo @ mpdm and mpo @ mpo
    dm = MpDm.max_entangled_ex(holstein)
    dm.compress_config = CompressConfig(CompressCriteria.fixed, max_bonddim=5)
    contract_case(f"contract mpdm algo={algo!r}", Mpo(holstein), dm, algo)
    o2 = Mpo.onsite(holstein, r"a^\dagger a")
    o2.compress_config = CompressConfig(CompressCriteria.fixed, max_bonddim=5)
    contract_case(f"contract mpo algo={algo!r}", Mpo(holstein), o2, algo)

# ---------------------------------------------------------------------------------------
# 4. normalize
# ---------------------------------------------------------------------------------------
out("==== normalize ====")
kinds = ["mps_only", "mps_and_coeff", "mps_norm_to_coeff", "ttns_only", "ttns_and_coeff", "ttns_norm_to_coeff",
         "bogus", "", None, 3, ["mps_only"], ("mps_only",), "MPS_ONLY"]
for kind in kinds:
    for name, maker in [
        ("real", lambda: random_mps(holstein, 1, 5, 91)),
        ("real-coeff", lambda: random_mps(model2, 2, 4, 92, coeff=-3.0)),
        ("cplx-coeff", lambda: random_mps(model2, 1, 4, 93, cplx=True, coeff=0.6 - 0.8j)),
        ("cplx-coeff-on-real", lambda: random_mps(holstein, 1, 4, 94, coeff=2j)),
        ("mid", lambda: random_mps(holstein, 1, 4, 95, coeff=np.float64(0.5))),
        ("mpdm", lambda: MpDm.max_entangled_ex(holstein, normalize=False)),
        ("zero-coeff", lambda: random_mps(holstein, 1, 3, 96, coeff=0.0)),
    ]:
        mp = maker()
        if name == "mid":
            mp.move_qnidx(3)
        tag = f"normalize {name} kind={kind!r}"
        with np.errstate(all="ignore"):
            res = attempt(tag, lambda: mp.normalize(kind))
        out(f"[{tag}] returns_self={res is mp}")
        mp_digest(tag, mp)
        # module level function gives the same
        mp2 = maker()
        if name == "mid":
            mp2.move_qnidx(3)
        with np.errstate(all="ignore"):
            res2 = attempt(tag + " (module)", lambda: mps_module.normalize(mp2, kind))
        out(f"[{tag}] module_returns_self={res2 is mp2}")
        mp_digest(tag + " (module)", mp2)


class NoNorm:
    coeff = 1.0

    def scale(self, val, inplace=False):
        out("NoNorm.scale called", val, inplace)
        return self


class TreeLike:
    """a stand-in with ``ttns_norm`` only"""

    def __init__(self):
        self.coeff = 2.0 - 1j
        self.calls = []

    @property
    def ttns_norm(self):
        self.calls.append("ttns_norm")
        return 4.0

    def scale(self, val, inplace=False):
        self.calls.append(("scale", val, inplace))
        return self


class BothLike(TreeLike):
    @property
    def mp_norm(self):
        self.calls.append("mp_norm")
        return 8.0


for kind in kinds:
    for cls in (NoNorm, TreeLike, BothLike):
        obj = cls()
        tag = f"normalize {cls.__name__} kind={kind!r}"
        res = attempt(tag, lambda: mps_module.normalize(obj, kind))
        out(f"[{tag}] returns_self={res is obj} coeff={obj.coeff!r} calls={getattr(obj, 'calls', None)}")

# zero state -> division by zero in norm
mp = random_mps(holstein, 1, 3, 97)
mp[mp.qnidx] = mp[mp.qnidx].array * 0
with np.errstate(all="ignore"):
    attempt("normalize zero state", lambda: mp.normalize("mps_only"))
mp_digest("normalize zero state", mp)

# ---------------------------------------------------------------------------------------
# 5. expand_bond_dimension (uses add, scale, contract-like paths and normalize)
# ---------------------------------------------------------------------------------------
out("==== expand_bond_dimension ====")
for name, model, q, hint, include_ex, cplx in [
    ("holstein-nohint", holstein, 1, None, True, False),
    ("holstein-hint", holstein, 1, Mpo(holstein), True, False),
    ("holstein-hint-noex", holstein, 1, Mpo(holstein), False, True),
    ("model2-hint", model2, 1, Mpo(model2), True, False),
    ("model2-nohint-q2", model2, 2, None, False, True),
]:
    for coef in (1e-10, 0.1):
        seed(101)
        mp = random_mps(model, q, 2, 102, cplx=cplx, coeff=0.7).canonicalise()
        mp.compress_config = CompressConfig(CompressCriteria.fixed, max_bonddim=6)
        before = snapshot(mp)
        tag = f"expand {name} coef={coef}"
        seed(103)
        res = attempt(tag, lambda: mp.expand_bond_dimension(hint, coef=coef, include_ex=include_ex))
        out(f"[{tag}] input_unchanged={same_snapshot(before, snapshot(mp))} res_is_input={res is mp}")
        mp_digest(tag + " input", mp)
        if hint is not None:
            mp_digest(tag + " hint", hint)
        if res is not None:
            mp_digest(tag + " res", res)
            seed(103)
            res2 = attempt(tag + " (module, positional)", lambda: mps_module.expand_bond_dimension(mp, hint, coef, include_ex))
            if res2 is not None:
                mp_digest(tag + " res2", res2)

dm = MpDm.max_entangled_ex(holstein)
dm.compress_config = CompressConfig(CompressCriteria.fixed, max_bonddim=4)
seed(104)
res = attempt("expand mpdm", lambda: dm.expand_bond_dimension(Mpo(holstein), coef=1e-3))
if res is not None:
    mp_digest("expand mpdm res", res)
mp_digest("expand mpdm input", dm)

out("TOTAL LINES", len(LINES))
out("DIGEST", hashlib.sha256("\n".join(LINES).encode()).hexdigest())
