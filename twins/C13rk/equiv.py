"""Equivalence check for the C13rk refactoring.

Exercises Mps.evolve_exact, MpDm.evolve_exact, compressed_sum, TTNS.to_complex and TTNS.scale
and prints a deterministic digest.
"""
import os
import sys

sys.path.insert(0, os.path.dirname(os.path.abspath(__file__)))
import print_tree  # noqa: F401  stub living next to this script

import numpy as np

from renormalizer import Mps, Mpo, Op, Model, BasisHalfSpin
from renormalizer.mps import MpDm
from renormalizer.model.model import heisenberg_ops
from renormalizer.mps.lib import compressed_sum
from renormalizer.tests.parameter import holstein_model, holstein_model4
from renormalizer.tn.tree import TTNS, TTNO
from renormalizer.tn.treebase import BasisTree
from renormalizer.tn.node import TreeNodeBasis
from renormalizer.utils import Quantity, CompressConfig, CompressCriteria


def fmt(x):
    x = np.asarray(x)
    if np.iscomplexobj(x):
        x = np.stack([x.real, x.imag], axis=-1)
    x = np.round(x.astype(float), 9) + 0.0
    return np.array2string(x.ravel(), precision=9, separator=",", threshold=10 ** 6, max_line_width=10 ** 6)


def dig_arr(a):
    a = np.asarray(a)
    flat = a.ravel()
    w = np.cos(np.arange(flat.size) * 0.7 + 0.3)
    return f"shape={a.shape} dtype={a.dtype} sum={fmt(flat.sum())} abs={fmt(np.abs(flat).sum())} w={fmt(flat @ w)}"


def dig_mp(mp):
    coeff = getattr(mp, "coeff", "none")
    offset = getattr(mp, "offset", "none")
    parts = [type(mp).__name__, f"coeff={coeff if isinstance(coeff, str) else fmt(coeff)}:{type(coeff).__name__}",
             f"offset={offset!r}", f"dtype={mp.dtype}", f"bond={list(mp.bond_dims)}", f"qntot={fmt(mp.qntot)}",
             f"qnidx={mp.qnidx}", f"to_right={mp.to_right}",
             "qn=" + ";".join(fmt(q) for q in mp.qn)]
    for mt in mp:
        parts.append(dig_arr(mt.array))
    return " | ".join(parts)


def dig_ttns(t):
    parts = [type(t).__name__, f"coeff={fmt(t.coeff)}:{type(t.coeff).__name__}",
             f"bond={list(t.bond_dims)}"]
    for node in t:
        parts.append(dig_arr(node.tensor) + " qn=" + fmt(node.qn))
    return " | ".join(parts)


def section(name):
    print("=" * 10, name)


def run(label, func):
    try:
        res = func()
    except Exception as e:  # noqa
        print(label, "EXC", type(e).__name__, str(e)[:80])
        return None
    return res


# ---------------------------------------------------------------- Mps.evolve_exact
section("Mps.evolve_exact")
offsets = [Quantity(0), Quantity(2.28614053, "ev"), Quantity(-0.37, "a.u.")]
for imodel, model in enumerate([holstein_model, holstein_model4]):
    for ioff, off in enumerate(offsets):
        h_mpo = Mpo(model, offset=off)
        h_dig = dig_mp(h_mpo)
        for space in ["GS", "EX"]:
            for dt in [0.0, 3.7, -11.2]:
                for cplx in [False, True]:
                    np.random.seed(7 + ioff)
                    mps = Mps.random(model, 1, 6)
                    mps.coeff = 0.6 - 0.2j if cplx else 1.3
                    if cplx:
                        mps = mps.to_complex()
                        mps.coeff = 0.6 - 0.2j
                    before = dig_mp(mps)
                    label = f"m{imodel} off{ioff} {space} dt={dt} c={cplx}"
                    new = run(label, lambda: mps.evolve_exact(h_mpo, dt, space))
                    if new is None:
                        print(label, "input-unchanged", before == dig_mp(mps), "h-unchanged", h_dig == dig_mp(h_mpo))
                        continue
                    print(label, "new", dig_mp(new))
                    print(label, "norm", fmt(new.norm), fmt(new.expectation(h_mpo)))
                    print(label, "input-unchanged", before == dig_mp(mps), "h-unchanged", h_dig == dig_mp(h_mpo),
                          "new-is-input", new is mps)
                    # mutate result, observe input
                    new[0] = new[0].array * 2
                    new.coeff *= 3
                    print(label, "after-mutation-input-unchanged", before == dig_mp(mps))
run("bad-space", lambda: Mps.random(holstein_model, 1, 4).evolve_exact(Mpo(holstein_model), 1.0, "XX"))

# ---------------------------------------------------------------- MpDm.evolve_exact
section("MpDm.evolve_exact")
for imodel, model in enumerate([holstein_model, holstein_model4]):
    for ioff, off in enumerate(offsets):
        h_mpo = Mpo(model, offset=off)
        h_dig = dig_mp(h_mpo)
        for kind in ["gs", "ex"]:
            for space in ["GS", "EX"]:
                for dt in [0.0, 2.9, -7.5]:
                    if kind == "gs":
                        mpdm = MpDm.max_entangled_gs(model)
                    else:
                        mpdm = MpDm.max_entangled_ex(model)
                    before = dig_mp(mpdm)
                    label = f"m{imodel} off{ioff} {kind} {space} dt={dt}"
                    new = run(label, lambda: mpdm.evolve_exact(h_mpo, dt, space))
                    if new is None:
                        print(label, "input-unchanged", before == dig_mp(mpdm), "h-unchanged", h_dig == dig_mp(h_mpo))
                        continue
                    print(label, "new", dig_mp(new))
                    print(label, "input-unchanged", before == dig_mp(mpdm), "h-unchanged", h_dig == dig_mp(h_mpo),
                          "new-is-input", new is mpdm)
                    new[1] = new[1].array * 2
                    new.coeff *= 3
                    print(label, "after-mutation-input-unchanged", before == dig_mp(mpdm))
run("bad-space", lambda: MpDm.max_entangled_gs(holstein_model).evolve_exact(Mpo(holstein_model), 1.0, "XX"))

# ---------------------------------------------------------------- compressed_sum (chains)
section("compressed_sum chain")


def make_list(n, model, seed, cplx=False):
    np.random.seed(seed)
    res = []
    for i in range(n):
        m = Mps.random(model, 1, 3 + i % 3)
        m.coeff = 1.0 + 0.1 * i
        if cplx and i % 2 == 0:
            m = m.to_complex()
            m[0] = m[0].array * (1 + 0.5j)
        m.compress_config = CompressConfig(CompressCriteria.fixed, max_bonddim=8)
        res.append(m)
    return res


for n in [1, 2, 3, 6, 11]:
    for batchsize in [2, 3, 5]:
        for tmt in [None, 4]:
            for cplx in [False, True]:
                for as_tuple in [False, True]:
                    if as_tuple and (n not in (1, 6) or batchsize != 3):
                        continue
                    lst = make_list(n, holstein_model, 100 + n, cplx)
                    before = [dig_mp(m) for m in lst]
                    arg = tuple(lst) if as_tuple else lst
                    label = f"n={n} b={batchsize} tmt={tmt} c={cplx} tup={as_tuple}"
                    res = run(label, lambda: compressed_sum(arg, batchsize=batchsize, temp_m_trunc=tmt))
                    if res is None:
                        continue
                    print(label, "res", dig_mp(res))
                    print(label, "norm", fmt(res.norm))
                    print(label, "len-arg", len(arg), "inputs-unchanged", before == [dig_mp(m) for m in lst],
                          "res-in-inputs", any(res is m for m in lst))
                    res[0] = res[0].array * 2
                    print(label, "after-mutation-inputs-unchanged", before == [dig_mp(m) for m in lst])

# default arguments, positional batchsize
lst = make_list(4, holstein_model4, 55)
print("defaults", dig_mp(compressed_sum(lst)))
print("positional", dig_mp(compressed_sum(lst, 2, 3)))
# edge cases
run("empty", lambda: compressed_sum([]))
run("empty-tuple", lambda: compressed_sum(()))
run("generator", lambda: compressed_sum(m for m in lst))
run("batch0", lambda: compressed_sum(make_list(3, holstein_model, 1), batchsize=0))
run("batch-neg", lambda: compressed_sum(make_list(3, holstein_model, 1), batchsize=-2))
run("batch-float", lambda: compressed_sum(make_list(3, holstein_model, 1), batchsize=2.0))
run("batch-none", lambda: compressed_sum(make_list(3, holstein_model, 1), batchsize=None))
one = make_list(1, holstein_model, 3)
r = compressed_sum(one, batchsize=0)
print("single-batch0", dig_mp(r), r is one[0])
run("not-mps", lambda: compressed_sum([1, 2, 3]))
run("not-mps-single", lambda: compressed_sum([1]))

# ---------------------------------------------------------------- trees
section("trees")
nspin = 7
basis_list = [BasisHalfSpin(i) for i in range(nspin)]
basis_binary = BasisTree.binary(basis_list)


def multi_basis_tree(bl):
    node1 = TreeNodeBasis([bl[0], bl[1]])
    node2 = TreeNodeBasis([bl[2]])
    node3 = TreeNodeBasis([bl[3]])
    node4 = TreeNodeBasis([bl[4], bl[5], bl[6]])
    node3.add_child(node2)
    node2.add_child(node1)
    node2.add_child(node4)
    return BasisTree(node3)


basis_multi = multi_basis_tree(basis_list)
basis_qn = BasisTree.binary([BasisHalfSpin(i, sigmaqn=[-1, 1]) for i in range(nspin)])

trees = []
for ib, (basis, qntot) in enumerate([(basis_binary, 0), (basis_multi, 0), (basis_qn, 1), (basis_qn, 3)]):
    np.random.seed(31 + ib)
    t = TTNS.random(basis, qntot, 5)
    t.coeff = 0.7
    trees.append((f"tree{ib}", t))
    t2 = TTNS.random(basis, qntot, 4)
    for node in t2:
        node.tensor = node.tensor * (1 + 0.3j)
    t2.coeff = 0.4 - 1.1j
    trees.append((f"tree{ib}c", t2))
trees.append(("product", TTNS(basis_binary, {1: 1, 3: 1})))

section("TTNS.to_complex")
for name, t in trees:
    before = dig_ttns(t)
    dense_before = dig_arr(t.todense())
    new = t.to_complex()
    print(name, "new", dig_ttns(new))
    print(name, "new-is-input", new is t, "input-unchanged", before == dig_ttns(t),
          "shares-memory", any(np.shares_memory(a.tensor, b.tensor) or np.shares_memory(a.qn, b.qn)
                               for a, b in zip(t, new)))
    print(name, "configs", new.compress_config is t.compress_config, new.evolve_config is t.evolve_config,
          new.optimize_config is t.optimize_config, new.basis is t.basis)
    new.root.tensor *= 2
    new.root.qn[0] += 1
    print(name, "after-mutation-input-unchanged", before == dig_ttns(t))
    t_in = t.copy()
    ids = [id(n) for n in t_in]
    qn_ids = [id(n.qn) for n in t_in]
    new = t_in.to_complex(inplace=True)
    print(name, "inplace", new is t_in, ids == [id(n) for n in t_in], [id(n.qn) for n in t_in] == qn_ids,
          dig_ttns(new))
    print(name, "dense-same", dense_before, dig_arr(new.todense()))
    # positional argument
    print(name, "positional", t.copy().to_complex(True).root.tensor.dtype, t.to_complex(False) is t)

section("TTNS.scale")
vals = [2.5, -3, 0, 1.5 - 0.5j, 2 + 0j, np.float64(0.3), np.complex128(0.1 + 2j), np.complex128(4.0),
        np.array(1.5), np.array(0.5 + 1j), np.int64(2), True]
for name, t in trees:
    for iv, val in enumerate(vals):
        for inplace in [False, True]:
            src = t.copy()
            before = dig_ttns(src)
            label = f"{name} v{iv} inplace={inplace}"
            new = run(label, lambda: src.scale(val, inplace=inplace))
            if new is None:
                print(label, "input-after-exc-unchanged", before == dig_ttns(src))
                continue
            print(label, "new", dig_ttns(new))
            print(label, "new-is-input", new is src, "input-unchanged", before == dig_ttns(src))
            print(label, "dense", dig_arr(new.todense() * new.coeff))
            if not inplace:
                new.root.tensor *= 2
                new.to_complex(inplace=True)
                print(label, "after-mutation-input-unchanged", before == dig_ttns(src))
for name, t in trees[:3]:
    src = t.copy()
    print(name, "positional", dig_ttns(src.scale(1.5, True)), dig_ttns(src.scale(2j)))
    run(name + " str", lambda: t.copy().scale("a"))
    run(name + " none", lambda: t.copy().scale(None))
    run(name + " list", lambda: t.copy().scale([1.0, 2.0]))

# ---------------------------------------------------------------- compressed_sum (trees)
section("compressed_sum tree")
for ib, (basis, qntot) in enumerate([(basis_binary, 0), (basis_multi, 0), (basis_qn, 1)]):
    for n in [1, 2, 4, 6]:
        for batchsize in [2, 5]:
            for tmt in [None, 3]:
                np.random.seed(200 + n + ib)
                lst = []
                for i in range(n):
                    t = TTNS.random(basis, qntot, 2 + i % 2)
                    t.coeff = 1.0
                    t.compress_config = CompressConfig(CompressCriteria.fixed, max_bonddim=6)
                    if i % 2:
                        t = t.scale(0.5 + 0.25j * i)
                    lst.append(t)
                before = [dig_ttns(t) for t in lst]
                label = f"b{ib} n={n} batch={batchsize} tmt={tmt}"
                res = run(label, lambda: compressed_sum(lst, batchsize, tmt))
                if res is None:
                    continue
                print(label, "res", dig_ttns(res))
                print(label, "dense", dig_arr(res.todense() * res.coeff))
                print(label, "inputs-unchanged", before == [dig_ttns(t) for t in lst],
                      "res-in-inputs", any(res is t for t in lst))
                res.root.tensor *= 2
                print(label, "after-mutation-inputs-unchanged", before == [dig_ttns(t) for t in lst])
