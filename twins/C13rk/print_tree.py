class print_tree:
    """stub of the (uninstalled) print_tree package, only needed for import"""

    def __init__(self, *args, **kwargs):
        pass
