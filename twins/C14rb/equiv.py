"""Equivalence check for the C14 refactoring (dump / load / crash-safe result dump).

Exercises
  * renormalizer.mps.mp.MatrixProduct.dump
  * renormalizer.mps.mps.Mps.load
  * renormalizer.utils.tdmps.TdMpsJob.dump_dict
  * renormalizer.tn.tree.TTNBase.load
and prints a deterministic digest.
"""
import sys, types
_pt = types.ModuleType("print_tree"); _pt.print_tree = object; sys.modules.setdefault("print_tree", _pt)

import hashlib
import re
import logging
import os
import shutil
import tempfile

import numpy as np

from renormalizer import Op, Model, BasisHalfSpin, BasisSHO
from renormalizer.mps import Mps, Mpo, MpDm
from renormalizer.mps.mp import MatrixProduct
from renormalizer.tests.parameter import holstein_model, custom_model
from renormalizer.utils.tdmps import TdMpsJob
from renormalizer.utils import EvolveConfig
from renormalizer.tn import BasisTree, TTNO, TTNS
from renormalizer.tn.tree import TTNBase

WORK = tempfile.mkdtemp(prefix="c14rb_equiv_")


# ---------------------------------------------------------------- helpers
class LogCapture(logging.Handler):
    def __init__(self):
        super().__init__(level=logging.DEBUG)
        self.records = []

    def emit(self, record):
        msg = record.getMessage().replace(WORK, "<WORK>")
        msg = re.sub(r"-?\d+:\d\d:\d\d(\.\d+)?", "<T>", msg)
        msg = re.sub(r" at 0x[0-9a-f]+", " at <ADDR>", msg)
        self.records.append(f"{record.name}:{record.levelname}:{msg}:exc={record.exc_info is not None and record.exc_info[0] is not None}")


LOG = LogCapture()
for name in ["renormalizer.mps.mp", "renormalizer.mps.mps", "renormalizer.utils.tdmps", "renormalizer.tn.tree"]:
    lg = logging.getLogger(name)
    lg.addHandler(LOG)
    lg.setLevel(logging.DEBUG)
    lg.propagate = False


def pop_logs():
    out = list(LOG.records)
    LOG.records.clear()
    return out


def dig(x):
    """deterministic digest of (nested) values"""
    if isinstance(x, np.ndarray):
        if x.dtype == object:
            return "objarr%s[%s]" % (x.shape, ",".join(dig(e) for e in x.ravel().tolist()))
        if x.dtype.kind in "US":
            return f"strarr{x.shape}:{x.dtype}:{x.tolist()!r}"
        a = np.ascontiguousarray(x)
        h = hashlib.sha1(a.tobytes()).hexdigest()[:12]
        return f"arr{x.shape}:{a.dtype}:{h}"
    if isinstance(x, (list, tuple)):
        return type(x).__name__ + "[" + ",".join(dig(e) for e in x) + "]"
    if isinstance(x, (np.generic,)):
        return f"{type(x).__name__}:{x!r}"
    return f"{type(x).__name__}:{x!r}"


def npz_digest(path):
    with np.load(path, allow_pickle=True) as z:
        return [(k, dig(z[k])) for k in z.files]


def listdir(d):
    if not os.path.exists(d):
        return "<nodir>"
    return sorted(os.listdir(d))


def show(title, value):
    print(f"## {title}")
    if isinstance(value, (list, tuple)):
        for v in value:
            print("   ", v)
    else:
        print("   ", value)


def attempt(fn):
    try:
        return ("ok", fn())
    except BaseException as e:  # noqa
        return ("raise", type(e).__name__, str(e).replace(WORK, "<WORK>"))


def mp_state_digest(mp):
    res = [
        ("class", type(mp).__name__),
        ("dtype", str(mp.dtype)),
        ("mts", [dig(np.asarray(m.array)) for m in mp]),
        ("qn", dig(mp.qn) if isinstance(mp.qn, np.ndarray) else dig([np.asarray(q) for q in mp.qn])),
        ("qn_type", type(mp.qn).__name__),
        ("qnidx", dig(mp.qnidx)),
        ("qntot", dig(mp.qntot)),
        ("to_right", dig(mp.to_right)),
    ]
    if hasattr(mp, "coeff"):
        res.append(("coeff", dig(mp.coeff)))
    return res


# ---------------------------------------------------------------- part A: MatrixProduct.dump / Mps.load / MatrixProduct.load
def build_chain_states():
    states = {}
    model = holstein_model
    np.random.seed(11)
    m = Mps.random(model, 1, 6, percent=1.0)
    states["real_random"] = (model, m)

    np.random.seed(12)
    m = Mps.random(model, 1, 5, percent=1.0).to_complex()
    for i in range(len(m)):
        arr = np.asarray(m[i].array)
        m[i] = arr * np.exp(0.3j * (i + 1))
    m.coeff = 0.6 - 0.8j
    states["complex_random_coeff"] = (model, m)

    np.random.seed(13)
    m = Mps.random(model, 1, 7, percent=1.0)
    m.ensure_left_canonical()
    states["left_canonical"] = (model, m)

    np.random.seed(14)
    m = Mps.random(model, 1, 7, percent=1.0)
    m.ensure_right_canonical()
    states["right_canonical"] = (model, m)

    np.random.seed(15)
    m = Mps.random(model, 1, 8, percent=1.0)
    m.canonicalise()
    m.move_qnidx(3)
    m.coeff = 2.5
    states["moved_qnidx"] = (model, m)

    m = Mps.ground_state(model, False)
    states["gs_qn0"] = (model, m)
    m = Mpo.onsite(model, r"a^\dagger", dof_set={1}) @ Mps.ground_state(model, False)
    states["excited"] = (model, m)

    # several quantum numbers
    basis = []
    for i in range(4):
        sigmaqn = np.array([[0, 0], [1, 0]]) if i % 2 == 0 else np.array([[0, 0], [0, 1]])
        basis.append(BasisHalfSpin(i, sigmaqn=sigmaqn))
    ham = [Op(r"sigma_+ sigma_-", [0, 2], 0.3, qn=[[1, 0], [-1, 0]]), Op(r"sigma_+ sigma_-", [1, 3], 0.2, qn=[[0, 1], [0, -1]]),
           Op("sigma_z", 0, 0.1), Op("sigma_z", 3, -0.4)]
    model2 = Model(basis, ham)
    np.random.seed(16)
    m = Mps.random(model2, [1, 1], 4, percent=1.0)
    states["multi_qn"] = (model2, m)
    np.random.seed(17)
    m = Mps.random(model2, [1, 1], 4, percent=1.0).to_complex()
    m.canonicalise()
    m.coeff = 1j
    states["multi_qn_complex_cano"] = (model2, m)

    # one-site chain
    model1 = Model([BasisSHO(0, 1.0, 4)], [Op("b^\dagger b", 0, 1.0)])
    np.random.seed(18)
    m = Mps.random(model1, 0, 3, percent=1.0)
    states["one_site"] = (model1, m)
    return states


def part_a():
    print("==== PART A: chain dump / load")
    states = build_chain_states()
    for name, (model, m) in states.items():
        fname = os.path.join(WORK, f"chain_{name}.npz")
        before = mp_state_digest(m)
        r = attempt(lambda: m.dump(fname))
        show(f"A.{name}.dump_ret", [r, pop_logs()])
        after = mp_state_digest(m)
        show(f"A.{name}.state_unchanged_by_dump", before == after)
        show(f"A.{name}.npz", npz_digest(fname))
        m2 = Mps.load(model, fname)
        show(f"A.{name}.loaded", mp_state_digest(m2))
        show(f"A.{name}.load_logs", pop_logs())
        same = all(np.array_equal(np.asarray(a.array), np.asarray(b.array)) for a, b in zip(m, m2))
        show(f"A.{name}.same_tensors", same)
        # a later operation on the loaded state
        mpo = Mpo(model)
        e1 = m.expectation(mpo)
        e2 = m2.expectation(mpo)
        show(f"A.{name}.expectation", [np.round(e1, 10), np.round(e2, 10)])
        # generic loader of the base class (used by Mpo / MpDm)
        m3 = attempt(lambda: mp_state_digest(MatrixProduct.load.__func__(Mps, model, fname)))
        show(f"A.{name}.base_loader", m3)

    # operators and density operators: base-class dump with other_attrs=None
    model = holstein_model
    mpo = Mpo(model)
    fname = os.path.join(WORK, "mpo.npz")
    show("A.mpo.dump_ret", [attempt(lambda: mpo.dump(fname)), pop_logs()])
    show("A.mpo.npz", npz_digest(fname))
    mpo2 = Mpo.load(model, fname)
    show("A.mpo.loaded", mp_state_digest(mpo2))
    mpdm = MpDm.max_entangled_gs(model)
    mpdm = Mpo.onsite(model, r"a^\dagger", dof_set={0}) @ mpdm
    mpdm = mpdm.to_complex()
    fname = os.path.join(WORK, "mpdm.npz")
    show("A.mpdm.dump_ret", [attempt(lambda: mpdm.dump(fname)), pop_logs()])
    show("A.mpdm.npz", npz_digest(fname))
    mpdm2 = MpDm.load(model, fname)
    show("A.mpdm.loaded", mp_state_digest(mpdm2))

    # unusual other_attrs
    _, m = states["complex_random_coeff"]
    m.extra = np.arange(3)
    for label, oa in [("none", None), ("str", "coeff"), ("list2", ["coeff", "extra"]), ("empty", []),
                      ("dup_qn", ["qn", "coeff"]), ("tuple", ("coeff",)), ("missing", ["nonexistent"]),
                      ("int", 3), ("mt0", ["coeff", "extra", "to_right"])]:
        fname = os.path.join(WORK, f"oa_{label}.npz")
        r = attempt(lambda: MatrixProduct.dump(m, fname, oa))
        show(f"A.other_attrs.{label}", [r, pop_logs(), npz_digest(fname) if os.path.exists(fname) else "<nofile>"])
    r = attempt(lambda: MatrixProduct.dump(m, fname, other_attrs="coeff"))
    show("A.other_attrs.kw", [r, npz_digest(fname)])
    # failure of the write itself is swallowed and logged
    bad = os.path.join(WORK, "no_such_dir", "x.npz")
    r = attempt(lambda: m.dump(bad))
    show("A.bad_dir", [r, pop_logs(), os.path.exists(bad)])
    # file object target
    fname = os.path.join(WORK, "fileobj.npz")
    with open(fname, "wb") as f:
        r = attempt(lambda: m.dump(f))
    show("A.fileobj", [r, npz_digest(fname)])
    # empty chain
    empty = Mps()
    empty.qn = [[[0]]]
    empty.qnidx = 0
    empty.qntot = np.array([0])
    empty.to_right = True
    fname = os.path.join(WORK, "empty.npz")
    r = attempt(lambda: empty.dump(fname))
    show("A.empty_chain", [r, pop_logs(), npz_digest(fname) if os.path.exists(fname) else "<nofile>"])
    if os.path.exists(fname):
        show("A.empty_chain.load", attempt(lambda: mp_state_digest(Mps.load(None, fname))))
    # qn list shorter than the chain
    _, m = states["real_random"]
    short = m.copy()
    short.qn = short.qn[:-1]
    fname = os.path.join(WORK, "short.npz")
    r = attempt(lambda: short.dump(fname))
    show("A.short_qn", [r, pop_logs(), os.path.exists(fname)])
    return states


# ---------------------------------------------------------------- part B: legacy protocol versions
def part_b(states):
    print("==== PART B: Mps.load protocol versions")
    for name in ["real_random", "complex_random_coeff", "multi_qn_complex_cano", "right_canonical"]:
        model, m = states[name]
        src = os.path.join(WORK, f"chain_{name}.npz")
        with np.load(src, allow_pickle=True) as z:
            base = {k: z[k] for k in z.files}

        def variant(version, drop=(), add=None):
            d = {k: v for k, v in base.items() if k not in drop}
            if version is not None:
                d["version"] = version
            else:
                d.pop("version")
            if add:
                d.update(add)
            return d

        variants = {
            "v0.1": variant("0.1", drop=("to_right", "coeff"), add={"left": base["to_right"]}),
            "v0.1_left_false": variant("0.1", drop=("to_right", "coeff"), add={"left": False}),
            "v0.1_noleft": variant("0.1", drop=("coeff",)),
            "v0.2": variant("0.2", drop=("coeff",), add={"tdh_wfns": np.array([0.1, 0.2, 0.5 - 0.25j])}),
            "v0.2_real": variant("0.2", drop=("coeff",), add={"tdh_wfns": np.array([3.0, 0.75])}),
            "v0.2_notdh": variant("0.2"),
            "v0.3": variant("0.3"),
            "v0.4": variant("0.4"),
            "v0.4_nocoeff": variant("0.4", drop=("coeff",)),
            "v0.4_coeff_arr": variant("0.4", add={"coeff": np.array([0.25, 9.0])}),
            "v0.5": variant("0.5"),
            "v_empty": variant(""),
            "v_float": variant(0.4),
            "v_bytes": variant(b"0.4"),
            "v_missing": variant(None),
            "v_noqn": variant("0.4", drop=("qn",)),
            "v0.9_noqn": variant("0.9", drop=("qn",)),
            "v_arr2": variant(np.array(["0.4", "0.4"])),
            "v_arr1": variant(np.array(["0.3"])),
            "no_nsites": variant("0.4", drop=("nsites",)),
            "no_mt1": variant("0.4", drop=("mt_0",)),
        }
        for vname, d in variants.items():
            fname = os.path.join(WORK, f"legacy_{name}_{vname}.npz")
            np.savez(fname, **d)
            import warnings
            with warnings.catch_warnings(record=True) as w:
                warnings.simplefilter("always")
                r = attempt(lambda: Mps.load(model, fname))
            wl = sorted({f"{x.category.__name__}" for x in w})
            if r[0] == "ok":
                m2 = r[1]
                out = mp_state_digest(m2)
                ex = attempt(lambda: np.round(m2.expectation(Mpo(model)), 10))
                show(f"B.{name}.{vname}", [out, ex, pop_logs(), wl])
            else:
                show(f"B.{name}.{vname}", [r, pop_logs(), wl])


# ---------------------------------------------------------------- part C: TdMpsJob.dump_dict
class FakeMps:
    def __init__(self, step):
        self.step = step

    def __str__(self):
        return f"FakeMps({self.step})"

    def dump(self, path):
        TRACE.append(("mps.dump", rel(path)))
        np_savez_orig(path, step=self.step)


class Job(TdMpsJob):
    def __init__(self, **kw):
        self.values = []
        super().__init__(**kw)

    def init_mps(self):
        return FakeMps(0)

    def process_mps(self, mps):
        self.values.append(mps.step * 1.5 + 0.25j)

    def evolve_single_step(self, evolve_dt):
        return FakeMps(self.latest_mps.step + 1)

    def get_dump_dict(self):
        TRACE.append(("get_dump_dict",))
        return {"time series": list(self.evolve_times), "values": np.array(self.values), "a key": "text"}


class BadDictJob(Job):
    def get_dump_dict(self):
        TRACE.append(("get_dump_dict",))
        raise RuntimeError("no dict")


TRACE = []
np_savez_orig = np.savez
os_replace_orig = os.replace
os_remove_orig = os.remove
os_makedirs_orig = os.makedirs
os_rename_orig = os.rename


def rel(p):
    return str(p).replace(WORK, "<WORK>")


class Crash(Exception):
    pass


class Tracer:
    """records the file-system operations and optionally dies at the k-th one"""

    def __init__(self, crash_at=None, mode="before", exc=Crash):
        self.crash_at = crash_at
        self.mode = mode
        self.exc = exc
        self.count = 0

    def _hit(self, opname, path):
        idx = self.count
        self.count += 1
        if self.crash_at is not None and idx == self.crash_at:
            return True
        return False

    def __enter__(self):
        tr = self

        def savez(path, *a, **kw):
            TRACE.append(("savez", rel(path), sorted(kw)))
            if tr._hit("savez", path):
                if tr.mode == "partial":
                    with open(path, "wb") as f:
                        f.write(b"PK\x03\x04 truncated")
                raise tr.exc("savez")
            return np_savez_orig(path, *a, **kw)

        def replace(a, b, **kw):
            TRACE.append(("replace", rel(a), rel(b)))
            if tr._hit("replace", a):
                raise tr.exc("replace")
            return os_replace_orig(a, b, **kw)

        def rename(a, b, **kw):
            TRACE.append(("rename", rel(a), rel(b)))
            if tr._hit("rename", a):
                raise tr.exc("rename")
            return os_rename_orig(a, b, **kw)

        def remove(a, **kw):
            TRACE.append(("remove", rel(a)))
            if tr._hit("remove", a):
                raise tr.exc("remove")
            return os_remove_orig(a, **kw)

        def makedirs(a, *args, **kw):
            TRACE.append(("makedirs", rel(a), args, sorted(kw.items())))
            if tr._hit("makedirs", a):
                raise tr.exc("makedirs")
            return os_makedirs_orig(a, *args, **kw)

        np.savez = savez
        os.replace = replace
        os.rename = rename
        os.remove = remove
        os.makedirs = makedirs
        return self

    def __exit__(self, *exc):
        np.savez = np_savez_orig
        os.replace = os_replace_orig
        os.rename = os_rename_orig
        os.remove = os_remove_orig
        os.makedirs = os_makedirs_orig
        return False


def pop_trace():
    out = list(TRACE)
    TRACE.clear()
    return out


def dir_digest(d):
    if not os.path.exists(d):
        return "<nodir>"
    out = []
    for f in sorted(os.listdir(d)):
        p = os.path.join(d, f)
        try:
            out.append((f, npz_digest(p)))
        except BaseException as e:  # noqa
            with open(p, "rb") as fh:
                out.append((f, "UNLOADABLE", type(e).__name__, hashlib.sha1(fh.read()).hexdigest()[:10]))
    return out


def part_c():
    print("==== PART C: TdMpsJob.dump_dict")
    # no output path
    for kw in [dict(), dict(dump_dir=os.path.join(WORK, "c_nopath")), dict(job_name="j")]:
        job = Job(**kw)
        pop_trace()
        with Tracer():
            r = attempt(job.dump_dict)
        show(f"C.nopath.{sorted(kw)}", [r, pop_trace(), listdir(os.path.join(WORK, "c_nopath"))])

    # plain use, all dump_mps settings and all transient _dump_mps values
    case = 0
    for dump_mps in [None, "all", "one"]:
        for transient in [None, "all", "one", "other", ""]:
            for pre in ["clean", "bak", "tmp", "bak+tmp+old"]:
                case += 1
                d = os.path.join(WORK, f"c_case{case}", "nested")
                job = Job(dump_mps=dump_mps, dump_dir=d, job_name="job")
                if pre != "clean":
                    os.makedirs(d)
                    if "bak" in pre:
                        with open(os.path.join(d, "job.npz.bak"), "wb") as f:
                            np.savez(f, stale=1)
                    if "tmp" in pre:
                        with open(os.path.join(d, "job.npz.tmp.npz"), "wb") as f:
                            f.write(b"garbage")
                    if "old" in pre:
                        np.savez(os.path.join(d, "job.npz"), old=1)
                job.evolve_times.extend([0.5, 1.0])
                job.values.extend([1, 2])
                job._dump_mps = transient
                pop_trace()
                with Tracer():
                    r = attempt(job.dump_dict)
                show(f"C.plain.{dump_mps}.{transient!r}.{pre}", [r, pop_trace(), dir_digest(d), pop_logs()])

    # dump through evolve(): several steps, info_interval
    for dump_mps in [None, "all", "one"]:
        for interval in [1, 2, None]:
            d = os.path.join(WORK, f"c_evolve_{dump_mps}_{interval}")
            job = Job(dump_mps=dump_mps, dump_dir=d, job_name="ev")
            job.info_interval = interval
            pop_trace()
            with Tracer():
                r = attempt(lambda: type(job.evolve(0.5, 3)).__name__)
            show(f"C.evolve.{dump_mps}.{interval}", [r, pop_trace(), dir_digest(d)])
            # restart in the same directory
            job2 = Job(dump_mps=dump_mps, dump_dir=d, job_name="ev")
            with Tracer():
                r = attempt(lambda: type(job2.evolve(0.25, 2)).__name__)
            show(f"C.evolve_restart.{dump_mps}.{interval}", [r, pop_trace(), dir_digest(d)])
    pop_logs()

    # crashes at every file-system operation, in every step
    for exc in [Crash, IOError, KeyboardInterrupt]:
        for mode in ["before", "partial"]:
            for dump_mps in [None, "all", "one"]:
                for k in range(0, 14):
                    d = os.path.join(WORK, f"c_crash_{exc.__name__}_{mode}_{dump_mps}_{k}")
                    os.makedirs(d)
                    with open(os.path.join(d, "cr.npz.bak"), "wb") as f:
                        np.savez(f, stale=1)
                    job = Job(dump_mps=dump_mps, dump_dir=d, job_name="cr")
                    pop_trace()
                    with Tracer(crash_at=k, mode=mode, exc=exc) as t:
                        r = attempt(lambda: type(job.evolve(0.5, 3)).__name__)
                    n_ops = t.count
                    show(f"C.crash.{exc.__name__}.{mode}.{dump_mps}.{k}", [r, n_ops, pop_trace(), dir_digest(d), pop_logs()])
                    if exc is not IOError or r[0] != "ok":
                        # restart into the directory left behind
                        job2 = Job(dump_mps=dump_mps, dump_dir=d, job_name="cr")
                        with Tracer():
                            r2 = attempt(lambda: type(job2.evolve(0.5, 1)).__name__)
                        show(f"C.crash_restart.{exc.__name__}.{mode}.{dump_mps}.{k}", [r2, pop_trace(), dir_digest(d)])
                    pop_logs()

    # get_dump_dict failing: nothing may be created
    d = os.path.join(WORK, "c_baddict")
    job = BadDictJob(dump_mps="all", dump_dir=d, job_name="bd")
    job._dump_mps = "all"
    with Tracer():
        r = attempt(job.dump_dict)
    show("C.baddict", [r, pop_trace(), listdir(d)])

    # latest_mps without dump / job name that is not a plain str
    d = os.path.join(WORK, "c_nodump")
    job = Job(dump_mps="one", dump_dir=d, job_name="nd")
    job._dump_mps = "one"
    job.latest_mps = object()
    with Tracer():
        r = attempt(job.dump_dict)
    show("C.mps_without_dump", [r, pop_trace(), dir_digest(d)])
    for jn in [np.str_("npname"), 5, b"bytes"]:
        d = os.path.join(WORK, f"c_jobname_{type(jn).__name__}")
        job = Job(dump_mps="all", dump_dir=d, job_name="x")
        job.job_name = jn
        job._dump_mps = "all"
        with Tracer():
            r = attempt(job.dump_dict)
        show(f"C.jobname.{type(jn).__name__}", [r, pop_trace(), listdir(d)])
    # evolve_times emptied
    d = os.path.join(WORK, "c_emptytimes")
    job = Job(dump_mps="all", dump_dir=d, job_name="et")
    job.evolve_times = []
    job._dump_mps = "all"
    with Tracer():
        r = attempt(job.dump_dict)
    show("C.empty_times", [r, pop_trace(), dir_digest(d)])


# ---------------------------------------------------------------- part D: tree states
def ttn_digest(t):
    res = [("class", type(t).__name__), ("n", len(t))]
    for i, node in enumerate(t.node_list):
        res.append((i, dig(np.asarray(node.tensor)), dig(np.asarray(node.qn)),
                    None if node.parent is None else t.node_list.index(node.parent),
                    [t.node_list.index(c) for c in node.children]))
    if hasattr(t, "coeff"):
        res.append(("coeff", dig(t.coeff)))
    return res


def part_d():
    print("==== PART D: tree dump / load")
    model = holstein_model
    trees = {
        "linear": BasisTree.linear(model.basis),
        "binary": BasisTree.binary(model.basis),
        "mctdh": BasisTree.binary_mctdh(model.basis),
    }
    for tname, basis in trees.items():
        for kind in ["real", "complex", "cano"]:
            np.random.seed(21)
            ttns = TTNS.random(basis, 1, 5)
            if kind != "real":
                ttns = ttns.to_complex()
                for i, node in enumerate(ttns.node_list):
                    node.tensor = node.tensor * np.exp(0.2j * (i + 1))
                ttns.coeff = 0.5 + 0.5j
            if kind == "cano":
                ttns.canonicalise()
            ttns.extra = np.arange(4.0)
            fname = os.path.join(WORK, f"tree_{tname}_{kind}.npz")
            show(f"D.{tname}.{kind}.dump", [attempt(lambda: ttns.dump(fname, ["extra"])), pop_logs()])
            show(f"D.{tname}.{kind}.npz", npz_digest(fname))
            show(f"D.{tname}.{kind}.orig", ttn_digest(ttns))
            for label, oa in [("default", "DEFAULT"), ("none", None), ("empty", []), ("extra", ["extra"]),
                              ("missing", ["nope"]), ("tuple", ("extra",))]:
                if oa == "DEFAULT":
                    r = attempt(lambda: TTNS.load(basis, fname))
                else:
                    r = attempt(lambda: TTNS.load(basis, fname, oa))
                if r[0] == "ok":
                    t2 = r[1]
                    out = ttn_digest(t2)
                    extra = dig(getattr(t2, "extra", "<unset>"))
                    ttno = TTNO(basis, model.ham_terms)
                    e1 = np.round(ttns.expectation(ttno), 10)
                    e2 = np.round(t2.expectation(ttno), 10)
                    show(f"D.{tname}.{kind}.load.{label}", [out, extra, e1, e2, pop_logs()])
                else:
                    show(f"D.{tname}.{kind}.load.{label}", [r, pop_logs()])
            # base class loader directly
            for label, args in [("base_none", ()), ("base_empty", ([],)), ("base_coeff", (["coeff", "extra"],))]:
                r = attempt(lambda: TTNBase.load.__func__(TTNBase, basis, fname, *args))
                if r[0] == "ok":
                    t3 = r[1]
                    show(f"D.{tname}.{kind}.{label}", [ttn_digest(t3), dig(getattr(t3, "extra", "<unset>"))])
                else:
                    show(f"D.{tname}.{kind}.{label}", r)

    # broken files
    basis = trees["binary"]
    src = os.path.join(WORK, "tree_binary_complex.npz")
    with np.load(src, allow_pickle=True) as z:
        base = {k: z[k] for k in z.files}
    variants = {
        "wrong_version": dict(base, version="0.2"),
        "no_version": {k: v for k, v in base.items() if k != "version"},
        "no_nsites": {k: v for k, v in base.items() if k != "nsites"},
        "no_qn_2": {k: v for k, v in base.items() if k != "qn_2"},
        "no_tensor_0": {k: v for k, v in base.items() if k != "tensor_0"},
        "fewer_sites": dict(base, nsites=3),
        "zero_sites": dict(base, nsites=0),
        "more_sites": dict(base, nsites=len(base) + 5),
        "no_coeff": {k: v for k, v in base.items() if k != "coeff"},
    }
    for vname, d in variants.items():
        fname = os.path.join(WORK, f"tree_broken_{vname}.npz")
        np.savez(fname, **d)
        r = attempt(lambda: ttn_digest(TTNS.load(basis, fname)))
        show(f"D.broken.{vname}", r)
    show("D.nofile", attempt(lambda: TTNS.load(basis, os.path.join(WORK, "does_not_exist.npz")))[:2])


if __name__ == "__main__":
    try:
        states = part_a()
        part_b(states)
        part_c()
        part_d()
    finally:
        shutil.rmtree(WORK, ignore_errors=True)
