# -*- coding: utf-8 -*-
"""Equivalence check for the C14rd refactoring.

Exercises MatrixProduct._array2mt, MatrixProduct.__getitem__, MatrixProduct.dump
(+ the load round trips) and TdMpsJob.dump_dict and prints a deterministic digest.
"""
import hashlib
import logging
import os
import shutil
import sys

import numpy as np

from renormalizer.mps import Mps, Mpo, MpDm
from renormalizer.mps.mp import MatrixProduct
from renormalizer.mps.matrix import Matrix
from renormalizer.mps.backend import backend
from renormalizer.model import Model, HolsteinModel
from renormalizer.model import basis as ba
from renormalizer.model import Op
from renormalizer.utils import CompressConfig, CompressCriteria
from renormalizer.utils.tdmps import TdMpsJob
from renormalizer.tests.parameter import holstein_model

WORK = "/tmp/seed_out/C14rd/work"
if os.path.exists(WORK):
    shutil.rmtree(WORK)
os.makedirs(WORK)


# ----------------------------------------------------------------------------
# helpers
# ----------------------------------------------------------------------------
class ListHandler(logging.Handler):
    def __init__(self):
        super().__init__(level=logging.DEBUG)
        self.records = []

    def emit(self, record):
        exc = record.exc_info[0].__name__ if record.exc_info and record.exc_info[0] else None
        self.records.append((record.name, record.levelname, record.getMessage(), exc))


handler = ListHandler()
for name in ["renormalizer.mps.mp", "renormalizer.utils.tdmps", "renormalizer.mps.mps"]:
    lg = logging.getLogger(name)
    lg.addHandler(handler)
    lg.setLevel(logging.DEBUG)
    lg.propagate = False


def pop_logs(subst=()):
    out = []
    for name, level, msg, exc in handler.records:
        for a, b in subst:
            msg = msg.replace(a, b)
        out.append((name, level, msg, exc))
    handler.records.clear()
    return out


def adigest(a):
    a = np.asarray(a)
    if a.dtype == object:
        return ("obj", a.shape, repr(a.tolist()))
    if a.dtype.kind not in "biufc":
        return (str(a.dtype), a.shape, repr(a.tolist()))
    h =hashlib.md5(np.ascontiguousarray(a).tobytes()).hexdigest()[:12]
    return (str(a.dtype), a.shape, h, np.round(complex(a.sum()), 8) if a.size else 0,
            a.flags.c_contiguous, a.flags.f_contiguous)


def npz_digest(path):
    out = []
    with np.load(path, allow_pickle=True) as f:
        for k in f.files:   # order of the entries in the zip file
            out.append((k, adigest(f[k])))
    return out


def mt_digest(mt, subst=()):
    if mt is None:
        return None
    if isinstance(mt, str):
        s = mt
        for a, b in subst:
            s = s.replace(a, b)
        return ("str", s)
    assert isinstance(mt, Matrix), type(mt)
    return ("Matrix", adigest(mt.array), mt.original_shape, repr(mt.sigmaqn))


def mp_digest(mp):
    d = [type(mp).__name__, str(np.dtype(mp.dtype)), len(mp)]
    d.append([mt_digest(mt) for mt in mp])
    d.append(("qn", repr(np.asarray(mp.qn, dtype=object).tolist()) if not isinstance(mp.qn, list) else repr(mp.qn),
              type(mp.qn).__name__))
    d.append(("qnidx", mp.qnidx, type(mp.qnidx).__name__))
    d.append(("qntot", adigest(mp.qntot)))
    d.append(("to_right", mp.to_right, type(mp.to_right).__name__))
    if hasattr(mp, "coeff"):
        d.append(("coeff", repr(mp.coeff), type(mp.coeff).__name__))
    return d


def call(f, *args, **kwargs):
    try:
        return ("ok", f(*args, **kwargs))
    except BaseException as e:  # noqa
        return ("exc", type(e).__name__, str(e))


def show(tag, obj):
    print(tag, "::", obj)


def listdir(d):
    out = []
    for root, dirs, files in sorted(os.walk(d)):
        dirs.sort()
        for f in sorted(files):
            p = os.path.join(root, f)
            out.append((os.path.relpath(p, d), os.path.getsize(p) > 0))
    return out


# ----------------------------------------------------------------------------
# models
# ----------------------------------------------------------------------------
def two_qn_model():
    basis = []
    for i in range(5):
        if i % 2 == 0:
            sigmaqn = [[0, 0], [1, 0]]
        else:
            sigmaqn = [[0, 0], [0, 1]]
        basis.append(ba.BasisHalfSpin(i, sigmaqn=sigmaqn))
    ham = [Op("sigma_z", i, 0.5 * (i + 1), qn=[[0, 0]]) for i in range(5)]
    return Model(basis, ham)


rng = np.random.RandomState(2024)
np.random.seed(7)

models = [("holstein", holstein_model, 1)]
try:
    models.append(("twoqn", two_qn_model(), [2, 1]))
except Exception as e:  # pragma: no cover - model construction is not under test
    show("twoqn-model-unavailable", (type(e).__name__, str(e)))


# ----------------------------------------------------------------------------
# A. dump / load round trips
# ----------------------------------------------------------------------------
print("=== A. dump / load")
case = 0
for mname, model, nexc in models:
    for cplx in [False, True]:
        for direction in ["none", "left", "right"]:
            np.random.seed(100 + case)
            mps = Mps.random(model, nexc, 5, percent=1.0)
            if cplx:
                mps = mps.to_complex()
                for i in range(len(mps)):
                    arr = mps[i].array
                    mps[i] = arr * np.exp(1j * 0.3 * (i + 1))
                mps.coeff = 0.6 - 0.8j
            else:
                mps.coeff = -1.25
            if direction == "left":
                mps.ensure_left_canonical()
            elif direction == "right":
                mps.ensure_right_canonical()
            fname = os.path.join(WORK, f"mps_{case}.npz")
            r = call(mps.dump, fname)
            show(f"A{case} {mname} c={cplx} dir={direction} dump", r)
            show(f"A{case} files", npz_digest(fname))
            loaded = Mps.load(model, fname)
            show(f"A{case} loaded", mp_digest(loaded))
            show(f"A{case} orig", mp_digest(mps))
            # base-class loader on the same file
            loaded2 = call(lambda: mp_digest(super(Mps, Mps).load.__func__(Mps, model, fname)))
            show(f"A{case} base-load", loaded2)
            # second generation
            fname2 = os.path.join(WORK, f"mps_{case}_b.npz")
            loaded.dump(fname2)
            show(f"A{case} regen-same", npz_digest(fname2) == npz_digest(fname))
            show(f"A{case} logs", pop_logs())
            case += 1

# MatrixProduct.dump with the different kinds of ``other_attrs``
np.random.seed(55)
mps = Mps.random(holstein_model, 1, 4, percent=1.0)
mps.coeff = 2.5
for tag, oa in [("none", None), ("str", "coeff"), ("list", ["coeff"]), ("list2", ["coeff", "dtype"]),
                ("empty", []), ("tuple", ("coeff",)), ("missing", ["no_such_attr"]), ("dup", ["qn"]),
                ("int", 3)]:
    fname = os.path.join(WORK, f"oa_{tag}.npz")
    oa_before = repr(oa)
    r = call(MatrixProduct.dump, mps, fname, oa)
    show(f"A-oa {tag}", (r, repr(oa) == oa_before, npz_digest(fname) if os.path.exists(fname) else None))
    r = call(MatrixProduct.dump, mps, fname, other_attrs=oa)
    show(f"A-oa-kw {tag}", (r, npz_digest(fname) if os.path.exists(fname) else None))
show("A-oa logs", pop_logs())

# file name without extension (np.savez appends .npz), file object, failure -> logged only
r = call(mps.dump, os.path.join(WORK, "noext"))
show("A-noext", (r, listdir(WORK)[-5:]))
with open(os.path.join(WORK, "fobj.npz"), "wb") as fobj:
    r = call(MatrixProduct.dump, mps, fobj)
show("A-fobj", (r, npz_digest(os.path.join(WORK, "fobj.npz"))))
r = call(mps.dump, os.path.join(WORK, "no_such_dir", "x.npz"))
show("A-fail", (r, pop_logs()))

# Mpo / MpDm through the base class dump and load
mpo = Mpo(holstein_model)
fname = os.path.join(WORK, "mpo.npz")
show("A-mpo dump", call(mpo.dump, fname))
show("A-mpo file", npz_digest(fname))
show("A-mpo load", call(lambda: mp_digest(Mpo.load(holstein_model, fname))))
mpdm = MpDm.max_entangled_ex(holstein_model)
fname = os.path.join(WORK, "mpdm.npz")
show("A-mpdm dump", call(mpdm.dump, fname))
show("A-mpdm file", npz_digest(fname))
show("A-mpdm load", call(lambda: mp_digest(MpDm.load(holstein_model, fname))))
# empty matrix product
empty = Mps()
empty.model = holstein_model
fname = os.path.join(WORK, "empty.npz")
show("A-empty dump", call(empty.dump, fname))
show("A-empty file", npz_digest(fname) if os.path.exists(fname) else None)
empty.qn = [[0]]
empty.qnidx = 0
empty.qntot = np.array([0])
empty.to_right = True
show("A-empty2 dump", call(empty.dump, fname))
show("A-empty2 file", npz_digest(fname) if os.path.exists(fname) else None)
show("A-empty2 load", call(lambda: mp_digest(Mps.load(holstein_model, fname))))
show("A logs", pop_logs())


# ----------------------------------------------------------------------------
# B. _array2mt
# ----------------------------------------------------------------------------
print("=== B. _array2mt")


def fresh(model=holstein_model, cplx=False, **cc):
    np.random.seed(11)
    m = Mps.random(model, 1, 4, percent=1.0)
    if cplx:
        m = m.to_complex()
    if cc:
        m.compress_config = CompressConfig(CompressCriteria.fixed, **cc)
    return m


def subst_for(m):
    return [(str(id(m)), "<ID>")]


for cplx in [False, True]:
    m = fresh(cplx=cplx)
    for idx in [0, 1, len(m) - 1, -1]:
        shape = m[idx].shape
        arr = rng.rand(*shape)
        for kind in ["ndarray", "Matrix", "fortran", "noncontig", "complex", "int", "list"]:
            if kind == "ndarray":
                a = arr.copy()
            elif kind == "Matrix":
                a = Matrix(arr.copy())
            elif kind == "fortran":
                a = np.asfortranarray(arr)
            elif kind == "noncontig":
                big = rng.rand(*[2 * s for s in shape])
                a = big[tuple(slice(None, None, 2) for _ in shape)]
            elif kind == "complex":
                a = arr * (1 + 0.5j)
            elif kind == "int":
                a = (arr * 10).astype(int)
            else:
                a = arr.tolist()
            for ad in [True, False]:
                r = call(m._array2mt, a, idx, ad)
                if r[0] == "ok":
                    same = r[1] is a
                    r = ("ok", mt_digest(r[1], subst_for(m)), same)
                show(f"B c={cplx} idx={idx} {kind} allow={ad}", r)
    # default argument
    r = call(m._array2mt, rng.rand(*m[1].shape), 1)
    show(f"B c={cplx} default", ("ok", mt_digest(r[1])) if r[0] == "ok" else r)
    # wrong physical dimension
    bad = rng.rand(m[1].shape[0], m[1].shape[1] + 1, m[1].shape[2])
    show(f"B c={cplx} badpdim", call(m._array2mt, bad, 1))
    show(f"B c={cplx} badpdim kw", call(m._array2mt, array=bad, idx=1, allow_dump=False))
    show(f"B c={cplx} None", call(m._array2mt, None, 1))
    show(f"B c={cplx} bad idx", call(m._array2mt, rng.rand(*m[1].shape), 99))
    show(f"B c={cplx} logs", pop_logs(subst_for(m)))

# matrices go to the disk
for cplx in [False, True]:
    ddir = os.path.join(WORK, f"dump_{int(cplx)}")
    os.makedirs(ddir)
    m = fresh(cplx=cplx, dump_matrix_size=1, dump_matrix_dir=ddir)
    sub = subst_for(m) + [(WORK, "<WORK>")]
    for idx in range(len(m)):
        shape = m._mp[idx].shape if not isinstance(m._mp[idx], str) else None
        show(f"B-disk c={cplx} pre {idx}", mt_digest(m._mp[idx], sub))
    for idx in [0, 2, 1]:
        shape = m[idx].shape
        big = rng.rand(*[2 * s for s in shape])
        for kind, a in [("c", rng.rand(*shape)), ("f", np.asfortranarray(rng.rand(*shape))),
                        ("nc", big[tuple(slice(None, None, 2) for _ in shape)]),
                        ("mat", Matrix(rng.rand(*shape)))]:
            r = call(m._array2mt, a, idx)
            dig = None
            if r[0] == "ok" and isinstance(r[1], str):
                dig = adigest(np.load(r[1]))
                r = ("ok", mt_digest(r[1], sub))
            elif r[0] == "ok":
                r = ("ok", mt_digest(r[1], sub))
            show(f"B-disk c={cplx} idx={idx} {kind}", (r, dig))
            r = call(m._array2mt, a, idx, False)
            show(f"B-disk c={cplx} idx={idx} {kind} nodump", ("ok", mt_digest(r[1], sub)) if r[0] == "ok" else r)
    show(f"B-disk c={cplx} tree", [(p.replace(str(id(m)), "<ID>"), s) for p, s in listdir(ddir)])
    # exactly at the threshold: not dumped (strict inequality)
    nbytes = m[1].array.nbytes
    m.compress_config.dump_matrix_size = nbytes
    r = call(m._array2mt, rng.rand(*m[1].shape), 1)
    show(f"B-disk c={cplx} threshold-eq", type(r[1]).__name__)
    m.compress_config.dump_matrix_size = nbytes - 1
    r = call(m._array2mt, rng.rand(*m[1].shape), 1)
    show(f"B-disk c={cplx} threshold-lt", type(r[1]).__name__)
    show(f"B-disk c={cplx} logs", pop_logs(sub))
    del m

# directory cannot be created -> matrix stays in memory, error is logged
m = fresh(dump_matrix_size=1, dump_matrix_dir=os.path.join(WORK, "does", "not", "exist"))
sub = subst_for(m) + [(WORK, "<WORK>")]
r = call(m._array2mt, rng.rand(*m._mp[1].shape), 1)
show("B-mkdirfail", (("ok", mt_digest(r[1], sub)) if r[0] == "ok" else r, pop_logs(sub)))
# the "directory" is a plain file -> np.save fails -> matrix stays in memory
ddir = os.path.join(WORK, "dump_file")
os.makedirs(ddir)
m2 = fresh()
m2.compress_config = CompressConfig(CompressCriteria.fixed, dump_matrix_size=1, dump_matrix_dir=ddir)
with open(os.path.join(ddir, str(id(m2))), "w") as f:
    f.write("x")
sub = subst_for(m2) + [(WORK, "<WORK>")]
r = call(m2._array2mt, rng.rand(*m2._mp[1].shape), 1)
show("B-savefail", (("ok", mt_digest(r[1], sub)) if r[0] == "ok" else r, pop_logs(sub)))
os.remove(os.path.join(ddir, str(id(m2))))


# ----------------------------------------------------------------------------
# C. __getitem__
# ----------------------------------------------------------------------------
print("=== C. __getitem__")
for cplx in [False, True]:
    m = fresh(cplx=cplx)
    n = len(m)
    for item in [0, 1, n - 1, -1, -n, n, -n - 1, slice(0, 2), slice(None), slice(0, 0), slice(5, 9), "a", None, 1.0,
                 np.int64(1), (0, 1)]:
        r = call(m.__getitem__, item)
        if r[0] == "ok":
            r = ("ok", mt_digest(r[1]), r[1] is m._mp[item])
        show(f"C c={cplx} mem {item!r}", r)
    meta = m.metacopy()
    for item in [0, -1, slice(0, 2), n]:
        show(f"C c={cplx} meta {item!r}", call(meta.__getitem__, item))
    empty_mp = fresh(cplx=cplx)
    empty_mp.build_empty_mp(3)
    for item in [0, -1, slice(0, 2), slice(0, 0), 3]:
        show(f"C c={cplx} build_empty {item!r}", call(empty_mp.__getitem__, item))
    weird = fresh(cplx=cplx)
    weird._mp[1] = 42
    weird._mp[2] = np.zeros((1, 2, 1))
    for item in [1, 2, slice(0, 2)]:
        show(f"C c={cplx} weird {item!r}", call(weird.__getitem__, item))
    show(f"C c={cplx} logs", pop_logs())

    ddir = os.path.join(WORK, f"get_{int(cplx)}")
    os.makedirs(ddir)
    m = fresh(cplx=cplx, dump_matrix_size=1, dump_matrix_dir=ddir)
    sub = subst_for(m) + [(WORK, "<WORK>")]
    ref = [np.array(m[i].array) for i in range(n)]
    for i in range(n):
        m[i] = ref[i] * (i + 2)
    show(f"C-disk c={cplx} raw", [mt_digest(x, sub) for x in m._mp])
    for item in [0, 1, n - 1, -1, n, slice(0, 2), slice(0, 0), slice(None)]:
        r = call(m.__getitem__, item)
        if r[0] == "ok":
            r = ("ok", mt_digest(r[1], sub) if not isinstance(r[1], list) else r[1])
        show(f"C-disk c={cplx} {item!r}", r)
    # two reads give two different objects with equal content
    a, b = m[1], m[1]
    show(f"C-disk c={cplx} fresh objects", (a is b, np.array_equal(a.array, b.array)))
    # mixed: one in memory, rest on disk
    m._mp[0] = Matrix(ref[0], dtype=m.dtype)
    for item in [0, slice(0, 1), slice(0, 2), slice(1, 3)]:
        r = call(m.__getitem__, item)
        if r[0] == "ok":
            r = ("ok", mt_digest(r[1], sub) if not isinstance(r[1], list) else [mt_digest(x, sub) for x in r[1]])
        show(f"C-disk c={cplx} mixed {item!r}", r)
    # iteration / bond dims go through __getitem__
    show(f"C-disk c={cplx} bond_dims", m.bond_dims)
    show(f"C-disk c={cplx} total_bytes", m.total_bytes)
    # corrupted storage
    os.remove(m._mp[1])
    show(f"C-disk c={cplx} missing file", call(m.__getitem__, 1))
    with open(m._mp[2], "wb") as f:
        f.write(b"garbage")
    show(f"C-disk c={cplx} garbage file", call(m.__getitem__, 2))
    # complex data in a real mps -> Matrix() assertion is translated
    if not cplx:
        np.save(m._mp[3], ref[3] * 1j)
        show(f"C-disk c={cplx} complex file", call(m.__getitem__, 3))
    # model too short for the index -> _get_sigmaqn fails inside the try
    m._mp.append(m._mp[0] if isinstance(m._mp[0], str) else m._mp[-1])
    show(f"C-disk c={cplx} sigmaqn fail", call(m.__getitem__, len(m._mp) - 1))
    m._mp.pop()
    show(f"C-disk c={cplx} logs", pop_logs(sub))
    del m, a, b


# ----------------------------------------------------------------------------
# D. TdMpsJob.dump_dict
# ----------------------------------------------------------------------------
print("=== D. dump_dict")
import renormalizer.utils.tdmps as tdmps_mod

TRACE = []
_real = {
    "savez": np.savez, "replace": os.replace, "remove": os.remove, "makedirs": os.makedirs,
    "exists": os.path.exists, "rename": os.rename,
}
FAIL = {}


def _rel(p):
    return str(p).replace(WORK, "<WORK>")


def _wrap(name):
    def f(*args, **kwargs):
        shown = [_rel(a) for a in args if isinstance(a, (str, bytes))]
        TRACE.append((name, shown, sorted(kwargs) if name != "savez" else list(kwargs)))
        if FAIL.get(name):
            exc = FAIL[name]
            raise exc
        return _real[name](*args, **kwargs)
    return f


def install():
    np.savez = _wrap("savez")
    os.replace = _wrap("replace")
    os.remove = _wrap("remove")
    os.makedirs = _wrap("makedirs")
    os.rename = _wrap("rename")
    os.path.exists = _wrap("exists")


def uninstall():
    np.savez = _real["savez"]
    os.replace = _real["replace"]
    os.remove = _real["remove"]
    os.makedirs = _real["makedirs"]
    os.rename = _real["rename"]
    os.path.exists = _real["exists"]


class FakeMps:
    def __init__(self):
        self.dumped = []

    def dump(self, *args, **kwargs):
        TRACE.append(("mps.dump", [_rel(a) for a in args], sorted(kwargs.items())))
        self.dumped.append(args)
        with open(args[0], "w") as f:
            f.write("fake")

    def __str__(self):
        return "fake mps"


class Job(TdMpsJob):
    def __init__(self, mps=None, raise_in_get=None, **kwargs):
        self._mps0 = mps if mps is not None else FakeMps()
        self.raise_in_get = raise_in_get
        self.counter = 0
        super().__init__(**kwargs)

    def init_mps(self):
        return self._mps0

    def process_mps(self, mps):
        self.counter += 1

    def evolve_single_step(self, evolve_dt):
        return self.latest_mps

    def get_dump_dict(self):
        TRACE.append(("get_dump_dict", [], []))
        if self.raise_in_get is not None:
            raise self.raise_in_get
        from collections import OrderedDict
        d = OrderedDict()
        d["z last name first"] = np.arange(3) * self.counter
        d["time series"] = self.evolve_times_array
        d["a"] = "text"
        return d


def run_dump(job, tag):
    TRACE.clear()
    install()
    try:
        r = call(job.dump_dict)
    finally:
        uninstall()
    show(f"D {tag} result", r)
    show(f"D {tag} trace", list(TRACE))
    if job.dump_dir is not None and _real["exists"](job.dump_dir):
        show(f"D {tag} dir", listdir(job.dump_dir))


# output path not defined
for kw in [dict(), dict(dump_dir=os.path.join(WORK, "j0")), dict(job_name="x")]:
    job = Job(**kw)
    run_dump(job, f"undefined {sorted(kw)}")

for mode in [None, "all", "one"]:
    ddir = os.path.join(WORK, f"job_{mode}", "nested")
    job = Job(dump_mps=mode, dump_dir=ddir, job_name="job")
    run_dump(job, f"{mode} first")   # _dump_mps still None
    show(f"D {mode} npz", npz_digest(os.path.join(ddir, "job.npz")))
    for v in [None, "all", "one", "something else", ""]:
        job._dump_mps = v
        job.evolve_times.append(job.evolve_times[-1] + 0.5)
        job.counter += 1
        run_dump(job, f"{mode} _dump_mps={v!r} step{len(job.evolve_times) - 1}")
        show(f"D {mode} {v!r} npz", npz_digest(os.path.join(ddir, "job.npz")))
    # stale files of an earlier crash / earlier version
    with open(os.path.join(ddir, "job.npz.bak"), "w") as f:
        f.write("old backup")
    with open(os.path.join(ddir, "job.npz.tmp.npz"), "w") as f:
        f.write("partial")
    job._dump_mps = "one"
    run_dump(job, f"{mode} stale")
    show(f"D {mode} stale npz", npz_digest(os.path.join(ddir, "job.npz")))
    # failure modes
    job.raise_in_get = RuntimeError("boom in get")
    run_dump(job, f"{mode} get raises")
    job.raise_in_get = None
    with open(os.path.join(ddir, "job.npz.bak"), "w") as f:
        f.write("old backup")
    for name in ["makedirs", "savez", "replace", "remove"]:
        FAIL.clear()
        FAIL[name] = IOError(f"injected {name}")
        run_dump(job, f"{mode} fail {name}")
        FAIL.clear()
    show(f"D {mode} final npz", npz_digest(os.path.join(ddir, "job.npz")))

# whole evolve loop, real mps, info_interval
for mode in [None, "all", "one"]:
    for interval in [1, 2, None]:
        ddir = os.path.join(WORK, f"evolve_{mode}_{interval}")
        np.random.seed(3)
        real_mps = Mps.random(holstein_model, 1, 3, percent=1.0)
        real_mps.coeff = 0.5
        job = Job(mps=real_mps, dump_mps=mode, dump_dir=ddir, job_name="run")
        job.info_interval = interval
        TRACE.clear()
        install()
        try:
            r = call(lambda: job.evolve(0.1, 3) and None)
        finally:
            uninstall()
        show(f"D evolve {mode} {interval} result", r)
        show(f"D evolve {mode} {interval} trace", [t for t in TRACE])
        show(f"D evolve {mode} {interval} dir", listdir(ddir))
        for p, _ in listdir(ddir):
            show(f"D evolve {mode} {interval} {p}", npz_digest(os.path.join(ddir, p)))
        # restart into the same directory
        job2 = Job(mps=real_mps, dump_mps=mode, dump_dir=ddir, job_name="run")
        job2.info_interval = interval
        r = call(lambda: job2.evolve(0.1, 2) and None)
        show(f"D restart {mode} {interval} result", r)
        show(f"D restart {mode} {interval} dir", listdir(ddir))
        show(f"D restart {mode} {interval} run.npz", npz_digest(os.path.join(ddir, "run.npz")))

logs = pop_logs([(WORK, "<WORK>")])
# wall-clock dependent messages are dropped
logs = [l for l in logs if "time cost" not in l[2].lower() and not l[2].startswith("evolve_config:")]
show("D logs", logs)

shutil.rmtree(WORK)
print("done")
