import sys, types
_pt = types.ModuleType("print_tree"); _pt.print_tree = object; sys.modules.setdefault("print_tree", _pt)

import os
import shutil
import tempfile
import hashlib
import logging

import numpy as np

logging.disable(logging.CRITICAL)

from renormalizer import Op, Model, BasisHalfSpin, BasisSHO
from renormalizer.mps import Mps, Mpo, MpDm
from renormalizer.mps.mp import MatrixProduct
from renormalizer.tests.parameter import holstein_model
from renormalizer.utils.tdmps import TdMpsJob
from renormalizer.utils import EvolveConfig
import renormalizer.utils.tdmps as tdmps_mod

TMP = tempfile.mkdtemp(prefix="equiv_C14rf_")
OUT = []


def emit(*args):
    OUT.append(" ".join(str(a) for a in args))


def adig(a):
    a = np.asarray(a)
    if a.dtype == object and a.ndim == 0:
        return "obj0:" + repr(a.item())
    if a.dtype == object:
        return "obj" + repr([adig(x) for x in a.tolist()])
    b = np.ascontiguousarray(a)
    return f"{b.dtype}{b.shape}:{hashlib.md5(b.tobytes()).hexdigest()[:12]}"


def exc(f):
    try:
        return ("ok", f())
    except BaseException as e:  # noqa
        return ("EXC", type(e).__name__, str(e)[:120])


def npz_digest(path):
    z = np.load(path, allow_pickle=True)
    return [(k, adig(z[k])) for k in z.files]


def mp_digest(mp):
    res = [type(mp).__name__, str(mp.dtype), len(mp)]
    res.append([adig(m.array) for m in mp])
    res.append(("qn", type(mp.qn).__name__, sorted(set(type(q).__name__ for q in mp.qn)), [np.asarray(q).tolist() for q in mp.qn]))
    res.append(("qnidx", type(mp.qnidx).__name__, mp.qnidx))
    res.append(("qntot", type(mp.qntot).__name__, adig(mp.qntot)))
    res.append(("to_right", type(mp.to_right).__name__, mp.to_right))
    if hasattr(mp, "coeff"):
        res.append(("coeff", type(mp.coeff).__name__, repr(mp.coeff)))
    res.append(("model", mp.model is not None))
    return res


# ---------------------------------------------------------------- models
def multi_qn_model():
    basis = []
    for i in range(4):
        if i % 2 == 0:
            sigmaqn = np.array([[0, 0], [1, 0]])
        else:
            sigmaqn = np.array([[0, 0], [0, 1]])
        basis.append(BasisHalfSpin(i, sigmaqn=sigmaqn))
    ham = [Op(r"sigma_+ sigma_-", [i, (i + 2) % 4], 0.3, qn=[[1, 0], [-1, 0]] if i % 2 == 0 else [[0, 1], [0, -1]]) for i in range(4)]
    ham += [Op("sigma_z", i, 0.1 * (i + 1), qn=[[0, 0]]) for i in range(4)]
    return Model(basis, ham)


def sho_model():
    basis = [BasisHalfSpin("s"), BasisSHO("v0", 1.0, 3), BasisSHO("v1", 0.5, 2)]
    ham = [Op("sigma_z", "s", 1.0), Op("b^\\dagger b", "v0", 1.0), Op("b^\\dagger b", "v1", 0.5),
           Op("sigma_x x", ["s", "v0"], 0.2)]
    return Model(basis, ham)


# ---------------------------------------------------------------- MP dump / load
def section_mp():
    np.random.seed(2024)
    states = []
    m1 = holstein_model
    s = Mps.random(m1, 1, 6, percent=1.0)
    states.append(("holstein_rand_qn1", m1, s))
    s2 = s.copy().to_complex()
    s2 = s2.scale(0.3 - 0.7j)
    s2.coeff = 0.5 + 0.25j
    states.append(("holstein_cplx", m1, s2))
    s3 = s.copy()
    s3.ensure_left_canonical()
    states.append(("holstein_leftcano", m1, s3))
    s4 = s.copy()
    s4.ensure_right_canonical()
    states.append(("holstein_rightcano", m1, s4))
    s5 = s.copy()
    s5.move_qnidx(3)
    s5.to_right = True
    states.append(("holstein_mid", m1, s5))
    states.append(("holstein_gs", m1, Mps.ground_state(m1, False)))
    m2 = multi_qn_model()
    t = Mps.random(m2, np.array([1, 1]), 5, percent=1.0)
    states.append(("multiqn_rand", m2, t))
    t2 = t.copy().to_complex()
    t2.canonicalise()
    states.append(("multiqn_cplx_cano", m2, t2))
    m3 = sho_model()
    u = Mps.random(m3, 0, 4, percent=1.0)
    states.append(("sho_rand_qn0", m3, u))

    for name, model, st in states:
        fname = os.path.join(TMP, f"mps_{name}.npz")
        r = exc(lambda: st.dump(fname))
        emit("MPS", name, "dump", r[0])
        emit("  file", npz_digest(fname))
        ld = Mps.load(model, fname)
        emit("  loaded", mp_digest(ld))
        emit("  orig  ", mp_digest(st))
        # later operation gives same results
        emit("  norm", round(float(np.real(ld.norm)), 10), round(float(np.real(st.norm)), 10))
        # generic loader on an Mps file
        gen = exc(lambda: mp_digest(MatrixProduct.load(model, fname)))
        emit("  generic", gen)
        # reload of reload
        fname2 = os.path.join(TMP, f"mps_{name}_2.npz")
        ld.dump(fname2)
        emit("  redump", npz_digest(fname2) == npz_digest(fname))

    # MPO / MpDm
    for name, model in [("holstein", m1), ("multiqn", m2), ("sho", m3)]:
        mpo = Mpo(model)
        fname = os.path.join(TMP, f"mpo_{name}.npz")
        mpo.dump(fname)
        emit("MPO", name, npz_digest(fname))
        ld = Mpo.load(model, fname)
        emit("  loaded", mp_digest(ld))
        emit("  orig  ", mp_digest(mpo))
        # dump with other_attrs given as str / list / bad type
        f2 = os.path.join(TMP, f"mpo_{name}_oa.npz")
        emit("  oa-str", exc(lambda: mpo.dump(f2, other_attrs="dtype")), npz_digest(f2))
        emit("  oa-list", exc(lambda: mpo.dump(f2, other_attrs=["dtype", "to_right"])), npz_digest(f2))
        emit("  oa-tuple", exc(lambda: mpo.dump(f2, other_attrs=("dtype",))))
        emit("  oa-missing", exc(lambda: mpo.dump(f2, other_attrs=["no_such_attr"])))
        emit("  Mps.load on mpo file", exc(lambda: mp_digest(Mps.load(model, fname))))
    mpdm = MpDm.max_entangled_ex(m1)
    fname = os.path.join(TMP, "mpdm.npz")
    mpdm.dump(fname)
    emit("MPDM", npz_digest(fname))
    ld = MpDm.load(m1, fname)
    emit("  loaded", mp_digest(ld))
    emit("  orig  ", mp_digest(mpdm))
    mpdm2 = MpDm.max_entangled_gs(m1).to_complex()
    mpdm2.coeff = 1j
    mpdm2.dump(fname)
    ld = MpDm.load(m1, fname)
    emit("  loaded2", mp_digest(ld))
    # dump to a non-writable place: swallowed
    emit("  dump-bad-path", exc(lambda: mpdm.dump(os.path.join(TMP, "no_such_dir", "x.npz"))))
    emit("  load-missing", exc(lambda: Mps.load(m1, os.path.join(TMP, "nonexistent.npz")))[:2])

    # old protocol versions, written by hand from a current dump
    base = dict(np.load(os.path.join(TMP, "mps_holstein_cplx.npz"), allow_pickle=True))
    variants = {}
    v01 = dict(base); v01["version"] = "0.1"; v01["left"] = v01.pop("to_right"); v01.pop("coeff")
    variants["0.1"] = v01
    v01b = dict(v01); v01b["left"] = np.array(True)
    variants["0.1-left-true"] = v01b
    v02 = dict(base); v02["version"] = "0.2"; v02.pop("coeff"); v02["tdh_wfns"] = np.array([0.1, 0.2, 0.75 - 0.5j])
    variants["0.2"] = v02
    v03 = dict(base); v03["version"] = "0.3"
    variants["0.3"] = v03
    v03b = dict(v03); v03b["coeff"] = np.array([2.5, 3.5])
    variants["0.3-coeff-array"] = v03b
    v04nc = dict(base); v04nc.pop("coeff")
    variants["0.4-no-coeff"] = v04nc
    v05 = dict(base); v05["version"] = "0.5"
    variants["0.5-unknown"] = v05
    v05b = dict(base); v05b["version"] = "9"; v05b.pop("to_right")
    variants["unknown-no-to_right"] = v05b
    vnum = dict(base); vnum["version"] = 0.4
    variants["numeric-version"] = vnum
    vnov = dict(base); vnov.pop("version")
    variants["no-version"] = vnov
    vnoqn = dict(base); vnoqn.pop("qn")
    variants["no-qn"] = vnoqn
    vnosub = dict(base); vnosub.pop("subqn_2")
    variants["no-subqn2"] = vnosub
    vnons = dict(base); vnons.pop("nsites")
    variants["no-nsites"] = vnons
    vshort = dict(base); vshort["nsites"] = 3
    variants["nsites-3"] = vshort
    vzero = dict(base); vzero["nsites"] = 0
    variants["nsites-0"] = vzero
    vmix = dict(base); vmix["mt_0"] = np.real(vmix["mt_0"]); vmix["mt_1"] = np.real(vmix["mt_1"])
    variants["mixed-dtype"] = vmix
    vlast_real = dict(base); k = f"mt_{int(base['nsites']) - 1}"; vlast_real[k] = np.real(vlast_real[k])
    variants["last-real"] = vlast_real
    vbadshape = dict(base); vbadshape["mt_1"] = np.zeros((99, 2, 1))
    variants["bad-shape"] = vbadshape
    for vname, d in variants.items():
        f = os.path.join(TMP, "variant.npz")
        np.savez(f, **d)
        emit("VARIANT", vname)
        emit("  Mps.load", exc(lambda: mp_digest(Mps.load(m1, f))))
        emit("  MP.load ", exc(lambda: mp_digest(MatrixProduct.load(m1, f))))
        emit("  Mpo.load", exc(lambda: mp_digest(Mpo.load(m1, f))))
        emit("  MpDm.load", exc(lambda: mp_digest(MpDm.load(m1, f))))

    # variants of an MPO file (generic loader)
    mpo_c = Mpo(m1).to_complex()
    mpo_c.to_right = True
    fbase = os.path.join(TMP, "mpo_c.npz")
    mpo_c.dump(fbase)
    base = dict(np.load(fbase, allow_pickle=True))
    variants = {"plain": dict(base)}
    for key in ["subqn_0", "subqn_3", "qnidx", "qntot", "to_right", "nsites", "mt_2", "version", "qn"]:
        v = dict(base); v.pop(key)
        variants["no-" + key] = v
    v = dict(base); v["nsites"] = np.array(2.0); variants["nsites-float-2"] = v
    v = dict(base); v["nsites"] = 0; variants["nsites-0"] = v
    v = dict(base); v["qntot"] = np.array([1.0]); v["qnidx"] = np.array(3.0); v["to_right"] = np.array(0); variants["float-meta"] = v
    v = dict(base); v["subqn_1"] = np.asarray(v["subqn_1"], dtype=float); variants["float-subqn"] = v
    v = dict(base); v["mt_0"] = np.real(v["mt_0"]); variants["first-real"] = v
    v = dict(base); k = f"mt_{int(base['nsites']) - 1}"; v[k] = np.real(v[k]); variants["last-real"] = v
    for vname, d in variants.items():
        f = os.path.join(TMP, "variant_mpo.npz")
        np.savez(f, **d)
        emit("MPO-VARIANT", vname, exc(lambda: mp_digest(Mpo.load(m1, f))))


# ---------------------------------------------------------------- TdMpsJob.dump_dict
class Job(TdMpsJob):
    def __init__(self, model, **kw):
        self.model = model
        self.n_process = 0
        self.fail_get = False
        super().__init__(**kw)

    def init_mps(self):
        np.random.seed(7)
        return Mps.random(self.model, 1, 4, percent=1.0)

    def process_mps(self, mps):
        self.n_process += 1

    def evolve_single_step(self, dt):
        new = self.latest_mps.copy()
        new.coeff = new.coeff * np.exp(-1j * dt)
        return new

    def get_dump_dict(self):
        if self.fail_get:
            raise RuntimeError("get_dump_dict failed")
        return {"times": self.evolve_times_array, "n": self.n_process, "label": "x"}


class FsTrace:
    """record order of file-system operations done by dump_dict and optionally crash at the k-th"""

    def __init__(self, crash_at=None, crash_exc=KeyboardInterrupt):
        self.log = []
        self.crash_at = crash_at
        self.crash_exc = crash_exc
        self.count = 0

    def _wrap(self, name, fn, partial=None):
        def inner(*a, **kw):
            self.count += 1
            short = [os.path.relpath(x, TMP) if isinstance(x, str) and x.startswith(TMP) else type(x).__name__ for x in a]
            self.log.append((name, short, sorted(kw) if name != "savez" else sorted(kw)))
            if self.crash_at is not None and self.count == self.crash_at:
                if partial is not None:
                    partial(*a, **kw)
                raise self.crash_exc(f"crash in {name}")
            return fn(*a, **kw)
        return inner

    def __enter__(self):
        self.saved = (np.savez, os.replace, os.remove, os.makedirs, os.rename, os.path.exists)

        def partial_savez(path, **kw):
            with open(path, "wb") as f:
                f.write(b"PK\x03\x04 partial")
        np.savez = self._wrap("savez", self.saved[0], partial_savez)
        os.replace = self._wrap("replace", self.saved[1])
        os.remove = self._wrap("remove", self.saved[2])
        os.makedirs = self._wrap("makedirs", self.saved[3])
        os.rename = self._wrap("rename", self.saved[4])
        os.path.exists = self._wrap("exists", self.saved[5])
        return self

    def __exit__(self, *a):
        np.savez, os.replace, os.remove, os.makedirs, os.rename, os.path.exists = self.saved
        return False


def dir_state(d):
    if not os.path.isdir(d):
        return "NODIR"
    res = []
    for fn in sorted(os.listdir(d)):
        p = os.path.join(d, fn)
        try:
            z = np.load(p, allow_pickle=True)
            res.append((fn, "loadable", [(k, adig(z[k])) for k in z.files]))
        except BaseException as e:  # noqa
            res.append((fn, "BROKEN", type(e).__name__, os.path.getsize(p)))
    return res


def section_job():
    model = holstein_model
    emit("JOB bad dump_mps", exc(lambda: Job(model, dump_mps="two"))[:2])
    j = Job(model)
    emit("JOB no path", exc(j.dump_dict))
    j = Job(model, dump_dir=os.path.join(TMP, "x"))
    emit("JOB no name", exc(j.dump_dict), os.path.exists(os.path.join(TMP, "x")))
    j = Job(model, job_name="x")
    emit("JOB no dir", exc(j.dump_dict))

    for dump_mps in [None, "all", "one"]:
        for info_interval in [1, 2, None]:
            d = os.path.join(TMP, f"job_{dump_mps}_{info_interval}", "nested")
            j = Job(model, dump_mps=dump_mps, dump_dir=d, job_name="jb", evolve_config=EvolveConfig())
            j.info_interval = info_interval
            with FsTrace() as tr:
                r = exc(lambda: j.dump_dict())   # direct call before evolve: _dump_mps is None
            emit("JOB", dump_mps, info_interval, "direct", r, tr.log)
            emit("  state", dir_state(d))
            # left-overs of an earlier crash / version
            with open(os.path.join(d, "jb.npz.bak"), "wb") as f:
                f.write(b"old backup")
            with open(os.path.join(d, "jb.npz.tmp.npz"), "wb") as f:
                f.write(b"partial tmp")
            with FsTrace() as tr:
                j.evolve(0.1, 3)
            emit("  evolve log", tr.log)
            emit("  state", dir_state(d))
            emit("  _dump_mps", j._dump_mps, len(j.evolve_times))
            # manual control of the private switch
            for val in ["all", "one", None, "other"]:
                j._dump_mps = val
                with FsTrace() as tr:
                    r = exc(lambda: j.dump_dict())
                emit("  manual", val, r, tr.log)
            emit("  state", dir_state(d))

    # get_dump_dict failing: nothing touched
    d = os.path.join(TMP, "job_failget")
    j = Job(model, dump_mps="all", dump_dir=d, job_name="jb")
    j.fail_get = True
    with FsTrace() as tr:
        r = exc(j.dump_dict)
    emit("JOB failget", r, tr.log, dir_state(d))

    # crash at every instant of the second dump
    for dump_mps in ["one", "all"]:
        for with_bak in [False, True]:
            for crash_at in range(1, 9):
                d = os.path.join(TMP, f"crash_{dump_mps}_{with_bak}_{crash_at}")
                j = Job(model, dump_mps=dump_mps, dump_dir=d, job_name="jb")
                j.evolve(0.1, 1)
                if with_bak:
                    shutil.copy(os.path.join(d, "jb.npz"), os.path.join(d, "jb.npz.bak"))
                j.evolve_times.append(0.2)
                j._dump_mps = dump_mps
                with FsTrace(crash_at=crash_at) as tr:
                    r = exc(j.dump_dict)
                emit("CRASH", dump_mps, with_bak, crash_at, r, tr.log)
                emit("  state", dir_state(d))
                # restart into that directory
                j2 = Job(model, dump_mps=dump_mps, dump_dir=d, job_name="jb")
                with FsTrace() as tr:
                    j2.evolve(0.1, 2)
                emit("  restart log", tr.log)
                emit("  restart state", dir_state(d))
    # IOError inside evolve is swallowed, others are not
    d = os.path.join(TMP, "job_ioerror")
    j = Job(model, dump_mps="one", dump_dir=d, job_name="jb")
    with FsTrace(crash_at=2, crash_exc=IOError) as tr:
        r = exc(lambda: len(j.evolve(0.1, 2).evolve_times))
    emit("JOB ioerror", r, tr.log, dir_state(d))
    j = Job(model, dump_mps="one", dump_dir=d, job_name="jb")
    with FsTrace(crash_at=3, crash_exc=ValueError) as tr:
        r = exc(lambda: len(j.evolve(0.1, 2).evolve_times))
    emit("JOB valueerror", r, tr.log, dir_state(d))


# ---------------------------------------------------------------- tree
def section_tree():
    from renormalizer.tn import BasisTree, TTNO, TTNS
    from renormalizer.tn.tree import TTNBase, from_mps
    from renormalizer.tn.node import TreeNodeBasis

    def tt_digest(t):
        res = [type(t).__name__, len(t)]
        res.append([(adig(n.tensor), adig(n.qn)) for n in t.node_list])
        res.append([t.node_idx[n.parent] if n.parent is not None else -1 for n in t.node_list])
        if hasattr(t, "coeff"):
            res.append(("coeff", type(t.coeff).__name__, getattr(t.coeff, "dtype", None), getattr(t.coeff, "shape", None), repr(t.coeff)))
        return res

    np.random.seed(99)
    m2 = multi_qn_model()
    cases = []
    basis_chain = BasisTree.linear(m2.basis)
    cases.append(("chain_multiqn", basis_chain, TTNS.random(basis_chain, np.array([1, 1]), 4)))
    basis_bin = BasisTree.binary(m2.basis)
    t = TTNS.random(basis_bin, np.array([1, 0]), 3).to_complex()
    t.coeff = 0.3 - 0.2j
    cases.append(("binary_multiqn_cplx", basis_bin, t))
    m1 = holstein_model
    node_list = [TreeNodeBasis([b]) for b in m1.basis]
    root = node_list[2]
    root.add_child(node_list[0]); root.add_child(node_list[3]); root.add_child(node_list[4])
    node_list[0].add_child(node_list[1]); node_list[4].add_child(node_list[5])
    for k in range(6, len(node_list)):
        node_list[k - 1].add_child(node_list[k])
    basis_tree = BasisTree(root)
    t = TTNS.random(basis_tree, 1, 5)
    t.canonicalise()
    cases.append(("tree_holstein", basis_tree, t))
    cases.append(("tree_holstein_hartree", basis_tree, TTNS(basis_tree, {0: 1})))
    basis_one = BasisTree.linear([BasisHalfSpin("s")])
    cases.append(("single_node", basis_one, TTNS(basis_one)))

    for name, basis, st in cases:
        f = os.path.join(TMP, f"ttns_{name}.npz")
        emit("TTNS", name, exc(lambda: st.dump(f)))
        emit("  file", npz_digest(f))
        ld = TTNS.load(basis, f)
        emit("  loaded", tt_digest(ld))
        emit("  orig  ", tt_digest(st))
        emit("  same basis", ld.basis is basis, [a is b for a, b in zip(ld.tn2bn.values(), basis.node_list)] == [True] * len(basis.node_list))
        emit("  norm", exc(lambda: round(float(ld.ttns_norm), 10))[:2], exc(lambda: round(float(st.ttns_norm), 10))[:2])
        # other_attrs variants
        st.extra = np.arange(3)
        f2 = os.path.join(TMP, f"ttns_{name}_oa.npz")
        emit("  dump oa", exc(lambda: st.dump(f2, other_attrs=["extra"])), [k for k, _ in npz_digest(f2)][:6])
        oa = ["extra"]
        ld2 = TTNS.load(basis, f2, other_attrs=oa)
        emit("  load oa", adig(ld2.extra), repr(ld2.coeff), oa)
        emit("  load oa missing", exc(lambda: TTNS.load(basis, f, other_attrs=["extra"]))[:2])
        emit("  dump oa tuple", exc(lambda: st.dump(f2, other_attrs=("extra",)))[:2])
        emit("  load oa tuple", exc(lambda: TTNS.load(basis, f2, other_attrs=("extra",)))[:2])
        emit("  dump oa missing", exc(lambda: st.dump(f2, other_attrs=["nope"]))[:2])
        # base class entry points
        emit("  base load None", exc(lambda: TTNBase.load.__func__(TTNS, basis, f))[:2])
        emit("  base load []", exc(lambda: tt_digest(TTNBase.load.__func__(TTNS, basis, f, []))))
        emit("  base dump", exc(lambda: TTNBase.dump(st, f2)), npz_digest(f2))
        emit("  base dump oa", exc(lambda: TTNBase.dump(st, f2, ["coeff", "extra"])), [k for k, _ in npz_digest(f2)])
        emit("  dump bad path", exc(lambda: st.dump(os.path.join(TMP, "no_such_dir", "x.npz"))))
        # wrong basis
        if name != "single_node":
            emit("  wrong basis", exc(lambda: tt_digest(TTNS.load(basis_one, f)))[:2])
        # bad version
        d = dict(np.load(f, allow_pickle=True))
        d["version"] = "0.2"
        np.savez(f2, **d)
        emit("  bad version", exc(lambda: TTNS.load(basis, f2))[:2])
        d = dict(np.load(f, allow_pickle=True))
        d.pop("qn_0")
        np.savez(f2, **d)
        emit("  no qn_0", exc(lambda: TTNS.load(basis, f2))[:3])
        d = dict(np.load(f, allow_pickle=True))
        d.pop("coeff")
        np.savez(f2, **d)
        emit("  no coeff", exc(lambda: TTNS.load(basis, f2))[:3])

    # TTNO
    ttno = TTNO(basis_chain, m2.ham_terms)
    f = os.path.join(TMP, "ttno.npz")
    emit("TTNO dump", exc(lambda: ttno.dump(f)), npz_digest(f))
    emit("TTNO load None", exc(lambda: TTNO.load(basis_chain, f))[:2])
    emit("TTNO load []", exc(lambda: TTNO.load(basis_chain, f, []))[:2])

    # from_mps chain
    np.random.seed(5)
    mps = Mps.random(m1, 1, 4, percent=1.0)
    basis, ttns, ttno = from_mps(mps)
    f = os.path.join(TMP, "ttns_from_mps.npz")
    ttns.dump(f)
    emit("FROM_MPS", npz_digest(f))
    emit("  loaded", tt_digest(TTNS.load(basis, f)))


try:
    section_mp()
    section_job()
    section_tree()
finally:
    shutil.rmtree(TMP, ignore_errors=True)

text = "\n".join(OUT).replace(TMP, "<TMP>")
print(text)
print("DIGEST", hashlib.md5(text.encode()).hexdigest())
