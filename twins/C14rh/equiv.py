"""Equivalence check for the C14rh refactoring.

Exercises MatrixProduct.dump, MatrixProduct.load, Mps.load and
TdMpsJob.dump_dict and prints a deterministic digest.
"""
import hashlib
import logging
import os
import shutil
import sys
import tempfile

import numpy as np

logging.disable(logging.CRITICAL)

from renormalizer.model import Model, Op
from renormalizer.model.basis import BasisHalfSpin, BasisSHO, BasisSimpleElectron
from renormalizer.mps import Mps, Mpo, MpDm
from renormalizer.mps.mp import MatrixProduct
from renormalizer.mps import mp as mp_module
from renormalizer.mps import mps as mps_module
from renormalizer.tests.parameter import holstein_model
from renormalizer.utils import CompressConfig, CompressCriteria
from renormalizer.utils import tdmps as tdmps_module
from renormalizer.utils.tdmps import TdMpsJob

logging.disable(logging.NOTSET)
for name in ("renormalizer",):
    logging.getLogger(name).handlers = []
    logging.getLogger(name).propagate = False
    logging.getLogger(name).setLevel(logging.DEBUG)


class ListHandler(logging.Handler):
    def __init__(self):
        super().__init__()
        self.records = []

    def emit(self, record):
        self.records.append((record.levelname, record.getMessage(), record.exc_info is not None))


LOG = ListHandler()
logging.getLogger("renormalizer").addHandler(LOG)

TMP = tempfile.mkdtemp(prefix="equiv_C14rh_")


def out(*args):
    print(*args)


def take_logs():
    recs = [(lv, msg.replace(TMP, "<TMP>"), exc) for lv, msg, exc in LOG.records
            if lv in ("WARNING", "ERROR", "CRITICAL")]
    LOG.records.clear()
    return recs


def arr_digest(a):
    a = np.asarray(a)
    if a.dtype == object:
        return ("obj", a.shape, repr([np.asarray(x).tolist() for x in a.ravel()]))
    if a.dtype.kind in "US":
        return (str(a.dtype), a.shape, a.tolist())
    h = hashlib.sha256(np.ascontiguousarray(a).tobytes()).hexdigest()[:16]
    return (str(a.dtype), a.shape, h, complex(np.round(np.sum(a), 10)))


def npz_digest(path):
    with np.load(path, allow_pickle=True) as f:
        out("  files:", list(f.files))
        for k in f.files:
            out("   ", k, arr_digest(f[k]))


def qn_digest(qn):
    return (type(qn).__name__,
            [(type(q).__name__, np.asarray(q).tolist()) for q in qn])


def mp_digest(mp):
    out("  class:", type(mp).__name__, "dtype:", np.dtype(mp.dtype).name, "nsites:", len(mp))
    for i in range(len(mp)):
        mt = mp[i]
        out("   mt", i, type(mt).__name__, arr_digest(mt.array), "sigmaqn", np.asarray(mt.sigmaqn).tolist())
    out("  qn:", qn_digest(mp.qn))
    out("  qnidx:", type(mp.qnidx).__name__, mp.qnidx)
    out("  qntot:", type(mp.qntot).__name__, arr_digest(mp.qntot))
    out("  to_right:", type(mp.to_right).__name__, mp.to_right)
    if hasattr(mp, "coeff"):
        c = mp.coeff
        out("  coeff:", type(c).__name__, np.asarray(c).dtype.name, complex(np.round(c, 12)))
    out("  model is:", mp.model is not None)


def attempt(label, func):
    try:
        res = func()
        out(label, "-> ok")
        return res
    except BaseException as e:  # noqa
        out(label, "-> raised", type(e).__name__, str(e).replace(TMP, "<TMP>")[:200])
        return None
    finally:
        logs = take_logs()
        if logs:
            out("  logs:", logs)


# ---------------------------------------------------------------- models
def multi_qn_model(n=4):
    basis = []
    for i in range(n):
        if i % 2 == 0:
            basis.append(BasisHalfSpin(f"s{i}", sigmaqn=[[0, 0], [1, 0]]))
        else:
            basis.append(BasisHalfSpin(f"s{i}", sigmaqn=[[0, 0], [0, 1]]))
    ham = [Op("sigma_z", f"s{i}", 0.3 + 0.1 * i) for i in range(n)]
    ham += [Op("sigma_+ sigma_-", [f"s{i}", f"s{i + 2}"], 0.2) for i in range(n - 2)]
    ham += [Op("sigma_- sigma_+", [f"s{i}", f"s{i + 2}"], 0.2) for i in range(n - 2)]
    return Model(basis, ham)


def one_site_model():
    return Model([BasisSHO("v", 1.0, 3)], [Op(r"b^\dagger b", "v", 1.0)])


def states():
    np.random.seed(2024)
    res = []
    m = holstein_model
    s = Mps.random(m, 1, 5, percent=1.0)
    res.append(("holstein real qn1", m, s))

    s = Mps.random(m, 1, 6, percent=1.0).to_complex()
    for i in range(len(s)):
        arr = s[i].array
        s[i] = arr * np.exp(0.3j * (i + 1))
    s.coeff = 0.5 - 0.25j
    res.append(("holstein complex coeff", m, s))

    s = Mps.random(m, 1, 4, percent=1.0)
    s.ensure_left_canonical()
    res.append(("holstein left canonical", m, s))

    s = Mps.random(m, 1, 4, percent=1.0)
    s.ensure_right_canonical()
    res.append(("holstein right canonical", m, s))

    s = Mps.random(m, 0, 3, percent=1.0)
    s.coeff = -2.0
    res.append(("holstein qn0", m, s))

    s = Mps.ground_state(m, max_entangled=False)
    res.append(("holstein gs", m, s))

    m2 = multi_qn_model()
    s = Mps.random(m2, np.array([1, 1]), 4, percent=1.0)
    res.append(("two qn real", m2, s))
    s = Mps.random(m2, np.array([1, 1]), 4, percent=1.0).to_complex()
    s[0] = s[0].array * (1 + 1j)
    s.coeff = 1j
    s.ensure_right_canonical()
    res.append(("two qn complex right canonical", m2, s))

    m1 = one_site_model()
    s = Mps.random(m1, 0, 2, percent=1.0)
    res.append(("one site", m1, s))
    return res


# ---------------------------------------------------------------- dump / load
def section_dump_load():
    out("== MatrixProduct.dump / Mps.load round trips")
    for idx, (label, model, s) in enumerate(states()):
        out("--", label)
        path = os.path.join(TMP, f"state_{idx}.npz")
        attempt("Mps.dump", lambda: s.dump(path))
        npz_digest(path)
        loaded = attempt("Mps.load", lambda: Mps.load(model, path))
        mp_digest(loaded)
        # later operations agree
        out("  norm:", np.round(loaded.mp_norm, 10), np.round(s.mp_norm, 10))
        if len(loaded) > 1:
            mpo = Mpo(model)
            out("  expectation:", np.round(loaded.expectation(mpo), 9), np.round(s.expectation(mpo), 9))
        # second generation dump is the same
        path2 = os.path.join(TMP, f"state_{idx}_b.npz")
        loaded.dump(path2)
        npz_digest(path2)
        # generic loader on an Mps file (class that has the generic loader: Mpo; here raw MatrixProduct.load
        # bound to Mps, i.e. what a subclass without its own loader would run)
        generic = attempt("MatrixProduct.load as Mps",
                          lambda: MatrixProduct.load.__func__(Mps, model, path))
        if generic is not None:
            mp_digest(generic)

    out("== MpDm round trip")
    dm = MpDm.max_entangled_ex(holstein_model)
    dm.coeff = 0.7 + 0.1j
    path = os.path.join(TMP, "mpdm.npz")
    attempt("MpDm.dump", lambda: dm.dump(path))
    npz_digest(path)
    loaded = attempt("MpDm.load", lambda: MpDm.load(holstein_model, path))
    mp_digest(loaded)

    out("== Mpo round trips (MatrixProduct.load)")
    np.random.seed(7)
    for label, model, kwargs in [
        ("holstein H", holstein_model, {}),
        ("holstein onsite", holstein_model, None),
        ("two qn H", multi_qn_model(), {}),
        ("one site H", one_site_model(), {}),
    ]:
        out("--", label)
        if kwargs is None:
            mpo = Mpo.onsite(model, r"a^\dagger", dof_set={1})
        else:
            mpo = Mpo(model)
        for other_attrs in (None, "dtype", ["dtype", "compress_config"], []):
            path = os.path.join(TMP, "mpo.npz")
            if os.path.exists(path):
                os.remove(path)
            attempt(f"Mpo.dump other_attrs={other_attrs!r}", lambda: mpo.dump(path, other_attrs))
            with np.load(path, allow_pickle=True) as f:
                out("  files:", list(f.files))
        npz_digest(path)
        loaded = attempt("Mpo.load", lambda: Mpo.load(model, path))
        mp_digest(loaded)
        cmpo = mpo.to_complex()
        cmpo[0] = cmpo[0].array * 1j
        attempt("Mpo.dump complex", lambda: cmpo.dump(path))
        loaded = attempt("Mpo.load complex", lambda: Mpo.load(model, path))
        mp_digest(loaded)

    out("== dump argument handling / failures")
    mpo = Mpo(holstein_model)
    path = os.path.join(TMP, "bad.npz")
    attempt("dump tuple attrs", lambda: mpo.dump(path, ("dtype",)))
    out("  exists:", os.path.exists(path))
    attempt("dump missing attr", lambda: mpo.dump(path, ["no_such_attr"]))
    out("  exists:", os.path.exists(path))
    attempt("dump missing attr str", lambda: mpo.dump(path, "no_such_attr"))
    attempt("dump dict attrs", lambda: mpo.dump(path, {"dtype": 1}))
    attempt("dump duplicate attr", lambda: mpo.dump(path, ["qn", "qnidx"]))
    with np.load(path, allow_pickle=True) as f:
        out("  files:", list(f.files))
    attempt("dump into missing dir", lambda: mpo.dump(os.path.join(TMP, "nodir", "x.npz")))
    out("  exists:", os.path.exists(os.path.join(TMP, "nodir")))
    empty = Mpo()
    attempt("dump empty mp", lambda: empty.dump(os.path.join(TMP, "empty.npz")))
    out("  exists:", os.path.exists(os.path.join(TMP, "empty.npz")))
    empty.qn = [[[0]]]
    empty.qntot = np.array([0])
    empty.qnidx = 0
    empty.to_right = True
    attempt("dump zero site mp", lambda: empty.dump(os.path.join(TMP, "empty.npz")))
    npz_digest(os.path.join(TMP, "empty.npz"))
    loaded = attempt("load zero site mp", lambda: Mpo.load(holstein_model, os.path.join(TMP, "empty.npz")))
    mp_digest(loaded)
    attempt("Mps.load zero site (no coeff)", lambda: Mps.load(holstein_model, os.path.join(TMP, "empty.npz")))
    short = Mpo(holstein_model)
    short.qn = short.qn[:-1]
    attempt("dump with short qn", lambda: short.dump(os.path.join(TMP, "short.npz")))
    out("  exists:", os.path.exists(os.path.join(TMP, "short.npz")))

    out("== matrices stored on disk")
    np.random.seed(11)
    s = Mps.random(holstein_model, 1, 4, percent=1.0)
    dump_dir = os.path.join(TMP, "matrix_dump")
    os.makedirs(dump_dir)
    s.compress_config = CompressConfig(CompressCriteria.fixed, dump_matrix_size=1, dump_matrix_dir=dump_dir)
    s2 = s.copy()
    for i in range(len(s2)):
        s2[i] = s[i].array
    out("  stored as str:", [isinstance(m, str) for m in s2._mp])
    path = os.path.join(TMP, "ondisk.npz")
    attempt("dump on-disk mps", lambda: s2.dump(path))
    npz_digest(path)
    mp_digest(Mps.load(holstein_model, path))


# ---------------------------------------------------------------- old protocol versions
def section_versions():
    out("== Mps.load protocol versions")
    np.random.seed(99)
    model = holstein_model
    s = Mps.random(model, 1, 4, percent=1.0).to_complex()
    s[1] = s[1].array * (0.5 + 0.5j)
    s.coeff = 0.3 + 0.4j
    s.ensure_left_canonical()
    qn = np.empty(len(s.qn), object)
    qn[:] = s.qn
    base = {"nsites": len(s)}
    for i, mt in enumerate(s):
        base[f"mt_{i}"] = mt.array
    base.update(qnidx=s.qnidx, qntot=s.qntot, qn=qn)

    def write(name, **extra):
        d = dict(base)
        d.update(extra)
        path = os.path.join(TMP, name)
        np.savez(path, **d)
        return path

    cases = [
        ("v0.1", write("v01.npz", version="0.1", left=False)),
        ("v0.1 left True", write("v01b.npz", version="0.1", left=True, to_right=False)),
        ("v0.1 without left", write("v01c.npz", version="0.1", to_right=True)),
        ("v0.2", write("v02.npz", version="0.2", to_right=True, tdh_wfns=np.array([0.1, 0.2, 0.9 - 0.1j]))),
        ("v0.2 without tdh", write("v02b.npz", version="0.2", to_right=True)),
        ("v0.2 without to_right", write("v02c.npz", version="0.2", tdh_wfns=np.array([2.0]))),
        ("v0.3", write("v03.npz", version="0.3", to_right=False, coeff=0.25)),
        ("v0.3 array coeff", write("v03b.npz", version="0.3", to_right=1, coeff=np.array([1.5j, 2.0]))),
        ("v0.4", write("v04.npz", version="0.4", to_right=True, coeff=s.coeff)),
        ("v0.4 without coeff", write("v04b.npz", version="0.4", to_right=True)),
        ("v0.5 unknown", write("v05.npz", version="0.5", to_right=True, coeff=1.0)),
        ("v int 4", write("vint.npz", version=4, to_right=True, coeff=1.0)),
        ("version list", write("vlist.npz", version=np.array(["0.4", "0.4"]), to_right=True, coeff=1.0)),
        ("version one-element", write("vone.npz", version=np.array(["0.3"]), to_right=True, coeff=1.0)),
        ("no version", write("vnone.npz", to_right=True, coeff=1.0)),
        ("no qn", os.path.join(TMP, "noqn.npz")),
        ("no nsites", os.path.join(TMP, "nonsites.npz")),
        ("missing matrix", os.path.join(TMP, "nomt.npz")),
        ("missing file", os.path.join(TMP, "does_not_exist.npz")),
    ]
    d = dict(base, version="0.4", to_right=True, coeff=1.0)
    d.pop("qn")
    np.savez(os.path.join(TMP, "noqn.npz"), **d)
    d = dict(base, version="0.4", to_right=True, coeff=1.0)
    d.pop("nsites")
    np.savez(os.path.join(TMP, "nonsites.npz"), **d)
    d = dict(base, version="0.4", to_right=True, coeff=1.0)
    d.pop("mt_2")
    np.savez(os.path.join(TMP, "nomt.npz"), **d)

    for label, path in cases:
        out("--", label)
        for cls in (Mps, MpDm) if label in ("v0.4", "missing file") else (Mps,):
            loaded = attempt(f"{cls.__name__}.load", lambda: cls.load(model, path))
            if loaded is not None:
                mp_digest(loaded)
        generic = attempt("MatrixProduct.load", lambda: MatrixProduct.load.__func__(Mps, model, path))
        if generic is not None:
            mp_digest(generic)

    out("-- wrong physical dimension")
    path = write("v04dim.npz", version="0.4", to_right=True, coeff=1.0)
    attempt("Mps.load wrong model", lambda: Mps.load(multi_qn_model(), path))
    attempt("Mpo.load wrong model", lambda: Mpo.load(multi_qn_model(), path))

    out("-- subqn files for MatrixProduct.load")
    mpo = Mpo(model)
    d = {"version": "0.4", "nsites": len(mpo)}
    for i, mt in enumerate(mpo):
        d[f"mt_{i}"] = mt.array
    for i, q in enumerate(mpo.qn):
        d[f"subqn_{i}"] = np.asarray(q, dtype=float)
    d.update(qnidx=np.float64(2.0), qntot=np.array([0.0]), to_right=np.array(0))
    np.savez(os.path.join(TMP, "sub.npz"), **d)
    loaded = attempt("Mpo.load float qn", lambda: Mpo.load(model, os.path.join(TMP, "sub.npz")))
    mp_digest(loaded)
    d.pop(f"subqn_{len(mpo)}")
    np.savez(os.path.join(TMP, "sub2.npz"), **d)
    attempt("Mpo.load missing last subqn", lambda: Mpo.load(model, os.path.join(TMP, "sub2.npz")))
    d["nsites"] = -1
    np.savez(os.path.join(TMP, "sub3.npz"), **d)
    loaded = attempt("Mpo.load nsites -1", lambda: Mpo.load(model, os.path.join(TMP, "sub3.npz")))
    if loaded is not None:
        mp_digest(loaded)
    d["nsites"] = 0
    np.savez(os.path.join(TMP, "sub4.npz"), **d)
    loaded = attempt("Mpo.load nsites 0", lambda: Mpo.load(model, os.path.join(TMP, "sub4.npz")))
    if loaded is not None:
        mp_digest(loaded)


# ---------------------------------------------------------------- TdMpsJob.dump_dict
class FakeMps:
    def __init__(self, trace):
        self.trace = trace
        self.fail = None

    def __str__(self):
        return "fake"

    def dump(self, path):
        self.trace.append(("mps.dump", path.replace(TMP, "<TMP>")))
        if self.fail is not None:
            raise self.fail
        with open(path, "wb") as f:
            f.write(b"mps")


class Job(TdMpsJob):
    def __init__(self, trace, **kwargs):
        self.trace = trace
        self.payload = {"time series": [0], "x": np.arange(3)}
        super().__init__(**kwargs)

    def init_mps(self):
        return FakeMps(self.trace)

    def process_mps(self, mps):
        pass

    def evolve_single_step(self, evolve_dt):
        return FakeMps(self.trace)

    def get_dump_dict(self):
        self.trace.append(("get_dump_dict",))
        if isinstance(self.payload, BaseException):
            raise self.payload
        return self.payload


class Tracer:
    """Record the order of the file-system operations and optionally fail at the n-th one."""

    NAMES = [
        (os, "makedirs"), (os, "replace"), (os, "remove"), (os, "rename"), (os, "unlink"),
        (os.path, "exists"), (os.path, "isfile"), (np, "savez"), (np, "savez_compressed"), (shutil, "copy"),
        (shutil, "move"), (shutil, "copyfile"),
    ]

    def __init__(self, trace, fail_at=None, fail_exc=IOError, partial=False):
        self.trace = trace
        self.fail_at = fail_at
        self.fail_exc = fail_exc
        self.partial = partial
        self.count = 0
        self.saved = []

    def _wrap(self, mod, name):
        orig = getattr(mod, name)

        def wrapper(*args, **kwargs):
            shown = [a.replace(TMP, "<TMP>") if isinstance(a, str) else type(a).__name__ for a in args]
            shown_kw = {k: (v if isinstance(v, (bool, int, str)) else type(v).__name__) for k, v in kwargs.items()}
            if name.startswith("savez"):
                shown_kw = sorted(shown_kw)
            self.trace.append((f"{mod.__name__}.{name}", shown, shown_kw))
            self.count += 1
            if self.fail_at is not None and self.count == self.fail_at:
                if self.partial and name.startswith("savez"):
                    with open(args[0], "wb") as f:
                        f.write(b"PK\x03\x04 truncated")
                raise self.fail_exc(f"simulated crash in {name}")
            return orig(*args, **kwargs)

        return orig, wrapper

    def __enter__(self):
        for mod, name in self.NAMES:
            orig, wrapper = self._wrap(mod, name)
            self.saved.append((mod, name, orig))
            setattr(mod, name, wrapper)
        return self

    def __exit__(self, *exc):
        for mod, name, orig in self.saved:
            setattr(mod, name, orig)
        return False


def listing(d):
    res = []
    if not os.path.exists(d):
        return "<absent>"
    for root, dirs, files in sorted(os.walk(d)):
        for f in sorted(files):
            p = os.path.join(root, f)
            with open(p, "rb") as fh:
                content = fh.read()
            kind = "npz" if content[:2] == b"PK" and len(content) > 30 else repr(content[:20])
            extra = ""
            if kind == "npz":
                try:
                    with np.load(p, allow_pickle=True) as z:
                        extra = {k: np.asarray(z[k]).tolist() for k in z.files}
                except Exception as e:  # noqa
                    extra = "unloadable " + type(e).__name__
            res.append((os.path.relpath(p, d), kind, extra))
    return res


def section_dump_dict():
    out("== TdMpsJob.dump_dict")
    counter = [0]

    def fresh_dir(nested=False):
        counter[0] += 1
        d = os.path.join(TMP, f"job_{counter[0]}")
        if nested:
            d = os.path.join(d, "a", "b")
        return d

    def run(label, job, trace, fail_at=None, fail_exc=IOError, partial=False):
        del trace[:]
        with Tracer(trace, fail_at, fail_exc, partial):
            try:
                res = job.dump_dict()
                out(label, "-> returned", res)
            except BaseException as e:  # noqa
                out(label, "-> raised", type(e).__name__, str(e).replace(TMP, "<TMP>"))
        for t in trace:
            out("    ", t)
        logs = take_logs()
        if logs:
            out("   logs:", logs)
        if job.dump_dir is not None:
            out("   dir:", listing(job.dump_dir))

    # output path not defined
    for kwargs in ({}, {"dump_dir": fresh_dir()}, {"job_name": "j"}):
        trace = []
        job = Job(trace, **kwargs)
        shown = {k: v.replace(TMP, "<TMP>") for k, v in kwargs.items()}
        run(f"undefined path {shown}", job, trace)

    attempt("bad dump_mps", lambda: Job([], dump_mps="every"))

    for dump_mps in (None, "all", "one"):
        for nested in (False, True):
            trace = []
            job = Job(trace, dump_mps=dump_mps, dump_dir=fresh_dir(nested), job_name="job")
            out("-- dump_mps", dump_mps, "nested", nested)
            run("step0 (_dump_mps None)", job, trace)
            job._dump_mps = job.dump_mps
            job.evolve_times.append(0.1)
            job.payload = {"time series": [0, 0.1], "x": np.arange(4)}
            run("step1", job, trace)
            job.evolve_times.append(0.2)
            job.payload = {"time series": [0, 0.1, 0.2], "x": np.arange(5)}
            # stale backup and stale temporary file of an earlier crash
            with open(os.path.join(job.dump_dir, "job.npz.bak"), "wb") as f:
                f.write(b"old backup")
            with open(os.path.join(job.dump_dir, "job.npz.tmp.npz"), "wb") as f:
                f.write(b"half written")
            run("step2 (stale bak + tmp)", job, trace)
            job._dump_mps = None
            run("step2 again, no mps", job, trace)

    out("-- unusual _dump_mps values")
    for val in ("one", "all", "ALL", "", 0, False, "every"):
        trace = []
        job = Job(trace, dump_mps=None, dump_dir=fresh_dir(), job_name="weird.name")
        job._dump_mps = val
        job.evolve_times = [0, 1, 2, 3]
        run(f"_dump_mps={val!r}", job, trace)
    trace = []
    job = Job(trace, dump_mps="all", dump_dir=fresh_dir(), job_name="e")
    job._dump_mps = "all"
    job.evolve_times = []
    run("empty evolve_times", job, trace)
    job.evolve_times = None
    run("evolve_times None", job, trace)
    job._dump_mps = "one"
    run("evolve_times None, one", job, trace)
    job.latest_mps = None
    run("latest_mps None", job, trace)
    job._dump_mps = "all"
    run("latest_mps None and evolve_times None, all", job, trace)
    job.job_name = 5
    run("job_name int", job, trace)

    out("-- failures inside")
    trace = []
    job = Job(trace, dump_mps="one", dump_dir=fresh_dir(), job_name="f")
    job._dump_mps = "one"
    job.payload = RuntimeError("props failed")
    run("get_dump_dict raises", job, trace)
    job.payload = {"time series": [0]}
    job.latest_mps.fail = IOError("disk full")
    run("mps dump raises", job, trace)
    job.latest_mps.fail = None
    job.payload = {"bad/key": 1, "file": 2}
    run("payload with odd keys", job, trace)
    job.payload = {}
    run("empty payload", job, trace)

    out("-- crash at every file-system call")
    for dump_mps in ("one", "all", None):
        for with_bak in (False, True):
            for partial in (False, True):
                for fail_exc in (IOError, KeyboardInterrupt):
                    for fail_at in range(1, 9):
                        trace = []
                        d = fresh_dir()
                        job = Job(trace, dump_mps=dump_mps, dump_dir=d, job_name="c")
                        job._dump_mps = dump_mps
                        job.dump_dict()  # previous step, complete
                        if with_bak:
                            with open(os.path.join(d, "c.npz.bak"), "wb") as f:
                                f.write(b"old backup")
                        job.evolve_times.append(1.0)
                        job.payload = {"time series": [0, 1.0], "x": np.arange(2)}
                        run(f"crash mps={dump_mps} bak={with_bak} partial={partial} "
                            f"{fail_exc.__name__} at={fail_at}", job, trace, fail_at, fail_exc, partial)
                        # restart into the same directory
                        trace2 = []
                        job2 = Job(trace2, dump_mps=dump_mps, dump_dir=d, job_name="c")
                        job2._dump_mps = dump_mps
                        run("   restart", job2, trace2)

    out("-- through evolve()")
    trace = []
    job = Job(trace, dump_mps="all", dump_dir=fresh_dir(), job_name="ev")
    job.info_interval = 2
    del trace[:]
    with Tracer(trace):
        job.evolve(0.5, 4)
    for t in trace:
        out("    ", t)
    out("   dir:", listing(job.dump_dir))
    trace = []
    job = Job(trace, dump_mps="one", dump_dir=fresh_dir(), job_name="ev")
    with Tracer(trace, fail_at=3):
        job.evolve(0.5, 2)
    for t in trace:
        out("    ", t)
    out("   logs:", [(lv, m) for lv, m, _ in take_logs()])
    out("   dir:", listing(job.dump_dir))


def main():
    try:
        section_dump_load()
        section_versions()
        section_dump_dict()
    finally:
        shutil.rmtree(TMP, ignore_errors=True)


if __name__ == "__main__":
    main()
