# -*- coding: utf-8 -*-
"""Equivalence check for the C14rj refactoring.

Exercises TdMpsJob.evolve, TdMpsJob.dump_dict, TTNBase.dump and TTNBase.load
(through TTNBase itself and through TTNS) and prints a deterministic digest.
"""
import hashlib
import io
import logging
import os
import re
import shutil
import sys
import tempfile
import zipfile

OUT_DIR = os.path.dirname(os.path.abspath(__file__))
sys.path.insert(0, OUT_DIR)  # stub module ``print_tree`` lives here

import numpy as np

from renormalizer.utils.tdmps import TdMpsJob
import renormalizer.utils.tdmps as tdmps_module
from renormalizer.model import basis as ba
from renormalizer.tn import BasisTree, TTNS
from renormalizer.tn.node import TreeNodeBasis
from renormalizer.tn.tree import TTNBase
import renormalizer.tn.tree as tree_module


# ----------------------------------------------------------------------------
# helpers
# ----------------------------------------------------------------------------
class ListHandler(logging.Handler):
    def __init__(self):
        super().__init__(level=logging.DEBUG)
        self.records = []

    def emit(self, record):
        msg = record.getMessage()
        # wall-clock durations are not deterministic
        msg = re.sub(r"\d+:\d\d:\d\d(\.\d+)?", "<T>", msg)
        msg = re.sub(r"0x[0-9a-f]+", "<ADDR>", msg)
        exc = ""
        if record.exc_info:
            exc = " !" + record.exc_info[0].__name__
        self.records.append(f"{record.levelname}:{msg}{exc}")


def capture(logger):
    handler = ListHandler()
    logger.addHandler(handler)
    old_level, old_prop = logger.level, logger.propagate
    logger.setLevel(logging.DEBUG)
    logger.propagate = False
    return handler, (old_level, old_prop)


def release(logger, handler, state):
    logger.removeHandler(handler)
    logger.setLevel(state[0])
    logger.propagate = state[1]


def arr_digest(a):
    a = np.asarray(a)
    if a.dtype == object:
        return "obj" + repr([arr_digest(x) for x in a.tolist()])
    h = hashlib.sha1(np.ascontiguousarray(a).tobytes()).hexdigest()[:12]
    return f"{a.dtype}{a.shape}{h}"


def npz_digest(path):
    """member order of the archive and the content of every member"""
    with zipfile.ZipFile(path) as zf:
        names = zf.namelist()
    data = np.load(path, allow_pickle=True)
    return [(n, arr_digest(data[n[:-4]])) for n in names]


def dir_digest(d, rel=""):
    if not os.path.exists(d):
        return "<no dir>"
    res = []
    for name in sorted(os.listdir(d)):
        p = os.path.join(d, name)
        if os.path.isdir(p):
            res.append((name, dir_digest(p)))
        elif name.endswith(".npz"):
            try:
                res.append((name, npz_digest(p)))
            except Exception as e:  # not a valid archive
                res.append((name, "raw", open(p, "rb").read()[:40]))
        else:
            res.append((name, "raw", open(p, "rb").read()[:40]))
    return res


def show(title, obj):
    print(f"== {title}")
    if isinstance(obj, list):
        for o in obj:
            print("   ", o)
    else:
        print("   ", obj)


# ----------------------------------------------------------------------------
# part 1: TdMpsJob.evolve / TdMpsJob.dump_dict
# ----------------------------------------------------------------------------
class FakeMps:
    def __init__(self, step, val):
        self.step = step
        self.val = val
        self.dump_calls = []

    def __str__(self):
        return f"FakeMps(step={self.step})"

    def dump(self, fname):
        CALLS.append(("mps.dump", os.path.basename(fname), self.step))
        np.savez(fname, step=self.step, val=self.val)


CALLS = []


class Job(TdMpsJob):
    def __init__(self, stop_at=None, fail_dump_at=(), raise_other_at=(), **kwargs):
        self.stop_at = stop_at
        self.fail_dump_at = fail_dump_at
        self.raise_other_at = raise_other_at
        self.values = []
        super().__init__(**kwargs)

    def init_mps(self):
        return FakeMps(0, np.array([1.0 + 0.5j, 2.0]))

    def process_mps(self, mps):
        CALLS.append(("process", mps.step, self.latest_mps.step if hasattr(self, "latest_mps") else None))
        self.values.append(float(np.abs(mps.val).sum()))

    def evolve_single_step(self, evolve_dt):
        old = self.latest_mps
        CALLS.append(("single_step", evolve_dt))
        return FakeMps(old.step + 1, old.val * np.exp(-1j * evolve_dt) * 0.9)

    def get_dump_dict(self):
        n = len(self.evolve_times) - 1
        CALLS.append(("get_dump_dict", n, os.path.exists(self.dump_dir) if self.dump_dir else None))
        if n in self.fail_dump_at:
            raise IOError("disk full (simulated)")
        if n in self.raise_other_at:
            raise RuntimeError("other error (simulated)")
        return {"times": self.evolve_times_array, "values": np.array(self.values), "name": "job"}

    def stop_evolve_criteria(self):
        return self.stop_at is not None and len(self.evolve_times) - 1 >= self.stop_at


def run_job(title, evolve_kwargs_list, info_interval=1, pre_files=(), premake=True,
            set_dump_mps_state=None, **job_kwargs):
    del CALLS[:]
    tmp = tempfile.mkdtemp(prefix="c14rj_")
    dump_dir = os.path.join(tmp, "out", "deep")
    if premake:
        os.makedirs(dump_dir)
    for fn, content in pre_files:
        with open(os.path.join(dump_dir, fn), "wb") as f:
            f.write(content)
    defined = job_kwargs.pop("defined", True)
    handler, state = capture(tdmps_module.logger)
    result = []
    try:
        if defined is True:
            job = Job(dump_dir=dump_dir, job_name="jb", **job_kwargs)
        elif defined == "no_name":
            job = Job(dump_dir=dump_dir, job_name=None, **job_kwargs)
        else:
            job = Job(dump_dir=None, job_name="jb", **job_kwargs)
        job.info_interval = info_interval
        for kw in evolve_kwargs_list:
            try:
                if isinstance(kw, tuple):
                    ret = job.evolve(*kw)
                else:
                    ret = job.evolve(**kw)
                result.append(("ret is job", ret is job))
            except Exception as e:
                result.append(("EXC", type(e).__name__, str(e)))
            result.append(("times", [round(float(t), 10) for t in job.evolve_times]))
            result.append(("latest", job.latest_mps.step, "_dump_mps", job._dump_mps))
        if set_dump_mps_state is not None:
            # call dump_dict directly
            job._dump_mps = set_dump_mps_state
            try:
                result.append(("dump_dict ret", job.dump_dict()))
            except Exception as e:
                result.append(("EXC", type(e).__name__, str(e)))
    except Exception as e:
        result.append(("EXC-ctor", type(e).__name__, str(e)))
    finally:
        release(tdmps_module.logger, handler, state)
    logs = [r.replace(tmp, "<TMP>") for r in handler.records]
    show(title, result)
    show(title + " / calls", list(CALLS))
    show(title + " / logs", logs)
    show(title + " / files", dir_digest(os.path.join(tmp, "out")) if os.path.exists(os.path.join(tmp, "out")) else "<no out>")
    shutil.rmtree(tmp)


def part_tdmps():
    # every combination of None / not None arguments
    run_job("dt+nsteps", [dict(evolve_dt=0.5, nsteps=3)])
    run_job("dt+nsteps+time", [dict(evolve_dt=0.25, nsteps=2, evolve_time=100.0)])
    run_job("nsteps+time", [dict(nsteps=4, evolve_time=1.0)])
    run_job("nsteps+time neg", [dict(nsteps=2, evolve_time=-1.0)])
    run_job("dt+time", [dict(evolve_dt=0.3, evolve_time=1.0)])
    run_job("dt+time neg", [dict(evolve_dt=-0.3, evolve_time=1.0)])
    run_job("dt+time complex dt", [dict(evolve_dt=-0.5j, evolve_time=1.0)])
    run_job("dt only w/ stop", [dict(evolve_dt=0.1)], stop_at=3)
    run_job("dt only stop at once", [dict(evolve_dt=0.1)], stop_at=0)
    run_job("nothing", [dict()])
    run_job("only nsteps", [dict(nsteps=3)])
    run_job("only time", [dict(evolve_time=3.0)])
    run_job("positional", [(0.5, 2), (0.5, None, 0.9), (None, 2, 1.0)])
    run_job("nsteps zero", [dict(evolve_dt=0.5, nsteps=0)])
    run_job("nsteps zero + time", [dict(nsteps=0, evolve_time=1.0)])
    run_job("dt zero + time", [dict(evolve_dt=0.0, evolve_time=1.0)])
    run_job("nsteps float", [dict(evolve_dt=0.5, nsteps=2.0)])
    run_job("stop in the middle", [dict(evolve_dt=0.5, nsteps=10)], stop_at=2)
    # restart / two calls
    run_job("two calls", [dict(evolve_dt=0.5, nsteps=2), dict(evolve_dt=0.25, nsteps=2)], dump_mps="one")
    # dump_mps variants, info interval
    for dm in [None, "all", "one"]:
        for ii in [1, 2, None]:
            run_job(f"dump_mps={dm} info_interval={ii}", [dict(evolve_dt=0.5, nsteps=3)],
                    info_interval=ii, dump_mps=dm)
    run_job("dump_mps bad", [dict(evolve_dt=0.5, nsteps=1)], dump_mps="each")
    # directory not yet existing / left-overs of a crash
    run_job("no premade dir", [dict(evolve_dt=0.5, nsteps=2)], premake=False, dump_mps="all")
    run_job("leftovers", [dict(evolve_dt=0.5, nsteps=1)], dump_mps="one",
            pre_files=[("jb.npz.bak", b"old backup"), ("jb.npz.tmp.npz", b"partial"), ("jb.npz", b"garbage"),
                       ("jb_mps.npz", b"old mps"), ("other.npz.bak", b"keep me")])
    run_job("bak only", [dict(evolve_dt=0.5, nsteps=2)],
            pre_files=[("jb.npz.bak", b"old backup")])
    # IOError is swallowed, others are not
    run_job("ioerror at 2", [dict(evolve_dt=0.5, nsteps=3)], fail_dump_at=(2,), dump_mps="all")
    run_job("runtimeerror at 2", [dict(evolve_dt=0.5, nsteps=3)], raise_other_at=(2,), dump_mps="all")
    # no output path
    run_job("no dump dir", [dict(evolve_dt=0.5, nsteps=2)], defined="no_dir", premake=False,
            set_dump_mps_state="all", dump_mps="all")
    run_job("no job name", [dict(evolve_dt=0.5, nsteps=2)], defined="no_name",
            set_dump_mps_state=None, dump_mps="all")
    run_job("no job name direct", [], defined="no_name", set_dump_mps_state="one")
    # direct dump_dict calls
    run_job("direct all", [], set_dump_mps_state="all")
    run_job("direct one", [dict(evolve_dt=1, nsteps=1)], set_dump_mps_state="one")
    run_job("direct other string", [dict(evolve_dt=1, nsteps=1)], set_dump_mps_state="weird")
    run_job("direct empty string", [dict(evolve_dt=1, nsteps=1)], set_dump_mps_state="")
    run_job("direct ioerror", [], set_dump_mps_state="one", fail_dump_at=(0,))


# ----------------------------------------------------------------------------
# part 2: TTNBase.dump / TTNBase.load
# ----------------------------------------------------------------------------
def make_trees():
    rng_state = np.random.get_state()
    np.random.seed(2024)
    trees = []

    # 1. chain of spins, one quantum number
    basis_list = [ba.BasisHalfSpin(i, sigmaqn=[-1, 1]) for i in range(4)]
    basis = BasisTree.linear(basis_list)
    trees.append(("spin chain qn=0", basis, TTNS.random(basis, 0, 4)))

    # 2. binary tree, sho + electron, non-zero quantum number
    basis_list = [ba.BasisSimpleElectron(0), ba.BasisSHO("v0", 1.0, 3), ba.BasisSimpleElectron(1),
                  ba.BasisSHO("v1", 2.0, 4), ba.BasisSHO("v2", 0.5, 2)]
    basis = BasisTree.binary(basis_list)
    trees.append(("binary qn=1", basis, TTNS.random(basis, 1, 5)))

    # 3. two quantum numbers, hand-made tree, several basis sets on one node
    b0 = ba.BasisHalfSpin("a", sigmaqn=[[1, 0], [0, 1]])
    b1 = ba.BasisHalfSpin("b", sigmaqn=[[1, 0], [0, 1]])
    b2 = ba.BasisHalfSpin("c", sigmaqn=[[1, 0], [0, 1]])
    try:
        n0 = TreeNodeBasis([b0])
        n1 = TreeNodeBasis([b1, b2])
        n0.add_child(n1)
        basis = BasisTree(n0)
        ttns = TTNS.random(basis, np.array([2, 1]), 3)
        trees.append(("two qn", basis, ttns))
    except Exception as e:  # environment independent: reported in the digest
        trees.append(("two qn FAILED " + type(e).__name__, None, None))

    # 4. single node tree
    basis = BasisTree.linear([ba.BasisSHO("only", 1.0, 5)])
    trees.append(("single node", basis, TTNS.random(basis, 0, 3)))

    # 5. hartree product constructed from a condition
    basis_list = [ba.BasisHalfSpin(i, sigmaqn=[0, 1]) for i in range(3)]
    basis = BasisTree.binary(basis_list)
    trees.append(("product", basis, TTNS(basis, {0: 1, 2: 1})))
    np.random.set_state(rng_state)
    return trees


def ttn_digest(ttn, attrs=()):
    res = [("n", len(ttn), "root idx", ttn.node_idx[ttn.root])]
    for i, node in enumerate(ttn.node_list):
        res.append((i, arr_digest(node.tensor), arr_digest(node.qn),
                    ttn.node_idx[node.parent] if node.parent is not None else None,
                    [ttn.node_idx[c] for c in node.children]))
    for a in attrs:
        v = getattr(ttn, a)
        res.append((a, type(v).__name__, arr_digest(v)))
    return res


def part_tree():
    tmp = tempfile.mkdtemp(prefix="c14rj_t_")
    handler, state = capture(tree_module.logger)
    try:
        for name, basis, ttns in make_trees():
            if basis is None:
                show(name, "skipped")
                continue
            variants = [("real", ttns)]
            c = ttns.copy().to_complex(inplace=False)
            c = c.scale(0.3 - 0.7j)
            variants.append(("complex", c))
            c2 = ttns.copy()
            c2.canonicalise()
            c2.coeff = 1.5 - 2j
            variants.append(("canon+coeff", c2))
            for vname, t in variants:
                title = f"{name} / {vname}"
                fname = os.path.join(tmp, "t.npz")
                # TTNS.dump -> TTNBase.dump, positional
                ret = t.dump(fname)
                show(title + " dump ret", ret)
                show(title + " file", npz_digest(fname))
                t2 = TTNS.load(basis, fname)
                show(title + " loaded", ttn_digest(t2, ["coeff"]))
                show(title + " same", [
                    all(np.array_equal(a.tensor, b.tensor) and a.tensor.dtype == b.tensor.dtype
                        for a, b in zip(t.node_list, t2.node_list)),
                    all(np.array_equal(a.qn, b.qn) for a, b in zip(t.node_list, t2.node_list)),
                    complex(t2.coeff) == complex(t.coeff), type(t2).__name__])
                # file name without extension: numpy appends .npz
                t.dump(os.path.join(tmp, "noext"))
                show(title + " noext", sorted(os.listdir(tmp)))
                os.remove(os.path.join(tmp, "noext.npz"))
                # other attrs, keyword
                t.extra = np.arange(6).reshape(2, 3) * 1.5
                t.tag = "hello"
                t.dump(fname=fname, other_attrs=["extra", "tag"])
                show(title + " file attrs", npz_digest(fname))
                t3 = TTNS.load(basis, fname, ["tag", "extra"])
                show(title + " loaded attrs", ttn_digest(t3, ["coeff", "extra", "tag"]))
                t3b = TTNS.load(basis=basis, fname=fname, other_attrs=[])
                show(title + " loaded w/o attrs", [hasattr(t3b, "extra"), hasattr(t3b, "tag"), hasattr(t3b, "coeff")])
                # TTNBase.dump directly (no coeff), TTNBase.load directly
                TTNBase.dump(t, fname)
                show(title + " base file", npz_digest(fname))
                for oa in ([], None, ["coeff"], ("nsites",)):
                    try:
                        tb = TTNBase.load(basis, fname, oa)
                        show(title + f" base load {oa!r}", (type(tb).__name__, ttn_digest(tb, oa)))
                    except Exception as e:
                        show(title + f" base load {oa!r}", ("EXC", type(e).__name__, str(e)))
                TTNBase.dump(t, fname, ["tag", "extra"])
                show(title + " base file attrs", npz_digest(fname))
                # attribute that shadows a standard key: the later assignment wins
                t.version = "0.1"
                shadow = f"tensor_{len(t) - 1}"
                setattr(t, shadow, np.zeros(2))
                t.zzz = 7
                TTNBase.dump(t, fname, [shadow, "zzz", "version"])
                show(title + " shadow file", npz_digest(fname))
                del t.version, t.zzz
                delattr(t, shadow)
                # missing attribute
                try:
                    t.dump(fname, ["does_not_exist"])
                    show(title + " missing attr", "no exception")
                except Exception as e:
                    show(title + " missing attr", ("EXC", type(e).__name__, str(e)))
                # other_attrs is not modified
                lst = ["extra"]
                t.dump(fname, lst)
                lst2 = ["extra"]
                TTNS.load(basis, fname, lst2)
                show(title + " arg lists", (lst, lst2))
                # unwritable target: logged, not raised
                ret = t.dump(os.path.join(tmp, "no_such_dir", "t.npz"))
                show(title + " unwritable", ret)
                # wrong version
                t.version = "0.2"
                t.nsites = len(t)
                data = dict(np.load(fname, allow_pickle=True))
                data["version"] = "0.2"
                np.savez(fname, **data)
                del t.version, t.nsites
                try:
                    TTNS.load(basis, fname)
                    show(title + " wrong version", "no exception")
                except Exception as e:
                    show(title + " wrong version", ("EXC", type(e).__name__, str(e)))
                # truncated content: missing qn of the last site
                data["version"] = "0.1"
                last = int(data["nsites"]) - 1
                del data[f"qn_{last}"]
                np.savez(fname, **data)
                try:
                    TTNS.load(basis, fname)
                    show(title + " missing qn", "no exception")
                except Exception as e:
                    show(title + " missing qn", ("EXC", type(e).__name__, str(e)))
                # missing attribute in the file
                t.dump(fname)
                try:
                    TTNS.load(basis, fname, ["extra"])
                    show(title + " missing file attr", "no exception")
                except Exception as e:
                    show(title + " missing file attr", ("EXC", type(e).__name__, str(e)))
                # missing file
                try:
                    TTNS.load(basis, os.path.join(tmp, "nothing.npz"))
                except Exception as e:
                    show(title + " missing file", ("EXC", type(e).__name__))
                # later operations give identical results
                t.dump(fname)
                t4 = TTNS.load(basis, fname)
                try:
                    n1 = complex(np.round(t.norm, 12))
                    n2 = complex(np.round(t4.norm, 12))
                except Exception as e:  # library limitation for several quantum numbers
                    n1 = n2 = type(e).__name__
                show(title + " norms", (n1, n2, n1 == n2))
                os.remove(fname)
    finally:
        release(tree_module.logger, handler, state)
    logs = [r.replace(tmp, "<TMP>") for r in handler.records]
    show("tree logs", logs)
    show("tree tmp left", sorted(os.listdir(tmp)))
    shutil.rmtree(tmp)


if __name__ == "__main__":
    np.set_printoptions(precision=10, suppress=True)
    part_tdmps()
    part_tree()
    print("DONE")
