# stub of the (not installed) third-party module ``print_tree``
class print_tree:
    def __init__(self, *args, **kwargs):
        pass
