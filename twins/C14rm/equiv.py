import sys, os, tempfile, logging, hashlib
sys.path.insert(0, os.path.dirname(os.path.abspath(__file__)))

import numpy as np

logging.disable(logging.CRITICAL)

from renormalizer import Op, Model
from renormalizer.model.basis import BasisHalfSpin, BasisSHO, BasisSimpleElectron
from renormalizer.mps import Mps, Mpo, MpDm
from renormalizer.mps.mp import MatrixProduct
from renormalizer.tn import BasisTree, TTNO, TTNS
from renormalizer.tn.tree import TTNBase
from renormalizer.tn.node import TreeNodeBasis

TMP = os.path.join(os.path.dirname(os.path.abspath(__file__)), "tmp_equiv")
import shutil
shutil.rmtree(TMP, ignore_errors=True)
os.makedirs(TMP)


def h(a):
    a = np.asarray(a)
    if a.dtype == object:
        return "obj[" + ",".join(
            h(x) if isinstance(x, (np.ndarray, list, tuple, int, float, complex, np.generic)) else repr(x)
            for x in a.ravel()) + "]"
    if a.dtype.kind in "US":
        return f"str:{a.tolist()!r}"
    b = np.round(np.asarray(a, dtype=complex), 10) + 0.0
    return f"{a.dtype}{a.shape}:" + hashlib.md5(np.ascontiguousarray(b).tobytes()).hexdigest()[:10]


def out(*args):
    print(*args)


def file_digest(fname):
    z = np.load(fname, allow_pickle=True)
    out("  files", list(z.files))
    for k in z.files:
        out("   ", k, h(z[k]))


def mp_digest(mp):
    out("  type", type(mp).__name__, "dtype", mp.dtype, "n", len(mp), "to_right", repr(mp.to_right),
        "qnidx", repr(mp.qnidx), type(mp.qnidx).__name__, "qntot", h(mp.qntot), type(mp.qntot).__name__)
    out("  qn type", type(mp.qn).__name__, [type(q).__name__ for q in mp.qn], [h(q) for q in mp.qn])
    out("  mts", [h(m.array) for m in mp], [type(m).__name__ for m in mp])
    if hasattr(mp, "coeff"):
        out("  coeff", repr(mp.coeff), type(mp.coeff).__name__)
    out("  model is", mp.model is not None)


def attempt(label, f):
    try:
        r = f()
        out(label, "OK")
        return r
    except BaseException as e:
        out(label, "EXC", type(e).__name__, str(e)[:200])
        return None


def make_models():
    np.random.seed(7)
    b1 = [BasisSimpleElectron(0), BasisSHO("v0", 1.0, 3), BasisSimpleElectron(1), BasisSHO("v1", 1.5, 4)]
    ham1 = [Op(r"a^\dagger a", 0, 0.3), Op(r"a^\dagger a", 1, 0.5), Op(r"a^\dagger a", [0, 1], 0.1),
            Op(r"a^\dagger a", [1, 0], 0.1), Op(r"b^\dagger b", "v0", 1.0), Op(r"b^\dagger b", "v1", 1.5),
            Op(r"a^\dagger a", 0, 0.2) * Op(r"b^\dagger+b", "v0")]
    m1 = Model(b1, ham1)
    b2 = []
    for i in range(4):
        sq = np.array([[0, 0], [1, 0]]) if i % 2 == 0 else np.array([[0, 0], [0, 1]])
        b2.append(BasisHalfSpin(i, sigmaqn=sq))
    ham2 = [Op("sigma_z", i, 0.1 * (i + 1)) for i in range(4)] + [Op("sigma_+ sigma_-", [0, 2], 0.2), Op("sigma_+ sigma_-", [2, 0], 0.2)]
    m2 = Model(b2, ham2)
    return m1, m2


def roundtrip(label, mp, loader, model, **dump_kw):
    fname = os.path.join(TMP, label + ".npz")
    out("==", label)
    attempt("  dump", lambda: mp.dump(fname, **dump_kw))
    if os.path.exists(fname):
        file_digest(fname)
        mp2 = attempt("  load", lambda: loader(model, fname))
        if mp2 is not None:
            mp_digest(mp2)
        return mp2


m1, m2 = make_models()
np.random.seed(11)

# --- Mps, several gauges / dtypes / qn
mps_a = Mps.random(m1, 1, 5)
mps_a.coeff = 0.7
roundtrip("mps_real", mps_a, Mps.load, m1)
mps_b = mps_a.copy().canonicalise()
roundtrip("mps_cano", mps_b, Mps.load, m1)
mps_b2 = mps_b.copy()
mps_b2.ensure_right_canonical()
roundtrip("mps_rcano", mps_b2, Mps.load, m1)
mps_b3 = mps_b.copy()
mps_b3.ensure_left_canonical()
r = roundtrip("mps_lcano", mps_b3, Mps.load, m1)
mps_c = mps_a.to_complex()
mps_c.coeff = 0.3 - 0.4j
for i in range(len(mps_c)):
    mps_c[i] = mps_c[i].array * np.exp(0.3j * (i + 1))
r = roundtrip("mps_complex", mps_c, Mps.load, m1)
if r is not None:
    out("  expectation after reload", np.round(r.expectation(Mpo(m1)), 10), np.round(mps_c.expectation(Mpo(m1)), 10))
mps_d = Mps.random(m2, np.array([1, 1]), 4)
roundtrip("mps_2qn", mps_d, Mps.load, m2)
mps_e = Mps.random(m2, np.array([1, 2]), 4).canonicalise()
mps_e.coeff = np.complex128(1j)
roundtrip("mps_2qn_b", mps_e, Mps.load, m2)
# one-site model
m0 = Model([BasisSHO("v", 1.0, 3)], [Op(r"b^\dagger b", "v", 1.0)])
mps_1 = Mps.random(m0, 0, 1)
roundtrip("mps_onesite", mps_1, Mps.load, m0)

# --- MpDm
mpdm = MpDm.from_mps(mps_a)
roundtrip("mpdm", mpdm, MpDm.load, m1)
mpdm_c = MpDm.max_entangled_ex(m1).to_complex()
mpdm_c.coeff = -1j
roundtrip("mpdm_c", mpdm_c, MpDm.load, m1)

# --- Mpo via MatrixProduct.dump / MatrixProduct.load
mpo = Mpo(m1)
roundtrip("mpo", mpo, Mpo.load, m1)
roundtrip("mpo_none", mpo, Mpo.load, m1, other_attrs=None)
roundtrip("mpo_str", mpo, Mpo.load, m1, other_attrs="dtype")
roundtrip("mpo_list", mpo, Mpo.load, m1, other_attrs=["dtype", "qnidx"])
roundtrip("mpo_empty", mpo, Mpo.load, m1, other_attrs=[])
roundtrip("mpo_shadow", mpo, Mpo.load, m1, other_attrs=["qn", "site_num"])
roundtrip("mpo_tuple", mpo, Mpo.load, m1, other_attrs=("dtype",))
roundtrip("mpo_badattr", mpo, Mpo.load, m1, other_attrs=["nonexistent"])
mpo2 = Mpo(m2).scale(1j)
roundtrip("mpo_2qn_c", mpo2, Mpo.load, m2)
roundtrip("mpo_as_mp", mpo2, MatrixProduct.load, m2)
# Mps dumped, loaded through the base loader; Mpo dumped loaded through the Mps loader
fname = os.path.join(TMP, "mps_complex.npz")
out("== cross")
r = attempt("  base load of mps", lambda: Mpo.load(m1, fname))
if r is not None:
    mp_digest(r)
r = attempt("  mps load of mpo", lambda: Mps.load(m1, os.path.join(TMP, "mpo.npz")))
# dump into a missing directory: swallowed
out("== bad dir")
attempt("  dump", lambda: mps_a.dump(os.path.join(TMP, "nodir", "x.npz")))
out("  exists", os.path.exists(os.path.join(TMP, "nodir")))
attempt("  load missing", lambda: Mps.load(m1, os.path.join(TMP, "missing.npz")))
attempt("  base load missing", lambda: Mpo.load(m1, os.path.join(TMP, "missing.npz")))
# empty mp
out("== empty")
emp = MatrixProduct()
emp.qn = [[[0]]]
emp.qnidx = 0
emp.qntot = np.array([0])
emp.to_right = True
roundtrip("empty", emp, Mpo.load, None)
roundtrip("empty_mps", emp, Mps.load, None, other_attrs=["dtype"])

# --- old format versions, hand written
z = dict(np.load(os.path.join(TMP, "mps_complex.npz"), allow_pickle=True))


def write_version(label, version, drop=(), add=None):
    d = {k: v for k, v in z.items() if k not in drop}
    d["version"] = version
    d.update(add or {})
    fname = os.path.join(TMP, label + ".npz")
    np.savez(fname, **d)
    out("==", label)
    r = attempt("  load", lambda: Mps.load(m1, fname))
    if r is not None:
        mp_digest(r)


write_version("v01", "0.1", drop=("to_right", "coeff"), add={"left": False})
write_version("v01_t", "0.1", drop=("to_right", "coeff"), add={"left": np.array(1)})
write_version("v01_missing", "0.1", drop=("coeff",))
write_version("v02", "0.2", drop=("coeff",), add={"tdh_wfns": np.array([0.1, 0.2, 0.5 + 1j])})
write_version("v02_missing", "0.2", drop=("coeff",))
write_version("v02_noright", "0.2", drop=("coeff", "to_right"))
write_version("v03", "0.3")
write_version("v03_nocoeff", "0.3", drop=("coeff",))
write_version("v04", "0.4")
write_version("v04_arrcoeff", "0.4", add={"coeff": np.array([2.0, 3.0])})
write_version("v05", "0.5")
write_version("vfloat", 0.4)
write_version("vbytes", b"0.4")
write_version("varr", np.array(["0.3", "0.4"]))
write_version("v_noqn", "0.4", drop=("qn",))
write_version("v_nonsites", "0.4", drop=("nsites",))
write_version("v_nomt", "0.4", drop=("mt_2",))
write_version("v_badshape", "0.4", add={"mt_1": np.zeros((7, 3, 2))})
write_version("v_noversion", "0.4", drop=())
d = {k: v for k, v in z.items() if k != "version"}
np.savez(os.path.join(TMP, "nover.npz"), **d)
attempt("  load nover (Mps)", lambda: Mps.load(m1, os.path.join(TMP, "nover.npz")))
r = attempt("  load nover (base)", lambda: Mpo.load(m1, os.path.join(TMP, "nover.npz")))
if r is not None:
    mp_digest(r)
d2 = {k: v for k, v in z.items() if k != "subqn_2"}
np.savez(os.path.join(TMP, "nosubqn.npz"), **d2)
attempt("  base load nosubqn", lambda: Mpo.load(m1, os.path.join(TMP, "nosubqn.npz")))
d3 = dict(z)
d3["subqn_1"] = np.array([[0.0], [1.9]])
d3["qntot"] = np.array([1.7])
d3["qnidx"] = np.array(2.0)
d3["to_right"] = np.array(0)
np.savez(os.path.join(TMP, "floatqn.npz"), **d3)
for ld in (Mpo.load, Mps.load, MpDm.load):
    r = attempt("  load floatqn", lambda: ld(m1, os.path.join(TMP, "floatqn.npz")))
    if r is not None:
        mp_digest(r)


# --- trees
def tree_digest(t):
    out("  type", type(t).__name__, "n", len(t))
    out("  tensors", [h(n.tensor) for n in t.node_list])
    out("  qn", [h(n.qn) for n in t.node_list])
    out("  parents", [t.node_list.index(n.parent) if n.parent is not None else -1 for n in t.node_list])
    if hasattr(t, "coeff"):
        out("  coeff", repr(t.coeff), type(t.coeff).__name__)
    out("  root idx", t.node_list.index(t.root))


def make_tree(basis_list):
    nodes = [TreeNodeBasis([b]) for b in basis_list]
    root = nodes[1]
    root.add_child(nodes[0])
    root.add_child(nodes[2])
    nodes[2].add_child(nodes[3])
    return BasisTree(root)


np.random.seed(5)
for label, model, qntot in (("tree1", m1, 1), ("tree2", m2, np.array([1, 1]))):
    out("==", label)
    basis = make_tree(model.basis)
    ttns = attempt("  random", lambda: TTNS.random(basis, qntot, 4))
    if ttns is None:
        continue
    ttns.coeff = 0.5
    for variant in ("real", "complex"):
        if variant == "complex":
            ttns = ttns.to_complex() if hasattr(ttns, "to_complex") else ttns
            for i, n in enumerate(ttns.node_list):
                n.tensor = n.tensor * np.exp(0.2j * (i + 1))
            ttns.coeff = 0.5 - 0.1j
        fname = os.path.join(TMP, f"{label}_{variant}.npz")
        attempt("  dump", lambda: ttns.dump(fname))
        file_digest(fname)
        for kw in ({}, {"other_attrs": None}, {"other_attrs": []}, {"other_attrs": ["nsites"]}, {"other_attrs": ("x",)},
                   {"other_attrs": ["missing"]}):
            t2 = attempt(f"  TTNS.load {kw}", lambda: TTNS.load(basis, fname, **kw))
            if t2 is not None:
                tree_digest(t2)
                if "other_attrs" in kw and kw["other_attrs"] == ["nsites"]:
                    out("  nsites attr", repr(t2.nsites))
        for kw in ({}, {"other_attrs": None}, {"other_attrs": []}, {"other_attrs": ["coeff"]}, {"other_attrs": "coeff"}):
            t3 = attempt(f"  TTNBase.load {kw}", lambda: TTNBase.load(basis, fname, **kw))
            if t3 is not None:
                tree_digest(t3)
        fname2 = os.path.join(TMP, f"{label}_{variant}_extra.npz")
        attempt("  dump extra", lambda: ttns.dump(fname2, other_attrs=["bond_dims"]))
        file_digest(fname2)
    # TTNO through the base class
    ttno = attempt("  ttno", lambda: TTNO(basis, model.ham_terms))
    if ttno is not None:
        fname = os.path.join(TMP, f"{label}_ttno.npz")
        attempt("  dump ttno", lambda: ttno.dump(fname))
        file_digest(fname)
        t4 = attempt("  TTNBase.load ttno", lambda: TTNBase.load(basis, fname, []))
        if t4 is not None:
            tree_digest(t4)
        attempt("  TTNO.load ttno", lambda: TTNO.load(basis, fname, []))
    # wrong version / truncated file
    zt = dict(np.load(os.path.join(TMP, f"{label}_real.npz"), allow_pickle=True))
    for lab, drop, add in (("badver", (), {"version": "0.2"}), ("noqn", ("qn_2",), {}), ("notensor", ("tensor_3",), {}),
                           ("fewer", (), {"nsites": 2}), ("nover", ("version",), {}), ("nocoeff", ("coeff",), {})):
        dd = {k: v for k, v in zt.items() if k not in drop}
        dd.update(add)
        fn = os.path.join(TMP, f"{label}_{lab}.npz")
        np.savez(fn, **dd)
        attempt(f"  TTNS.load {lab}", lambda: TTNS.load(basis, fn))
    attempt("  TTNS.load missing file", lambda: TTNS.load(basis, os.path.join(TMP, "nofile.npz")))

import shutil
shutil.rmtree(TMP, ignore_errors=True)
