class print_tree:
    def __init__(self, *args, **kwargs):
        pass
