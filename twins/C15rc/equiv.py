"""Equivalence check for the refactoring of renormalizer/model/op.py
(Op.__add__, Op.__radd__, Op.squeeze_identity, OpSum.simplify)."""
import logging
import random

logging.disable(logging.CRITICAL)  # the package logs time stamps on import

import numpy as np

from renormalizer.model.op import Op, OpSum
from renormalizer.utils import Quantity


def digest(obj):
    """Deterministic, type-revealing description of a result."""
    if isinstance(obj, Op):
        sym, dofs, factor, qn = obj.to_tuple()
        return ("Op", type(obj).__name__, sym, repr(dofs), type(factor).__name__, repr(factor),
                repr(qn), repr([q.dtype.kind for q in obj.qn_list]))
    if isinstance(obj, list):
        return (type(obj).__name__, [digest(o) for o in obj])
    return (type(obj).__name__, repr(obj))


def attempt(label, fn):
    try:
        res = digest(fn())
    except Exception as e:  # noqa
        res = ("EXC", type(e).__name__, str(e))
    print(label, "->", res)


rng = random.Random(20240915)
nprng = np.random.RandomState(7)

SYMBOLS = ["X", "Y", "Z", "I", r"a^\dagger", "a", r"b^\dagger + b", r"b^\dagger", "sigma_z", "p^2"]
DOFS = [0, 1, 2, "e0", ("v", 1), ("v", 2)]


def random_factor():
    kind = rng.randrange(6)
    if kind == 0:
        return rng.choice([1, 2, -3, 0])
    if kind == 1:
        return rng.uniform(-2, 2)
    if kind == 2:
        return complex(rng.uniform(-1, 1), rng.uniform(-1, 1))
    if kind == 3:
        return np.float64(rng.uniform(-1, 1))
    if kind == 4:
        return rng.choice([0.5, 0.25, -0.5, 1e-4, -1e-6, 0.0])
    return Quantity(rng.uniform(0.1, 1.0))


def random_op(qn_size=None, max_len=4, small_pool=False):
    n = rng.randint(1, max_len)
    symbols = SYMBOLS[:4] if small_pool else SYMBOLS
    dofs_pool = DOFS[:3] if small_pool else DOFS
    syms = [rng.choice(symbols) for _ in range(n)]
    dofs = [rng.choice(dofs_pool) for _ in range(n)]
    if qn_size is None:
        qn = None
    else:
        qn = []
        for s in syms:
            if s == "I":
                qn.append([0] * qn_size)
            else:
                qn.append([rng.randint(-1, 1) for _ in range(qn_size)])
    return Op(" ".join(syms), dofs, random_factor(), qn)


# ---------------------------------------------------------------- Op.__add__ / __radd__ / __sub__
x = Op("X", 0, 0.5)
y = Op(r"a^\dagger a", ["e0", ("v", 1)], 2 - 1j, qn=[[1, 0], [-1, 0]])
z = Op("Z I", [1, 2], np.float64(-0.25))


class IntOp(Op, int):
    """pathological: an Op that is also an int (equal to zero)"""
    def __new__(cls, *args, **kwargs):
        return int.__new__(cls, 0)

    __hash__ = Op.__hash__

    def __eq__(self, other):
        if isinstance(other, Op):
            return Op.__eq__(self, other)
        return int.__eq__(self, other)


class ListOp(Op, list):
    """pathological: an Op that is also a list"""
    __hash__ = Op.__hash__
    __eq__ = Op.__eq__


class MyArr(np.ndarray):
    pass


operands = [
    ("int0", 0), ("float0", 0.0), ("negzero", -0.0), ("False", False), ("True", True), ("int1", 1),
    ("float", 1.5), ("nan", float("nan")), ("complex0", 0j), ("complex", 1 + 1j),
    ("npf64_0", np.float64(0)), ("npf64_1", np.float64(1)), ("npf32_0", np.float32(0)),
    ("npi64_0", np.int64(0)), ("npbool", np.bool_(False)), ("npc128_0", np.complex128(0)),
    ("arr0d", np.array(0)), ("arr0d_f", np.array(0.0)), ("arr0d_c", np.array(0j)), ("arr0d_1", np.array(1)),
    ("arr1d", np.zeros(1)), ("arr1d_int", np.zeros(3, dtype=int)), ("arr_empty", np.zeros(0)),
    ("arr2d", np.zeros((1, 1))), ("arr_obj", np.array(None)), ("arr_sub", np.zeros(()).view(MyArr)),
    ("arr_bool", np.array(False)), ("arr_str", np.array("0")),
    ("op", y), ("op_self", x), ("list_empty", []), ("list", [y, z]), ("opsum", OpSum([y, z])),
    ("opsum_empty", OpSum()), ("list_junk", [1, "a"]), ("tuple", (y,)), ("none", None), ("str", "X"),
    ("intop", IntOp("Y", 3, 2.0)), ("listop", ListOp("Y", 4, 3.0)), ("quantity", Quantity(0)),
]

for name, other in operands:
    for opname, op in [("x", x), ("y", y), ("z", z)]:
        attempt(f"add {opname}+{name}", lambda: op + other)
        attempt(f"radd {name}+{opname}", lambda: other + op)
        attempt(f"radd-direct {name}+{opname}", lambda: op.__radd__(other))
        attempt(f"sub {opname}-{name}", lambda: op - other if isinstance(other, (Op, list)) else op + other)

attempt("builtin sum", lambda: sum([x, y, z]))
attempt("builtin sum start", lambda: sum([x, y, z], OpSum()))
attempt("builtin sum one", lambda: sum([x]))
attempt("np.sum", lambda: np.sum([x, y]))
attempt("sub op", lambda: x - y)
attempt("sub opsum", lambda: x - OpSum([y, z]))
attempt("sub list", lambda: x - [y, z])
attempt("intop + 0", lambda: IntOp("Y", 3, 2.0) + 0)
attempt("listop + x", lambda: ListOp("Y", 4, 3.0) + x)

# result of add must be a fresh OpSum that does not alias the operands
lst = [y, z]
r = x + lst
r.append(x)
print("alias list", len(lst), len(r))
osum = OpSum([y, z])
r = x + osum
r.append(x)
print("alias opsum", len(osum), len(r))

# ---------------------------------------------------------------- Op.squeeze_identity
fixed_ops = [
    Op("X I Y I", [0, 1, 2, 3], 0.5),
    Op("I", 0, -0.5),
    Op("I I I", [3, 1, 2], 1j),
    Op("I I", ["a", "b"], 2, qn=[[0, 0, 0], [0, 0, 0]]),
    Op("I", 0, 1.0, qn=[[1, 0]]),
    Op("I I", [0, 1], 1.0, qn=[[1], [-1]]),
    Op("I X", [0, 1], 1.0, qn=[[1], [-1]]),
    Op("X I", [0, 1], 1.0, qn=[[0, 0], [0, 1]]),
    Op("X I", [0, 1], 1.0, qn=[[1, 2], [0, 0]]),
    Op("I X I X I", 5, 3.0),
    Op("I X I X I", [("v", 1), 0, ("v", 1), 0, 0], 1 - 2j, qn=[0, 1, 0, -1, 0]),
    Op(r"I b^\dagger + b I", [0, 1, 2], 0.3),
    Op(r"a^\dagger I a", [0, 1, 2], Quantity(1.0)),
    Op(r"a^\dagger I a", [0, 1, 2], 1.0, qn=[[1, 0], [0, 0], [0, -1]]),
    Op("", 0, 1.0),
    Op("X  Y", [0, 1, 2], 1.0),
    Op("I ", [0, 1], 1.0),
    Op("II I", [0, 1], 1.0),
    IntOp("I Y", [3, 4], 2.0),
]
for i, op in enumerate(fixed_ops):
    before = digest(op)
    attempt(f"squeeze fixed {i} {op!r}", op.squeeze_identity)
    assert digest(op) == before  # argument not mutated
    sq = None
    try:
        sq = op.squeeze_identity()
    except Exception:
        pass
    if sq is not None:
        print("   identity-of-parts",
              [any(q is q0 for q0 in op.qn_list) for q in sq.qn_list],
              sq.dofs is op.dofs, sq.qn_list is op.qn_list, sq is op)

# attributes tampered with by the caller
t = Op("X I Y", [0, 1, 2], 1.0)
t.split_symbol = []
attempt("squeeze tampered empty", t.squeeze_identity)
t = Op("X I Y", [0, 1, 2], 1.0)
t.dofs = [0, 1]
attempt("squeeze tampered short dofs", t.squeeze_identity)
t = Op("X I Y", [0, 1, 2], 1.0)
t.qn_list = [np.array([0]), np.array([3])]
attempt("squeeze tampered short qn", t.squeeze_identity)
t = Op("X I Y", [0, 1, 2], 1.0)
t.qn_list = [np.array([0]), None, np.array([0])]
attempt("squeeze tampered None qn", t.squeeze_identity)
t = Op("X I Y", [0, 1, 2], 1.0)
t.split_symbol = ["I", "I", "Y"]
attempt("squeeze tampered symbols", t.squeeze_identity)

for i in range(150):
    qn_size = rng.choice([None, 1, 2, 3])
    op = random_op(qn_size)
    attempt(f"squeeze random {i} {op!r}", op.squeeze_identity)

# ---------------------------------------------------------------- OpSum.simplify
ATOLS = [0, 0.0, 1e-12, 1e-5, 1e-3, 0.3, 1.0, 10, np.float64(1e-3), -1.0, float("inf"), float("nan")]

attempt("simplify empty", lambda: OpSum().simplify())
attempt("simplify empty atol", lambda: OpSum().simplify(atol=1e-3))
attempt("simplify one", lambda: OpSum([x]).simplify())
attempt("simplify one identity", lambda: OpSum([Op("I I", [0, 1], 2.0)]).simplify())
attempt("simplify one zero", lambda: OpSum([Op("X", 0, 0.0)]).simplify())
attempt("simplify one zero neg atol", lambda: OpSum([Op("X", 0, 0.0)]).simplify(-1))
attempt("simplify doc", lambda: OpSum([Op("X I Y I", [0, 1, 2, 3], 0.5), Op("X Y", [0, 2], 0.5),
                                       Op("Z", [1], 1e-4)]).simplify(atol=1e-3))
attempt("simplify cancel", lambda: ((x + y) - (x + y)).simplify())
attempt("simplify all same", lambda: OpSum([Op("X", 0, 0.1)] * 10).simplify())
attempt("simplify float order", lambda: OpSum([Op("X", 0, f) for f in
                                               [1e16, 1.0, -1e16, 1.0, 3.0, 1e-3, 0.1, 0.2, 0.3]]).simplify())
attempt("simplify float order complex", lambda: OpSum([Op("X", 0, f) for f in
                                                       [1e16 + 1j, 1.0, -1e16, 1.0 - 1e16j, 3.0j, 1e16j]]).simplify())
attempt("simplify identities different dofs",
        lambda: OpSum([Op("I", 0, 1.0), Op("I I", [0, 1], 2.0), Op("I", 1, 3.0), Op("I I", [1, 0], 4.0)]).simplify())
attempt("simplify same term different qn",
        lambda: OpSum([Op("X", 0, 1.0, qn=1), Op("X", 0, 2.0, qn=-1), Op("X", 0, 3.0, qn=[[0]])]).simplify())
attempt("simplify dof types", lambda: OpSum([Op("X", 0, 1.0), Op("X", 0.0, 2.0), Op("X", False, 3.0),
                                             Op("X", "0", 4.0)]).simplify())
attempt("simplify bad identity qn", lambda: OpSum([x, Op("I X", [0, 1], 1.0, qn=[[1], [-1]])]).simplify())
attempt("simplify non-op", lambda: OpSum([x, 3]).simplify())
attempt("simplify nested", lambda: OpSum([x, OpSum([y])]).simplify())
attempt("simplify atol str", lambda: OpSum([x]).simplify("a"))
attempt("simplify atol None", lambda: OpSum([x]).simplify(None))
attempt("simplify atol array", lambda: OpSum([x, y]).simplify(np.array([0.1, 0.2])))
attempt("simplify nan factor", lambda: OpSum([Op("X", 0, float("nan")), Op("X", 0, 1.0), Op("Y", 0, 1.0)]).simplify())
attempt("simplify subclass items", lambda: OpSum([IntOp("I Y", [3, 4], 2.0), Op("Y", 4, 1.0),
                                                  IntOp("Y", [4], 0.5)]).simplify())

for i in range(200):
    qn_size = rng.choice([None, None, 1, 2])
    n_terms = rng.choice([0, 1, 2, 3, 5, 8, 13, 25])
    small = rng.random() < 0.7
    terms = [random_op(qn_size, max_len=rng.choice([1, 2, 3]), small_pool=small) for _ in range(n_terms)]
    # add duplicates with different factors and some exact negatives
    for _ in range(rng.randint(0, n_terms)):
        src = rng.choice(terms)
        roll = rng.random()
        if roll < 0.3:
            terms.append(-src)
        elif roll < 0.6:
            terms.append(src * rng.uniform(-1, 1))
        else:
            terms.append(Op(src.symbol, src.dofs, random_factor(), src.qn_list))
    rng.shuffle(terms)
    opsum = OpSum(terms)
    snapshot = digest(opsum)
    atol = rng.choice(ATOLS)
    attempt(f"simplify random {i} n={len(opsum)} atol={atol!r}", lambda: opsum.simplify(atol))
    attempt(f"simplify random {i} default", lambda: opsum.simplify())
    assert digest(opsum) == snapshot  # self is not mutated
    res = opsum.simplify()
    assert res is not opsum and type(res) is OpSum
    # idempotence digest
    attempt(f"simplify random {i} twice", lambda: opsum.simplify(atol).simplify(atol))

# simplify of products / sums built with the public arithmetic
for i in range(40):
    a = OpSum([random_op(None, 2, True) for _ in range(rng.randint(1, 4))])
    b = OpSum([random_op(None, 2, True) for _ in range(rng.randint(1, 4))])
    c = random_op(None, 2, True)
    attempt(f"algebra {i} (a+b)*(a-b)", lambda: ((a + b) * (a - b)).simplify(1e-10))
    attempt(f"algebra {i} c+a-c", lambda: (c + a - c).simplify())
    attempt(f"algebra {i} 0+c+b", lambda: ((0 + c) + b).simplify())
    attempt(f"algebra {i} a/2+a/2-a", lambda: (a / 2 + a / 2 - a).simplify())
    attempt(f"algebra {i} c*(a+c)*2j", lambda: (c * (a + c) * 2j).simplify(0.05))
    s = a.copy()
    s += c
    s += b
    attempt(f"algebra {i} iadd", lambda: s.simplify())
    attempt(f"algebra {i} hash/eq", lambda: sorted(repr(o) for o in set(s.simplify()) if o == o and hash(o) == hash(o)))
