# -*- coding: utf-8 -*-
"""Equivalence check for the refactoring of Op.__neg__, Op.__mul__, OpSum.__mul__, OpSum.simplify."""
import random

import numpy as np

from renormalizer.model import Op, OpSum
from renormalizer.utils import Quantity


def fmt_num(x):
    # exact representation of the number and its type
    if isinstance(x, (complex, np.complexfloating)):
        return f"{type(x).__name__}({float(x.real).hex()},{float(x.imag).hex()})"
    if isinstance(x, (float, np.floating)):
        return f"{type(x).__name__}({float(x).hex()})"
    return f"{type(x).__name__}({x!r})"


def fmt_op(op):
    if not isinstance(op, Op):
        return f"<{type(op).__name__}:{op!r}>"
    qn = [(q.dtype.kind, q.tolist()) for q in op.qn_list]
    try:
        r = repr(op)
    except Exception as e:  # repr of ragged quantum numbers fails in the library
        r = f"REPR-EXC {type(e).__name__}"
    return f"{type(op).__name__}|{op.symbol!r}|{op.split_symbol!r}|{op.dofs!r}|{fmt_num(op.factor)}|{qn!r}|{r}|h={hash(op) == hash(op.to_tuple())}"


def fmt(res):
    if isinstance(res, Op):
        return fmt_op(res)
    if isinstance(res, list):
        return f"{type(res).__name__}[" + " ; ".join(fmt_op(o) for o in res) + "]"
    return f"<{type(res).__name__}:{res!r}>"


def run(label, func):
    try:
        res = func()
    except Exception as e:  # noqa
        print(f"{label}: EXC {type(e).__name__}: {e}")
        return None
    print(f"{label}: {fmt(res)}")
    return res


PAULI = {
    "I": np.eye(2), "X": np.array([[0, 1], [1, 0]]), "Y": np.array([[0, -1j], [1j, 0]]),
    "Z": np.diag([1.0, -1.0]), "sigma_+": np.array([[0, 0], [1, 0]]), "sigma_-": np.array([[0, 1], [0, 0]]),
    "a": np.array([[0, 1], [0, 0]]), r"a^\dagger": np.array([[0, 0], [1, 0]]),
}
NDOF = 3


def dense(opsum):
    # denotation of an operator sum on NDOF two-level DoFs named 0..NDOF-1
    if isinstance(opsum, Op):
        opsum = [opsum]
    total = np.zeros((2 ** NDOF, 2 ** NDOF), dtype=complex)
    for op in opsum:
        mats = [np.eye(2, dtype=complex) for _ in range(NDOF)]
        for s, d in zip(op.split_symbol, op.dofs):
            mats[d] = mats[d] @ PAULI[s]
        m = np.array([[1.0 + 0j]])
        for x in mats:
            m = np.kron(m, x)
        total = total + op.factor * m
    return total


def digest_mat(m):
    return " ".join(f"{v.real:.10f}{v.imag:+.10f}j" for v in np.round(m, 10).ravel()[:: 7])


def main():
    x = Op("X", 0, 0.5)
    y = Op("Y", 1, 0.2)
    z = Op("Z", [2], -0.0)
    adag_a = Op(r"a^\dagger a", ["e0", "e1"], 2.0)
    multi_qn = Op(r"a^\dagger a", [("e", 0), ("e", 1)], 1.5 - 0.5j, qn=[[1, 0], [-1, 0]])
    bdb = Op(r"b^\dagger + b", "v0", Quantity(1.0, "eV"))
    same_dof = Op("X Y Z", 0, 3)
    ident = Op.identity([0, 1], qn_size=2, factor=-2.0)
    nanop = Op("X", 0, float("nan"))
    intfac = Op("Z", 1, 7)
    npfac = Op("Z", 1, np.float32(0.25))
    ops = dict(x=x, y=y, z=z, adag_a=adag_a, multi_qn=multi_qn, bdb=bdb, same_dof=same_dof, ident=ident,
               nanop=nanop, intfac=intfac, npfac=npfac)

    # ---------------- Op.__neg__ ----------------
    for name, op in ops.items():
        res = run(f"neg {name}", lambda: -op)
        print(f"neg {name} alias: dofs_is={res.dofs is op.dofs} qn_is={[a is b for a, b in zip(res.qn_list, op.qn_list)]} "
              f"new={res is not op} eq={res == op} negneg_eq={(-res) == op}")
    run("neg sub", lambda: x - y)
    run("neg sub opsum", lambda: x - (y + z))

    # ---------------- Op.__mul__ / __rmul__ with scalars ----------------
    scalars = [2, -3, 0, True, 0.5, -0.0, float("inf"), 1j, 2 - 3j, np.int64(3), np.int8(-2), np.float32(0.1),
               np.float64(1e-300), np.complex128(1 + 2j), np.complex64(0.5j), np.bool_(False), np.array(2.0)[()],
               np.str_("a"), np.array(2.0), np.array([1.0, 2.0]), "s", None, (1, 2), Quantity(1.0), {1: 2}, b"x"]
    for i, s in enumerate(scalars):
        for name in ["x", "multi_qn", "bdb", "intfac", "npfac", "z"]:
            op = ops[name]
            res = run(f"mul {name} * scalar[{i}]", lambda: op * s)
            if isinstance(res, Op):
                print(f"   alias dofs_is={res.dofs is op.dofs} qn_is={any(a is b for a, b in zip(res.qn_list, op.qn_list))}")
            run(f"rmul scalar[{i}] * {name}", lambda: s * op)

    # ---------------- Op.__mul__ with Op / list ----------------
    names = list(ops)
    for n1 in names:
        for n2 in names:
            run(f"mul {n1} * {n2}", lambda: ops[n1] * ops[n2])
    run("mul x * []", lambda: x * [])
    run("mul x * OpSum()", lambda: x * OpSum())
    run("mul x * [y]", lambda: x * [y])
    run("mul x * [y, z, multi]", lambda: x * [y, z, multi_qn])
    run("mul x * (y+z)", lambda: x * (y + z))
    run("mul x * [y, 1]", lambda: x * [y, 1])
    run("mul x * [1, y]", lambda: x * [1, y])
    run("mul x * [[y]]", lambda: x * [[y]])
    run("mul x * [None]", lambda: x * [None])
    run("rmul [y, z] * x", lambda: [y, z] * x)
    run("rmul [] * x", lambda: [] * x)
    run("rmul [y, 2] * x", lambda: [y, 2] * x)
    run("rmul (y+z) * x", lambda: (y + z) * x)
    run("mul chain", lambda: x * y * z * 2 * x * 1j)
    run("mul chain2", lambda: 2 * x * (3 * y) * np.float64(0.5))
    orig = fmt_op(multi_qn)
    _ = multi_qn * 3, -multi_qn, multi_qn * x, multi_qn * [x, y]
    print("operand unchanged:", orig == fmt_op(multi_qn))

    # ---------------- OpSum.__mul__ / __rmul__ / __truediv__ ----------------
    s1 = x + y
    s2 = OpSum([multi_qn, adag_a, bdb])
    s3 = OpSum()
    s4 = OpSum([ident])
    sums = dict(s1=s1, s2=s2, s3=s3, s4=s4)
    others = [2, -1.5, 1j, True, 0, np.int64(2), np.float32(0.5), np.complex128(1j), np.str_("q"), np.bool_(True),
              x, multi_qn, [], [x], [x, y], s1, s2, s3, [x, 3], [3], [[x]], OpSum([x, 2]),
              "s", None, (x,), np.array(2), np.array([1, 2]), Quantity(2.0), 2.5 + 0j, b"x", -1]
    for sname, s in sums.items():
        for i, o in enumerate(others):
            before = fmt(s)
            run(f"opsum mul {sname} * other[{i}]", lambda: s * o)
            run(f"opsum rmul other[{i}] * {sname}", lambda: o * s)
            run(f"opsum div {sname} / other[{i}]", lambda: s / o)
            assert before == fmt(s)
    run("opsum garbage [2, x] * [y]", lambda: OpSum([2, x]) * [y])
    run("opsum garbage [2.0, x] * [y]", lambda: OpSum([2.0, x]) * [y])
    run("opsum garbage [None] * [y]", lambda: OpSum([None]) * [y])
    run("opsum garbage [2, x] * 3", lambda: OpSum([2, x]) * 3)
    run("opsum garbage ['a', x] * 2", lambda: OpSum(["a", x]) * 2)
    run("opsum garbage ['a'] * x", lambda: OpSum(["a"]) * x)
    run("opsum product", lambda: OpSum.product([s1, s1, x, 2, s1]))
    run("opsum product2", lambda: OpSum.product([x, s1, s2]))
    run("opsum product empty", lambda: OpSum.product([]))
    run("opsum (y+x)*(x+y)", lambda: (y + x) * (x + y))
    run("opsum sub", lambda: s1 - s1)
    run("opsum neg", lambda: -s2)

    # ---------------- OpSum.simplify ----------------
    simp_cases = {
        "empty": OpSum(),
        "single": OpSum([x]),
        "single_zero": OpSum([z]),
        "negzero": OpSum([Op("Z", 2, -0.0)]),
        "doc": OpSum([Op("X I Y I", [0, 1, 2, 3], 0.5), Op("X Y", [0, 2], 0.5), Op("Z", [1], 1e-4)]),
        "cancel": s1 - s1,
        "dup3": OpSum([x, y, x, x * 0.1, y * 1e-17, Op("X", 0, 1e16), Op("X", 0, -1e16)]),
        "float_order": OpSum([Op("X", 0, 0.1), Op("X", 0, 0.2), Op("X", 0, 0.3), Op("X", 0, -0.6), Op("X", 0, 1e-20)]),
        "float_order2": OpSum([Op("X", 0, 1e16), Op("X", 0, 1.0), Op("X", 0, -1e16), Op("X", 0, 1.0)]),
        "complex": OpSum([multi_qn, multi_qn * 1j, adag_a, multi_qn * (-1 - 1j), adag_a * -1]),
        "idents": OpSum([ident, Op("I", 0, 3.0), Op("I I", [1, 0], 1.0), Op("I", 1, 1.0), Op.identity(0, qn_size=2)]),
        "ident_mixed": OpSum([Op("I X", [0, 1], 1.0), Op("X I", [1, 0], 2.0), Op("X", 1, 4.0), Op("X", [1], 1, qn=[3])]),
        "diff_qn_same_term": OpSum([Op("a", "e0", 1.0, qn=-1), Op("a", "e0", 2.0, qn=0), Op("a", "e0", 3.0, qn=[[1, 2]])]),
        "dof_types": OpSum([Op("X", 1, 1.0), Op("X", 1.0, 2.0), Op("X", True, 4.0), Op("X", "1", 8.0), Op("X", (1,), 16.0)]),
        "nan": OpSum([nanop, x, nanop]),
        "inf": OpSum([Op("X", 0, float("inf")), Op("X", 0, -float("inf")), y]),
        "int_factors": OpSum([intfac, intfac, Op("Z", 1, -14)]),
        "np_factors": OpSum([npfac, x * y, npfac, y * x, x * y]),
        "bdb": OpSum([bdb, Op(r"b^\dagger + b", "v0", 1.0), Op(r"b^\dagger+b", "v0", 1.0)]),
        "product": (y + x) * (x + y) * (x - y),
        "garbage": OpSum([x, 1]),
        "garbage2": OpSum([None]),
    }
    atols = [0, 1e-12, 1e-3, 0.25, 1.0, 100.0, -1.0, float("inf"), float("nan"), np.float64(0.5), 1]
    for cname, case in simp_cases.items():
        before = fmt(case)
        ids = [id(o) for o in case]
        run(f"simplify {cname} default", lambda: case.simplify())
        for atol in atols:
            run(f"simplify {cname} atol={atol!r}", lambda: case.simplify(atol))
            run(f"simplify {cname} kw atol={atol!r}", lambda: case.simplify(atol=atol))
        res = case.simplify() if "garbage" not in cname else None
        if res is not None:
            print(f"   type={type(res).__name__} fresh={all(id(o) not in ids for o in res)} idempotent={fmt(res.simplify()) == fmt(res)}")
        assert before == fmt(case) and ids == [id(o) for o in case]
    run("simplify bad atol", lambda: s1.simplify("a"))
    run("simplify None atol", lambda: s1.simplify(None))
    run("simplify complex atol", lambda: s1.simplify(1j))

    # ---------------- random expressions: symbolic digest + denoted matrices ----------------
    rng = random.Random(2024)
    nprng = np.random.default_rng(7)
    symbols = ["I", "X", "Y", "Z", "sigma_+", "sigma_-"]

    def rand_factor():
        k = rng.randrange(6)
        if k == 0:
            return rng.randint(-3, 3)
        if k == 1:
            return rng.uniform(-2, 2)
        if k == 2:
            return complex(rng.uniform(-1, 1), rng.uniform(-1, 1))
        if k == 3:
            return np.float64(nprng.normal())
        if k == 4:
            return np.complex128(nprng.normal() + 1j * nprng.normal())
        return np.int64(rng.randint(-2, 2))

    def rand_op():
        n = rng.randint(1, 3)
        syms = [rng.choice(symbols) for _ in range(n)]
        dofs = [rng.randrange(NDOF) for _ in range(n)]
        f = rand_factor()
        if isinstance(f, np.integer):
            f = float(f)
        return Op(" ".join(syms), dofs, f)

    def rand_sum():
        terms = [rand_op() for _ in range(rng.randint(0, 4))]
        # repeated terms so that simplify has something to merge
        if terms and rng.random() < 0.7:
            t = rng.choice(terms)
            terms.insert(rng.randrange(len(terms) + 1), t * rand_factor())
            terms.append(-t)
        return OpSum(terms)

    for trial in range(60):
        a, b = rand_sum(), rand_sum()
        o, c = rand_op(), rand_factor()
        exprs = {
            "a*b": lambda: a * b, "a*o": lambda: a * o, "o*a": lambda: o * a, "c*a": lambda: c * a,
            "a*c": lambda: a * c, "o*c": lambda: o * c, "c*o": lambda: c * o, "-o": lambda: -o,
            "a-b": lambda: a - b, "o-a": lambda: o - a, "(a+o)*(b-o)": lambda: (a + o) * (b - o),
            "o*o*c": lambda: o * o * c, "a*b*a": lambda: a * b * a,
        }
        for ename, e in exprs.items():
            res = run(f"rand[{trial}] {ename}", e)
            if res is None:
                continue
            print(f"   dense: {digest_mat(dense(res))}")
            if isinstance(res, OpSum):
                for atol in (0, 1e-8, 0.3):
                    simp = run(f"rand[{trial}] {ename} simplify({atol})", lambda: res.simplify(atol))
                    print(f"   dense: {digest_mat(dense(simp))}")


if __name__ == "__main__":
    main()
