# -*- coding: utf-8 -*-
"""Equivalence digest for Op.split_elementary, OpSum.__add__/__iadd__/__sub__,
OpSum.__mul__/__rmul__, OpSum.__truediv__."""
import random
import warnings

import numpy as np

from renormalizer.model import Op, OpSum

warnings.simplefilter("ignore")
rng = random.Random(1234)
nrng = np.random.RandomState(4321)


def show_op(op):
    if isinstance(op, Op):
        sym, dofs, fac, qn = op.to_tuple()
        return f"Op<{sym!r}|{dofs!r}|{type(fac).__name__}:{fac!r}|{qn!r}|dofs_type={type(op.dofs).__name__}>"
    return f"{type(op).__name__}:{op!r}"


def show(res):
    if isinstance(res, Op):
        return show_op(res)
    if isinstance(res, list):
        return f"{type(res).__name__}[" + "; ".join(show_op(o) for o in res) + "]"
    if isinstance(res, tuple):
        return "tuple(" + ", ".join(show(r) for r in res) + ")"
    return f"{type(res).__name__}:{res!r}"


def attempt(label, fn):
    try:
        res = fn()
        print(label, "->", show(res))
    except BaseException as e:  # noqa
        print(label, "-> EXC", type(e).__name__, str(e))


SYMS = ["X", "Y", "Z", "I", r"a^\dagger", "a", r"b^\dagger + b", "sigma_z", "x^2"]
DOFS = [0, 1, 2, 3, "v0", "v1", ("e", 0), ("e", 1), ("ph", 2, 1)]
SCAL = [2, -3, 0, 0.5, -1.25, 1e-14, 1 + 2j, -0.5j, True, False,
        np.float64(0.3), np.float32(1.5), np.complex128(2 - 1j), np.int64(4), np.int32(-2),
        np.bool_(True)]


def rand_factor():
    k = rng.randrange(4)
    if k == 0:
        return rng.randrange(-3, 4)
    if k == 1:
        return rng.uniform(-2, 2)
    if k == 2:
        return complex(rng.uniform(-1, 1), rng.uniform(-1, 1))
    return rng.choice([np.float64(0.7), np.complex128(0.1 + 0.2j), np.int64(3)])


def rand_op(nqn=None, maxlen=4):
    n = rng.randrange(1, maxlen + 1)
    syms = [rng.choice(SYMS) for _ in range(n)]
    dofs = [rng.choice(DOFS) for _ in range(n)]
    fac = rand_factor()
    if nqn is None:
        qn = None
    else:
        qn = [[rng.randrange(-2, 3) for _ in range(nqn)] for _ in range(n)]
    return Op(" ".join(syms), dofs, fac, qn)


def rand_sum(k, nqn=None):
    return OpSum([rand_op(nqn) for _ in range(k)])


# ---------------------------------------------------------------- split_elementary
print("=== split_elementary")
maps = [
    {d: i for i, d in enumerate(DOFS)},
    {d: len(DOFS) - i for i, d in enumerate(DOFS)},
    {d: i // 3 for i, d in enumerate(DOFS)},
    {d: 0 for d in DOFS},
    {d: -i * 2 for i, d in enumerate(DOFS)},
    {d: None if i == 4 else i % 2 for i, d in enumerate(DOFS)},  # a None value -> unknown DoF
    {0: 0, 1: 1, "v0": 1},  # partial map
    {},
]
for im, m in enumerate(maps):
    for nqn in (None, 1, 2, 3):
        for t in range(12):
            op = rand_op(nqn, maxlen=6)
            attempt(f"split m{im} q{nqn} t{t} {show_op(op)}", lambda: op.split_elementary(m))
# docstring example, single-dof shortcuts (map not consulted), float site keys
ex = Op("X Y", [3, 2], 0.5) * Op("Y X", [2, 3], 3.0) * Op("Z Z", [2, 2], 1.0)
attempt("split doc", lambda: ex.split_elementary({2: 0, 3: 1}))
attempt("split doc rev", lambda: ex.split_elementary({2: 1, 3: 0}))
attempt("split floatkeys", lambda: ex.split_elementary({2: 0.5, 3: 0.25}))
attempt("split strkeys", lambda: ex.split_elementary({2: "b", 3: "a"}))
attempt("split mixedkeys", lambda: ex.split_elementary({2: "b", 3: 0}))
attempt("split single nomap", lambda: Op("X", "q", 2j, qn=[[1, -1]]).split_elementary({}))
attempt("split single None map", lambda: Op("a", "q", 3).split_elementary(None))
attempt("split None map", lambda: ex.split_elementary(None))
attempt("split b+b", lambda: Op(r"b^\dagger + b a^\dagger a", ["v0", 0, 0], -2.0).split_elementary({"v0": 1, 0: 0}))


class GetOnly:
    """mapping-like object offering only .get"""
    def get(self, k):
        return {2: 5, 3: 4}.get(k)


attempt("split getonly", lambda: ex.split_elementary(GetOnly()))
# returned ops are fresh objects and do not alias the qn arrays' identity with the list container
res_ops, res_fac = ex.split_elementary({2: 0, 3: 1})
print("split alias", [o is ex for o in res_ops], type(res_fac).__name__, res_ops[0].dofs is ex.dofs)
one = Op("X", 7, 0.25, qn=[2])
r1, f1 = one.split_elementary({})
print("split single alias", r1[0] is one, r1[0].dofs is one.dofs, r1[0].qn_list is one.qn_list, f1)

# ---------------------------------------------------------------- OpSum add / iadd / sub
print("=== add")
for nqn in (None, 2):
    for t in range(6):
        s1 = rand_sum(rng.randrange(0, 4), nqn)
        s2 = rand_sum(rng.randrange(0, 4), nqn)
        o = rand_op(nqn)
        plain = list(rand_sum(2, nqn))
        for lab, rhs in [("op", o), ("sum", s2), ("list", plain), ("empty", []), ("emptysum", OpSum()),
                         ("self", s1)]:
            before = show(s1)
            attempt(f"add q{nqn} t{t} {lab}", lambda: s1 + rhs)
            attempt(f"sub q{nqn} t{t} {lab}", lambda: s1 - rhs if not (type(rhs) is list) else s1 - OpSum(rhs))
            attempt(f"radd-op q{nqn} t{t} {lab}", lambda: o + rhs)
            assert show(s1) == before
            r = s1 + rhs
            print("   fresh", r is s1, r is rhs, type(r).__name__, len(r))
            c = s1.copy()
            cid = id(c)
            c += rhs
            print("   iadd", show(c), id(c) == cid, type(c).__name__)
            assert show(s1) == before

s = rand_sum(2)
for lab, bad in [("int0", 0), ("int", 3), ("float", 1.5), ("none", None), ("tuple", (Op("X", 0),)),
                 ("str", "ab"), ("arr", np.array([1, 2])), ("arr0", np.array(0)), ("npf", np.float64(0)),
                 ("dict", {}), ("gen", iter([Op("X", 0)])), ("set", {1})]:
    attempt(f"add bad {lab}", lambda: s + bad)
    attempt(f"radd bad {lab}", lambda: bad + s)
    attempt(f"sub bad {lab}", lambda: s - bad)

    def _iadd():
        c = s.copy()
        c += bad
        return c
    attempt(f"iadd bad {lab}", _iadd)
attempt("add list-with-nonop", lambda: s + [1, "a", None])
attempt("list + opsum", lambda: [Op("Z", 3)] + s)
attempt("sub plain list", lambda: s - [Op("Z", 3)])


class SubSum(OpSum):
    pass


ss = SubSum([Op("X", 0), Op("Y", 1, 2j)])
attempt("subclass add", lambda: ss + Op("Z", 2))
attempt("subclass add sum", lambda: ss + ss)
attempt("add subclass rhs", lambda: s + ss)
attempt("subclass mul", lambda: ss * 2)
attempt("subclass mul list", lambda: ss * ss)
attempt("subclass div", lambda: ss / 4)

# ---------------------------------------------------------------- OpSum mul / rmul
print("=== mul")
for nqn in (None, 1, 2):
    for t in range(5):
        s1 = rand_sum(rng.randrange(0, 4), nqn)
        s2 = rand_sum(rng.randrange(0, 3), nqn)
        o = rand_op(nqn)
        before = show(s1)
        attempt(f"mul q{nqn} t{t} sum", lambda: s1 * s2)
        attempt(f"mul q{nqn} t{t} sumrev", lambda: s2 * s1)
        attempt(f"mul q{nqn} t{t} self", lambda: s1 * s1)
        attempt(f"mul q{nqn} t{t} list", lambda: s1 * list(s2))
        attempt(f"mul q{nqn} t{t} rlist", lambda: list(s2) * s1)
        attempt(f"mul q{nqn} t{t} empty", lambda: s1 * [])
        attempt(f"mul q{nqn} t{t} op", lambda: s1 * o)
        attempt(f"mul q{nqn} t{t} rop", lambda: o * s1)
        attempt(f"mul q{nqn} t{t} product", lambda: OpSum.product([s1, s2, o]))
        for isc, sc in enumerate(SCAL):
            attempt(f"mul q{nqn} t{t} sc{isc}", lambda: s1 * sc)
            attempt(f"rmul q{nqn} t{t} sc{isc}", lambda: sc * s1)
            attempt(f"div q{nqn} t{t} sc{isc}", lambda: s1 / sc)
        assert show(s1) == before
        r = s1 * 1
        print("   fresh", r is s1, type(r).__name__)

s = OpSum([Op("X", 0, 0.5), Op(r"a^\dagger a", [1, 2], 1j)])


class Idx:
    def __index__(self):
        return 2


for lab, bad in [("none", None), ("str", "ab"), ("tuple", (Op("X", 0),)), ("arr0", np.array(2)),
                 ("arr0f", np.array(2.0)), ("arr1", np.array([2])), ("arr2", np.array([1.0, 2.0])),
                 ("idx", Idx()), ("dict", {}),
                 ("list-nonop", [1, 2]), ("list-mixed", [Op("Z", 3), 2]), ("nested", [[Op("Z", 3)]]),
                 ("set", {1})]:
    attempt(f"mul bad {lab}", lambda: s * bad)
    attempt(f"rmul bad {lab}", lambda: bad * s)
    attempt(f"div bad {lab}", lambda: s / bad)
    attempt(f"rdiv bad {lab}", lambda: bad / s)

# OpSum holding items that are not Op (it is only a list)
weird = OpSum([2, Op("X", 0, 3.0), "ab"])
attempt("weird * list", lambda: weird * [Op("Y", 1)])
attempt("weird * listlen2", lambda: OpSum([2, Op("X", 0, 3.0)]) * [Op("Y", 1), Op("Z", 2)])
attempt("weird * 2", lambda: weird * 2)
attempt("weird * op", lambda: weird * Op("Y", 1))
attempt("weird2 * list", lambda: OpSum([2.5, Op("X", 0)]) * [Op("Y", 1)])
attempt("weird3 * list", lambda: OpSum([Op("X", 0), None]) * [Op("Y", 1)])
attempt("weird4 * list", lambda: OpSum([Op("X", 0), np.float64(2)]) * [Op("Y", 1)])
attempt("weird / 2", lambda: weird / 2)

# division details
for lab, d in [("zero", 0), ("zerof", 0.0), ("zeroc", 0j), ("npzero", np.float64(0)), ("npint0", np.int64(0)),
               ("inf", float("inf")), ("nan", float("nan")), ("big", 10 ** 400), ("true", True), ("false", False),
               ("npc", np.complex64(1 + 1j)), ("third", 3), ("neg", -7.0)]:
    attempt(f"div {lab}", lambda: s / d)
    attempt(f"div empty {lab}", lambda: OpSum() / d)
attempt("op div", lambda: Op("X", 0) / 2)
attempt("floordiv", lambda: s // 2)

# ---------------------------------------------------------------- homomorphism numerics via simplify
print("=== algebra")
for t in range(6):
    a = rand_sum(3, 1)
    b = rand_sum(2, 1)
    c = rng.choice(SCAL)
    attempt(f"alg{t} (a+b)*c", lambda: ((a + b) * c).simplify())
    attempt(f"alg{t} a*c+b*c", lambda: (a * c + b * c).simplify())
    attempt(f"alg{t} (a-b)*(a+b)", lambda: ((a - b) * (a + b)).simplify(atol=1e-12))
    attempt(f"alg{t} a/2-b/(1+1j)", lambda: (a / 2 - b / (1 + 1j)).simplify())
    attempt(f"alg{t} split all", lambda: tuple(op.split_elementary({d: i % 3 for i, d in enumerate(DOFS)})
                                              for op in a * b))
print("done")
