"""Equivalence digest for the C16 refactoring.

Exercises BasisHalfSpin.op_mat, BasisMultiElectronVac.op_mat,
HolsteinModel.__init__ and TI1DModel.__init__ and prints a deterministic digest.
"""
import hashlib
import itertools
import logging

import numpy as np

logging.disable(logging.CRITICAL)

from renormalizer.model import Op, Mol, Phonon, HolsteinModel, TI1DModel, Model
from renormalizer.model.basis import (
    BasisHalfSpin, BasisMultiElectronVac, BasisMultiElectron, BasisSHO, BasisSimpleElectron,
)
from renormalizer.utils import Quantity
from renormalizer.mps import Mpo

rng = np.random.RandomState(20240916)


def arr_digest(a):
    a = np.asarray(a)
    h = hashlib.sha256(np.ascontiguousarray(a).tobytes()).hexdigest()[:16]
    return f"{a.dtype} {a.shape} {h} {np.round(a, 10).tolist() if a.size <= 16 else ''}"


def call(label, fn):
    try:
        res = fn()
    except Exception as e:  # noqa
        print(label, "->", "EXC", type(e).__name__, str(e))
        return None
    if isinstance(res, np.ndarray):
        print(label, "->", arr_digest(res))
    else:
        print(label, "->", repr(res))
    return res


# ---------------------------------------------------------------- half spin
print("== BasisHalfSpin.op_mat")
singles = ["I", "sigma_x", "X", "x", "sigma_y", "Y", "y", "isigma_y", "iY", "iy",
           "sigma_z", "Z", "z", "sigma_-", "-", "sigma_+", "+", "foo", "", "sigma_X", "a"]
for sigmaqn in (None, [1, -1], [[0, 1], [1, 0]]):
    b = BasisHalfSpin("s", sigmaqn)
    print(repr(b), b.sigmaqn.tolist())
    for s in singles:
        call(f"str {s!r}", lambda: b.op_mat(s))
    for s, fac in zip(singles[:17], rng.randn(17)):
        call(f"Op {s!r} real", lambda: b.op_mat(Op(s, "s", fac)))
        call(f"Op {s!r} cplx", lambda: b.op_mat(Op(s, "s", fac * (0.3 - 1.7j))))
    prods = ["X Y", "Y X", "X Y Z", "Z Z", "sigma_+ sigma_-", "sigma_- sigma_+", "iY iY",
             "x y z x", "I I", "X foo", "+ - Z", "sigma_z sigma_x sigma_y I", "X  Y"]
    for s in prods:
        n = len(s.split(" "))
        call(f"prod {s!r}", lambda: b.op_mat(Op(s, ["s"] * n, 0.5 - 0.25j)))
        call(f"prod str {s!r}", lambda: b.op_mat(s))
    c = b.copy("t")
    print(repr(c), c.dof, c.sigmaqn.tolist())

# ------------------------------------------------------- multi electron vac
print("== BasisMultiElectronVac.op_mat")
for dofs in (["e0"], ["e0", "e1"], [0, 1, 2], [("c", 0), ("c", 1), ("c", 2), ("c", 3)], []):
    b = BasisMultiElectronVac(dofs)
    print(repr(b), b.nbas, b.sigmaqn.tolist(), sorted(b.dof_name_map.items(), key=repr))
    cand = list(dofs) + ["missing"]
    for d in cand:
        for s in ["I", r"a^\dagger", "a", "x", r"a^\dagger a"]:
            call(f"1 {s!r} {d!r}", lambda: b.op_mat(Op(s, d, 1.5 - 0.5j)))
    for d1, d2 in itertools.product(cand, repeat=2):
        for s in [r"a^\dagger a", r"a a^\dagger", "I I", "a a", r"a^\dagger a^\dagger", "I a", "x p"]:
            fac = float(rng.randn())
            call(f"2 {s!r} {d1!r} {d2!r}", lambda: b.op_mat(Op(s, [d1, d2], fac)))
    if len(dofs) >= 1:
        d = dofs[0]
        for s in ["I I I", "I I a", r"a^\dagger a I", "I I I I"]:
            n = len(s.split(" "))
            call(f"n {s!r}", lambda: b.op_mat(Op(s, [d] * n, 2.0, qn=[0] * n)))
    c = b.copy(list(reversed(dofs)))
    print(repr(c), sorted(c.dof_name_map.items(), key=repr))


# ---------------------------------------------------------------- models
def basis_digest(b):
    extra = {k: (v.tolist() if isinstance(v, np.ndarray) else v)
             for k, v in sorted(vars(b).items()) if k not in ("sigmaqn",)}
    return f"{type(b).__name__} dof={b.dof!r} nbas={b.nbas} qn={b.sigmaqn.tolist()} {extra!r}"


def model_digest(label, m, dense=False):
    print(f"-- {label}: {type(m).__name__} nsite={m.nsite} qn_size={m.qn_size}")
    for b in m.basis:
        print("   B", basis_digest(b))
    print("   out_is_basis", m.output_ordering is m.basis)
    print("   dofs", m.dofs, "e", m.e_dofs, "v", m.v_dofs)
    print("   order", sorted(m.order.items(), key=repr), m.pbond_list)
    for t in m.ham_terms:
        print("   T", repr(t.symbol), t.dofs, repr(t.factor), [q.tolist() for q in t.qn_list])
    print("   dipole", repr(m.dipole), "mpos", m.mpos)
    extra = {k: v for k, v in vars(m).items()
             if k not in ("basis", "output_ordering", "dof_to_siteidx", "order", "dof_to_basis",
                          "ham_terms", "dipole", "mpos", "pbond_list", "qn_size", "mol_list", "j_matrix")
             and not k.startswith("_")}
    print("   extra", sorted(extra.items()))
    if hasattr(m, "j_matrix"):
        print("   J", arr_digest(m.j_matrix))
    if dense and np.prod(m.pbond_list) <= 2000:
        try:
            h = Mpo(m).todense()
        except Exception as e:
            print("   dense EXC", type(e).__name__, e)
            return
        print("   dense", h.shape, h.dtype, np.round(np.linalg.eigvalsh(h)[:6], 8).tolist(),
              round(float(np.abs(h).sum()), 8))


print("== HolsteinModel")


def make_mols(nmol, nmodes, diff_omega, pdim, with_dipole):
    mols = []
    for imol in range(nmol):
        phs = []
        for iph in range(nmodes):
            w0 = Quantity(0.004 + 0.001 * iph + 0.0003 * imol)
            w1 = Quantity(w0.as_au() * (1.15 if diff_omega and iph % 2 == 0 else 1.0))
            d = Quantity(5.0 + 2 * iph - imol)
            phs.append(Phonon([w0, w1], [Quantity(0), d], pdim + iph))
        mols.append(Mol(Quantity(0.1 + 0.01 * imol), phs, dipole=(0.3 * (imol + 1) if with_dipole else None)))
    return mols


idx = 0
for nmol, nmodes, diff_omega in [(1, 1, False), (2, 1, True), (3, 2, True), (4, 2, False), (5, 3, True)]:
    for scheme in (1, 2, 3, 4):
        for periodic in (False, True):
            idx += 1
            mols = make_mols(nmol, nmodes, diff_omega, 2, idx % 2 == 0)
            label = f"holstein nmol={nmol} nmodes={nmodes} diff={diff_omega} scheme={scheme} periodic={periodic}"
            try:
                m = HolsteinModel(mols, Quantity(0.01 * nmol), scheme=scheme, periodic=periodic)
            except Exception as e:
                print(label, "EXC", type(e).__name__, e)
                continue
            model_digest(label, m, dense=(nmol <= 3 and nmodes <= 2))
            print("   mol_num", m.mol_num, "len", len(m), "gs_zpe", repr(m.gs_zpe), "scheme", m.scheme)

# explicit j matrix (incl. complex and asymmetric), invalid scheme, bad shape
mols = make_mols(3, 2, True, 2, True)
jm = rng.randn(3, 3)
for scheme in (0, 1, 2.5, 4, 5, -1, "4"):
    for periodic in (False, True):
        label = f"holstein explicit J scheme={scheme!r} periodic={periodic}"
        try:
            m = HolsteinModel(mols, jm, scheme=scheme, periodic=periodic)
        except Exception as e:
            print(label, "EXC", type(e).__name__, e)
            continue
        model_digest(label, m, dense=True)
jmz = jm.copy()
jmz[0, -1] = 0
for args in [(mols, jmz, 2, True), (mols, rng.randn(2, 2), 4, False), (mols, jm + 1j * rng.randn(3, 3), 4, False),
             (mols[:1], np.zeros((1, 1)), 4, True), ([], Quantity(1), 2, False), ([], Quantity(1), 4, False)]:
    label = f"holstein special nmol={len(args[0])} scheme={args[2]} periodic={args[3]}"
    try:
        m = HolsteinModel(*args)
    except Exception as e:
        print(label, "EXC", type(e).__name__, e)
        continue
    model_digest(label, m)
m = HolsteinModel(mols, jm, scheme=4)
model_digest("switch", m.switch_scheme(2))
model_digest("copy", m.copy())

# ---------------------------------------------------------------- TI1D
print("== TI1DModel")
ti_basis = [BasisSimpleElectron("e"), BasisSHO("ph", 0.5, 3), BasisSHO(("ph", 2), 0.7, 2, x0=0.2)]
local_terms = [Op(r"a^\dagger a", "e", 0.3), Op(r"b^\dagger b", "ph", 0.5),
               Op(r"a^\dagger a", "e") * Op("x", ("ph", 2)) * (0.2 + 0.1j), Op("x^2", "ph", 0.0)]
nonlocal_sets = {
    "nn": [Op(r"a^\dagger a", [(0, "e"), (1, "e")], -1.0), Op(r"a a^\dagger", [(0, "e"), (1, "e")], -1.0)],
    "range2": [Op(r"a^\dagger a", [(0, "e"), (2, "e")], -0.5), Op("x x", [(1, "ph"), (3, ("ph", 2))], 0.1)],
    "neg": [Op(r"a^\dagger a", [(-1, "e"), (0, "e")], 0.25, qn=[2, -2])],
    "empty": [],
}
for ncell in (1, 2, 3, 5):
    for name, nl in nonlocal_sets.items():
        label = f"ti ncell={ncell} nl={name}"
        try:
            m = TI1DModel(ti_basis, local_terms, nl, ncell)
        except Exception as e:
            print(label, "EXC", type(e).__name__, e)
            continue
        model_digest(label, m, dense=(ncell <= 2))

# multi-dof unit cell and half spin
mb = [BasisMultiElectronVac(["a", "b"]), BasisSHO("v", 1.0, 2)]
mloc = [Op(r"a^\dagger a", ["a", "b"], 0.1), Op(r"a^\dagger a", ["b", "a"], 0.1), Op("p^2", "v", 0.5)]
mnl = [Op(r"a^\dagger a", [(0, "b"), (1, "a")], 0.7), Op(r"a^\dagger a", [(1, "a"), (0, "b")], 0.7)]
for ncell in (2, 3):
    model_digest(f"ti multi ncell={ncell}", TI1DModel(mb, mloc, mnl, ncell), dense=True)
sb = [BasisHalfSpin("s")]
for ncell in (2, 4):
    model_digest(f"ti spin ncell={ncell}",
                 TI1DModel(sb, [Op("Z", "s", 0.5)], [Op("X X", [(0, "s"), (1, "s")], 1.0)], ncell), dense=True)
# bad nonlocal dof specifications and empty cases
for name, nl in {"str dof": [Op("X X", ["s", (1, "s")])], "float cell": [Op("X X", [(0.0, "s"), (1, "s")])],
                 "3-tuple": [Op("X X", [(0, "s", 1), (1, "s")])], "unknown": [Op("X X", [(0, "t"), (1, "s")])]}.items():
    call(f"ti bad {name}", lambda: TI1DModel(sb, [Op("Z", "s", 0.5)], nl, 3).nsite)
call("ti ncell=0", lambda: TI1DModel(sb, [], [], 0).nsite)
call("ti empty basis", lambda: TI1DModel([], [], [], 2).nsite)
call("ti unknown local", lambda: TI1DModel(sb, [Op("Z", "q")], [], 2).nsite)
