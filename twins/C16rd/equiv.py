"""Equivalence digest for the C16rd refactoring.

Exercises utils.quantity (convert_to_au / Quantity), BasisSHO.op_mat,
BasisSineDVR.op_mat and HolsteinModel.__init__ and prints a deterministic
digest (exact byte hashes of the returned arrays, reprs, exception types and
messages, log records).
"""
import hashlib
import re
import io
import logging
import contextlib
import warnings

import numpy as np

warnings.simplefilter("ignore")

from renormalizer.utils import Quantity
from renormalizer.utils import quantity as qmod
from renormalizer.utils.quantity import convert_to_au
from renormalizer.model import Op, Mol, Phonon, HolsteinModel
from renormalizer.model.basis import BasisSHO, BasisSineDVR


class ListHandler(logging.Handler):
    def __init__(self):
        super().__init__(level=logging.DEBUG)
        self.records = []

    def emit(self, record):
        self.records.append((record.name, record.levelname, record.getMessage()))


HANDLER = ListHandler()
root = logging.getLogger("renormalizer")
root.addHandler(HANDLER)
root.setLevel(logging.DEBUG)
root.propagate = False


def pop_logs():
    recs = list(HANDLER.records)
    HANDLER.records.clear()
    return recs


def arr_digest(a):
    a = np.asarray(a)
    h = hashlib.sha1(np.ascontiguousarray(a).tobytes()).hexdigest()[:16]
    with np.errstate(all="ignore"):
        s = complex(np.sum(a))
        n = float(np.linalg.norm(a)) if a.size else 0.0
    return f"{a.dtype} {a.shape} sha={h} sum=({s.real:.10g},{s.imag:.10g}) norm={n:.10g} flags={a.flags['C_CONTIGUOUS']}"


def _norm_msg(msg):
    # the "Unit not in {...}" message prints a set whose order depends on the hash seed
    m = re.match(r"^Unit not in \{(.*)\}, got (.*)$", msg, flags=re.S)
    if m:
        return "Unit not in {%s}, got %s" % (", ".join(sorted(m.group(1).split(", "))), m.group(2))
    return msg


def show(label, fn):
    out = io.StringIO()
    try:
        with contextlib.redirect_stdout(out):
            res = fn()
    except BaseException as e:  # noqa
        res = f"EXC {type(e).__name__}: {_norm_msg(str(e))}"
    stdout = out.getvalue().strip().replace("\n", " | ")
    print(f"{label} -> {res}")
    if stdout:
        print(f"    stdout: {stdout}")
    for rec in pop_logs():
        print(f"    log: {rec}")


# --------------------------------------------------------------------------
# quantity
# --------------------------------------------------------------------------
print("== quantity ==")
units = sorted(qmod.allowed_units)
print("units", units)
vals = [0, 0.0, 1, -1, 0.05, 0.1, 0.0999, 300, 1e-12, -3.5, 2 ** 70, float("inf"), float("nan"), True,
        np.float64(0.05), np.float32(2.5), np.int64(7), "0.05", "abc", None, 1 + 2j, np.array([0.05]),
        np.array([1.0, 2.0])]
for u in units + ["bad", "EV", "Cm-1", None, 3, ("K",)]:
    for v in vals:
        def f(v=v, u=u):
            r = convert_to_au(v, u)
            return repr(r) if not isinstance(r, np.ndarray) else arr_digest(r)
        show(f"convert_to_au({v!r},{u!r})", f)

        def g(v=v, u=u):
            q = Quantity(v, u)
            return (repr(q.value), repr(q.unit), type(q.value).__name__, str(q), repr(q.as_au()),
                    repr(q.to_beta()) if q.value != 0 or True else None)
        show(f"Quantity({v!r},{u!r})", g)
show("Quantity()", lambda: Quantity())
show("Quantity(3)", lambda: (Quantity(3).value, Quantity(3).unit))
show("Quantity(value=2, unit='eV')", lambda: str(Quantity(value=2, unit="eV")))

rng = np.random.RandomState(1234)
for _ in range(20):
    v1, v2 = rng.randn(2) * 10 ** rng.randint(-3, 4)
    u1, u2 = rng.choice(units, 2)
    q1, q2 = Quantity(v1, u1), Quantity(v2, u2)
    show(f"arith {v1!r} {u1} {v2!r} {u2}", lambda: (
        str(q1 + q2), str(q1 - q2), str(-q1), str(q1 * 3), str(2.5 * q1), str(q1 / 7), str(q1 * (1.5)),
        repr((q1 + q2).as_au()), q1 == q2, q1 != q2, q1 == q1, q1 == 0, q1 != 0,
        str(q1.as_unit(u2)), repr(q1.as_unit(u2).value), repr(q1.to_beta())))
q = Quantity(1.5, "eV")
z = Quantity(0, "K")
show("eq-5", lambda: q == 5)
show("ne-5", lambda: q != 5)
show("eq-str", lambda: q == "a")
show("eq-none", lambda: q == None)  # noqa
show("eq-0.0", lambda: (q == 0.0, z == 0.0, z == 0, z == False, z != 0, z == Quantity(0, "eV")))  # noqa
show("eq-arr", lambda: q == np.array([0, 0]))
show("eq-arr0", lambda: z == np.array([0]))
show("add-nonq", lambda: q + 1)
show("sub-nonq", lambda: q - 1)
show("mul-q", lambda: q * q)
show("rmul-q", lambda: q.__rmul__(q))
show("div-q", lambda: q / q)
show("div-0", lambda: q / 0)
show("mul-complex", lambda: str(q * 1j))
show("mul-arr", lambda: str(q * np.array([2.0])))
show("as_unit-bad", lambda: q.as_unit("bad"))
show("to_beta-zero", lambda: (z.to_beta(), Quantity(0).to_beta(), Quantity(-0.0, "K").to_beta()))
show("to_beta", lambda: repr(Quantity(300, "K").to_beta()))


class SubQ(Quantity):
    pass


show("subclass", lambda: (type(SubQ(1, "eV").as_unit("meV")).__name__, type(-SubQ(1, "eV")).__name__,
                          type(SubQ(1, "eV") + SubQ(1, "eV")).__name__, str(SubQ(0.01, "K"))))
show("hash", lambda: Quantity.__hash__)

# --------------------------------------------------------------------------
# BasisSHO.op_mat
# --------------------------------------------------------------------------
print("== BasisSHO ==")
sho_symbols = [
    "b", "b b", r"b^\dagger", r"b^\dagger b^\dagger", r"b^\dagger+b", r"b^\dagger + b", r"b^\dagger-b",
    r"b^\dagger b", r"b b^\dagger", "x", "x^2", "x x", "x x x", "x^1", "x^3", "x^4", "x^0", "x^2.0", "x^2.5",
    "x^-1", "x^2^3", "x^", "x^a",
    "p", "p^2", "p p", "p p p", "p^1", "p^3", "p^4", "p^0", "p^2.0", "p^2.5", "p^2^3", "p^",
    "x p", "p x", "x dx", "dx x", "dx", "dx^2", "dx dx", "partialx", "partialx^2", "x partialx",
    "partialx x", "partialx partialx", "I", "n", "foo", "", " ", "x  x", "b  b", "dx^3", "x^2 p", "N",
]
rng = np.random.RandomState(7)
sho_params = []
for nbas in [1, 2, 3, 5, 8]:
    for x0 in [0.0, 0, 0.37, -1.2, 1e-9]:
        omega = float(np.round(rng.uniform(0.1, 3.0), 4))
        sho_params.append((nbas, omega, x0))
sho_params.append((4, np.float64(0.8), np.float64(0.5)))
sho_params.append((4, 1, 1))

for nbas, omega, x0 in sho_params:
    for dvr in [False, True]:
        for gxp in [False, True]:
            tag = f"SHO(nbas={nbas},omega={omega!r},x0={x0!r},dvr={dvr},gxp={gxp})"
            try:
                b = BasisSHO("v", omega, nbas, x0=x0, dvr=dvr, general_xp_power=gxp)
            except BaseException as e:  # noqa
                print(tag, "CTOR EXC", type(e).__name__, e)
                pop_logs()
                continue
            print(tag, "ctor logs", pop_logs(), "dvr_x",
                  None if b.dvr_x is None else arr_digest(b.dvr_x),
                  None if b.dvr_v is None else arr_digest(b.dvr_v))
            for s in sho_symbols:
                def f(s=s):
                    before = b._recursion_flag
                    try:
                        return arr_digest(b.op_mat(s))
                    finally:
                        # report the flag and reset to keep later calls comparable
                        print(f"[flag {before}->{b._recursion_flag}]", end="")
                        b._recursion_flag = 0
                show(f"  {tag} {s!r}", f)
            # Op inputs with factors (complex too)
            for s, fac in [("x", 2.0), ("p", -0.5), ("x^2", 1j), ("p^3", 1 + 2j), (r"b^\dagger b", 3),
                           ("x p", 0.0), ("I", 1e-3)]:
                show(f"  {tag} Op({s!r},{fac!r})", lambda: arr_digest(b.op_mat(Op(s, "v", fac))))
            # non-zero recursion flag: warning must be suppressed
            b._recursion_flag = 2

            def f2():
                r = arr_digest(b.op_mat("b"))
                return r, b._recursion_flag
            show(f"  {tag} 'b' flag2", f2)
            b._recursion_flag = 0
            show(f"  {tag} non-str", lambda: b.op_mat(3))
            show(f"  {tag} copy", lambda: (str(b.copy("w")), arr_digest(b.copy("w").op_mat("x^2"))))

# --------------------------------------------------------------------------
# BasisSineDVR.op_mat
# --------------------------------------------------------------------------
print("== BasisSineDVR ==")
sine_symbols = [
    "I", "x", "x^1", "x^2", "x^3", "x x", "x x x", "x x x x", "dx", "dx^2", "dx dx", "p", "p^2", "x dx",
    "x^2 p^2", "x^2 dx^2", "x^2 dx", "x p^2", "x dx^2", "x^3 p^2", "x^3 dx^2", "partialx", "x partialx",
    "partialx^2", "x^2 partialx^2",
    # numerical fall-back
    "x^4", "x^2 x", "sin(x)", "exp(-x^2)", "x^4 x", "dx x", "x^2 dx x", "dx^3", "foo(", "",
]
sine_params = [
    (1, -1.0, 1.0, False), (2, 0.0, 2.0, False), (3, -0.7, 1.9, True), (5, 0.3, 4.1, False),
    (6, -3, 2, True), (4, np.float64(-1.5), np.float64(0.5), False), (4, 0, 1, False),
]
for nbas, xi, xf, endpoint in sine_params:
    for dvr, quadrature in [(False, False), (True, False), (False, True), (True, True)]:
        tag = f"Sine(nbas={nbas},xi={xi!r},xf={xf!r},endpoint={endpoint},dvr={dvr},quad={quadrature})"
        try:
            b = BasisSineDVR("v", nbas, xi, xf, endpoint=endpoint, quadrature=quadrature, dvr=dvr)
        except BaseException as e:  # noqa
            print(tag, "CTOR EXC", type(e).__name__, e)
            pop_logs()
            continue
        print(tag, "ctor", pop_logs(), arr_digest(b.dvr_x), arr_digest(b.dvr_v))
        for s in sine_symbols:
            if quadrature and nbas > 4 and s not in sine_symbols[:25]:
                # keep the run time bounded
                continue

            def f(s=s):
                before = b._recursion_flag
                try:
                    return arr_digest(b.op_mat(s))
                finally:
                    print(f"[flag {before}->{b._recursion_flag}]", end="")
                    b._recursion_flag = 0
            show(f"  {tag} {s!r}", f)
        for s, fac in [("x", 2.0), ("p", -0.5), ("x^2 p^2", 1j), ("x^3", 1 + 2j), ("x^5", 0.25)]:
            show(f"  {tag} Op({s!r},{fac!r})", lambda: arr_digest(b.op_mat(Op(s, "v", fac))))
        b._recursion_flag = 1

        def f3():
            r = arr_digest(b.op_mat("x^2"))
            return r, b._recursion_flag
        show(f"  {tag} 'x^2' flag1", f3)
        b._recursion_flag = 0
        show(f"  {tag} non-str", lambda: b.op_mat(3.5))
        show(f"  {tag} copy", lambda: (str(b.copy("w")), arr_digest(b.copy("w").op_mat("x dx"))))

# --------------------------------------------------------------------------
# HolsteinModel.__init__
# --------------------------------------------------------------------------
print("== HolsteinModel ==")


def basis_digest(ba):
    d = {k: v for k, v in ba.__dict__.items()}
    items = []
    for k in sorted(d):
        v = d[k]
        if isinstance(v, np.ndarray):
            items.append((k, arr_digest(v)))
        else:
            items.append((k, repr(v)))
    return type(ba).__name__, items


def model_digest(m):
    lines = []
    lines.append(("scheme", m.scheme, "mol_num", m.mol_num, "nsite", m.nsite, "qn_size", m.qn_size))
    lines.append(("j_matrix", arr_digest(m.j_matrix), np.asarray(m.j_matrix).tolist()))
    lines.append(("mol_list is", [id(a) for a in m.mol_list] == [id(a) for a in m._src_mols]))
    lines.append(("pbond", m.pbond_list))
    lines.append(("dipole", repr(m.dipole), [type(k).__name__ for k in m.dipole]))
    lines.append(("order", repr(m.order)))
    lines.append(("dofs", repr(m.dofs), repr(m.e_dofs), repr(m.v_dofs)))
    lines.append(("output_ordering is basis", m.output_ordering is m.basis))
    lines.append(("mpos", repr(m.mpos)))
    lines.append(("attrs", sorted(m.__dict__.keys())))
    for ba in m.basis:
        lines.append(("basis", basis_digest(ba)))
    for t in m.ham_terms:
        lines.append(("term", t.symbol, repr(t.dofs), repr(t.factor), type(t.factor).__name__,
                      [q.tolist() for q in t.qn_list]))
    return lines


def make_mols(rng, nmol, nph_choices, diff_omega, same_obj=False):
    mols = []
    for imol in range(nmol):
        nph = nph_choices[imol % len(nph_choices)]
        phs = []
        for iph in range(nph):
            w0 = float(np.round(rng.uniform(0.001, 0.01), 6))
            if diff_omega == "all" or (diff_omega == "some" and (imol + iph) % 2 == 0):
                w1 = float(np.round(w0 * rng.uniform(0.7, 1.3), 6))
            elif diff_omega == "tiny":
                w1 = w0 * (1 + 1e-9)
            else:
                w1 = w0
            dis = float(np.round(rng.uniform(-30, 30), 3))
            phs.append(Phonon([Quantity(w0), Quantity(w1)], [Quantity(0), Quantity(dis)],
                              int(rng.randint(1, 6))))
        dip = [None, 1.0, -0.3, 0][imol % 4]
        mols.append(Mol(Quantity(float(np.round(rng.uniform(-0.1, 0.2), 4))), phs, dip))
    if same_obj and mols:
        mols = [mols[0]] * nmol
    return mols


rng = np.random.RandomState(2024)
cases = []
for nmol in [1, 2, 3, 4, 5]:
    for nph_choices in [(1,), (2, 1), (3, 1, 2)]:
        for diff in ["none", "all", "some", "tiny"]:
            cases.append((nmol, nph_choices, diff))

for nmol, nph_choices, diff in cases:
    mols = make_mols(rng, nmol, nph_choices, diff, same_obj=(nmol == 4 and diff == "none"))
    jq = Quantity(float(np.round(rng.uniform(-0.05, 0.05), 5)), rng.choice(["eV", "a.u.", "cm-1"]))
    jr = rng.uniform(-0.01, 0.01, size=(nmol, nmol))
    jr = np.round(jr + jr.T, 6)
    jc = jr + 1j * np.round(rng.uniform(-0.01, 0.01, size=(nmol, nmol)), 6)
    jz = jr.copy()
    if nmol > 1:
        jz[0, -1] = 0
    for jname, j in [("Q", jq), ("real", jr), ("complex", jc), ("zero-corner", jz)]:
        for scheme in [1, 2, 3, 4, 5, 0, -1, 2.5, 4.0, True, "2", None, np.int64(4)]:
            for periodic in [False, True]:
                if jname in ("complex", "zero-corner") and scheme not in (1, 4, 5):
                    continue
                tag = f"Holstein(nmol={nmol},nph={nph_choices},diff={diff},j={jname},scheme={scheme!r},periodic={periodic})"

                def f():
                    j_in = j.copy() if isinstance(j, np.ndarray) else j
                    mols_in = list(mols)
                    m = HolsteinModel(mols_in, j_in, scheme, periodic)
                    m._src_mols = mols_in
                    lines = model_digest(m)
                    lines.append(("j is input", m.j_matrix is j_in))
                    lines.append(("mols untouched", mols_in == list(mols), len(mols_in)))
                    if isinstance(j, np.ndarray):
                        lines.append(("j untouched", bool(np.array_equal(j_in, j))))
                    h = hashlib.sha1(repr(lines).encode()).hexdigest()[:16]
                    return f"sha={h} nterms={len(m.ham_terms)} basis={m.basis}"
                show(tag, f)

# a few fully printed models
rng = np.random.RandomState(99)
mols = make_mols(rng, 3, (2, 1), "some")
for scheme in [2, 4]:
    m = HolsteinModel(mols, Quantity(0.1, "eV"), scheme=scheme, periodic=True)
    m._src_mols = mols
    for line in model_digest(m):
        print("   ", line)
m = HolsteinModel(mol_list=mols, j_matrix=np.arange(9.).reshape(3, 3) + 1)
m._src_mols = mols
for line in model_digest(m):
    print("   ", line)
m2 = m.switch_scheme(4)
m2._src_mols = mols
print("switch", hashlib.sha1(repr(model_digest(m2)).encode()).hexdigest()[:16])
m3 = m.copy()
m3._src_mols = mols
print("copy", hashlib.sha1(repr(model_digest(m3)).encode()).hexdigest()[:16])

# odd inputs
show("empty mol list", lambda: str(HolsteinModel([], Quantity(1), 2).basis))
show("empty mol list arr", lambda: (lambda m: (str(m.basis), m.ham_terms, m.dipole, m.mol_num))(HolsteinModel([], np.zeros((0, 0)), 4)))
show("empty mol list Q s4", lambda: str(HolsteinModel([], Quantity(1), 4).basis))
show("tuple mol list", lambda: str(HolsteinModel(tuple(mols), Quantity(1), 4).basis))
show("wrong j shape", lambda: HolsteinModel(mols, np.zeros((2, 2)), 2))
show("j list", lambda: str(HolsteinModel(mols, [[0, 1, 1], [1, 0, 1], [1, 1, 0]], 2).basis))
show("j list periodic", lambda: HolsteinModel(mols, [[0, 1, 1], [1, 0, 1], [1, 1, 0]], 2, True))
show("j 1d", lambda: HolsteinModel(mols, np.ones(3), 2))
show("j 1d scheme5", lambda: HolsteinModel(mols, np.ones(3), 5))
show("j periodic zero", lambda: HolsteinModel(mols, np.zeros((3, 3)), 2, True))
show("j periodic zero scheme 7", lambda: HolsteinModel(mols, np.zeros((3, 3)), 7, True))
show("mol without ph_list", lambda: HolsteinModel([object()], Quantity(1), 2))
show("mol without ph_list s4", lambda: HolsteinModel([object()], Quantity(1), 4))
show("mol without ph_list s9", lambda: HolsteinModel([object()], Quantity(1), 9))
print("done")
