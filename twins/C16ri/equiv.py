"""Equivalence check for the C16ri refactoring.

Exercises BasisHalfSpin.op_mat, BasisMultiElectron.op_mat, BasisSineDVR.op_mat
and HolsteinModel.__init__ and prints a deterministic digest.
"""
import logging
import sys
import types

_pt = types.ModuleType("print_tree")
_pt.print_tree = object
sys.modules.setdefault("print_tree", _pt)

import numpy as np

logging.disable(logging.CRITICAL)

from renormalizer.model import Op, Mol, Phonon, HolsteinModel
from renormalizer.model.basis import (
    BasisHalfSpin, BasisMultiElectron, BasisSineDVR, BasisSHO,
    BasisSimpleElectron, BasisMultiElectronVac,
)
from renormalizer.utils import Quantity

np.set_printoptions(precision=10, suppress=False, linewidth=200)


def arr_digest(a):
    a = np.asarray(a)
    flat = a.ravel()
    if np.iscomplexobj(flat):
        vals = [f"{v.real:+.10e}{v.imag:+.10e}j" for v in flat]
    else:
        vals = [f"{float(v):+.10e}" for v in flat]
    return (f"dtype={a.dtype} shape={a.shape} C={a.flags['C_CONTIGUOUS']} "
            f"F={a.flags['F_CONTIGUOUS']} W={a.flags['WRITEABLE']} own={a.flags['OWNDATA']} "
            f"[{' '.join(vals)}]")


def call(label, fn):
    try:
        res = fn()
    except Exception as e:  # noqa
        print(f"{label}: EXC {type(e).__name__}: {e}")
        return None
    if isinstance(res, np.ndarray):
        print(f"{label}: {arr_digest(res)}")
    else:
        print(f"{label}: {res!r}")
    return res


# ---------------------------------------------------------------- half spin
print("=== BasisHalfSpin.op_mat")
half_spin_symbols = [
    "I", "sigma_x", "X", "x", "sigma_y", "Y", "y", "isigma_y", "iY", "iy",
    "sigma_z", "Z", "z", "sigma_-", "-", "sigma_+", "+",
    "X Y", "Y X", "sigma_+ sigma_-", "sigma_- sigma_+", "Z I x", "iY iY",
    "X Y Z", "I I", "sigma_z sigma_z", "+ -", "- + -", "x y z x y z",
    # unsupported / odd ones
    "", "W", "X W", "W X", "sigma_X", "X  Y", " X", "Sigma_x", "b^\\dagger + b", "a", "i",
]
for sigmaqn in [None, [1, -1], [[0, 1], [1, 0]]]:
    b = BasisHalfSpin("spin" if sigmaqn is None else ("s", 1), sigmaqn)
    print(repr(b), b.sigmaqn.tolist())
    for s in half_spin_symbols:
        call(f"hs str {s!r}", lambda: b.op_mat(s))
    for fac in [1.0, -0.25, 2 - 3j, 0.0, 1j]:
        for s in ["I", "X", "Y", "iY", "Z", "sigma_+", "-", "X Y", "sigma_+ sigma_- Z", "Q", "X Q"]:
            call(f"hs op {s!r} fac={fac!r}", lambda: b.op_mat(Op(s, b.dof, fac)))
    # Op with explicit qn and list dofs
    call("hs op qn", lambda: b.op_mat(Op("sigma_+", [b.dof], 0.5, qn=[2])))
    call("hs op multi-dof list", lambda: b.op_mat(Op("X Z", [b.dof, "other"], 1.5)))
    # result must be a fresh writeable array every time
    m1 = b.op_mat("X")
    m1[0, 0] = 99.0
    call("hs fresh X", lambda: b.op_mat("X"))
    m2 = b.op_mat("I")
    m2[0, 1] = 99.0
    call("hs fresh I", lambda: b.op_mat("I"))
    call("hs nonstr", lambda: b.op_mat(3))
    call("hs none", lambda: b.op_mat(None))
# Pauli algebra
b = BasisHalfSpin(0)
X, Y, Z = b.op_mat("X"), b.op_mat("Y"), b.op_mat("Z")
print("pauli XY-iZ", arr_digest(X @ Y - 1j * Z))
print("pauli +-", arr_digest(b.op_mat("+") @ b.op_mat("-") - b.op_mat("+ -")))

# ---------------------------------------------------------------- multi electron
print("=== BasisMultiElectron.op_mat")
me_cases = []
for dof, sigmaqn in [
    (["e0", "e1", "e2"], [0, 1, 1]),
    ([0, 1], [0, 0]),
    ([("a", 0), ("a", 1), ("b", 0), 7], [[0, 0], [1, 0], [0, 1], [1, 1]]),
    (["only"], [1]),
    ((3, 4, 5), [1, 1, 1]),
]:
    b = BasisMultiElectron(dof, sigmaqn)
    print(repr(b), b.dof_name_map)
    d = list(dof)
    d0, d1 = d[0], d[-1]
    dm = d[len(d) // 2]
    ops = [
        ("I", d0), ("I", dm), ("I I", [d0, d1]), ("I I", d0), ("I I I", d0), ("I I I", [d0, d1, dm]),
        ("a^\\dagger a", [d0, d1]), ("a^\\dagger a", [d1, d0]), ("a^\\dagger a", [dm, dm]),
        ("a^\\dagger a", d1), ("a a^\\dagger", [d0, d1]), ("a a^\\dagger", [d1, dm]), ("a a^\\dagger", d0),
        ("a", d0), ("a^\\dagger", d1), ("x", d0), ("", d0), ("a a", [d0, d1]),
        ("a^\\dagger a^\\dagger", [d0, d1]), ("a^\\dagger I", [d0, d1]), ("I a", [d0, d1]),
        ("I a^\\dagger", [d0, d1]), ("a^\\dagger a I", [d0, d1, dm]), ("a^\\dagger a a^\\dagger a", [d0, d1, d1, d0]),
        # unknown dofs -> KeyError must win over ValueError when raised first
        ("a^\\dagger a", ["nope", d0]), ("a^\\dagger a", [d0, "nope"]), ("a^\\dagger a", ["nope1", "nope2"]),
        ("a a", ["nope", d0]), ("x y", [d0, "nope"]), ("x y", [d0, d1]), ("I I", ["nope", "nope2"]),
        ("I", "nope"), ("a", "nope"), ("I x", ["nope", d0]), ("I a", [d0, "nope"]),
    ]
    for sym, dd in ops:
        for fac in [1.0, -0.5, 0.3 + 2j, 0.0]:
            call(f"me {sym!r} {dd!r} fac={fac!r}", lambda: b.op_mat(Op(sym, dd, fac)))
    call("me str", lambda: b.op_mat("I"))
    m = b.op_mat(Op("I", d0))
    m[0, 0] = 5
    call("me fresh I", lambda: b.op_mat(Op("I", d0)))
    m = b.op_mat(Op("a^\\dagger a", [d0, d1]))
    m[0, 0] = 5
    call("me fresh", lambda: b.op_mat(Op("a^\\dagger a", [d0, d1])))
    # map values that are not plain ints
    b2 = BasisMultiElectron(dof, sigmaqn)
    b2.dof_name_map = {k: np.int64(v) for k, v in b2.dof_name_map.items()}
    call("me np.int64 map", lambda: b2.op_mat(Op("a a^\\dagger", [d0, d1], 2.0)))
    b2.dof_name_map = {k: float(v) for k, v in b2.dof_name_map.items()}
    call("me float map", lambda: b2.op_mat(Op("a^\\dagger a", [d1, d0], 2.0)))
    b2.dof_name_map = {k: str(int(v)) for k, v in b2.dof_name_map.items()}
    call("me str map", lambda: b2.op_mat(Op("a^\\dagger a", [d1, d0], 2.0)))
    call("me str map bad sym", lambda: b2.op_mat(Op("a a", [d1, d0], 2.0)))
    b2.dof_name_map = {k: "z" for k in b2.dof_name_map}
    call("me bad map", lambda: b2.op_mat(Op("a^\\dagger a", [d1, d0], 2.0)))
    call("me bad map bad sym", lambda: b2.op_mat(Op("a a", [d1, d0], 2.0)))

# ---------------------------------------------------------------- sine DVR
print("=== BasisSineDVR.op_mat")
sine_symbols = [
    "I", "x", "x^1", "x^2", "x^3", "x x", "x x x", "dx", "partialx", "dx^2", "dx dx", "partialx^2",
    "p", "p^2", "x dx", "x partialx", "x^2 p^2", "x^2 dx^2", "x^2 dx", "x p^2", "x dx^2",
    "x^3 p^2", "x^3 dx^2", "x^3 partialx^2",
    # not analytical
    "x^4", "x x x x", "sin(x)", "dx x", "p x", "x^4 dx", "",
]
rng = np.random.RandomState(2024)
sine_params = [
    dict(nbas=1, xi=-1.0, xf=1.0),
    dict(nbas=2, xi=0.0, xf=np.pi),
    dict(nbas=5, xi=-2.5, xf=3.0, endpoint=True),
    dict(nbas=7, xi=0.3, xf=4.1, dvr=True),
    dict(nbas=4, xi=-1.5, xf=-0.5, dvr=True, endpoint=True),
    dict(nbas=6, xi=float(rng.uniform(-3, 0)), xf=float(rng.uniform(0.5, 3))),
    dict(nbas=3, xi=1, xf=2),  # integer boundaries
]
for kw in sine_params:
    b = BasisSineDVR("q", **kw)
    print(repr(b), b.dvr, b.quadrature, b.L)
    for s in sine_symbols:
        call(f"sine str {s!r}", lambda: b.op_mat(s))
        print("  rec flag", b._recursion_flag)
        b._recursion_flag = 0
    for fac in [-0.5, 2 + 1j, 0.0]:
        for s in ["x", "p^2", "x^2 p^2", "x p^2", "x^3 p^2", "x^3 dx^2", "x^2 dx", "p"]:
            call(f"sine op {s!r} fac={fac!r}", lambda: b.op_mat(Op(s, "q", fac)))
    m = b.op_mat("p^2")
    m[0, 0] = -7
    call("sine fresh p^2", lambda: b.op_mat("p^2"))
    # called while flagged as "under recursion" (no dvr rotation at the end)
    b._recursion_flag = 1
    call("sine nested x p^2", lambda: b.op_mat("x p^2"))
    call("sine nested x^3 dx^2", lambda: b.op_mat("x^3 dx^2"))
    print("  rec flag", b._recursion_flag)
    b._recursion_flag = 0

# ---------------------------------------------------------------- Holstein
print("=== HolsteinModel.__init__")


def ph(omega0, omega1, d, n):
    return Phonon([Quantity(omega0), Quantity(omega1)], [Quantity(0), Quantity(d)], n)


def model_digest(label, fn):
    try:
        m = fn()
    except Exception as e:  # noqa
        print(f"{label}: EXC {type(e).__name__}: {e}")
        return None
    print(f"{label}: scheme={m.scheme!r} mol_num={m.mol_num!r} nsite={m.nsite} qn_size={m.qn_size}")
    print("  basis", [repr(b) for b in m.basis])
    print("  basis types", [type(b).__name__ for b in m.basis])
    print("  basis dofs", [b.dofs for b in m.basis])
    print("  sho", [(b.omega, b.nbas, b.x0, b.dvr) for b in m.basis if isinstance(b, BasisSHO)])
    print("  sigmaqn", [b.sigmaqn.tolist() for b in m.basis])
    print("  output_ordering is basis", m.output_ordering is m.basis)
    print("  pbond", m.pbond_list)
    print("  order", sorted(m.order.items(), key=repr))
    print("  dipole", m.dipole)
    print("  j_matrix", arr_digest(m.j_matrix))
    print("  mol_list is", type(m.mol_list).__name__, len(m.mol_list))
    print("  n ham", len(m.ham_terms))
    for t in m.ham_terms:
        print("   ", t.symbol, t.dofs, f"{t.factor!r}", type(t.factor).__name__, [q.tolist() for q in t.qn_list])
    print("  mpos", m.mpos)
    print("  dofs", m.dofs, m.e_dofs, m.v_dofs)
    return m


rng = np.random.RandomState(7)


def rand_mols(nmol, nph, different_omega=False, same_mol=False, dipoles=None):
    mols = []
    for imol in range(nmol):
        phs = []
        for iph in range(nph if not isinstance(nph, (list, tuple)) else nph[imol]):
            w0 = float(rng.uniform(0.001, 0.01))
            w1 = w0 * float(rng.uniform(0.7, 1.3)) if different_omega and (iph + imol) % 2 == 0 else w0
            phs.append(ph(w0, w1, float(rng.uniform(-30, 30)), int(rng.randint(1, 5))))
        dip = None if dipoles is None else dipoles[imol]
        mols.append(Mol(Quantity(float(rng.uniform(0, 0.1))), phs, dip))
    if same_mol:
        mols = [mols[0]] * nmol
    return mols


def rand_j(n, periodic_ok=True, cplx=False):
    j = rng.uniform(-0.01, 0.01, size=(n, n))
    if cplx:
        j = j + 1j * rng.uniform(-0.01, 0.01, size=(n, n))
    j = j + j.T.conj()
    np.fill_diagonal(j, 0)
    if not periodic_ok and n > 1:
        j[0, -1] = j[-1, 0] = 0
    return j


cases = []
for nmol, nph, diff in [(1, 1, False), (2, 1, True), (3, 2, True), (4, [1, 3, 2, 1], True), (5, 2, False)]:
    mols = rand_mols(nmol, nph, diff, dipoles=[0.1 * i for i in range(nmol)])
    jq = Quantity(float(rng.uniform(0.001, 0.01)))
    jm = rand_j(nmol)
    jm_open = rand_j(nmol, periodic_ok=False)
    for scheme in [1, 2, 3, 4]:
        for periodic in [False, True]:
            if nmol == 1 and periodic:
                # construct_j_matrix on a 1x1 matrix; still deterministic, keep it
                pass
            model_digest(f"H nmol={nmol} nph={nph} s={scheme} p={periodic} Q",
                         lambda: HolsteinModel(mols, jq, scheme, periodic))
            model_digest(f"H nmol={nmol} nph={nph} s={scheme} p={periodic} M",
                         lambda: HolsteinModel(mols, jm, scheme=scheme, periodic=periodic))
            model_digest(f"H nmol={nmol} nph={nph} s={scheme} p={periodic} Mopen",
                         lambda: HolsteinModel(mols, jm_open, scheme=scheme, periodic=periodic))

mols = rand_mols(3, 2, True)
jm = rand_j(3, cplx=True)
model_digest("H complex J s=2", lambda: HolsteinModel(mols, jm, 2))
model_digest("H complex J s=4", lambda: HolsteinModel(mols, jm, 4))
model_digest("H default scheme", lambda: HolsteinModel(mols, Quantity(0.01)))
model_digest("H J=0", lambda: HolsteinModel(mols, Quantity(0), 4))
model_digest("H J unit", lambda: HolsteinModel(mols, Quantity(100, "meV"), 3, True))
# odd schemes
for scheme in [0, -1, 3.5, 4.0, 5, 4.5, 100, True, None, "4", np.int64(4), float("nan")]:
    model_digest(f"H scheme={scheme!r}", lambda: HolsteinModel(mols, jm.real, scheme))
# wrong shapes
model_digest("H wrong shape", lambda: HolsteinModel(mols, rand_j(4), 2))
model_digest("H wrong shape s4", lambda: HolsteinModel(mols, rand_j(2), 4))
model_digest("H list j", lambda: HolsteinModel(mols, rand_j(3).tolist(), 2))
model_digest("H list j periodic", lambda: HolsteinModel(mols, rand_j(3).tolist(), 2, True))
# tuple mol_list, shared molecules, a model as mol_list
model_digest("H tuple mols", lambda: HolsteinModel(tuple(mols), jm.real, 4))
same = rand_mols(4, 2, True, same_mol=True)
model_digest("H same mols s1", lambda: HolsteinModel(same, Quantity(0.003), 1, True))
model_digest("H same mols s4", lambda: HolsteinModel(same, Quantity(0.003), 4, True))
base = HolsteinModel(mols, jm.real, 2)
model_digest("H model as mol_list s4", lambda: HolsteinModel(base, jm.real, 4))
model_digest("H model as mol_list s3", lambda: HolsteinModel(base, Quantity(0.002), 3, True))
model_digest("H switch_scheme", lambda: base.switch_scheme(4))
model_digest("H copy", lambda: base.copy())
# empty molecule list
model_digest("H empty s2", lambda: HolsteinModel([], np.zeros((0, 0)), 2))
model_digest("H empty s4", lambda: HolsteinModel([], np.zeros((0, 0)), 4))
model_digest("H empty s4 Q", lambda: HolsteinModel([], Quantity(0.1), 4))
# broken phonons: errors raised during construction
bad = rand_mols(2, 2, True)
bad[1].ph_list[1].n_phys_dim = 2.0
model_digest("H bad nbas s2", lambda: HolsteinModel(bad, Quantity(0.002), 2))
model_digest("H bad nbas s4", lambda: HolsteinModel(bad, Quantity(0.002), 4))
bad = rand_mols(2, 2, True)
bad[0].ph_list[0].dis = [0.0]
model_digest("H bad dis s2", lambda: HolsteinModel(bad, Quantity(0.002), 2))
bad[0].ph_list[0].omega = [bad[0].ph_list[0].omega[0]]
model_digest("H bad omega s4", lambda: HolsteinModel(bad, Quantity(0.002), 4))
bad = rand_mols(2, 1)
bad[1].ph_list = []
model_digest("H mol without phonons s2", lambda: HolsteinModel(bad, Quantity(0.002), 2))
model_digest("H mol without phonons s4", lambda: HolsteinModel(bad, Quantity(0.002), 4))
bad = rand_mols(3, 1)
bad[0].ph_list = []
model_digest("H first mol without phonons s4", lambda: HolsteinModel(bad, Quantity(0.002), 4))
bad = rand_mols(2, 1)
bad[0].ph_list = iter(bad[0].ph_list)  # one-shot iterable
model_digest("H iterator ph_list s2", lambda: HolsteinModel(bad, Quantity(0.002), 2))
bad = rand_mols(2, 1)
bad[0].ph_list = iter(bad[0].ph_list)
model_digest("H iterator ph_list s4", lambda: HolsteinModel(bad, Quantity(0.002), 4))

# dense Hamiltonian of a small model in all schemes (uses op_mat of all the bases)
print("=== dense MPO")
try:
    from renormalizer.mps import Mpo
    mols = rand_mols(3, [1, 2, 1], True)
    jm = rand_j(3)
    for scheme in [1, 2, 3, 4]:
        m = HolsteinModel(mols, jm, scheme)
        mpo = Mpo(m)
        dense = mpo.todense()
        ev = np.linalg.eigvalsh(dense)
        print(f"scheme {scheme} dense shape {dense.shape} trace {np.trace(dense):+.8e} "
              f"fro {np.linalg.norm(dense):.8e} ev0 {ev[0]:+.8e} ev-1 {ev[-1]:+.8e}")
except Exception as e:  # noqa
    print("dense MPO: EXC", type(e).__name__, e)
print("done")
