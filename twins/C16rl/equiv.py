"""Equivalence digest for the C16rl refactoring.

Exercises BasisSineDVR.__init__, BasisMultiElectronVac.op_mat,
HolsteinModel.__init__ and Phonon.reorganization_energy (+ Mol.e0).
"""
import hashlib

import numpy as np

from renormalizer.model import Op, Mol, Phonon, HolsteinModel
from renormalizer.model.basis import BasisSineDVR, BasisMultiElectronVac
from renormalizer.utils import Quantity


def arr_digest(a):
    a = np.asarray(a)
    h = hashlib.sha256(np.ascontiguousarray(a).tobytes()).hexdigest()[:16]
    return f"{a.dtype}{a.shape}:{h}"


def attempt(label, fn):
    try:
        res = fn()
    except Exception as e:  # noqa
        print(label, "EXC", type(e).__name__, str(e))
    else:
        print(label, res)


# ---------------------------------------------------------------- SineDVR
def sine_dvr(dof, nbas, xi, xf, **kw):
    b = BasisSineDVR(dof, nbas, xi, xf, **kw)
    keys = sorted(b.__dict__)
    out = [str(keys), repr(b.xi), repr(b.xf), repr(b.L), b.nbas, b.dof,
           arr_digest(b.sigmaqn), arr_digest(b.dvr_x), arr_digest(b.dvr_v),
           repr(b.quadrature), repr(b.dvr), b._recursion_flag, str(b),
           type(b.xi).__name__, type(b.L).__name__]
    # a couple of derived matrices
    for sym in ["I", "x", "x^2", "dx", "dx^2", "p^2", "x dx"]:
        out.append(sym + "=" + arr_digest(b.op_mat(sym)))
    return out


rng = np.random.RandomState(2024)
print("== BasisSineDVR.__init__")
cases = [
    ("a", 1, 0.0, 1.0, {}),
    ("a", 2, -1.0, 1.0, {"endpoint": True}),
    (("v", 3), 5, -2.5, 3.5, {}),
    (("v", 3), 5, -2.5, 3.5, {"endpoint": True}),
    (0, 7, 0, 3, {"endpoint": True, "dvr": True}),
    (0, 7, 0, 3, {"quadrature": True}),
    (0, 16, np.float64(-np.pi), np.float64(np.pi), {"endpoint": True, "dvr": True}),
    (0, 4, np.float32(0.5), np.float32(1.5), {}),
    ("z", 0, 0.0, 1.0, {}),
]
for _ in range(6):
    n = int(rng.randint(1, 24))
    xi = float(rng.uniform(-5, 5))
    xf = xi + float(rng.uniform(0.1, 10))
    cases.append((("r", n), n, xi, xf, {"endpoint": bool(rng.randint(2)), "dvr": bool(rng.randint(2))}))
for i, (dof, nbas, xi, xf, kw) in enumerate(cases):
    attempt(f"sine[{i}]", lambda: sine_dvr(dof, nbas, xi, xf, **kw))
# failure modes
attempt("sine-bad-order", lambda: sine_dvr("a", 3, 1.0, 0.0))
attempt("sine-equal", lambda: sine_dvr("a", 3, 1.0, 1.0, endpoint=True))
attempt("sine-nbas1-endpoint", lambda: sine_dvr("a", 1, 0.0, 1.0, endpoint=True))
attempt("sine-nbas1-endpoint-np", lambda: sine_dvr("a", 1, np.float64(0.0), np.float64(1.0), endpoint=True))
attempt("sine-nbas-float", lambda: sine_dvr("a", 3.0, 0.0, 1.0))
attempt("sine-nbas-npint", lambda: sine_dvr("a", np.int64(3), 0.0, 1.0))
attempt("sine-nbas-neg", lambda: sine_dvr("a", -1, 0.0, 1.0))
attempt("sine-nbas-str", lambda: sine_dvr("a", "3", 0.0, 1.0))

# ------------------------------------------------------- MultiElectronVac
print("== BasisMultiElectronVac.op_mat")


def vac_mat(b, op):
    m = b.op_mat(op)
    return arr_digest(m) + " nz=" + repr([(int(i), int(j), complex(m[i, j])) for i, j in zip(*np.nonzero(m))])


dof_sets = [[0], ["e1", "e2"], list(range(4)), [("e", 0), ("e", 1), ("e", 2)], []]
factors = [1.0, -0.5, 2, 0.3 - 1.2j, np.float64(1.5), 0.0]
for ds in dof_sets:
    b = BasisMultiElectronVac(ds)
    print("vac dofs", ds, b.nbas, b.sigmaqn.tolist(), sorted(b.dof_name_map.items(), key=repr))
    probe = list(ds) + ["missing"]
    k = 0
    for sym in ["I", "a", r"a^\dagger", "x", "", "sigma_z"]:
        for d in probe:
            f = factors[k % len(factors)]
            k += 1
            attempt(f"vac1 {ds!r} {sym!r} {d!r} {f!r}", lambda: vac_mat(b, Op(sym, d, f)))
    for sym in [r"a^\dagger a", r"a a^\dagger", "I I", "a a", r"a^\dagger a^\dagger", "I a", r"a^\dagger I", "x x"]:
        for d1 in probe:
            for d2 in probe:
                f = factors[k % len(factors)]
                k += 1
                attempt(f"vac2 {ds!r} {sym!r} {d1!r},{d2!r} {f!r}", lambda: vac_mat(b, Op(sym, [d1, d2], f)))
        if ds:
            # shared dof name (non-list)
            attempt(f"vac2s {ds!r} {sym!r}", lambda: vac_mat(b, Op(sym, ds[-1], 0.7)))
    for sym in ["I I I", r"a^\dagger a I", "I I I I", r"a^\dagger a a^\dagger a", "I I a"]:
        n = len(sym.split(" "))
        for d in probe[-2:]:
            attempt(f"vac3 {ds!r} {sym!r} {d!r}", lambda: vac_mat(b, Op(sym, [d] * n, -2.5 + 1j)))
    # does not mutate the op
    if ds:
        op = Op(r"a^\dagger a", [ds[0], ds[-1]], 3.0)
        before = (op.symbol, list(op.split_symbol), list(op.dofs), op.factor, list(op.qn_list))
        b.op_mat(op)
        after = (op.symbol, list(op.split_symbol), list(op.dofs), op.factor, list(op.qn_list))
        print("vac op unchanged", before == after)
        # fresh matrices each call
        m1 = b.op_mat(Op("I", ds[0]))
        m1[0, 0] = 99
        print("vac fresh", b.op_mat(Op("I", ds[0]))[0, 0])

# ----------------------------------------------------- Phonon / Mol.e0
print("== Phonon.reorganization_energy / Mol.e0")
ph_cases = []
for _ in range(8):
    w0 = Quantity(float(rng.uniform(100, 3000)), "cm-1")
    w1 = Quantity(float(rng.uniform(100, 3000)), "cm-1")
    d0 = Quantity(float(rng.uniform(-3, 3)))
    d1 = Quantity(float(rng.uniform(-30, 30)))
    ph_cases.append(Phonon([w0, w1], [d0, d1], int(rng.randint(2, 8))))
ph_cases.append(Phonon.simple_phonon(Quantity(0.01), Quantity(0), 3))
ph_cases.append(Phonon.simple_phonon(Quantity(1400, "cm-1"), Quantity(7.5), 4))
ph_cases.append(Phonon([Quantity(1), Quantity(2), Quantity(3)], [Quantity(1), Quantity(2), Quantity(3)], 2))
for i, ph in enumerate(ph_cases):
    re = ph.reorganization_energy
    print(f"ph[{i}]", type(re).__name__, repr(re.value), repr(re.unit), repr(re.as_au()),
          repr(ph.e0.as_au()), type(re.value).__name__, repr(ph.coupling_constant),
          re is ph.reorganization_energy, sorted(ph.__dict__))
attempt("ph-short", lambda: Phonon([Quantity(1)], [Quantity(1)], 2).reorganization_energy)
attempt("ph-np", lambda: repr(Phonon([Quantity(np.float32(1.5)), Quantity(np.float32(2.5))],
                                     [Quantity(np.float32(0.1)), Quantity(np.float32(0.7))], 2).reorganization_energy.as_au()))
for n in [1, 2, 5]:
    mol = Mol(Quantity(2.1, "eV"), ph_cases[:n], dipole=0.3)
    print(f"mol[{n}]", repr(mol.e0), type(mol.e0).__name__, repr(mol.reorganization_energy), repr(mol.gs_zpe), repr(mol.ex_zpe))
attempt("mol-empty", lambda: Mol(Quantity(0), []))

# -------------------------------------------------------- HolsteinModel
print("== HolsteinModel.__init__")


def op_repr(op):
    return (op.symbol, tuple(op.dofs), repr(op.factor), type(op.factor).__name__, tuple(map(repr, op.qn_list)))


def model_digest(m):
    out = []
    out.append(("attrs", sorted(m.__dict__)))
    out.append(("scheme", m.scheme, "mol_num", m.mol_num, "nsite", m.nsite))
    out.append(("j", arr_digest(m.j_matrix), repr(np.asarray(m.j_matrix).tolist())))
    out.append(("basis", [(type(b).__name__, repr(b.dof), b.nbas, b.sigmaqn.tolist(),
                           repr(getattr(b, "omega", None)), repr(getattr(b, "x0", None))) for b in m.basis]))
    out.append(("ham", [op_repr(op) for op in m.ham_terms]))
    out.append(("dipole", sorted(m.dipole.items()) if m.dipole is not None else None))
    out.append(("same_list", m.mol_list is not None, len(m)))
    out.append(("dofs", repr(m.dofs), repr(m.e_dofs), repr(m.v_dofs)))
    out.append(("gs_zpe", repr(m.gs_zpe)))
    return out


def make_mols(nmol, nph, same_omega, rs):
    mols = []
    for i in range(nmol):
        phs = []
        for j in range(nph if isinstance(nph, int) else nph[i]):
            w0 = float(rs.uniform(200, 2000))
            w1 = w0 if same_omega else float(rs.uniform(200, 2000))
            phs.append(Phonon([Quantity(w0, "cm-1"), Quantity(w1, "cm-1")],
                              [Quantity(0), Quantity(float(rs.uniform(-20, 20)))], int(rs.randint(2, 6))))
        mols.append(Mol(Quantity(float(rs.uniform(1, 3)), "eV"), phs, dipole=[None, 1.0, -0.3][i % 3]))
    return mols


rs = np.random.RandomState(7)
configs = [
    (1, 1, True), (1, 2, False), (2, 1, True), (3, 2, False), (4, [1, 3, 2, 1], False),
    (5, [2, 1, 1, 3, 1], True), (6, 1, False),
]
for ic, (nmol, nph, same) in enumerate(configs):
    mols = make_mols(nmol, nph, same, rs)
    for scheme in [1, 2, 3, 4]:
        for periodic in [False, True]:
            attempt(f"hol[{ic}] Q s{scheme} p{periodic}",
                    lambda: model_digest(HolsteinModel(mols, Quantity(0.05, "eV"), scheme=scheme, periodic=periodic)))
    jm = rs.uniform(-1, 1, size=(nmol, nmol))
    jm = jm + jm.T
    for scheme in [2, 4]:
        for periodic in [False, True]:
            attempt(f"hol[{ic}] M s{scheme} p{periodic}",
                    lambda: model_digest(HolsteinModel(mols, jm, scheme=scheme, periodic=periodic)))
    jz = jm.copy()
    jz[0, -1] = 0
    attempt(f"hol[{ic}] Mz periodic", lambda: model_digest(HolsteinModel(mols, jz, scheme=4, periodic=True)))
    attempt(f"hol[{ic}] tuple", lambda: model_digest(HolsteinModel(tuple(mols), jm, scheme=4)))
    attempt(f"hol[{ic}] complexJ", lambda: model_digest(HolsteinModel(mols, jm * (1 + 0.5j), scheme=3)))
    for bad in [0, 5, -1, 4.0, 3.5, 4.5]:
        attempt(f"hol[{ic}] scheme {bad!r}", lambda: model_digest(HolsteinModel(mols, jm, scheme=bad))[1:3])
    attempt(f"hol[{ic}] badshape", lambda: model_digest(HolsteinModel(mols, np.zeros((nmol + 1, nmol + 1)))))
    attempt(f"hol[{ic}] list-j", lambda: model_digest(HolsteinModel(mols, jm.tolist())))
    # model used as its own mol_list, switch_scheme and copy
    m = HolsteinModel(mols, jm, scheme=2)
    attempt(f"hol[{ic}] nested", lambda: model_digest(HolsteinModel(m, jm, scheme=4)))
    attempt(f"hol[{ic}] switch", lambda: model_digest(m.switch_scheme(4)))
    attempt(f"hol[{ic}] copy", lambda: model_digest(m.copy()))
attempt("hol empty", lambda: model_digest(HolsteinModel([], np.zeros((0, 0)), scheme=4)))
attempt("hol emptyQ", lambda: model_digest(HolsteinModel([], Quantity(1.0), scheme=2)))
