"""Equivalence digest for the C17 refactoring (qc_model, table_row_swapped_jw,
swap_site, Mpo.try_swap_site).  Deterministic output."""
import hashlib
import logging
import random

import numpy as np

from renormalizer.model import Model, h_qc
from renormalizer.model.op import Op
from renormalizer.model.basis import BasisHalfSpin, BasisSHO
from renormalizer.mps import Mpo
from renormalizer.mps import symbolic_mpo as smpo

logging.disable(logging.CRITICAL)


def arr_digest(a):
    a = np.asarray(a)
    if np.iscomplexobj(a):
        b = np.round(np.stack([a.real, a.imag]), 8) + 0.0
    else:
        b = np.round(a.astype(float), 8) + 0.0
    h = hashlib.md5(np.ascontiguousarray(b).tobytes()).hexdigest()[:12]
    return f"{a.dtype}{a.shape}:{h}:{np.round(np.abs(a).sum(), 6)}"


def op_digest(op):
    return repr(op.to_tuple())


def terms_digest(terms):
    if len(terms) > 0 and isinstance(terms[0], list):
        return [terms_digest(t) for t in terms]
    s = "|".join(op_digest(t) for t in terms)
    return f"n={len(terms)}:{hashlib.md5(s.encode()).hexdigest()[:12]}"


def mpo_digest(mpo, dense=True):
    out = []
    out.append("shapes " + str([tuple(m.shape) for m in mpo]))
    out.append("dtype " + str(mpo.dtype) + " " + str([str(m.dtype) for m in mpo]))
    out.append("qn " + str([np.asarray(q).tolist() for q in mpo.qn]))
    out.append("qntot " + str(np.asarray(mpo.qntot).tolist()) + " qnidx " + str(mpo.qnidx))
    out.append("mats " + str([arr_digest(np.asarray(m.array)) for m in mpo]))
    out.append("nprimary " + str(len(mpo.primary_ops)))
    s = "|".join(op_digest(o) for o in mpo.primary_ops)
    out.append("primary " + hashlib.md5(s.encode()).hexdigest()[:12])
    s = repr([[[(t.symbol, np.asarray(t.qn).tolist(), complex(np.round(t.factor, 9)) + 0.0) for t in ol] for ol in oo]
              for oo in mpo.symbolic_out_ops_list])
    out.append("outops " + hashlib.md5(s.encode()).hexdigest()[:12])
    out.append("dofs " + str([b.dofs for b in mpo.model.basis]))
    if dense:
        d = mpo.todense()
        out.append("dense " + arr_digest(d))
        out.append("evals " + arr_digest(np.linalg.eigvalsh((d + d.conj().T) / 2)))
    return "\n    ".join(out)


def random_integrals(rng, nspatial, kind):
    h = rng.standard_normal((nspatial, nspatial))
    h = h + h.T
    eri = rng.standard_normal((nspatial,) * 4)
    eri = eri + eri.transpose(1, 0, 2, 3)
    eri = eri + eri.transpose(0, 1, 3, 2)
    eri = eri + eri.transpose(2, 3, 0, 1)
    if kind == "sparse":
        h[np.abs(h) < 1.0] = 0
        eri[np.abs(eri) < 4.0] = 0
    elif kind == "no2e":
        eri[:] = 0
    elif kind == "no1e":
        h[:] = 0
    elif kind == "block":
        h[0, :] = 0
        h[:, 0] = 0
        eri[0] = 0
        eri[:, 0] = 0
        eri[:, :, 0] = 0
        eri[:, :, :, 0] = 0
    elif kind == "zero":
        h[:] = 0
        eri[:] = 0
    return h_qc.int_to_h(h, eri)


def section(name):
    print("=" * 10, name)


# ---------------------------------------------------------------- qc_model
section("qc_model")
rng = np.random.default_rng(1234)
qc_cases = []
for nspatial in (1, 2, 3):
    for kind in ("dense", "sparse", "no2e", "no1e", "block", "zero"):
        sh, aseri = random_integrals(rng, nspatial, kind)
        for stacked in (False, True, 0, 1, None):
            for conserve_qn in (True, False):
                try:
                    basis, terms = h_qc.qc_model(sh, aseri, stacked, conserve_qn)
                except Exception as e:  # noqa
                    print(nspatial, kind, stacked, conserve_qn, "EXC", type(e).__name__, e)
                    continue
                bd = [(b.dofs, b.nbas, np.asarray(b.sigmaqn).tolist()) for b in basis]
                print(nspatial, kind, repr(stacked), conserve_qn, "basis", bd)
                print("   terms", terms_digest(terms))
                if nspatial <= 2 and stacked is False and len(terms) > 0:
                    mpo = Mpo(Model(basis, terms))
                    print("   mpo", arr_digest(mpo.todense()))
# complex "integrals", keyword calling convention
sh, aseri = random_integrals(rng, 2, "dense")
shc = sh * (1 + 0.5j)
asc = aseri * (0.3 - 1j)
for stacked in (False, True):
    basis, terms = h_qc.qc_model(h1e=shc, h2e=asc, stacked=stacked, conserve_qn=True)
    print("complex", stacked, terms_digest(terms))
# bad shapes -> assertion
for bad in [(np.zeros((2, 3)), np.zeros((2, 2, 2, 2))), (np.zeros((2, 2)), np.zeros((2, 2, 2, 3)))]:
    try:
        h_qc.qc_model(*bad)
        print("no exception")
    except Exception as e:  # noqa
        print("bad shape EXC", type(e).__name__)

# ---------------------------------------------------------------- table_row_swapped_jw
section("table_row_swapped_jw")


def jw_primary_ops(long_names, qn_size):
    def q(v):
        if qn_size == 1:
            return v[0]
        return list(v)
    plus, minus, z = ("sigma_+", "sigma_-", "sigma_z") if long_names else ("+", "-", "Z")
    ops = []
    for dof in (0, 1):
        up = [-1, 0] if dof == 0 else [0, -1]
        dn = [1, 0] if dof == 0 else [0, 1]
        zero = [0, 0]
        ops.append(Op.identity(dof, qn_size=qn_size))
        ops.append(Op(plus, dof, qn=[q(up)]))
        ops.append(Op(minus, dof, qn=[q(dn)]))
        ops.append(Op(z, dof, qn=[q(zero)]))
        ops.append(Op(f"{z} {plus}", [dof, dof], qn=[q(zero), q(up)]))
        ops.append(Op(f"{z} {minus}", [dof, dof], qn=[q(zero), q(dn)]))
        ops.append(Op(f"{plus} {minus}", [dof, dof], qn=[q(up), q(dn)]))
        ops.append(Op(f"{minus} {plus}", [dof, dof], qn=[q(dn), q(up)]))
        ops.append(Op(f"{z} {plus} {minus}", [dof, dof, dof], qn=[q(zero), q(up), q(dn)]))
    return ops


for long_names in (False, True):
    for qn_size in (1, 2):
        pops = jw_primary_ops(long_names, qn_size)
        n = len(pops) // 2
        op2idx = {op: i for i, op in enumerate(pops)}
        for i1 in range(n):
            for i2 in range(n, 2 * n):
                row = [3, i1, i2, 7, 0]
                new_row, coeff = smpo.table_row_swapped_jw(row, pops, op2idx)
                print(long_names, qn_size, row, "->", new_row, coeff, len(pops))
        print("final primary", [op_digest(o) for o in pops])
        print("op2idx", sorted((op_digest(k), v) for k, v in op2idx.items()))
        # also with numpy rows, like the caller passes
        table = np.array([[0, i1, i2, 5 + i1, 0] for i1 in range(n) for i2 in range(n, 2 * n)])
        factor = np.arange(len(table)) * (1 + 0.5j) + 1
        pops2 = jw_primary_ops(long_names, qn_size)
        t2, f2 = smpo.table_and_factor_swapped_jw(table, factor, pops2)
        print("table", arr_digest(t2), arr_digest(f2), len(pops2))

# error paths
pops = jw_primary_ops(False, 2)
op2idx = {op: i for i, op in enumerate(pops)}
bad_rows = [[0, 1, 10, 0], [0, 1, 10, 0, 1], [0, 100, 10, 0, 0]]
pops.append(Op("+ +", [0, 0], qn=[[-1, 0], [-1, 0]]))
pops.append(Op("x", 1, qn=[[0, 0]]))
pops.append(Op("x +", [1, 1], qn=[[0, 0], [0, -1]]))
bad_rows += [[0, len(pops) - 3, 10, 0, 0], [0, 1, len(pops) - 2, 0, 0], [0, 1, len(pops) - 1, 0, 0],
             [0, 3, len(pops) - 2, 0, 0]]
for row in bad_rows:
    before = len(pops)
    try:
        r = smpo.table_row_swapped_jw(row, pops, op2idx)
        print(row, "OK", r, len(pops) - before)
    except Exception as e:  # noqa
        print(row, "EXC", type(e).__name__, len(pops) - before)


# ---------------------------------------------------------------- swap_site / try_swap_site
section("swap_site / try_swap_site")


def run_swaps(name, basis, ham_terms, swap_jw, algo, swaps, dense=True, fresh_terms=None):
    model = Model(basis, ham_terms)
    mpo = Mpo(model, algo=algo)
    print(name, "swap_jw", swap_jw, algo, "initial")
    print("    " + mpo_digest(mpo, dense))
    for isite1 in swaps:
        basis = basis.copy()
        basis[isite1], basis[isite1 + 1] = basis[isite1 + 1], basis[isite1]
        new_model = Model(basis, ham_terms)
        new_model.mpos["dummy"] = 1
        primary_id = id(mpo.primary_ops)
        # direct call to swap_site on copies first (must not disturb mpo when swap_jw False)
        pcopy = list(mpo.primary_ops)
        out_list = [[list(ol) for ol in oo] for oo in mpo.symbolic_out_ops_list[isite1:isite1 + 3]]
        res = smpo.swap_site(out_list, pcopy, swap_jw, algo=algo)
        print(name, "direct swap_site", isite1, "len", len(res), "qn", np.asarray(res[4]).tolist(),
              "nprimary", len(pcopy),
              "mo shapes", [(len(mo), len(mo[0])) for mo in res[2:4]])
        ret = mpo.try_swap_site(new_model, swap_jw, algo=algo)
        print(name, "swap", isite1, "ret", ret, "same primary list", primary_id == id(mpo.primary_ops),
              "model is new", mpo.model is new_model, "mpos cleared", len(new_model.mpos))
        print("    " + mpo_digest(mpo, dense))
    # no-op swap
    same_model = Model(basis, ham_terms)
    same_model.mpos["dummy"] = 1
    ret = mpo.try_swap_site(same_model, swap_jw, algo=algo)
    print(name, "noop ret", ret, "model replaced", mpo.model is same_model, "mpos kept", len(same_model.mpos))
    return mpo, basis


# 1. random spin model as in the test-suite, real and complex coefficients
random.seed(7)
for cplx in (False, True):
    for algo in ("Hopcroft-Karp", "qr"):
        nsites = 5
        terms = []
        for i in range(40):
            op_list = [Op(random.choice(["sigma_+", "sigma_-", "sigma_z"]), j) for j in range(nsites)]
            f = random.random()
            if cplx:
                f = f * (1 + 0.7j)
            terms.append(Op.product(op_list) * f)
        basis = [BasisHalfSpin(i) for i in range(nsites)]
        swaps = [0, 3, 2, 2, 1, 0, 3]
        run_swaps(f"spin cplx={cplx}", basis, terms, False, algo, swaps)

# 2. ab initio models, with and without JW swap, with and without qn
rng = np.random.default_rng(99)
for nspatial, kind in ((1, "dense"), (2, "dense"), (2, "sparse"), (3, "sparse"), (2, "block")):
    sh, aseri = random_integrals(rng, nspatial, kind)
    for conserve_qn in (True, False):
        basis, terms = h_qc.qc_model(sh, aseri, stacked=False, conserve_qn=conserve_qn)
        if not terms:
            continue
        n = len(basis)
        r = random.Random(nspatial * 10 + conserve_qn)
        swaps = [r.randrange(n - 1) for _ in range(6)]
        for swap_jw in (True, False):
            for algo in ("Hopcroft-Karp", "qr"):
                run_swaps(f"qc n={nspatial} {kind} qn={conserve_qn}", basis, terms, swap_jw, algo, swaps)

# 3. vibronic style model: spin + boson
terms = [Op("sigma_z", "s", 0.5), Op("sigma_x", "s", 0.3),
         Op("b^\\dagger b", "v0", 1.1), Op("b^\\dagger b", "v1", 0.7),
         Op("sigma_z", "s") * Op("x", "v0") * 0.2, Op("sigma_z", "s") * Op("x", "v1") * 0.15,
         Op("x", "v0") * Op("x", "v1") * 0.05]
basis = [BasisSHO("v0", 1.1, 3), BasisHalfSpin("s"), BasisSHO("v1", 0.7, 4)]
for algo in ("Hopcroft-Karp", "qr"):
    run_swaps("vibronic", basis, terms, False, algo, [0, 1, 0, 1, 1])

# 4. error paths of try_swap_site
basis = [BasisHalfSpin(i) for i in range(4)]
terms = [Op("sigma_z", 0) * Op("sigma_x", 1), Op("sigma_x", 2) * Op("sigma_z", 3) * 0.3, Op("sigma_z", 1) * Op("sigma_z", 2)]
mpo = Mpo(Model(basis, terms))
for perm in ([2, 1, 0, 3], [1, 2, 0, 3], [1, 0, 3, 2], [0, 1, 3, 2]):
    new_model = Model([basis[i] for i in perm], terms)
    new_model.mpos["dummy"] = 1
    try:
        ret = mpo.try_swap_site(new_model, False)
        print(perm, "OK", ret, arr_digest(mpo.todense()), len(new_model.mpos))
    except Exception as e:  # noqa
        print(perm, "EXC", type(e).__name__, mpo.model is new_model, len(new_model.mpos))
# shorter new model (zip truncation)
new_model = Model(basis[:3], terms[:1])
try:
    print("short", mpo.try_swap_site(new_model, False))
except Exception as e:  # noqa
    print("short EXC", type(e).__name__, mpo.model is new_model)
