# Equivalence check for the C17rd refactoring.
# Exercises table_row_swapped_jw, swap_site, Mpo.try_swap_site and
# MatrixProduct._update_mps (the state-side on-the-fly swap) and prints a
# deterministic digest.
import sys, types
_pt = types.ModuleType("print_tree"); _pt.print_tree = object; sys.modules.setdefault("print_tree", _pt)

import copy
import itertools
import logging
import random

import numpy as np

logging.disable(logging.CRITICAL)

from renormalizer.model import Model, Op, h_qc
from renormalizer.model.basis import BasisHalfSpin, BasisSHO, BasisMultiElectron
from renormalizer.mps import Mpo, Mps
from renormalizer.mps.gs import optimize_mps
from renormalizer.mps import symbolic_mpo as smpo
from renormalizer.mps.symbolic_mpo import table_row_swapped_jw, table_and_factor_swapped_jw, swap_site
from renormalizer.utils import CompressConfig, CompressCriteria, EvolveConfig, EvolveMethod, OFS


def r(x, nd=7):
    a = np.asarray(x)
    if np.iscomplexobj(a):
        a = np.round(a.real, nd) + 1j * np.round(a.imag, nd)
    else:
        a = np.round(a.astype(float), nd)
    a = a + 0.0  # kill negative zeros
    return a.tolist()


def digest_array(name, a, nd=7):
    a = np.asarray(a)
    print(name, a.shape, str(a.dtype), r(np.abs(a).sum(), nd), r(a.ravel()[:6], nd),
          r((a.ravel() * np.cos(np.arange(a.size))).sum(), nd))


def fmt_ops(ops):
    return [repr(o) for o in ops]


def fmt_out_ops(out_ops):
    res = []
    for sum_list in out_ops:
        res.append([(tuple(int(s) for s in o.symbol), r(o.qn), r(o.factor, 9)) for o in sum_list])
    return res


def fmt_mo(mo):
    res = []
    for idx, terms in np.ndenumerate(mo):
        res.append((idx, [(t.symbol, list(t.dofs), r(t.factor, 9), [q.tolist() for q in t.qn_list]) for t in terms]))
    return res


####################################################################
print("=== A. table_row_swapped_jw ===")


def make_primary_ops(qn_size, nonzero_qn):
    def qn(k, sign):
        if not nonzero_qn:
            return [np.zeros(qn_size, dtype=int) for _ in range(k)]
        res = []
        for i in range(k):
            q = np.zeros(qn_size, dtype=int)
            q[i % qn_size] = sign
            res.append(q)
        return res
    ops = []
    for d in ["a", "b"]:
        ops.extend([
            Op("I", d, qn=qn(1, 0)),
            Op("sigma_z", d, qn=qn(1, 0)),
            Op("Z", d, qn=qn(1, 0)),
            Op("z", d, qn=qn(1, 0)),
            Op("sigma_+", d, qn=qn(1, -1)),
            Op("+", d, qn=qn(1, -1)),
            Op("sigma_-", d, qn=qn(1, 1)),
            Op("-", d, qn=qn(1, 1)),
            Op("sigma_z sigma_+", d, qn=qn(2, -1)),
            Op("Z -", d, qn=qn(2, 1)),
            Op("Z Z", d, qn=qn(2, 0)),
            Op("+ -", d, qn=qn(2, 1)),
            Op("- +", d, qn=qn(2, -1)),
            Op("sigma_z sigma_+ sigma_-", d, qn=qn(3, 1)),
            # unusual ones that trigger assertions
            Op("+ +", d, qn=qn(2, -1)),
            Op("- - +", d, qn=qn(3, 1)),
            Op("I I", d, qn=qn(2, 0)),
            Op("X", d, qn=qn(1, 0)),
            Op("X +", d, qn=qn(2, 0)),
            Op("I +", d, qn=qn(2, 0)),
        ])
    return ops


for qn_size, nonzero_qn in [(1, False), (1, True), (2, True)]:
    base_ops = make_primary_ops(qn_size, nonzero_qn)
    n = len(base_ops)
    # independent calls
    for i, j in itertools.product(range(n), repeat=2):
        primary_ops = list(base_ops)
        op2idx = {op: k for k, op in enumerate(primary_ops)}
        row = np.array([3, i, j, n + 5, 0])
        try:
            new_row, coeff = table_row_swapped_jw(row, primary_ops, op2idx)
            out = ([int(x) for x in new_row], [type(x).__name__ for x in new_row], coeff, type(coeff).__name__)
        except AssertionError:
            out = "AssertionError"
        print(qn_size, nonzero_qn, i, j, out, fmt_ops(primary_ops[n:]),
              sorted((repr(k), v) for k, v in op2idx.items() if v >= n), len(op2idx))
    # accumulated calls (shared primary_ops / op2idx)
    primary_ops = list(base_ops[:14])
    op2idx = {op: k for k, op in enumerate(primary_ops)}
    rows = []
    for i, j in itertools.product(range(14), repeat=2):
        new_row, coeff = table_row_swapped_jw(np.array([i % 3, i, j, 40, 0]), primary_ops, op2idx)
        rows.append(([int(x) for x in new_row], coeff))
    print("accumulated", qn_size, nonzero_qn, rows)
    print("accumulated ops", fmt_ops(primary_ops))
    print("accumulated idx", sorted((v, repr(k)) for k, v in op2idx.items()))

# malformed rows
ops = make_primary_ops(1, False)
for row in [np.array([0, 1, 2, 3]), np.array([0, 1, 2, 3, 1]), [0, 4, 5, 7, 0], (0, 1, 1, 2, 0)]:
    po = list(ops)
    oi = {op: k for k, op in enumerate(po)}
    try:
        print("row", list(row), table_row_swapped_jw(row, po, oi), fmt_ops(po[len(ops):]))
    except AssertionError:
        print("row", list(row), "AssertionError")
# index out of range / op missing from op2idx
po = list(ops)
try:
    print(table_row_swapped_jw(np.array([0, 1, 500, 3, 0]), po, {}))
except IndexError:
    print("IndexError")
po = list(ops[:8])
oi = {}
print("empty op2idx", table_row_swapped_jw(np.array([0, 4, 6, 9, 0]), po, oi), fmt_ops(po), sorted((v, repr(k)) for k, v in oi.items()))

# table_and_factor_swapped_jw (caller)
po = list(ops[:14])
tab = np.array([[0, i, j, 20, 0] for i in range(14) for j in range(0, 14, 3)])
fac = np.random.RandomState(3).rand(len(tab)) + 1j * np.random.RandomState(4).rand(len(tab))
nt, nf = table_and_factor_swapped_jw(tab, fac, po)
print("table_and_factor", nt.tolist(), r(nf), fmt_ops(po))


####################################################################
print("=== B/C. swap_site and Mpo.try_swap_site ===")


def digest_mpo(tag, mpo):
    print(tag, "dofs", [b.dofs for b in mpo.model.basis])
    print(tag, "qn", [np.asarray(q).tolist() for q in mpo.qn], np.asarray(mpo.qntot).tolist(), mpo.qnidx)
    print(tag, "primary_ops", fmt_ops(mpo.primary_ops))
    for k, out_ops in enumerate(mpo.symbolic_out_ops_list):
        print(tag, "out_ops", k, fmt_out_ops(out_ops))
    for k, mt in enumerate(mpo):
        digest_array(f"{tag} mt{k}", mt.array)
    dense = mpo.todense()
    digest_array(tag + " dense", dense)
    ev = np.linalg.eigvals(dense)
    print(tag, "spectrum", r(np.sort(ev.real), 6), r(np.sort(np.abs(ev.imag))[-1], 6))


def digest_swap_site(tag, res, primary_ops):
    out2, out3, mo1, mo2, qn = res
    print(tag, "out2", fmt_out_ops(out2))
    print(tag, "out3", fmt_out_ops(out3))
    print(tag, "mo1", mo1.shape, fmt_mo(mo1))
    print(tag, "mo2", mo2.shape, fmt_mo(mo2))
    print(tag, "qn", [np.asarray(q).tolist() for q in qn])
    print(tag, "primary_ops", fmt_ops(primary_ops))


def spin_model(nsites, nterms, seed, cplx=False):
    rng = random.Random(seed)
    possible = ["sigma_+", "sigma_-", "sigma_z"]
    ham_terms = []
    for i in range(nterms):
        op_list = [Op(rng.choice(possible), j) for j in range(nsites)]
        f = rng.random()
        if cplx:
            f = f + 1j * rng.random()
        ham_terms.append(Op.product(op_list) * f)
    basis = [BasisHalfSpin(i) for i in range(nsites)]
    return basis, ham_terms


def qc_terms(norb, seed, conserve_qn=True, sparse=False):
    rng = np.random.RandomState(seed)
    h = rng.rand(norb, norb) - 0.5
    h = h + h.T
    eri = rng.rand(norb, norb, norb, norb) - 0.5
    eri = eri + eri.transpose(1, 0, 2, 3)
    eri = eri + eri.transpose(0, 1, 3, 2)
    eri = eri + eri.transpose(2, 3, 0, 1)
    if sparse:
        h[0, -1] = h[-1, 0] = 0
        eri[np.abs(eri) < 0.6] = 0
    sh, aseri = h_qc.int_to_h(h, eri)
    return h_qc.qc_model(sh, aseri, conserve_qn=conserve_qn)


# direct swap_site calls
for algo in ["Hopcroft-Karp", "qr"]:
    basis, terms = spin_model(4, 12, 11)
    mpo = Mpo(Model(basis, terms), algo=algo)
    for i in range(3):
        for swap_jw in [False]:
            po = list(mpo.primary_ops)
            ool = copy.deepcopy(mpo.symbolic_out_ops_list[i:i + 3])
            res = swap_site(ool, po, swap_jw, algo=algo)
            digest_swap_site(f"swap_site spin {algo} {i} {swap_jw}", res, po)
            print("inputs untouched", fmt_out_ops(ool[0]) == fmt_out_ops(mpo.symbolic_out_ops_list[i]),
                  fmt_out_ops(ool[1]) == fmt_out_ops(mpo.symbolic_out_ops_list[i + 1]),
                  fmt_out_ops(ool[2]) == fmt_out_ops(mpo.symbolic_out_ops_list[i + 2]))
    # default algo argument
    po = list(mpo.primary_ops)
    res = swap_site(mpo.symbolic_out_ops_list[1:4], po, False)
    digest_swap_site(f"swap_site spin default-algo {algo}", res, po)

for conserve_qn, sparse in [(True, False), (False, False), (True, True)]:
    basis, terms = qc_terms(2, 5, conserve_qn, sparse)
    mpo = Mpo(Model(basis, terms))
    for i in range(len(basis) - 1):
        for swap_jw in [True, False]:
            po = list(mpo.primary_ops)
            try:
                res = swap_site(mpo.symbolic_out_ops_list[i:i + 3], po, swap_jw)
                digest_swap_site(f"swap_site qc {conserve_qn} {sparse} {i} {swap_jw}", res, po)
            except AssertionError:
                print(f"swap_site qc {conserve_qn} {sparse} {i} {swap_jw}", "AssertionError", fmt_ops(po))

# wrong number of bonds
try:
    swap_site(mpo.symbolic_out_ops_list[0:2], list(mpo.primary_ops), False)
except ValueError as e:
    print("ValueError", e)

# try_swap_site on spin models, real and complex coefficients
for algo, nsites, nterms, cplx in [("Hopcroft-Karp", 5, 40, False), ("qr", 4, 15, False), ("Hopcroft-Karp", 4, 20, True)]:
    basis, terms = spin_model(nsites, nterms, 7, cplx)
    model = Model(basis, terms)
    mpo = Mpo(model, algo=algo)
    rng = random.Random(1)
    for it in range(6):
        isite1 = max(int(rng.random() * nsites) - 1, 0)
        basis = basis.copy()
        basis[isite1], basis[isite1 + 1] = basis[isite1 + 1], basis[isite1]
        new_model = Model(basis, terms)
        new_model.mpos["dummy"] = 1
        ret = mpo.try_swap_site(new_model, False, algo=algo)
        print("ret", ret, "mpos", dict(new_model.mpos), mpo.model is new_model)
        digest_mpo(f"spin {algo} {cplx} it{it}", mpo)
        ref = Mpo(new_model, algo=algo).todense()
        print("match ref", bool(np.allclose(ref, mpo.todense())))
    # no swap needed
    same_model = Model(basis.copy(), terms)
    same_model.mpos["dummy"] = 1
    old_model = mpo.model
    print("noswap", mpo.try_swap_site(same_model, False), dict(same_model.mpos), mpo.model is old_model)
    # non adjacent and too many differences
    for perm in [(0, 2), (0, 1, 2)]:
        b2 = basis.copy()
        vals = [b2[p] for p in perm]
        vals = vals[1:] + vals[:1]
        for p, v in zip(perm, vals):
            b2[p] = v
        bad_model = Model(b2, terms)
        bad_model.mpos["dummy"] = 1
        try:
            mpo.try_swap_site(bad_model, False)
            print("no error?")
        except AssertionError:
            print("AssertionError", perm, dict(bad_model.mpos), mpo.model is old_model)

# try_swap_site on ab initio models with and without JW correction
for norb, conserve_qn, sparse in [(2, True, False), (3, True, True), (2, False, False)]:
    basis, terms = qc_terms(norb, 21, conserve_qn, sparse)
    model = Model(basis, terms)
    ref_spec = np.sort(np.linalg.eigvalsh(Mpo(model).todense()))
    for swap_jw in [True, False]:
        mpo = Mpo(model)
        b = list(basis)
        rng = random.Random(5)
        for it in range(5):
            i = rng.randrange(len(b) - 1)
            b = b.copy()
            b[i], b[i + 1] = b[i + 1], b[i]
            new_model = Model(b, terms)
            mpo.try_swap_site(new_model, swap_jw)
            digest_mpo(f"qc {norb} {conserve_qn} {sparse} jw={swap_jw} it{it} swap{i}", mpo)
            spec = np.sort(np.linalg.eigvalsh(mpo.todense()))
            print("same spectrum", bool(np.allclose(spec, ref_spec)))

# vibronic model with multi-dof site
basis = [BasisMultiElectron(["e0", "e1"], [0, 0]), BasisSHO("v0", 1.0, 3), BasisSHO("v1", 1.3, 2), BasisHalfSpin("s")]
terms = [Op(r"a^\dagger a", ["e0", "e1"], 0.3), Op(r"a^\dagger a", ["e1", "e0"], 0.3),
         Op(r"a^\dagger a", "e1", 1.1), Op(r"b^\dagger b", "v0", 1.0), Op(r"b^\dagger b", "v1", 1.3),
         Op(r"a^\dagger a x", ["e1", "e1", "v0"], 0.4), Op(r"a^\dagger a x", ["e0", "e0", "v1"], -0.2),
         Op("x x", ["v0", "v1"], 0.05), Op("sigma_x x", ["s", "v1"], 0.07), Op("sigma_z", "s", 0.5)]
mpo = Mpo(Model(basis, terms))
b = list(basis)
for it, i in enumerate([0, 1, 2, 1, 0, 2]):
    b = b.copy()
    b[i], b[i + 1] = b[i + 1], b[i]
    mpo.try_swap_site(Model(b, terms), False)
    digest_mpo(f"vibronic it{it}", mpo)


####################################################################
print("=== D. state side swap: MatrixProduct._update_mps ===")


def digest_mps(tag, mps):
    print(tag, "dofs", [b.dofs for b in mps.model.basis], "qnidx", mps.qnidx, "to_right", mps.to_right,
          "bond", list(mps.bond_dims))
    print(tag, "qn", [np.asarray(q).tolist() for q in mps.qn])
    for k, mt in enumerate(mps):
        digest_array(f"{tag} ms{k}", mt.array, 6)


basis, terms = qc_terms(3, 33)
qc_model = Model(basis, terms)
for ofs, swap_jw, cplx, mmax in itertools.product([OFS.ofs_d, OFS.ofs_ds, OFS.ofs_s, OFS.ofs_debug, None],
                                            [True, False], [False, True], [2, 16]):
    np.random.seed(10)
    mps0 = Mps.random(qc_model, [2, 1], 6, percent=1.0)
    if cplx:
        mps0 = mps0.to_complex()
    for to_right_first in [True, False]:
        mps = mps0.copy()
        mps.compress_config = CompressConfig(CompressCriteria.fixed, max_bonddim=mmax, ofs=ofs, ofs_swap_jw=swap_jw)
        mps.ensure_left_canonical() if to_right_first else mps.ensure_right_canonical()
        rng = np.random.RandomState(1)
        nsite = len(mps)
        for step in range(nsite - 1):
            if mps.to_right:
                cidx = [mps.qnidx, mps.qnidx + 1]
            else:
                cidx = [mps.qnidx - 1, mps.qnidx]
            if cidx[0] < 0 or cidx[1] >= nsite:
                break
            qnbigl, qnbigr, qnmat = mps._get_big_qn(cidx)
            cstruct = np.tensordot(mps[cidx[0]].array, mps[cidx[1]].array, axes=1)
            noise = rng.rand(*cstruct.shape) - 0.5
            if cplx:
                noise = noise + 1j * (rng.rand(*cstruct.shape) - 0.5)
            cstruct = cstruct + 0.3 * noise
            from renormalizer.mps.svd_qn import get_qn_mask
            cstruct[~get_qn_mask(qnmat, mps.qntot)] = 0
            ret = mps._update_mps(cstruct, cidx, qnbigl, qnbigr, percent=0.2 if step % 2 else 0)
            print("ret", ret)
        digest_mps(f"update {ofs} jw={swap_jw} c={cplx} M={mmax} r={to_right_first}", mps)

# unsupported ofs value and Holstein model
from renormalizer.tests.parameter import holstein_model
from renormalizer.mps.gs import construct_mps_mpo
mps_h, mpo_h = construct_mps_mpo(holstein_model.switch_scheme(1), 6, 1)
mps_h.compress_config.ofs = OFS.ofs_s
mps_h.ensure_left_canonical()
cidx = [mps_h.qnidx, mps_h.qnidx + 1] if mps_h.to_right else [mps_h.qnidx - 1, mps_h.qnidx]
qnbigl, qnbigr, _ = mps_h._get_big_qn(cidx)
cs = np.tensordot(mps_h[cidx[0]].array, mps_h[cidx[1]].array, axes=1)
try:
    mps_h._update_mps(cs, cidx, qnbigl, qnbigr)
except NotImplementedError as e:
    print("NotImplementedError", e)
mps_h.model = Model(mps_h.model.basis, mps_h.model.ham_terms)
mps_h.compress_config.ofs = "OFS-S"
try:
    mps_h._update_mps(cs, cidx, qnbigl, qnbigr)
except AssertionError:
    print("AssertionError for str ofs")
mps_h.compress_config.ofs = OFS.ofs_s
mps_h.compress_config.criteria = CompressCriteria.threshold
try:
    mps_h._update_mps(cs, cidx, qnbigl, qnbigr)
except AssertionError:
    print("AssertionError for threshold criteria")


####################################################################
print("=== E. drivers: DMRG and TDVP-PS2 with on-the-fly swapping ===")

for (ofs, swap_jw, M), (norb, nelec, seed) in itertools.product(
        [(OFS.ofs_s, True, 3), (OFS.ofs_d, True, 3), (OFS.ofs_ds, True, 4), (OFS.ofs_debug, True, 3),
         (OFS.ofs_s, False, 3), (OFS.ofs_d, False, 4), (None, False, 3)],
        [(4, [2, 2], 33), (3, [2, 1], 33), (3, [1, 1], 2), (4, [1, 2], 1)]):
    basis, terms = qc_terms(norb, seed)
    model = Model(basis, terms)
    mpo = Mpo(model)
    np.random.seed(2023)
    mps = Mps.random(model, nelec, 8, percent=1.0)
    # an int in the procedure would replace the compress config and silently disable OFS
    mps.optimize_config.procedure = [
        [CompressConfig(CompressCriteria.fixed, max_bonddim=M, ofs=ofs, ofs_swap_jw=swap_jw), p]
        for p in [0.4, 0.2, 0, 0]]
    mps.optimize_config.method = "2site"
    tag = f"dmrg {ofs} jw={swap_jw} M={M} norb={norb} nelec={nelec} seed={seed}"
    try:
        energies, mps_opt = optimize_mps(mps.copy(), mpo)
    except AssertionError:
        print(tag, "AssertionError", [b.dofs for b in mpo.model.basis], len(mpo.primary_ops))
        continue
    print(tag, r(energies, 8), [b.dofs for b in mps_opt.model.basis], list(mps_opt.bond_dims))
    print(tag, "mpo dofs", [b.dofs for b in mpo.model.basis], len(mpo.primary_ops))
    digest_array(tag + " mpo dense", mpo.todense())
    if swap_jw or ofs is None:
        print(tag, "expectation", r(mps_opt.expectation(mpo), 8))
    else:
        print(tag, "expectation", r(mps_opt.expectation(Mpo(mps_opt.model)), 8))

# holstein, general Model, both DMRG and evolution
from renormalizer.model import Phonon, Mol, HolsteinModel
from renormalizer.utils import Quantity
from renormalizer.mps import MpDm
ph = Phonon.simple_phonon(Quantity(1), Quantity(1), 2)
small_holstein = HolsteinModel([Mol(Quantity(0), [ph])] * 3, Quantity(1), 3)
for ofs in [OFS.ofs_s, OFS.ofs_ds, OFS.ofs_d]:
    np.random.seed(7)
    mps, mpo = construct_mps_mpo(holstein_model.switch_scheme(1), 10, 1)
    mps.model = Model(mps.model.basis, mps.model.ham_terms)
    mps.optimize_config.procedure = [
        [CompressConfig(CompressCriteria.fixed, max_bonddim=6, ofs=ofs), p] for p in [0.4, 0.2, 0]]
    mps.optimize_config.method = "2site"
    energies, mps_opt = optimize_mps(mps.copy(), mpo)
    print("holstein dmrg", ofs, r(energies, 8), [b.dofs for b in mps_opt.model.basis])

    for hmodel, tag, use_mpdm in [(small_holstein, "small", False), (small_holstein, "small", True),
                                  (holstein_model, "param", False)]:
        if True:
            mpo = Mpo(hmodel)
            init = Mpo.onsite(hmodel, r"a^\dagger", dof_set={0}) @ Mps.ground_state(hmodel, False)
            init = init.expand_bond_dimension(hint_mpo=mpo)
            if use_mpdm:
                init = MpDm.from_mps(init).expand_bond_dimension(hint_mpo=mpo)
            init.model = Model(init.model.basis, init.model.ham_terms)
            init.evolve_config = EvolveConfig(EvolveMethod.tdvp_ps2)
            init.compress_config = CompressConfig(CompressCriteria.fixed, max_bonddim=5, ofs=ofs)
            cur = init
            try:
                for istep in range(3):
                    cur = cur.evolve(mpo, 0.4)
                    print("holstein tdvp", tag, use_mpdm, ofs, istep, [b.dofs for b in cur.model.basis],
                          list(cur.bond_dims), str(cur.dtype), r(cur.e_occupations, 6))
            except AssertionError:
                print("holstein tdvp", tag, use_mpdm, ofs, "AssertionError")
            print("holstein tdvp mpo", [b.dofs for b in mpo.model.basis])
