# -*- coding: utf-8 -*-
# Equivalence check for the C17rg refactoring:
#   renormalizer.model.h_qc: generate_ladder_operator, simplify_op, qc_model
#   renormalizer.mps.symbolic_mpo: check_swap_consistency, table_and_factor_swapped_jw, swap_site
import contextlib
import copy
import hashlib
import io
import logging
import random

import numpy as np

logging.disable(logging.CRITICAL)

from renormalizer.model import Model, Op
from renormalizer.model.basis import BasisHalfSpin
from renormalizer.model import h_qc
from renormalizer.model.h_qc import qc_model, int_to_h, generate_ladder_operator, simplify_op
from renormalizer.mps import Mpo
from renormalizer.mps import symbolic_mpo as sm
from renormalizer.mps.symbolic_mpo import (
    swap_site, check_swap_consistency, table_and_factor_swapped_jw,
    expand_out_op_sum_list, ExpandedOp, OpTuple,
)


def rnd(x):
    if isinstance(x, (complex, np.complexfloating)):
        return f"({round(float(x.real), 8) + 0.0:.8f},{round(float(x.imag), 8) + 0.0:.8f})"
    if isinstance(x, (float, np.floating)):
        return f"{round(float(x), 8) + 0.0:.8f}"
    if isinstance(x, (bool, np.bool_)):
        return str(bool(x))
    if isinstance(x, (int, np.integer)):
        return f"i{int(x)}"
    raise TypeError(type(x))


def dig(x):
    """deterministic textual digest of nested results"""
    if x is None:
        return "None"
    if isinstance(x, Op):
        return "Op<%s|%s|%s|%s>" % (x.symbol, [dig(d) for d in x.dofs], rnd(x.factor),
                                    [dig(q) for q in x.qn_list])
    if isinstance(x, OpTuple):
        return "OT<%s|%s|%s>" % (dig(x.symbol), dig(x.qn), rnd(x.factor))
    if isinstance(x, ExpandedOp):
        return "EO<%s>" % ",".join(dig(i) for i in x)
    if isinstance(x, tuple) and hasattr(x, "_fields"):
        return type(x).__name__ + "<%s>" % ",".join(dig(i) for i in x)
    if isinstance(x, np.ndarray):
        if x.dtype == object:
            return "objarr%s[%s]" % (x.shape, ",".join(dig(i) for i in x.ravel()))
        return "arr%s%s[%s]" % (x.dtype.kind, x.shape, ",".join(rnd(i) for i in x.ravel().tolist()))
    if isinstance(x, (list, tuple)):
        br = "[]" if isinstance(x, list) else "()"
        return type(x).__name__[0] + br[0] + ",".join(dig(i) for i in x) + br[1]
    if isinstance(x, str):
        return repr(x)
    if isinstance(x, BasisHalfSpin):
        return "HS<%s|%s>" % (dig(x.dof), dig(np.array(x.sigmaqn)))
    return rnd(x)


def short(s):
    return "%d:%s" % (len(s), hashlib.sha256(s.encode()).hexdigest()[:24])


def out(tag, s, full=False):
    if full or len(s) < 300:
        print(tag, s)
    else:
        print(tag, short(s))


def attempt(tag, fn, full=False):
    buf = io.StringIO()
    try:
        with contextlib.redirect_stdout(buf):
            res = fn()
        s = dig(res)
    except Exception as e:  # noqa
        msg = str(e).split("\n")[0][:80] if not isinstance(e, AssertionError) else ""
        s = "EXC %s %s" % (type(e).__name__, msg)
    out(tag, s + (" STDOUT=%r" % buf.getvalue() if buf.getvalue() else ""), full)


# ----------------------------------------------------------------------------------------------
# integrals
def rand_integrals(norb, rng, kind):
    h = rng.standard_normal((norb, norb))
    h = h + h.T
    eri = rng.standard_normal((norb,) * 4)
    # 8-fold symmetry
    eri = eri + eri.transpose(1, 0, 2, 3)
    eri = eri + eri.transpose(0, 1, 3, 2)
    eri = eri + eri.transpose(2, 3, 0, 1)
    if kind == "sparse":
        mask = rng.random((norb,) * 4) < 0.5
        mask = mask & mask.transpose(1, 0, 2, 3) & mask.transpose(0, 1, 3, 2) & mask.transpose(2, 3, 0, 1)
        eri = eri * mask
        hm = rng.random((norb, norb)) < 0.5
        h = h * (hm & hm.T)
    elif kind == "no1e":
        h = np.zeros_like(h)
    elif kind == "no2e":
        eri = np.zeros_like(eri)
    elif kind == "block":
        h[0, :] = 0
        h[:, 0] = 0
        eri[0] = 0
        eri[:, 0] = 0
        eri[:, :, 0] = 0
        eri[:, :, :, 0] = 0
    return int_to_h(h, eri)


# ----------------------------------------------------------------------------------------------
print("== generate_ladder_operator")
for n in [0, 1, 2, 3, 5]:
    attempt(f"ladder n={n}", lambda: generate_ladder_operator(n), full=(n <= 2))
attempt("ladder n=2.5", lambda: generate_ladder_operator(2.5))
attempt("ladder n=np.int64(3)", lambda: generate_ladder_operator(np.int64(3)))
a_ops, a_dag_ops = generate_ladder_operator(3)
print("distinct objects", len({id(o) for o in a_ops + a_dag_ops}))

# ----------------------------------------------------------------------------------------------
print("== simplify_op")
rng = np.random.default_rng(17)
norbs = 6
a_ops, a_dag_ops = generate_ladder_operator(norbs)
for conserve in [True, False]:
    for it in range(40):
        nfac = int(rng.integers(1, 6))
        facs = []
        for _ in range(nfac):
            j = int(rng.integers(0, norbs))
            facs.append((a_dag_ops if rng.random() < 0.5 else a_ops)[j])
        coeff = [1.0, -2.5, 0.3 + 0.7j][it % 3]
        op = Op.product(facs) * coeff
        attempt(f"simp c={conserve} {it}", lambda: simplify_op(op, norbs, conserve), full=(it < 6))
        attempt(f"simp kw c={conserve} {it}", lambda: simplify_op(op, norbs=norbs, conserve_qn=conserve))
    # default argument
    attempt("simp default", lambda: simplify_op(a_dag_ops[3] * a_ops[1], norbs), full=True)
    # single dof, only Z / only identity result
    attempt(f"simp Z c={conserve}", lambda: simplify_op(Op("Z", 1), norbs, conserve), full=True)
    attempt(f"simp ZZ c={conserve}", lambda: simplify_op(Op("Z Z", [1, 1]), norbs, conserve), full=True)
    attempt(f"simp ZZ+ c={conserve}", lambda: simplify_op(Op("Z Z", [1, 1]) * Op("+", 2), norbs, conserve), full=True)
    attempt(f"simp +Z-Z c={conserve}", lambda: simplify_op(Op("+ Z - Z", [3, 3, 3, 3], 2.0), norbs, conserve), full=True)
    attempt(f"simp Z+Z c={conserve}", lambda: simplify_op(Op("Z + Z", [4, 4, 4]) * Op("- Z", [5, 5]), norbs, conserve), full=True)
    attempt(f"simp unknown dof c={conserve}", lambda: simplify_op(Op("+ -", [1, 9]), norbs, conserve), full=True)
    attempt(f"simp single unknown dof c={conserve}", lambda: simplify_op(Op("+", 9), norbs, conserve), full=True)
    attempt(f"simp unknown symbol c={conserve}", lambda: simplify_op(Op("X Z", [1, 2]), norbs, conserve), full=True)
    attempt(f"simp str dof c={conserve}", lambda: simplify_op(Op("+", "a"), norbs, conserve), full=True)
    attempt(f"simp float dof c={conserve}", lambda: simplify_op(Op("+ -", [1.0, 2.0]), norbs, conserve), full=True)
    attempt(f"simp norbs=0 c={conserve}", lambda: simplify_op(Op("+ -", [0, 1]), 0, conserve), full=True)
    attempt(f"simp interleaved c={conserve}",
            lambda: simplify_op(Op("+ Z Z - Z + Z", [0, 1, 0, 1, 0, 1, 1], 1j), norbs, conserve), full=True)

# ----------------------------------------------------------------------------------------------
print("== qc_model")


def dig_model(res):
    basis, terms = res
    return dig(list(basis)) + " || " + dig(terms)


models = {}
rng = np.random.default_rng(1717)
for norb in [1, 2, 3]:
    for kind in ["dense", "sparse", "no1e", "no2e", "block"]:
        sh, aseri = rand_integrals(norb, rng, kind)
        for stacked in [False, True]:
            for conserve in [True, False]:
                tag = f"qc norb={norb} {kind} st={stacked} c={conserve}"

                def run():
                    res = qc_model(sh, aseri, stacked, conserve)
                    models[(norb, kind, stacked, conserve)] = res
                    return dig_model(res)
                attempt(tag, run, full=(norb == 1))
sh, aseri = rand_integrals(2, rng, "dense")
attempt("qc default", lambda: dig_model(qc_model(sh, aseri)))
attempt("qc kw", lambda: dig_model(qc_model(h1e=sh, h2e=aseri, conserve_qn=False, stacked=True)))
attempt("qc stacked=0", lambda: dig_model(qc_model(sh, aseri, 0)))
attempt("qc stacked=1", lambda: dig_model(qc_model(sh, aseri, 1)))
attempt("qc stacked=None", lambda: dig_model(qc_model(sh, aseri, None)))
attempt("qc stacked=np.False_", lambda: dig_model(qc_model(sh, aseri, np.False_)))
attempt("qc conserve=0", lambda: dig_model(qc_model(sh, aseri, False, 0)))
attempt("qc complex", lambda: dig_model(qc_model(sh * (1 + 0.5j), aseri * (0.5 - 1j))))
attempt("qc complex stacked", lambda: dig_model(qc_model(sh * (1 + 0.5j), aseri * (0.5 - 1j), True)))
attempt("qc int dtype", lambda: dig_model(qc_model((sh * 3).astype(int), (aseri * 3).astype(int))))
attempt("qc allzero", lambda: dig_model(qc_model(sh * 0, aseri * 0)), full=True)
attempt("qc allzero stacked", lambda: dig_model(qc_model(sh * 0, aseri * 0, True)), full=True)
attempt("qc bad shape 1", lambda: dig_model(qc_model(sh[:3], aseri)))
attempt("qc bad shape 2", lambda: dig_model(qc_model(sh, aseri[:3, :3, :3, :3])))
attempt("qc list input", lambda: dig_model(qc_model(sh.tolist(), aseri)))
attempt("qc empty", lambda: dig_model(qc_model(np.zeros((0, 0)), np.zeros((0, 0, 0, 0)))), full=True)
attempt("qc empty stacked", lambda: dig_model(qc_model(np.zeros((0, 0)), np.zeros((0, 0, 0, 0)), True)), full=True)
sh_in, aseri_in = sh.copy(), aseri.copy()
qc_model(sh, aseri, True)
print("inputs untouched", np.array_equal(sh, sh_in), np.array_equal(aseri, aseri_in))

# ----------------------------------------------------------------------------------------------
print("== swap_site through Mpo.try_swap_site")


def dense_digest(mpo):
    d = mpo.todense()
    ev = np.linalg.eigvalsh((d + d.conj().T) / 2)
    return "herm=%s ev=%s" % (bool(np.allclose(d, d.conj().T, atol=1e-9)), dig(np.round(ev, 7)))


def mpo_struct_digest(mpo):
    return "bond=%s qn=%s qntot=%s nprim=%d" % (
        list(mpo.bond_dims), dig([np.array(q) for q in mpo.qn]), dig(np.array(mpo.qntot)), len(mpo.primary_ops))


def swap_sequence(basis, ham_terms, swap_jw, algo, swaps, full_struct=True):
    basis = list(basis)
    flat_terms = ham_terms
    model = Model(basis, flat_terms)
    mpo = Mpo(model, algo=algo)
    lines = ["init " + dense_digest(mpo)]
    for isite in swaps:
        basis = basis.copy()
        basis[isite], basis[isite + 1] = basis[isite + 1], basis[isite]
        new_model = Model(basis, flat_terms)
        mpo.try_swap_site(new_model, swap_jw, algo=algo)
        lines.append("swap %d %s %s" % (isite, dense_digest(mpo), mpo_struct_digest(mpo) if full_struct else ""))
        lines.append(short(dig([m.array for m in mpo])))
        lines.append(short(dig(mpo.symbolic_out_ops_list)))
        lines.append(short(dig(mpo.primary_ops)))
    return "\n   ".join(lines)


rng = np.random.default_rng(99)
for norb, kind in [(1, "dense"), (2, "dense"), (2, "sparse"), (2, "block"), (3, "sparse")]:
    for conserve in [True, False]:
        sh, aseri = rand_integrals(norb, rng, kind)
        basis, terms = qc_model(sh, aseri, False, conserve)
        nsite = len(basis)
        for swap_jw in [True, False]:
            for algo in ["Hopcroft-Karp", "qr"] if norb < 3 else ["Hopcroft-Karp"]:
                if nsite < 2:
                    continue
                swaps = [int(i) for i in rng.integers(0, nsite - 1, size=4)] + [0, nsite - 2]
                tag = f"swapseq norb={norb} {kind} c={conserve} jw={swap_jw} {algo} {swaps}"
                attempt(tag, lambda: swap_sequence(basis, terms, swap_jw, algo, swaps), full=True)

# spin model with complex factors (no JW)
random.seed(5)
nsites = 5
ham_terms = []
for i in range(40):
    op_list = [Op(random.choice(["sigma_+", "sigma_-", "sigma_z"]), j) for j in range(nsites)]
    ham_terms.append(Op.product(op_list) * (random.random() + 1j * random.random()))
basis = [BasisHalfSpin(i) for i in range(nsites)]
for algo in ["Hopcroft-Karp", "qr"]:
    attempt(f"swapseq spin complex {algo}",
            lambda: swap_sequence(basis, ham_terms, False, algo, [0, 3, 2, 2, 1, 0]), full=True)
# spin model with sigma_* symbols and JW sign correction (long spelling of the symbols)
ham_terms2 = []
for i in range(6):
    ham_terms2.append(Op("sigma_+ sigma_-", [i % nsites, (i + 1) % nsites], 0.3 * (i + 1)))
    ham_terms2.append(Op("sigma_- sigma_+", [i % nsites, (i + 1) % nsites], 0.3 * (i + 1)))
    ham_terms2.append(Op("sigma_z", i % nsites, 0.1 * i))
for algo in ["Hopcroft-Karp", "qr"]:
    attempt(f"swapseq spin jw long {algo}",
            lambda: swap_sequence(basis, ham_terms2, True, algo, [0, 3, 2, 1]), full=True)
# one-term and two-site operators
attempt("swapseq one term", lambda: swap_sequence(basis[:2], [Op("sigma_+ sigma_-", [0, 1], 2.0)], False,
                                                    "Hopcroft-Karp", [0, 0]), full=True)
attempt("swapseq one term jw", lambda: swap_sequence(basis[:3], [Op("sigma_+ sigma_-", [0, 2], 2.0)], True,
                                                       "Hopcroft-Karp", [0, 1, 0]), full=True)

# ----------------------------------------------------------------------------------------------
print("== swap_site direct")


def direct_swap(basis, terms, i, swap_jw, algo, prim_as=list):
    mpo = Mpo(Model(list(basis), terms), algo=algo)
    out_ops_list = copy.deepcopy(mpo.symbolic_out_ops_list[i:i + 3])
    primary_ops = prim_as(mpo.primary_ops)
    n_before = len(primary_ops)
    before = dig(out_ops_list)
    res = swap_site(out_ops_list, primary_ops, swap_jw, algo=algo)
    return "\n   ".join([
        "res " + short(dig(list(res))),
        "res2 " + dig(res[4]),
        "nprim %d->%d" % (n_before, len(primary_ops)),
        "prim " + short(dig(list(primary_ops))),
        "args mutated %s" % (before != dig(out_ops_list)),
        "args " + short(dig(out_ops_list)),
    ])


rng = np.random.default_rng(4)
sh, aseri = rand_integrals(2, rng, "dense")
for conserve in [True, False]:
    basis, terms = qc_model(sh, aseri, False, conserve)
    for i in range(3):
        for swap_jw in [True, False]:
            for algo in ["Hopcroft-Karp", "qr"]:
                attempt(f"direct c={conserve} i={i} jw={swap_jw} {algo}",
                        lambda: direct_swap(basis, terms, i, swap_jw, algo), full=True)
basis, terms = qc_model(sh, aseri)
attempt("direct default algo", lambda: dig(list(swap_site(
    Mpo(Model(basis, terms)).symbolic_out_ops_list[1:4], Mpo(Model(basis, terms)).primary_ops, False))[4]), full=True)
attempt("direct tuple primary_ops jw=False", lambda: direct_swap(basis, terms, 1, False, "Hopcroft-Karp", tuple), full=True)
attempt("direct tuple primary_ops jw=True", lambda: direct_swap(basis, terms, 1, True, "Hopcroft-Karp", tuple), full=True)
attempt("direct wrong length", lambda: swap_site([[], []], [], False), full=True)
mpo0 = Mpo(Model(basis, terms))
attempt("direct empty out_ops3", lambda: swap_site([mpo0.symbolic_out_ops_list[0], mpo0.symbolic_out_ops_list[1], []],
                                                  list(mpo0.primary_ops), False), full=True)
attempt("direct empty sum list", lambda: swap_site([mpo0.symbolic_out_ops_list[0], mpo0.symbolic_out_ops_list[1], [[]]],
                                                 list(mpo0.primary_ops), False), full=True)
attempt("direct empty sum list jw", lambda: swap_site([mpo0.symbolic_out_ops_list[0], mpo0.symbolic_out_ops_list[1], [[]]],
                                                    list(mpo0.primary_ops), True), full=True)
attempt("direct bad algo", lambda: direct_swap(basis, terms, 1, False, "nonsense"), full=True)

# ----------------------------------------------------------------------------------------------
print("== table_and_factor_swapped_jw direct")
prim = [Op.identity(0, qn_size=2), Op.identity(1, qn_size=2),
        Op("+", 0, qn=[[-1, 0]]), Op("-", 0, qn=[[1, 0]]), Op("Z", 0, qn=[[0, 0]]), Op("Z +", [0, 0], qn=[[0, 0], [-1, 0]]),
        Op("+", 1, qn=[[0, -1]]), Op("-", 1, qn=[[0, 1]]), Op("Z", 1, qn=[[0, 0]]), Op("Z -", [1, 1], qn=[[0, 0], [0, 1]]),
        Op("+ -", [1, 1], qn=[[0, -1], [0, 1]]), Op("sigma_+", 0, qn=[[-1, 0]]), Op("sigma_z sigma_-", [1, 1], qn=[[0, 0], [0, 1]])]
rng = np.random.default_rng(8)
for it in range(6):
    nrow = [0, 1, 3, 8, 20, 20][it]
    table = np.stack([rng.integers(0, 3, nrow), rng.choice([0, 2, 3, 4, 5, 11], nrow),
                      rng.choice([1, 6, 7, 8, 9, 10, 12], nrow), rng.integers(13, 16, nrow),
                      np.zeros(nrow, dtype=int)], axis=1) if nrow else np.zeros((0, 5), dtype=int)
    factor = rng.standard_normal(nrow) + (1j * rng.standard_normal(nrow) if it % 2 else 0)
    if it == 5:
        table = table.astype(np.uint16)

    def run():
        p = list(prim)
        t_in, f_in = table.copy(), factor.copy()
        t, f = table_and_factor_swapped_jw(table, factor, p)
        return [t, f, p[len(prim):], bool(np.array_equal(t_in, table)), bool(np.array_equal(f_in, factor)), str(t.dtype), str(f.dtype)]
    attempt(f"tfjw {it}", run, full=True)
attempt("tfjw len mismatch", lambda: table_and_factor_swapped_jw(np.array([[0, 2, 6, 13, 0], [0, 3, 7, 13, 0]]), np.array([1.0]), list(prim)), full=True)
attempt("tfjw bad row", lambda: table_and_factor_swapped_jw(np.array([[0, 2, 6, 13, 1]]), np.array([1.0]), list(prim)), full=True)
attempt("tfjw lists", lambda: table_and_factor_swapped_jw([[0, 2, 6, 13, 0], [1, 5, 12, 14, 0]], [0.5, 2], list(prim)), full=True)
attempt("tfjw two ladder", lambda: table_and_factor_swapped_jw(np.array([[0, 10, 6, 13, 0]]), np.array([1.0]), list(prim)), full=True)

# ----------------------------------------------------------------------------------------------
print("== check_swap_consistency direct")


def csc_case(basis, terms, i, algo, tamper=None):
    mpo = Mpo(Model(list(basis), terms), algo=algo)
    out_ops1, out_ops2, out_ops3 = mpo.symbolic_out_ops_list[i:i + 3]
    out_ops3_expanded = [expand_out_op_sum_list(out_ops2, l) for l in out_ops3]
    new2, new3, _, _, _ = swap_site([out_ops1, out_ops2, out_ops3], mpo.primary_ops, False, algo=algo)
    new2 = copy.deepcopy(new2)
    new3 = copy.deepcopy(new3)
    out_ops3_expanded = copy.deepcopy(out_ops3_expanded)
    if tamper == "factor":
        op = new3[0][0]
        new3[0][0] = OpTuple(op.symbol, op.qn, op.factor * 1.5)
    elif tamper == "tiny":
        op = new3[0][0]
        new3[0][0] = OpTuple(op.symbol, op.qn, op.factor * (1 + 1e-12))
    elif tamper == "extra":
        out_ops3_expanded[0].append(ExpandedOp(0.37, 0, 0, 0))
    elif tamper == "index":
        op = out_ops3_expanded[-1][0]
        out_ops3_expanded[-1][0] = ExpandedOp(op.factor, op.out_ops1_idx, op.site1_op_idx + 1, op.site2_op_idx)
    elif tamper == "drop_row":
        out_ops3_expanded = out_ops3_expanded[:-1]
    elif tamper == "empty_row":
        out_ops3_expanded[0] = []
    elif tamper == "empty_new":
        new3[0] = []
    elif tamper == "all_empty":
        new3, out_ops3_expanded = [], []
    elif tamper == "cancel":
        op = out_ops3_expanded[0][0]
        out_ops3_expanded[0].append(ExpandedOp(1e-14, op.out_ops1_idx, op.site2_op_idx + 5, op.site1_op_idx + 5))
    b = dig([new2, new3, out_ops3_expanded])
    r = check_swap_consistency(new2, new3, out_ops3_expanded)
    return [r, b == dig([new2, new3, out_ops3_expanded])]


rng = np.random.default_rng(21)
sh, aseri = rand_integrals(2, rng, "dense")
basis, terms = qc_model(sh, aseri, False, True)
for tamper in [None, "factor", "tiny", "extra", "index", "drop_row", "empty_row", "empty_new", "all_empty", "cancel"]:
    for algo in ["Hopcroft-Karp", "qr"]:
        for i in [0, 1, 2]:
            attempt(f"csc tamper={tamper} {algo} i={i}", lambda: csc_case(basis, terms, i, algo, tamper), full=True)
basis5 = [BasisHalfSpin(i) for i in range(nsites)]
for tamper in [None, "factor", "extra"]:
    attempt(f"csc complex tamper={tamper}", lambda: csc_case(basis5, ham_terms, 2, "Hopcroft-Karp", tamper), full=True)

print("== module namespace")
print("h_qc public", sorted(n for n in dir(h_qc) if not n.startswith("_") and n in (
    "read_fcidump", "int_to_h", "generate_ladder_operator", "simplify_op", "qc_model")))
import inspect
for f in [generate_ladder_operator, simplify_op, qc_model, swap_site, check_swap_consistency, table_and_factor_swapped_jw]:
    sig = inspect.signature(f)
    print(f.__name__, [(p.name, repr(p.default) if p.default is not inspect.Parameter.empty else "-", str(p.kind)) for p in sig.parameters.values()])
