# -*- coding: utf-8 -*-
# Equivalence check for the refactoring of
#   renormalizer.mps.symbolic_mpo.table_row_swapped_jw
#   renormalizer.mps.symbolic_mpo.swap_site
#   renormalizer.mps.mpo.Mpo.try_swap_site
#   renormalizer.mps.mp.MatrixProduct.variational_compress
# prints a deterministic digest
import logging
import random
import hashlib

import numpy as np

logging.disable(logging.CRITICAL)

from renormalizer.model import Model, Op
from renormalizer.model import h_qc
from renormalizer.model.basis import BasisHalfSpin
from renormalizer.mps import Mpo, Mps, MpDm
from renormalizer.mps.gs import optimize_mps
from renormalizer.mps import symbolic_mpo as smpo
from renormalizer.mps.symbolic_mpo import table_row_swapped_jw, swap_site
from renormalizer.utils import CompressConfig, CompressCriteria
from renormalizer.utils.configs import OFS
from renormalizer.tests.parameter import holstein_model


def rnd(x, n=8):
    a = np.round(np.asarray(x), n) + 0.0
    return a.tolist()


def h(obj):
    return hashlib.sha256(repr(obj).encode()).hexdigest()[:16]


def arr_digest(a):
    a = np.asarray(a)
    if np.iscomplexobj(a):
        flat = np.concatenate([a.real.ravel(), a.imag.ravel()])
    else:
        flat = a.ravel().astype(float)
    flat = np.round(flat, 8) + 0.0
    return (a.shape, h(flat.tolist()), rnd(np.abs(a).sum(), 6))


def op_repr(op):
    if isinstance(op, Op):
        return (op.symbol, tuple(map(str, op.dofs)), rnd(op.factor), [q.tolist() for q in op.qn_list])
    return repr(op)


def out_ops_repr(out_ops):
    res = []
    for sum_list in out_ops:
        res.append([(tuple(int(i) for i in o.symbol), np.asarray(o.qn).tolist(), rnd(o.factor)) for o in sum_list])
    return res


def mo_repr(mo):
    res = []
    for idx, ops in np.ndenumerate(mo):
        res.append((idx, [op_repr(o) for o in ops]))
    return (mo.shape, res)


def call(f, *args, **kwargs):
    try:
        return ("ok", f(*args, **kwargs))
    except BaseException as e:  # noqa
        return ("exc", type(e).__name__, str(e)[:80])


# ---------------------------------------------------------------------------
print("=== A. table_row_swapped_jw")


def make_primary_ops(qn_size):
    z = [0] * qn_size
    p = [1] + [0] * (qn_size - 1)
    m = [-1] + [0] * (qn_size - 1)
    z, p, m = np.array(z), np.array(p), np.array(m)
    ops = []
    for d in ["a", "b"]:
        ops.append(Op.identity(d, qn_size=qn_size))
        ops.append(Op("sigma_z", d, qn=z))
        ops.append(Op("Z", d, qn=z))
        ops.append(Op("z", d, qn=z))
        ops.append(Op("+", d, qn=m))
        ops.append(Op("-", d, qn=p))
        ops.append(Op("sigma_+", d, qn=m))
        ops.append(Op("sigma_-", d, qn=p))
        ops.append(Op("Z +", [d, d], qn=[z, m]))
        ops.append(Op("sigma_z sigma_-", [d, d], qn=[z, p]))
        ops.append(Op("sigma_z -", [d, d], qn=[z, p]))
        ops.append(Op("Z Z", [d, d], qn=[z, z]))
        ops.append(Op("+ -", [d, d], qn=[m, p]))
        ops.append(Op("sigma_- sigma_+", [d, d], qn=[p, m]))
    return ops


for qn_size in [1, 2]:
    primary_ops = make_primary_ops(qn_size)
    n0 = len(primary_ops)
    op2idx = {op: i for i, op in enumerate(primary_ops)}
    results = []
    for i in range(n0 // 2):
        for j in range(n0 // 2, n0):
            row = [3, i, j, 7 + i, 0]
            res = call(table_row_swapped_jw, row, primary_ops, op2idx)
            if res[0] == "ok":
                new_row, coeff = res[1]
                results.append((i, j, [int(x) for x in new_row], type(new_row).__name__, int(coeff), type(coeff).__name__))
            else:
                results.append((i, j) + res)
    print(qn_size, "n results", len(results), h(results))
    for r in results[::23]:
        print("   ", r)
    print(qn_size, "primary_ops", n0, len(primary_ops), h([op_repr(o) for o in primary_ops]))
    for o in primary_ops[n0:]:
        print("   ", op_repr(o))
    print(qn_size, "op2idx consistent", all(primary_ops[v] == k for k, v in op2idx.items()), len(op2idx))

# numpy rows (as in table_and_factor_swapped_jw) and error cases
primary_ops = make_primary_ops(2)
op2idx = {op: i for i, op in enumerate(primary_ops)}
print(call(table_row_swapped_jw, np.array([0, 4, 19, 30, 0]), primary_ops, op2idx))
print(call(table_row_swapped_jw, np.array([0, 4, 19, 30]), primary_ops, op2idx))
print(call(table_row_swapped_jw, [0, 4, 19, 30, 1], primary_ops, op2idx))
print(call(table_row_swapped_jw, [0, 400, 19, 30, 0], primary_ops, op2idx))
bad_ops = [Op("+ +", ["a", "a"], qn=[[0, 0], [0, 0]]), Op("- - +", ["a"] * 3, qn=[[0, 0]] * 3),
           Op("X", "b", qn=np.array([0, 0])), Op("+", "b", qn=np.array([-1, 0])), Op("I", "a", qn=np.array([0, 0])),
           Op("X +", ["b", "b"], qn=[[0, 0], [-1, 0]]), Op("I I", ["a", "a"], qn=[[0, 0], [0, 0]])]
for i in range(len(bad_ops)):
    for j in range(len(bad_ops)):
        ops = list(bad_ops)
        o2i = {op: k for k, op in enumerate(ops)}
        res = call(table_row_swapped_jw, [0, i, j, 9, 0], ops, o2i)
        if res[0] == "ok":
            res = ("ok", [int(x) for x in res[1][0]], int(res[1][1]))
        print("bad", i, j, res, len(ops), [op_repr(o) for o in ops[len(bad_ops):]])

t, f = smpo.table_and_factor_swapped_jw(np.zeros((0, 5), dtype=int), np.zeros(0), primary_ops)
print("empty table", t.shape, f.shape)

# ---------------------------------------------------------------------------
print("=== B. swap_site / Mpo.try_swap_site")


def mpo_digest(mpo):
    d = {
        "bond_dims": list(mpo.bond_dims),
        "dense": arr_digest(mpo.todense()),
        "qn": [np.asarray(q).tolist() for q in mpo.qn],
        "qntot": np.asarray(mpo.qntot).tolist(),
        "n_primary": len(mpo.primary_ops),
        "out_ops": h([out_ops_repr(o) for o in mpo.symbolic_out_ops_list]),
        "mats": h([arr_digest(m.array) for m in mpo]),
        "dofs": [b.dofs for b in mpo.model.basis],
    }
    return d


def swap_site_digest(res):
    o2, o3, mo1, mo2, qn = res
    return (h(out_ops_repr(o2)), h(out_ops_repr(o3)), h(mo_repr(mo1)), h(mo_repr(mo2)),
            [np.asarray(q).tolist() for q in qn], mo1.shape, mo2.shape)


# spin model, no JW
random.seed(11)
np.random.seed(11)
for algo, nsites, nterms in [("Hopcroft-Karp", 6, 60), ("qr", 4, 25), ("Hungarian", 5, 30)]:
    possible_operators = ["sigma_+", "sigma_-", "sigma_z"]
    ham_terms = []
    for i in range(nterms):
        op_list = [Op(random.choice(possible_operators), j) for j in range(nsites)]
        ham_terms.append(Op.product(op_list) * (random.random() - 0.3))
    basis = [BasisHalfSpin(i) for i in range(nsites)]
    model = Model(basis, ham_terms)
    mpo = Mpo(model, algo=algo)
    print(algo, "initial", mpo_digest(mpo))
    # no swap needed
    print(algo, "noswap", mpo.try_swap_site(Model(basis.copy(), ham_terms), False, algo=algo), h(mpo_digest(mpo)))
    # direct swap_site calls on every bond (does not modify the mpo)
    for i in range(nsites - 1):
        n_prim = len(mpo.primary_ops)
        res = swap_site(mpo.symbolic_out_ops_list[i:i + 3], mpo.primary_ops, False, algo=algo)
        print(algo, "swap_site", i, swap_site_digest(res), n_prim == len(mpo.primary_ops))
    for it in range(8):
        isite1 = max(int(random.random() * nsites) - 1, 0)
        isite2 = isite1 + 1
        basis = basis.copy()
        basis[isite1], basis[isite2] = basis[isite2], basis[isite1]
        new_model = Model(basis, ham_terms)
        new_model.mpos["dummy"] = 1
        ret = mpo.try_swap_site(new_model, False, algo=algo)
        ref = Mpo(new_model, algo=algo)
        print(algo, it, isite1, ret, len(new_model.mpos), mpo.model is new_model,
              bool(np.allclose(mpo.todense(), ref.todense())), mpo_digest(mpo))
    # illegal: non-adjacent swap, three-site permutation
    b2 = basis.copy()
    b2[0], b2[2] = b2[2], b2[0]
    print(algo, "nonadjacent", call(mpo.try_swap_site, Model(b2, ham_terms), False, algo=algo))
    b3 = basis.copy()
    b3[0], b3[1], b3[2] = b3[1], b3[2], b3[0]
    print(algo, "three", call(mpo.try_swap_site, Model(b3, ham_terms), False, algo=algo))
    print(algo, "after illegal", h(mpo_digest(mpo)))

# complex one-term and two-term MPO
for terms in [[Op("sigma_+ sigma_- sigma_z", [0, 1, 2], 0.3 - 0.2j)],
              [Op("sigma_+ sigma_-", [0, 2], 1.5j), Op("sigma_x sigma_y", [1, 2], -0.7)]]:
    basis = [BasisHalfSpin(i) for i in range(3)]
    mpo = Mpo(Model(basis, terms))
    for i in [0, 1, 0]:
        basis = basis.copy()
        basis[i], basis[i + 1] = basis[i + 1], basis[i]
        print("few-term", i, call(mpo.try_swap_site, Model(basis, terms), False), mpo_digest(mpo))


def random_integrals(norb, seed, sparse=False):
    rng = np.random.RandomState(seed)
    h1 = rng.rand(norb, norb) - 0.5
    h1 = h1 + h1.T
    eri = rng.rand(norb, norb, norb, norb) - 0.5
    eri = eri + eri.transpose(1, 0, 2, 3)
    eri = eri + eri.transpose(0, 1, 3, 2)
    eri = eri + eri.transpose(2, 3, 0, 1)
    if sparse:
        aux = rng.rand(norb, norb, norb, norb)
        aux = aux + aux.transpose(1, 0, 2, 3)
        aux = aux + aux.transpose(0, 1, 3, 2)
        aux = aux + aux.transpose(2, 3, 0, 1)
        eri = eri * (aux < 4.0)
        h1[0, -1] = h1[-1, 0] = 0
    return h1, eri


# ab initio model with and without JW sign correction
for norb, seed, sparse, conserve_qn in [(2, 1, False, True), (3, 2, True, True), (2, 3, False, False)]:
    h1, eri = random_integrals(norb, seed, sparse)
    sh, aseri = h_qc.int_to_h(h1, eri)
    basis, ham_terms = h_qc.qc_model(sh, aseri, conserve_qn=conserve_qn)
    nso = 2 * norb
    for swap_jw in [True, False]:
        rng = random.Random(5 + norb)
        cur_basis = list(basis)
        mpo = Mpo(Model(cur_basis, ham_terms))
        w0 = np.linalg.eigvalsh(mpo.todense())
        print("qc", norb, sparse, conserve_qn, swap_jw, "initial", mpo_digest(mpo))
        for i in range(nso - 1):
            prim = list(mpo.primary_ops)
            res = swap_site(mpo.symbolic_out_ops_list[i:i + 3], prim, swap_jw)
            print("qc swap_site", i, swap_site_digest(res), len(prim), h([op_repr(o) for o in prim]))
        for it in range(6):
            i = rng.randrange(nso - 1)
            prev_basis = cur_basis
            cur_basis = cur_basis.copy()
            cur_basis[i], cur_basis[i + 1] = cur_basis[i + 1], cur_basis[i]
            new_model = Model(cur_basis, ham_terms)
            ret = call(mpo.try_swap_site, new_model, swap_jw)
            if ret[0] == "exc":
                # existing behaviour for some repeated JW swaps; the mpo keeps its old model
                cur_basis = prev_basis
            w = np.linalg.eigvalsh(mpo.todense())
            print("qc", norb, swap_jw, it, i, ret, bool(np.allclose(w, w0)), mpo_digest(mpo),
                  h([op_repr(o) for o in mpo.primary_ops]))

# production path: DMRG with on-the-fly swapping
h1, eri = random_integrals(3, 7)
sh, aseri = h_qc.int_to_h(h1, eri)
basis, ham_terms = h_qc.qc_model(sh, aseri)


def run_ofs(nelec, M, ofs, swap_jw):
    model = Model(basis, ham_terms)
    mpo = Mpo(model)
    np.random.seed(2023)
    mps = Mps.random(model, nelec, M, percent=1.0)

    def cc():
        # an int entry in the procedure would drop the OFS setting
        return CompressConfig(CompressCriteria.fixed, max_bonddim=M, ofs=ofs, ofs_swap_jw=swap_jw)
    mps.optimize_config.procedure = [[cc(), 0.4], [cc(), 0.2], [cc(), 0], [cc(), 0]]
    mps.optimize_config.method = "2site"
    energies, mps = optimize_mps(mps.copy(), mpo)
    return (rnd(energies, 6), [b.dofs for b in mps.model.basis], [b.dofs for b in mpo.model.basis],
            rnd(mps.expectation(mpo), 6), list(mpo.bond_dims), len(mpo.primary_ops))


for nelec, M in [([2, 1], 3), ([1, 1], 2), ([2, 1], 6)]:
    for ofs, swap_jw in [(OFS.ofs_s, True), (OFS.ofs_d, False), (OFS.ofs_ds, True), (OFS.ofs_s, False),
                         (OFS.ofs_debug, True)]:
        print("ofs", nelec, M, ofs, swap_jw, call(run_ofs, nelec, M, ofs, swap_jw))

# ---------------------------------------------------------------------------
print("=== C. variational_compress")


def vc_digest(var_mps, std_mps):
    return (list(var_mps.bond_dims), [np.asarray(q).tolist() for q in var_mps.qn], var_mps.qnidx,
            var_mps.to_right, np.asarray(var_mps.qntot).tolist(),
            rnd(var_mps.mp_norm, 5), rnd(var_mps.distance(std_mps) / std_mps.mp_norm, 4),
            rnd(np.abs(var_mps.dot(std_mps.conj())), 5), str(var_mps.dtype))


for comp in [False, True]:
    for kind in ["mps", "mpdm"]:
        np.random.seed(42)
        mps = Mps.random(holstein_model, 1, 6)
        if kind == "mpdm":
            mps = MpDm.from_mps(mps)
        mps.canonicalise().normalize("mps_only")
        if comp:
            mps = mps.to_complex(inplace=True)
        mpo = Mpo(holstein_model)
        if comp:
            mpo = mpo.scale(-1.0j)
        std_mps = mpo.apply(mps, canonicalise=True).canonicalise()
        M = 12
        mps.compress_config.vprocedure = [[M, 1.0], [M, 0.2], [M, 0], [M, 0], [M, 0]]
        mps.compress_config.vmethod = "2site"
        mps.compress_config.bond_dim_max_value = M
        mps.compress_config.criteria = CompressCriteria.fixed
        var_mps = mps.variational_compress(mpo, guess=None)
        print(comp, kind, "2site", vc_digest(var_mps, std_mps))
        # mixed procedure entries: CompressConfig object and int
        var_mps.compress_config.vprocedure = [[CompressConfig(CompressCriteria.fixed, max_bonddim=M), 0],
                                              [M, 0], [M, 0]]
        var_mps.compress_config.vmethod = "1site"
        var_mps.compress_config.bond_dim_max_value = M
        var_mps.compress_config.criteria = CompressCriteria.fixed
        guess = var_mps
        var_mps1 = mps.variational_compress(mpo, guess=guess)
        print(comp, kind, "1site", var_mps1 is guess, vc_digest(var_mps1, std_mps))
        # non-converged branch (single sweep), guess that is right-canonical
        g = std_mps.copy()
        g.compress_config = mps.compress_config.copy()
        g.compress_config.vprocedure = [[4, 0.5]]
        g.compress_config.vmethod = "2site"
        g.ensure_right_canonical()
        var_mps2 = mps.variational_compress(mpo, guess=g)
        print(comp, kind, "one sweep", vc_digest(var_mps2, std_mps))
        # contract interface
        mps.compress_config.vprocedure = [[M, 0.3], [M, 0], [M, 0]]
        mps.compress_config.vmethod = "2site"
        print(comp, kind, "contract", vc_digest(mpo.contract(mps, algo="variational"), std_mps))

np.random.seed(3)
mps = Mps.random(holstein_model, 1, 5)
mpo = Mpo(holstein_model)
print("mpo None", call(mps.variational_compress))
mps.compress_config.vmethod = "3site"
print("bad method", call(mps.variational_compress, mpo)[:2])
mps.compress_config.vmethod = "2site"
mps.compress_config.vprocedure = [[5.0, 0]]
print("bad procedure", call(mps.variational_compress, mpo)[:2])
mps.compress_config.vprocedure = [[CompressConfig(CompressCriteria.fixed, max_bonddim=5, ofs=OFS.ofs_s), 0]]
print("ofs", call(mps.variational_compress, mpo)[:2])
mps.compress_config.ofs = None
mps.compress_config.vprocedure = []
res = call(mps.variational_compress, mpo)
print("empty procedure", res[0], list(res[1].bond_dims) if res[0] == "ok" else res[1:])

# qc model with two quantum numbers: compress H|psi>
h1, eri = random_integrals(2, 21)
sh, aseri = h_qc.int_to_h(h1, eri)
basis, ham_terms = h_qc.qc_model(sh, aseri)
model = Model(basis, ham_terms)
mpo = Mpo(model)
np.random.seed(8)
mps = Mps.random(model, [1, 1], 4, percent=1.0).to_complex(inplace=True)
mps.canonicalise().normalize("mps_only")
std_mps = mpo.apply(mps, canonicalise=True).canonicalise()
for method in ["1site", "2site"]:
    mps.compress_config.vmethod = method
    mps.compress_config.vprocedure = [[4, 0.5], [4, 0], [4, 0], [4, 0]]
    mps.compress_config.bond_dim_max_value = 4
    mps.compress_config.criteria = CompressCriteria.fixed
    print("qc vc", method, vc_digest(mps.variational_compress(mpo), std_mps))
