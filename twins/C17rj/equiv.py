"""Equivalence digest for the C17rj refactoring.

Exercises int_to_h, qc_model, Mpo.try_swap_site and single_sweep and prints a
deterministic digest.
"""
import logging
import random
import hashlib

import numpy as np

logging.disable(logging.CRITICAL)

from renormalizer.model import Model, Op, h_qc
from renormalizer.model.basis import BasisHalfSpin
from renormalizer.mps import Mpo, Mps, StackedMpo
from renormalizer.mps.gs import optimize_mps, single_sweep
from renormalizer.mps.lib import Environ
from renormalizer.utils.configs import OFS, CompressConfig, CompressCriteria


def h(arr):
    arr = np.ascontiguousarray(np.round(np.asarray(arr, dtype=complex), 8) + 0.0)
    return f"{arr.shape} {hashlib.md5(arr.tobytes()).hexdigest()[:12]}"


def attempt(label, fn):
    try:
        res = fn()
    except BaseException as e:  # noqa
        res = f"EXC {type(e).__name__}: {str(e)[:120]}"
    print(label, "->", res)


def sym_ints(rng, norb, sparse=False, dtype=float):
    h1 = rng.standard_normal((norb, norb))
    h1 = h1 + h1.T
    eri = rng.standard_normal((norb,) * 4)
    # 8-fold symmetry
    eri = eri + eri.transpose(1, 0, 2, 3)
    eri = eri + eri.transpose(0, 1, 3, 2)
    eri = eri + eri.transpose(2, 3, 0, 1)
    if sparse:
        m1 = rng.random((norb, norb)) < 0.5
        m1 = m1 & m1.T
        h1 = h1 * m1
        eri = np.where(np.abs(eri) > 3.0, eri, 0.0)
    if dtype is int:
        h1 = np.round(h1 * 3).astype(int)
        eri = np.round(eri * 3).astype(int)
    return h1, eri


# ----------------------------------------------------------------------------
# 1. int_to_h
# ----------------------------------------------------------------------------
print("== int_to_h")
rng = np.random.default_rng(17)
for norb in (0, 1, 2, 3):
    for sparse in (False, True):
        for dtype in (float, int):
            h1, eri = sym_ints(rng, norb, sparse, dtype)

            def run():
                sh, aseri = h_qc.int_to_h(h1, eri)
                return f"{sh.dtype} {aseri.dtype} {h(sh)} {h(aseri)} nnz={np.count_nonzero(sh)},{np.count_nonzero(aseri)}"
            attempt(f"int_to_h norb={norb} sparse={sparse} {dtype.__name__}", run)
# non-symmetric random input
h1 = rng.standard_normal((2, 2))
eri = rng.standard_normal((2, 2, 2, 2))
attempt("int_to_h nonsym", lambda: [h(x) for x in h_qc.int_to_h(h1, eri)])
# unusual inputs
attempt("int_to_h complex eri", lambda: [h(x) for x in h_qc.int_to_h(h1, eri * 1j)])
attempt("int_to_h complex h", lambda: [h(x) for x in h_qc.int_to_h(h1 * 1j, eri)])
attempt("int_to_h list h", lambda: [h(x) for x in h_qc.int_to_h(h1.tolist(), eri)])
attempt("int_to_h list eri", lambda: [h(x) for x in h_qc.int_to_h(h1, eri.tolist())])
attempt("int_to_h small eri", lambda: [h(x) for x in h_qc.int_to_h(h1, eri[:1, :1, :1, :1])])
attempt("int_to_h small h", lambda: [h(x) for x in h_qc.int_to_h(h1[:, :1], eri)])
attempt("int_to_h both bad", lambda: [h(x) for x in h_qc.int_to_h(h1.tolist(), eri[:1])])
attempt("int_to_h big eri", lambda: [h(x) for x in h_qc.int_to_h(h1[:1, :1], eri)])

# ----------------------------------------------------------------------------
# 2. qc_model
# ----------------------------------------------------------------------------
print("== qc_model")


def model_digest(basis, ham_terms):
    out = []
    for b in basis:
        out.append((type(b).__name__, b.dofs, np.asarray(b.sigmaqn).tolist(), type(b.sigmaqn).__name__))
    s = repr(out) + "|" + repr(ham_terms)
    s_types = repr([type(t).__name__ for t in ham_terms])
    nterm = len(ham_terms)
    return f"nb={len(basis)} nterm={nterm} {hashlib.md5(s.encode()).hexdigest()[:12]} {hashlib.md5(s_types.encode()).hexdigest()[:6]}"


qc_inputs = {}
for norb in (1, 2, 3):
    for sparse in (False, True):
        h1, eri = sym_ints(rng, norb, sparse)
        sh, aseri = h_qc.int_to_h(h1, eri)
        qc_inputs[(norb, sparse)] = (sh, aseri)
        for stacked in (False, True):
            for cqn in (True, False):
                attempt(f"qc_model norb={norb} sparse={sparse} stacked={stacked} cqn={cqn}",
                        lambda: model_digest(*h_qc.qc_model(sh, aseri, stacked=stacked, conserve_qn=cqn)))
# vanishing blocks
sh, aseri = qc_inputs[(2, False)]
z1, z2 = np.zeros_like(sh), np.zeros_like(aseri)
for stacked in (False, True, 0, 1, None):
    attempt(f"qc_model h1e=0 stacked={stacked!r}", lambda: model_digest(*h_qc.qc_model(z1, aseri, stacked)))
    attempt(f"qc_model h2e=0 stacked={stacked!r}", lambda: model_digest(*h_qc.qc_model(sh, z2, stacked)))
    attempt(f"qc_model all=0 stacked={stacked!r}", lambda: model_digest(*h_qc.qc_model(z1, z2, stacked)))
# stacked: full repr of a small case, the order of the groups matters
b, terms = h_qc.qc_model(*qc_inputs[(1, False)], stacked=True)
print("qc_model stacked 1orb full:", terms)
b, terms = h_qc.qc_model(*qc_inputs[(1, False)], stacked=False, conserve_qn=False)
print("qc_model flat 1orb noqn full:", terms, [bb.sigmaqn for bb in b])
# sigmaqn objects must be fresh per site
b, _ = h_qc.qc_model(*qc_inputs[(2, False)])
print("sigmaqn identities distinct:", len({id(bb.sigmaqn) for bb in b}) == len(b))
# complex integrals
attempt("qc_model complex", lambda: model_digest(*h_qc.qc_model(sh * (1 + 0.5j), aseri * 1j)))
# errors
attempt("qc_model bad h1e shape", lambda: model_digest(*h_qc.qc_model(sh[:2], aseri)))
attempt("qc_model bad h2e shape", lambda: model_digest(*h_qc.qc_model(sh, aseri[:2, :2, :2, :2])))
attempt("qc_model list", lambda: model_digest(*h_qc.qc_model(sh.tolist(), aseri)))

# ----------------------------------------------------------------------------
# 3. Mpo.try_swap_site
# ----------------------------------------------------------------------------
print("== try_swap_site")


def mpo_digest(mpo):
    sym = hashlib.md5(repr(mpo.symbolic_out_ops_list).encode()).hexdigest()[:12]
    prim = hashlib.md5(repr(mpo.primary_ops).encode()).hexdigest()[:12]
    qn = [np.asarray(q).tolist() for q in mpo.qn]
    qnh = hashlib.md5(repr(qn).encode()).hexdigest()[:12]
    ev = np.linalg.eigvalsh(mpo.todense()) if mpo.is_hermitian() else np.sort_complex(np.linalg.eigvals(mpo.todense()))
    shapes = [m.shape for m in mpo]
    dofs = [bb.dofs for bb in mpo.model.basis]
    return f"dense={h(mpo.todense())} ev={np.round(ev[:3].real, 6).tolist()} sym={sym} prim={prim} qn={qnh} shapes={shapes} dofs={dofs}"


for algo in ("qr", "Hopcroft-Karp"):
    random.seed(5)
    nsites, nterms = 5, 40
    ops = ["sigma_+", "sigma_-", "sigma_z"]
    ham_terms = []
    for i in range(nterms):
        ham_terms.append(Op.product([Op(random.choice(ops), j) for j in range(nsites)]) * random.random())
    basis = [BasisHalfSpin(i) for i in range(nsites)]
    mpo = Mpo(Model(basis, ham_terms), algo=algo)
    print(algo, "init", mpo_digest(mpo))
    for it in range(6):
        i1 = max(int(random.random() * nsites) - 1, 0)
        basis = basis.copy()
        basis[i1], basis[i1 + 1] = basis[i1 + 1], basis[i1]
        new_model = Model(basis, ham_terms)
        new_model.mpos["dummy"] = 1
        ret = mpo.try_swap_site(new_model, False, algo=algo)
        ref = Mpo(Model(basis, ham_terms), algo=algo)
        print(algo, it, i1, ret, mpo.model is new_model, dict(new_model.mpos),
              bool(np.allclose(mpo.todense(), ref.todense())), mpo_digest(mpo))
    # no-op swap: same basis order
    same_model = Model(basis, ham_terms)
    same_model.mpos["dummy"] = 1
    old_model = mpo.model
    ret = mpo.try_swap_site(same_model, True, algo=algo)
    print(algo, "noop", ret, mpo.model is old_model, dict(same_model.mpos), mpo_digest(mpo))
    # non adjacent
    b2 = basis.copy()
    b2[0], b2[2] = b2[2], b2[0]
    m2 = Model(b2, ham_terms)
    m2.mpos["dummy"] = 1
    attempt(f"{algo} nonadjacent", lambda: mpo.try_swap_site(m2, False, algo=algo))
    print(algo, "after nonadjacent", dict(m2.mpos), mpo.model is old_model)
    # three differ
    b3 = basis.copy()
    b3[0], b3[1], b3[2] = b3[1], b3[2], b3[0]
    m3 = Model(b3, ham_terms)
    attempt(f"{algo} threediff", lambda: mpo.try_swap_site(m3, False, algo=algo))
    # shorter new model (zip truncation)
    m4 = Model(basis[:3], [Op("sigma_z", 0)])
    attempt(f"{algo} shorter same", lambda: mpo.try_swap_site(m4, False, algo=algo))

# fermionic model with and without JW
for swap_jw in (True, False):
    for cqn in (True, False):
        sh, aseri = qc_inputs[(2, False)]
        basis, terms = h_qc.qc_model(sh, aseri, conserve_qn=cqn)
        mpo = Mpo(Model(basis, terms))
        print("qc", swap_jw, cqn, "init", mpo_digest(mpo))
        for i1 in (0, 2, 1, 1, 0):
            basis = basis.copy()
            basis[i1], basis[i1 + 1] = basis[i1 + 1], basis[i1]
            new_model = Model(basis, terms)
            mpo.try_swap_site(new_model, swap_jw)
            print("qc", swap_jw, cqn, i1, mpo_digest(mpo))

# ----------------------------------------------------------------------------
# 4. single_sweep (direct and through optimize_mps)
# ----------------------------------------------------------------------------
print("== single_sweep")


def spin_model(nsites, seed, cplx=False):
    r = random.Random(seed)
    terms = []
    for i in range(nsites - 1):
        terms.append(Op("sigma_z sigma_z", [i, i + 1], r.random()))
        terms.append(Op("sigma_x sigma_x", [i, i + 1], r.random()))
    for i in range(nsites):
        terms.append(Op("sigma_x", i, r.random()))
    if cplx:
        for i in range(nsites - 1):
            c = r.random() + 1j * r.random()
            terms.append(Op("sigma_+ sigma_-", [i, i + 1], c))
            terms.append(Op("sigma_- sigma_+", [i, i + 1], c.conjugate()))
    return Model([BasisHalfSpin(i) for i in range(nsites)], terms)


def qc_case(norb, stacked, seed):
    rr = np.random.default_rng(seed)
    h1, eri = sym_ints(rr, norb)
    sh, aseri = h_qc.int_to_h(h1, eri)
    basis, terms = h_qc.qc_model(sh, aseri, stacked=stacked)
    if stacked:
        mpos = [Mpo(Model(basis, t)) for t in terms]
        model = Model(basis, [])
        return model, StackedMpo(mpos)
    model = Model(basis, terms)
    return model, Mpo(model)


def sweep_digest(res):
    micro, res_mps, mpo = res
    es = [(np.round(np.asarray(e).real.astype(float), 7).tolist(), c) for e, c in micro]
    if res_mps is None:
        r = None
    elif isinstance(res_mps, list):
        r = [[m.shape for m in mp] for mp in res_mps]
    else:
        r = [m.shape for m in res_mps]
    return f"{es} res={r} mpo={type(mpo).__name__}"


def direct_sweeps(label, model, mpo, qntot, method, nroots, algo, ofs=None, swap_jw=False,
                  omega=None, M=6, last=None, nsweep=3, percents=(0.3, 0.0, 0.0), cplx=False):
    np.random.seed(11)
    mps = Mps.random(model, qntot, M, percent=1.0)
    if cplx:
        mps = mps.to_complex()
    mps.optimize_config.method = method
    mps.optimize_config.nroots = nroots
    mps.optimize_config.algo = algo
    mps.compress_config = CompressConfig(CompressCriteria.fixed, max_bonddim=M, ofs=ofs, ofs_swap_jw=swap_jw)
    mps.ensure_left_canonical()
    env = "L"
    if omega is not None:
        op = mpo.add(Mpo.identity(mpo.model).scale(-omega))
        environ = Environ(mps, [op, op], env)
        mpo = op
    elif isinstance(mpo, StackedMpo):
        environ = [Environ(mps, item, env) for item in mpo.mpos]
    else:
        environ = Environ(mps, mpo, env)
    for isw in range(nsweep):
        def run():
            res = single_sweep(mps, mpo, environ, omega, percents[isw], last)
            return sweep_digest(res) + f" to_right={mps.to_right} qnidx={mps.qnidx} dofs={[b.dofs for b in mps.model.basis]}"
        attempt(f"{label} sweep{isw}", run)


sm = spin_model(5, 3)
smc = spin_model(4, 4, cplx=True)
for method in ("1site", "2site"):
    for nroots in (1, 2):
        for algo in ("direct", "davidson"):
            last = [2] if method == "1site" else [1, 2]
            direct_sweeps(f"spin {method} nroots={nroots} {algo}", sm, Mpo(sm), 0, method, nroots, algo, last=last)
    direct_sweeps(f"spin-cplx {method}", smc, Mpo(smc), 0, method, 1, "davidson", last=None, cplx=True)
    direct_sweeps(f"spin omega {method}", sm, Mpo(sm), 0, method, 1, "davidson", omega=-1.0, last=[2] if method == "1site" else [2, 3])
    direct_sweeps(f"spin ofs {method}", sm, Mpo(sm), 0, method, 1, "davidson", ofs=OFS.ofs_s, last=[1, 2])
direct_sweeps("spin badmethod", sm, Mpo(sm), 0, "3site", 1, "davidson")
one = spin_model(1, 9)
direct_sweeps("one-site 1site", one, Mpo(one), 0, "1site", 1, "direct", nsweep=2)
direct_sweeps("one-site 2site", one, Mpo(one), 0, "2site", 1, "direct", nsweep=2)
direct_sweeps("stacked omega", sm, StackedMpo([Mpo(sm), Mpo(sm)]), 0, "2site", 1, "direct", nsweep=1)

for norb, stacked in ((2, False), (2, True), (3, False)):
    model, mpo = qc_case(norb, stacked, 100 + norb)
    nelec = [1, 1]
    for method in ("1site", "2site"):
        direct_sweeps(f"qc norb={norb} stacked={stacked} {method}", model, mpo, nelec, method, 1, "davidson", M=8,
                      last=[1] if method == "1site" else [1, 2])
model, mpo = qc_case(3, False, 103)
for ofs in (OFS.ofs_s, OFS.ofs_d, OFS.ofs_ds, OFS.ofs_debug):
    for swap_jw in (True, False):
        direct_sweeps(f"qc ofs={ofs.name} jw={swap_jw}", model, Mpo(model), [2, 1], "2site", 1, "davidson",
                      ofs=ofs, swap_jw=swap_jw, M=8, last=[2, 3])

# through optimize_mps
for norb, stacked, with_ofs in ((2, False, True), (2, True, False), (3, False, True), (3, True, True)):
    model, mpo = qc_case(norb, stacked, 200 + norb)
    if stacked:
        model = mpo.mpos[0].model
    np.random.seed(7)
    nelec = [1, 1] if norb == 2 else [2, 1]
    M = 10
    mps = Mps.random(model, nelec, M, percent=1.0)
    mps.optimize_config.procedure = [[M, 0.4], [M, 0.2], [M, 0], [M, 0]]
    mps.optimize_config.method = "2site"
    if with_ofs:
        mps.compress_config.ofs = OFS.ofs_s
        mps.compress_config.ofs_swap_jw = True

    def run():
        energies, res = optimize_mps(mps.copy(), mpo)
        new_mpo = Mpo(res.model) if not stacked else None
        e2 = None if stacked else round(float(res.expectation(new_mpo)), 7)
        return f"{np.round(energies, 7).tolist()} {e2} {[b.dofs for b in res.model.basis]}"
    attempt(f"optimize qc norb={norb} stacked={stacked} ofs={with_ofs}", run)
