import hashlib
import logging
import random

import numpy as np

logging.disable(logging.CRITICAL)

from renormalizer.model import Model, Op
from renormalizer.model.basis import BasisHalfSpin
from renormalizer.model import h_qc
from renormalizer.model.h_qc import simplify_op, qc_model, generate_ladder_operator
from renormalizer.mps import Mpo
from renormalizer.mps import symbolic_mpo as sm
from renormalizer.mps.symbolic_mpo import table_and_factor_swapped_jw, swap_site, OpTuple


def r(x):
    a = np.asarray(x)
    if a.dtype == object:
        return repr(x)
    if np.iscomplexobj(a):
        a = np.round(a.real, 10) + 1j * np.round(a.imag, 10)
    else:
        a = np.round(a.astype(float), 10)
    a = a + 0.0
    return f"{a.dtype}{a.shape}{a.tolist()}"


def op_repr(op: Op):
    return (op.symbol, tuple(op.dofs), r(op.factor), tuple(tuple(q.tolist()) for q in op.qn_list),
            tuple(str(q.dtype) for q in op.qn_list))


def h(s):
    return hashlib.md5(repr(s).encode()).hexdigest()[:12]


def guarded(f):
    try:
        return f()
    except Exception as e:  # digest of exception
        return ("EXC", type(e).__name__, str(e)[:80])


# ---------------------------------------------------------------- simplify_op
print("== simplify_op")
for norbs in [1, 2, 3, 4, 6]:
    a_ops, a_dag_ops = generate_ladder_operator(norbs)
    rng = np.random.RandomState(norbs)
    for conserve_qn in [True, False, 1, 0]:
        items = []
        for p in range(norbs):
            for q in range(norbs):
                items.append(guarded(lambda: op_repr(simplify_op(a_dag_ops[p] * a_ops[q], norbs, conserve_qn))))
        for _ in range(30):
            idx = rng.randint(0, norbs, size=4)
            prod = Op.product([a_dag_ops[idx[0]], a_dag_ops[idx[1]], a_ops[idx[2]], a_ops[idx[3]]]) * (0.3 + 0.4j)
            items.append(guarded(lambda: op_repr(simplify_op(prod, norbs, conserve_qn))))
        print(norbs, conserve_qn, len(items), h(items))
        if norbs <= 2:
            print(items[:6])

hand = [
    Op("Z", 0), Op("+", 0), Op("-", 1), Op("Z Z", [0, 0]), Op("Z Z", [0, 1]), Op("Z + Z - Z", [1, 1, 1, 1, 1]),
    Op("+ Z Z - Z + Z", [2, 2, 2, 2, 2, 2, 2], 2.0), Op("Z Z Z Z", [0, 0, 1, 1]), Op("+ Z - Z", [0, 1, 0, 1]),
    Op("- + Z", [2, 0, 1]), Op("I", 0), Op("Z I", [0, 0]), Op("sigma_z", 1), Op("Z +", [0, 5]), Op("Z", 7),
    Op("+ Z", ["a", "a"]), Op("Z + -", [1, 1, 1], 1j, [[0, 0], [3, 4], [5, 6]]),
]
for op in hand:
    for conserve_qn in [True, False]:
        print(op.symbol, op.dofs, conserve_qn, guarded(lambda: op_repr(simplify_op(op, 3, conserve_qn))))
print("kw", op_repr(simplify_op(old_op=Op("Z + Z", [1, 1, 1]), norbs=2)))

# ---------------------------------------------------------------- qc_model


def rand_ints(nsp, seed, sparse=False, cplx=False):
    rng = np.random.RandomState(seed)
    h1 = rng.rand(nsp, nsp) - 0.5
    h1 = h1 + h1.T
    h2 = rng.rand(nsp, nsp, nsp, nsp) - 0.5
    h2 = h2 + h2.transpose(1, 0, 2, 3)
    h2 = h2 + h2.transpose(0, 1, 3, 2)
    h2 = h2 + h2.transpose(2, 3, 0, 1)
    if sparse:
        h1[rng.rand(*h1.shape) < 0.5] = 0
        h2[rng.rand(*h2.shape) < 0.8] = 0
    sh, aseri = h_qc.int_to_h(h1, h2)
    return sh, aseri


print("== qc_model")
for nsp in [1, 2, 3]:
    for sparse in [False, True]:
        sh, aseri = rand_ints(nsp, 10 * nsp + sparse, sparse)
        for stacked in [False, True]:
            for conserve_qn in [True, False]:
                def run():
                    basis, terms = qc_model(sh, aseri, stacked, conserve_qn)
                    if stacked:
                        t = [[op_repr(o) for o in l] for l in terms]
                    else:
                        t = [op_repr(o) for o in terms]
                    b = [(bb.dof, r(bb.sigmaqn)) for bb in basis]
                    return len(terms), h(t), h(b)
                print(nsp, sparse, stacked, conserve_qn, guarded(run))

# ---------------------------------------------------------------- table_and_factor_swapped_jw
print("== table_and_factor_swapped_jw")


def jw_primary_ops(qn_size):
    z = [0] * qn_size
    up = [1] + [0] * (qn_size - 1)
    dn = [-1] + [0] * (qn_size - 1)
    ops = []
    for dof in [0, 1]:
        ops += [
            Op.identity(dof, qn_size=qn_size),
            Op("Z", dof, qn=[z]),
            Op("+", dof, qn=[dn]),
            Op("-", dof, qn=[up]),
            Op("Z +", [dof, dof], qn=[z, dn]),
            Op("Z -", [dof, dof], qn=[z, up]),
            Op("sigma_z", dof, qn=[z]),
            Op("sigma_+", dof, qn=[dn]),
            Op("sigma_z sigma_-", [dof, dof], qn=[z, up]),
            Op("+ -", [dof, dof], qn=[dn, up]),
        ]
    return ops


for qn_size in [1, 2]:
    for seed in range(4):
        rng = np.random.RandomState(100 + seed)
        pops = jw_primary_ops(qn_size)
        n0 = len(pops)
        nrow = [0, 1, 7, 40][seed]
        table = np.array([[rng.randint(0, 5), rng.randint(0, 10), rng.randint(10, 20), n0 + rng.randint(0, 3), 0]
                          for _ in range(nrow)])
        for kind in ["real", "complex", "int", "short", "list"]:
            pops_k = list(pops)
            if kind == "real":
                factor = rng.rand(nrow) - 0.5
            elif kind == "complex":
                factor = rng.rand(nrow) - 0.5 + 1j * rng.rand(nrow)
            elif kind == "int":
                factor = rng.randint(-3, 4, size=nrow)
            elif kind == "short":
                factor = (rng.rand(nrow) - 0.5)[: nrow // 2]
            else:
                factor = [float(x) for x in rng.rand(nrow)]
                table_in = table.tolist()

            def run():
                t_in = table.tolist() if kind == "list" else table
                t, f = table_and_factor_swapped_jw(t_in, factor, pops_k)
                return (str(t.dtype), t.shape, h(t.tolist()), str(f.dtype), f.shape, r(f) if f.size < 9 else h(r(f)))
            res = guarded(run)
            print(qn_size, seed, kind, res, len(pops_k), h([op_repr(o) for o in pops_k]))

# malformed rows
pops = jw_primary_ops(1)
print(guarded(lambda: table_and_factor_swapped_jw(np.array([[0, 1, 2, 3]]), np.array([1.0]), pops)), len(pops))
print(guarded(lambda: table_and_factor_swapped_jw(np.array([[0, 1, 2, 3, 1]]), np.array([1.0]), pops)), len(pops))
print(guarded(lambda: table_and_factor_swapped_jw(np.array([[0, 9, 12, 3, 0], [0, 2, 99, 3, 0]]),
                                                  np.array([1.0, 2.0]), pops)), len(pops))
print(guarded(lambda: table_and_factor_swapped_jw(table=np.array([[0, 4, 15, 3, 0]]), factor=np.array([2.0]),
                                                  primary_ops=pops)), len(pops))

# ---------------------------------------------------------------- swap_site / try_swap_site
print("== swap_site")


def optuple_repr(o):
    return (list(o.symbol), r(o.qn), str(np.asarray(o.qn).dtype), r(o.factor), type(o).__name__)


def mo_repr(mo):
    return (mo.shape, [[[op_repr(t) for t in cell] for cell in row] for row in mo])


def swap_digest(res, pops):
    out2, out3, mo1, mo2, qn = res
    return (
        h([[optuple_repr(o) for o in l] for l in out2]),
        h([[optuple_repr(o) for o in l] for l in out3]),
        h(mo_repr(mo1)), h(mo_repr(mo2)), h([r(q) for q in qn]),
        len(out2), len(out3), len(pops), h([op_repr(o) if isinstance(o, Op) else repr(o) for o in pops]),
    )


def spin_model(nsites, nterms, seed, cplx=False):
    rnd = random.Random(seed)
    terms = []
    for _ in range(nterms):
        ops = [Op(rnd.choice(["sigma_+", "sigma_-", "sigma_z"]), j) for j in range(nsites)]
        f = rnd.random()
        if cplx:
            f = f + 1j * rnd.random()
        terms.append(Op.product(ops) * f)
    return [BasisHalfSpin(i) for i in range(nsites)], terms


def model_cases():
    for nsp, sparse in [(1, False), (2, False), (2, True), (3, True)]:
        sh, aseri = rand_ints(nsp, 50 + nsp, sparse)
        for conserve_qn in [True, False]:
            basis, terms = qc_model(sh, aseri, False, conserve_qn)
            yield f"qc{nsp}{sparse}{conserve_qn}", basis, terms, True
    b, t = spin_model(4, 30, 1)
    yield "spin4", b, t, False
    b, t = spin_model(5, 40, 2, cplx=True)
    yield "spin5c", b, t, False
    b, t = spin_model(3, 1, 3)
    yield "spin3one", b, t, False


for name, basis, terms, is_jw in model_cases():
    for algo in ["Hopcroft-Karp", "qr"]:
        model = Model(basis, terms)
        mpo = guarded(lambda: Mpo(model, algo=algo))
        if isinstance(mpo, tuple):
            print(name, algo, "mpo failed", mpo)
            continue
        nsites = len(basis)
        for i in range(nsites - 1):
            for swap_jw in ([True, False] if is_jw else [False]):
                pops = list(mpo.primary_ops)
                pops_id = pops

                def run():
                    if swap_jw:
                        res = swap_site(mpo.symbolic_out_ops_list[i:i + 3], pops, swap_jw, algo=algo)
                    else:
                        res = swap_site(mpo.symbolic_out_ops_list[i:i + 3], pops, swap_jw, algo)
                    return swap_digest(res, pops)
                import copy
                saved = copy.deepcopy(mpo.symbolic_out_ops_list[i:i + 3])
                print(name, algo, i, swap_jw, guarded(run), pops is pops_id)
                # input lists must be unchanged
                now = mpo.symbolic_out_ops_list[i:i + 3]
                same = h([[[optuple_repr(o) for o in l] for l in ll] for ll in saved]) == \
                    h([[[optuple_repr(o) for o in l] for l in ll] for ll in now])
                print("  inputs untouched:", same)

# malformed input
print(guarded(lambda: swap_site([[], []], [], False)))
print(guarded(lambda: swap_site([[], [], []], [], False)))
print(guarded(lambda: swap_site([[], [], []], [], True)))

print("== try_swap_site")


def mpo_digest(mpo):
    dense = guarded(lambda: mpo.todense())
    return (
        str(mpo.dtype), [mt.shape for mt in mpo], [str(mt.dtype) for mt in mpo],
        h([r(np.asarray(mt.array)) for mt in mpo]),
        h([r(q) for q in mpo.qn]), r(mpo.qntot), mpo.qnidx,
        h(r(dense)) if not isinstance(dense, tuple) else dense,
        r(np.linalg.eigvalsh(dense)[:4]) if not isinstance(dense, tuple) and np.allclose(dense, dense.conj().T) else "nh",
        len(mpo.primary_ops),
        h([[[optuple_repr(o) for o in l] for l in ll] for ll in mpo.symbolic_out_ops_list]),
        [b.dofs for b in mpo.model.basis],
    )


for name, basis, terms, is_jw in model_cases():
    for algo in ["Hopcroft-Karp", "qr"]:
        for swap_jw in ([True, False] if is_jw else [False]):
            rnd = random.Random(hash((len(name), algo == "qr", swap_jw)) % 1000)
            model = Model(basis, terms)
            mpo = guarded(lambda: Mpo(model, algo=algo))
            if isinstance(mpo, tuple):
                print(name, algo, "mpo failed", mpo)
                continue
            cur = list(basis)
            nsites = len(cur)
            print(name, algo, swap_jw, "init", mpo_digest(mpo))
            # no-op swap
            same_model = Model(list(cur), terms)
            same_model.mpos["dummy"] = 1
            print("  noop", guarded(lambda: mpo.try_swap_site(same_model, swap_jw, algo=algo)), len(same_model.mpos),
                  mpo.model is model)
            nswaps = 6 if nsites > 1 else 0
            for k in range(nswaps):
                i = rnd.randrange(nsites - 1) if k > 1 else (0 if k == 0 else nsites - 2)
                cur = list(cur)
                cur[i], cur[i + 1] = cur[i + 1], cur[i]
                new_model = Model(cur, terms)
                new_model.mpos["dummy"] = 1
                if k % 2:
                    ret = guarded(lambda: mpo.try_swap_site(new_model, swap_jw, algo))
                else:
                    ret = guarded(lambda: mpo.try_swap_site(new_model=new_model, swap_jw=swap_jw, algo=algo))
                print("  swap", i, ret, len(new_model.mpos), mpo.model is new_model, mpo_digest(mpo))
            if nsites >= 3:
                # non adjacent and three-site differences must raise and leave everything alone
                bad = list(cur)
                bad[0], bad[2] = bad[2], bad[0]
                bad_model = Model(bad, terms)
                bad_model.mpos["dummy"] = 1
                before = mpo_digest(mpo)
                print("  nonadjacent", guarded(lambda: mpo.try_swap_site(bad_model, swap_jw, algo=algo)),
                      len(bad_model.mpos), before == mpo_digest(mpo), mpo.model is bad_model)
                bad = [cur[1], cur[2], cur[0]] + list(cur[3:])
                bad_model = Model(bad, terms)
                bad_model.mpos["dummy"] = 1
                print("  three", guarded(lambda: mpo.try_swap_site(bad_model, swap_jw, algo=algo)),
                      len(bad_model.mpos), before == mpo_digest(mpo), mpo.model is bad_model)
